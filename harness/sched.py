"""Deterministic bytecode-level thread scheduler built on sys.monitoring (CPython 3.12).

`run_schedule(funcs, code_objects, schedule, breakpoints=None)` starts one thread per function.
While a thread executes inside one of `code_objects` it stops before every bytecode instruction (or,
if `breakpoints` maps a code object to a set of instruction offsets, only before those) and waits
for the controller. The controller grants steps following `schedule` (a list of thread indices);
when the schedule is exhausted all threads run freely to completion. Returns, per thread,
("ok", value) or ("err", exception class name).

Only pure-Python code can be interleaved this way; C extensions run to completion inside one step.
"""
from __future__ import annotations

import sys
import threading

TOOL = 3
mon = sys.monitoring


def run_schedule(funcs, code_objects, schedule, breakpoints=None, step_timeout=3.0, deadline=90.0):
    n = len(funcs)
    ident_to_idx: dict[int, int] = {}
    turn = [threading.Semaphore(0) for _ in range(n)]
    arrived = [threading.Event() for _ in range(n)]
    done = [threading.Event() for _ in range(n)]
    results: list = [None] * n
    free_run = threading.Event()
    codes = set(code_objects)

    def on_instruction(code, offset):
        if free_run.is_set() or code not in codes:
            return None
        idx = ident_to_idx.get(threading.get_ident())
        if idx is None:
            return None
        if breakpoints is not None and offset not in breakpoints.get(code, ()):
            return None
        arrived[idx].set()
        turn[idx].acquire()
        return None

    def worker(i):
        ident_to_idx[threading.get_ident()] = i
        try:
            results[i] = ("ok", funcs[i]())
        except BaseException as e:  # noqa: BLE001
            results[i] = ("err", type(e).__name__)
        finally:
            done[i].set()
            arrived[i].set()

    try:
        mon.use_tool_id(TOOL, "acryo-verif-sched")
    except ValueError:
        mon.free_tool_id(TOOL)
        mon.use_tool_id(TOOL, "acryo-verif-sched")
    mon.register_callback(TOOL, mon.events.INSTRUCTION, on_instruction)
    for c in codes:
        mon.set_local_events(TOOL, c, mon.events.INSTRUCTION)
    threads = [threading.Thread(target=worker, args=(i,), daemon=True) for i in range(n)]
    trace = []
    try:
        for t in threads:
            t.start()
        # every thread first reaches its first stop (or finishes without entering the code)
        for i in range(n):
            arrived[i].wait(step_timeout)
        import time
        t_end = time.monotonic() + deadline
        for tid in schedule:
            if time.monotonic() > t_end:
                trace.append((tid, "deadline"))
                break
            if tid >= n or done[tid].is_set():
                trace.append((tid, "skip"))
                continue
            if not arrived[tid].is_set():
                # still inside its previous step: blocked on a lock another (stopped) thread holds, or in a
                # long C call. Granting it again would only wait for the time-out; let the others move on.
                trace.append((tid, "busy"))
                continue
            arrived[tid].clear()
            turn[tid].release()
            arrived[tid].wait(step_timeout)
            trace.append((tid, "done" if done[tid].is_set() else "step"))
    finally:
        free_run.set()
        for i in range(n):
            for _ in range(4):
                turn[i].release()
        for t in threads:
            t.join(step_timeout)
        for c in codes:
            mon.set_local_events(TOOL, c, 0)
        mon.register_callback(TOOL, mon.events.INSTRUCTION, None)
        mon.free_tool_id(TOOL)
    return results, trace


def cache_get_breakpoints(get_code):
    """Instruction offsets that delimit the model's statements in TemplateMaskCache.get:
    entry (lookup), start of the `next(iter(values))` line (mkIter), the call of `next` (next),
    the insertion line (insert). Returns None if the shape of the function is not recognised."""
    import dis
    ins = list(dis.get_instructions(get_code))
    lines = sorted({i.positions.lineno for i in ins if i.positions and i.positions.lineno})
    if len(lines) < 4:
        return None
    by_line: dict[int, list] = {}
    for i in ins:
        if i.positions and i.positions.lineno:
            by_line.setdefault(i.positions.lineno, []).append(i)
    first = min(i.offset for i in ins if i.opname not in ("RESUME", "COPY_FREE_VARS", "MAKE_CELL"))
    # the line that mentions both `iter` and `next`
    cand = [ln for ln, lst in by_line.items()
            if {"iter", "next"} <= {x.argval for x in lst if x.opname in ("LOAD_GLOBAL", "LOAD_NAME")}]
    if len(cand) != 1:
        return None
    lb = cand[0]
    calls = [x for x in by_line[lb] if x.opname == "CALL"]
    if len(calls) < 3:
        return None
    next_call = calls[-1].offset
    later = [ln for ln in lines if ln > lb]
    if not later:
        return None
    insert_start = min(x.offset for x in by_line[later[0]])
    return {get_code: {first, min(x.offset for x in by_line[lb]), next_call, insert_start}}
