"""Shared machinery for the per-property checks (see DESIGN.md 2.3)."""
from __future__ import annotations

import fcntl
import hashlib
import json
import math
import os
import re
import shutil
import subprocess
import sys
import time
from contextlib import contextmanager
from fractions import Fraction

VERIF = os.path.dirname(os.path.dirname(os.path.abspath(__file__)))
LEAN = os.path.join(VERIF, "lean")
REPO = os.environ.get("ACRYO_REPO", "/repo")
RUN_ROOT = os.path.join(VERIF, ".run")
ALLOWED_AXIOMS = {"propext", "Classical.choice", "Quot.sound"}
FORBIDDEN = re.compile(
    r"\bsorry\b|\badmit\b|^axiom |native_decide|bv_decide|implemented_by|\bunsafe |maxHeartbeats 0")

sys.path.insert(0, os.path.join(VERIF, "translator"))


# ------------------------------------------------------------------------------------------
# canonical text (must match `Canon` in lean/AcryoVerif/Py.lean)
# ------------------------------------------------------------------------------------------
def frac(x) -> Fraction:
    import numpy as np
    if isinstance(x, Fraction):
        return x
    if isinstance(x, (bool, np.bool_)):
        raise TypeError("bool is not a number here")
    if isinstance(x, (int, np.integer)):
        return Fraction(int(x))
    if isinstance(x, (float, np.floating)):
        if not math.isfinite(float(x)):
            raise ValueError(f"non-finite {x}")
        return Fraction(float(x))
    raise TypeError(type(x))


def rat_str(x) -> str:
    f = frac(x)
    return str(f.numerator) if f.denominator == 1 else f"{f.numerator}/{f.denominator}"


def canon(v) -> str:
    import numpy as np
    if isinstance(v, (bool, np.bool_)):
        return "true" if v else "false"
    if isinstance(v, str):
        return v
    if v is None:
        return "unit"
    if isinstance(v, slice):
        return f"{canon(v.start)} {canon(v.stop)}"
    if isinstance(v, tuple):
        if len(v) == 0:
            return "unit"
        return " ".join(canon(x) for x in v)
    if isinstance(v, (list, np.ndarray)):
        return "[" + " ".join(canon(x) for x in v) + "]"
    return rat_str(v)


EXC_KIND = {
    "SubvolumeOutOfBoundError": "oob", "ValueError": "value", "TypeError": "type",
    "IndexError": "index", "RuntimeError": "runtime", "NotImplementedError": "notimpl",
    "ZeroDivisionError": "zerodiv", "KeyError": "key",
}


def exc_kind(e: BaseException) -> str:
    for cls in type(e).__mro__:
        if cls.__name__ in EXC_KIND:
            return "err:" + EXC_KIND[cls.__name__]
    return "err:other:" + type(e).__name__


def call_canon(f, *a, **kw) -> str:
    try:
        return canon(f(*a, **kw))
    except Exception as e:  # noqa: BLE001
        return exc_kind(e)


# ------------------------------------------------------------------------------------------
# run directory, lock, subprocess helpers
# ------------------------------------------------------------------------------------------
@contextmanager
def build_lock():
    os.makedirs(RUN_ROOT, exist_ok=True)
    with open(os.path.join(RUN_ROOT, "build.lock"), "w") as fh:
        fcntl.flock(fh, fcntl.LOCK_EX)
        try:
            yield
        finally:
            fcntl.flock(fh, fcntl.LOCK_UN)


def new_run_dir(tag: str) -> str:
    d = os.path.join(RUN_ROOT, f"{tag}-{os.getpid()}-{int(time.time() * 1000) % 10**9}")
    os.makedirs(d, exist_ok=True)
    return d


def sh(cmd, cwd=None, timeout=None, env=None, input=None):
    e = dict(os.environ)
    if env:
        e.update(env)
    p = subprocess.run(cmd, cwd=cwd, timeout=timeout, env=e, input=input, text=True,
                       stdout=subprocess.PIPE, stderr=subprocess.STDOUT)
    return p.returncode, p.stdout


# ------------------------------------------------------------------------------------------
# Lean side
# ------------------------------------------------------------------------------------------
def run_gen(report_path: str) -> dict:
    import importlib
    import gen
    import specs
    importlib.reload(specs)
    importlib.reload(gen)
    rep = gen.generate(REPO, os.path.join(LEAN, "AcryoVerif", "Gen"))
    with open(report_path, "w") as f:
        json.dump(rep, f, indent=1)
    return rep


def lake_build(targets: list[str], timeout=3000) -> tuple[bool, str]:
    rc, out = sh(["lake", "build"] + targets, cwd=LEAN, timeout=timeout)
    return rc == 0, out


def driver(lines: list[str], timeout=1200) -> list[str]:
    """Run the line-protocol driver on `lines`; returns one output line per input line."""
    if not lines:
        return []
    rc, out = sh(["lake", "env", "lean", "--run", "Driver.lean"], cwd=LEAN, timeout=timeout,
                 input="\n".join(lines) + "\n")
    res = out.split("\n")
    if res and res[-1] == "":
        res.pop()
    if rc != 0 or len(res) != len(lines):
        raise RuntimeError(f"driver failed rc={rc}, {len(res)} lines for {len(lines)} inputs:\n"
                           + out[-2000:])
    return res


def theorem_names(lean_file: str) -> list[str]:
    names = []
    ns: list[str] = []
    with open(lean_file) as f:
        for line in f:
            m = re.match(r"\s*namespace\s+(\S+)", line)
            if m:
                ns.append(m.group(1))
            m = re.match(r"\s*end\s+(\S+)", line)
            if m and ns and ns[-1] == m.group(1):
                ns.pop()
            m = re.match(r"\s*(?:private\s+|protected\s+)?(?:theorem|lemma)\s+(\S+)", line)
            if m:
                names.append(".".join(ns + [m.group(1)]))
    return names


def strip_comments(text: str) -> str:
    text = re.sub(r"/-.*?-/", "", text, flags=re.S)
    return re.sub(r"--.*", "", text)


def forbidden_tokens(files: list[str]) -> list[str]:
    hits = []
    for fp in files:
        with open(fp) as f:
            body = strip_comments(f.read())
        for i, line in enumerate(body.split("\n")):
            if FORBIDDEN.search(line):
                hits.append(f"{os.path.relpath(fp, VERIF)}: {line.strip()[:100]}")
    return hits


def audit_axioms(module: str, names: list[str], run_dir: str) -> dict[str, list[str]]:
    """`#print axioms` for every theorem; returns name -> axioms."""
    src = f"import {module}\n" + "".join(f"#print axioms {n}\n" for n in names)
    fp = os.path.join(run_dir, "audit_" + module.replace(".", "_") + ".lean")
    with open(fp, "w") as f:
        f.write(src)
    rc, out = sh(["lake", "env", "lean", fp], cwd=LEAN, timeout=1800)
    res: dict[str, list[str]] = {}
    for m in re.finditer(r"'([^']+)' depends on axioms: \[([^\]]*)\]", out, flags=re.S):
        res[m.group(1)] = [a.strip() for a in m.group(2).replace("\n", " ").split(",") if a.strip()]
    for m in re.finditer(r"'([^']+)' does not depend on any axioms", out):
        res[m.group(1)] = []
    if rc != 0 and not res:
        raise RuntimeError("axiom audit failed:\n" + out[-2000:])
    return res


def failed_decls(build_out: str) -> list[str]:
    """Best-effort list of `file:line: message` for build errors."""
    errs = []
    for m in re.finditer(r"error: ([^\n]+)", build_out):
        errs.append(m.group(1)[:300])
    return errs[:40]


# ------------------------------------------------------------------------------------------
# K1 self-check: evaluate the selected Python source and the generated Lean on a grid
# ------------------------------------------------------------------------------------------
def eval_kernel_py(info: dict, args: list, modglobals: dict | None = None):
    """Evaluate the Python source selected for a kernel on concrete arguments."""
    import numpy as np
    import warnings
    warnings.simplefilter("ignore")
    env = {"np": np, "math": math, "warnings": warnings, "__builtins__": __builtins__}
    if modglobals:
        env.update(modglobals)
    env.update(info.get("consts") or {})
    src = info["pysrc"]
    params = [p for p, _ in info["params"]]
    loc = dict(zip(params, args))
    if info["kind"] == "expr":
        return eval(compile(src["expr"], "<kernel>", "eval"), env, loc)
    if info["kind"] == "lets":
        for var, e in src["items"]:
            loc[var] = eval(compile(e, "<kernel>", "eval"), env, loc)
        outs = tuple(loc[o] for o in src["outputs"])
        return outs if len(outs) > 1 else outs[0]
    if info["kind"] == "func":
        ns = dict(env)
        exec(compile(src["funcsrc"], "<kernel>", "exec"), ns)
        return ns[src["fname"]](*args)
    if info["kind"] == "const":
        return src["value"]
    raise ValueError(info["kind"])


def _approx_equal(a: str, b: str, rel: float = 1e-12) -> bool:
    """Token-wise comparison that tolerates float64 rounding of non-dyadic quotients on the
    Python side (the Lean side is exact)."""
    ta, tb = a.split(), b.split()
    if len(ta) != len(tb):
        return False
    for x, y in zip(ta, tb):
        if x == y:
            continue
        try:
            fx, fy = Fraction(x), Fraction(y)
        except (ValueError, ZeroDivisionError):
            return False
        if abs(fx - fy) > rel * max(1, abs(fx), abs(fy)):
            return False
    return True


def kernel_line(name: str, args: list) -> str:
    return "k:" + name + "".join(" " + (("1" if a else "0") if isinstance(a, bool) else rat_str(a))
                                 for a in args)


def typed_args(info: dict, args: list) -> list:
    """Python values with the types the source expects: Int -> int, Rat -> float (dyadic), Bool."""
    out = []
    for (p, ty), a in zip(info["params"], args):
        if ty == "Int":
            import numpy as np
            out.append(np.int64(int(a)))     # behaves like int; also supports .astype in numpy-style code
        elif ty == "Rat":
            f = Fraction(a)
            fl = f.numerator / f.denominator
            assert Fraction(fl) == f, f"non-dyadic rational {f} for float parameter {p}"
            import numpy as np
            out.append(np.float64(fl))       # a float that also supports numpy-style methods (.astype)
        elif ty == "Bool":
            out.append(bool(a))
        elif ty == "Str":
            import specs
            out.append(specs.STR_TABLE[int(a)] if 0 <= int(a) < len(specs.STR_TABLE) else "")
        else:
            raise ValueError(ty)
    return out


def k1_selfcheck(report: dict, grids: dict[str, list[list]], modglobals: dict[str, dict] | None = None):
    """For each kernel in `grids`, compare Python evaluation of the selected source with the
    Lean evaluation of its translation. Returns (n_cases, disagreements[list of dict])."""
    lines, expect, meta = [], [], []
    for name, arglists in grids.items():
        info = report["kernels"][name]
        if info["kind"] == "const":
            continue
        if info["pysrc"] is None:
            continue   # untranslated: no selected source to evaluate (K2 covers it)
        for args in arglists:
            targs = typed_args(info, args)
            try:
                v = canon(eval_kernel_py(info, targs, (modglobals or {}).get(name)))
            except Exception as e:  # noqa: BLE001
                v = exc_kind(e)
            lines.append(kernel_line(name, args))
            expect.append(v)
            meta.append((name, args))
    got = driver(lines)
    bad = []
    for (name, args), e, g, ln in zip(meta, expect, got, lines):
        if e != g and not _approx_equal(e, g):
            bad.append({"kernel": name, "args": [str(a) for a in args], "python": e, "lean": g,
                        "line": ln})
    return len(lines), bad


# ------------------------------------------------------------------------------------------
# known findings
# ------------------------------------------------------------------------------------------
def load_known(prop: str) -> list[dict]:
    fp = os.path.join(VERIF, "known_findings.json")
    if not os.path.exists(fp):
        return []
    with open(fp) as f:
        data = json.load(f)
    return [e for e in data.get("findings", []) if e.get("property") == prop]


def finding_matches(entry: dict, viol: dict) -> bool:
    """A known-finding entry matches a violation when the clause agrees and the entry's `where`
    expression (evaluated over the violation's input dict) holds."""
    if entry.get("status") != "known":
        return False
    if entry.get("clause") != viol.get("clause"):
        return False
    cond = entry.get("where")
    if not cond:
        return True
    try:
        return bool(eval(cond, {"__builtins__": {"abs": abs, "min": min, "max": max, "len": len,
                                                 "any": any, "all": all, "set": set,
                                                 "tuple": tuple, "sorted": sorted, "zip": zip, "int": int,
                                                 "float": float}},
                         dict(viol.get("input", {}))))
    except Exception:  # noqa: BLE001
        return False


# ------------------------------------------------------------------------------------------
# evidence / replay
# ------------------------------------------------------------------------------------------
def write_json(path: str, obj):
    os.makedirs(os.path.dirname(path), exist_ok=True)
    tmp = path + ".tmp"
    with open(tmp, "w") as f:
        json.dump(obj, f, indent=1, default=_json_default)
    os.replace(tmp, path)


def _json_default(o):
    import numpy as np
    if isinstance(o, Fraction):
        return str(o)
    if isinstance(o, (np.integer,)):
        return int(o)
    if isinstance(o, (np.floating,)):
        return float(o)
    if isinstance(o, np.ndarray):
        return o.tolist()
    if isinstance(o, (set, tuple)):
        return list(o)
    return repr(o)


def write_replay(prop: str, payload: dict) -> str:
    d = os.path.join(VERIF, "replays")
    os.makedirs(d, exist_ok=True)
    h = hashlib.sha256(json.dumps(payload, sort_keys=True, default=_json_default).encode()).hexdigest()[:12]
    fp = os.path.join(d, f"{prop}-{h}.json")
    write_json(fp, payload)
    return fp


def cleanup(run_dir: str):
    shutil.rmtree(run_dir, ignore_errors=True)
