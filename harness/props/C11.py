"""C11 — Molecule poses obey rigid-motion algebra in z,y,x order."""
from __future__ import annotations

from fractions import Fraction

import numpy as np

import common as C
from props.C01 import rat_rotation, _int_quat

PROP = "C11"
LEAN_MODULES = ["AcryoVerif.Props.C11"]
LEAN_SUPPORT = ["AcryoVerif.Lemmas.PoseMat", "AcryoVerif.Model.Pose", "AcryoVerif.Model.Rigid",
                "AcryoVerif.Props.C01"]
KERNELS = ["axesAreImagesOfUnitVectors", "crossIsNegatedNumpyCross", "axesToRotatorBuildsColumns",
           "fromAxesCompletesTriad", "eulerTranslation", "eulerAngleReverses", "localCoordCenter",
           "localCoordStructure", "affineMatrixStructure", "translateAddsWorld",
           "translateInternalUsesOwnRotation", "rotateInternalConjugates", "rotateByComposesLeft"]
TRUSTED = [
    "Lean 4.33 kernel; axioms propext / Classical.choice / Quot.sound only; Mathlib matrices "
    "(adjugate of a 3x3 matrix for right-handedness)",
    "structure of the Molecules pose methods read from the AST (specs.py patterns)",
    "scipy Rotation: from_matrix / as_matrix, from_quat / as_quat, from_rotvec / as_rotvec, "
    "from_euler / as_euler are mutually inverse up to float error; r1 * r2 applies r2 first "
    "(modelled as matrix algebra; sampled with rational rotations incl. axis-aligned and 180 degree ones)",
    "normalisation of non-unit axis inputs involves sqrt and is only tested (the model takes orthonormal pairs)",
]
ASSUMPTIONS = ["float comparisons use 1e-5 (positions are float32)"]
EXPLANATION = (
    "Theorems (every proper rotation over Q): axes are the columns of R, orthonormal, right-handed in "
    "z,y,x order; world rotations compose on the left, internal ones on the right, translations add "
    "(world) / add R d (internal); from_axes from (z,y), (y,x), (z,x) reads back the same axes for every "
    "orthonormal pair with no case distinction; translate_euler is an involution; affine_matrix maps src "
    "to dst; local_coordinates is the sampling map p/sigma + R(k - (shape-1)/2). K2: histories of "
    "rotate/translate calls, axes, from_axes, local coordinates, affine matrices and Euler translation "
    "of the real class vs the model. Oracle: representation round trips incl. degenerate and mixed batches.")
SAMPLE_OBLIGATIONS = [
    {"theorem": "C11.axes_right_handed", "statement": "R^T R = 1, det R = 1 -> z = cross(x, y)"},
    {"theorem": "C11.from_axes_zy", "statement": "axes of fromAxes z y are z, y and the matrix is orthogonal"},
]


def k1_grids(rng, thorough):
    return {"localCoordCenter": [[s] for s in range(1, 20)]}


def _flat(M):
    return [x for row in M for x in row]


def correspondence(rng, thorough):
    from scipy.spatial.transform import Rotation
    from acryo import Molecules
    lines, impl, stats = [], [], {"hist": 0, "axes": 0, "fromAxes": 0, "local": 0, "affine": 0, "euler": 0}
    special = [np.array(q) for q in ([0, 0, 0, 1], [1, 0, 0, 0], [0, 1, 0, 0], [0, 0, 1, 0], [1, 1, 0, 0], [1, 1, 1, 1],
                                     [1, 0, 0, 1], [0, 1, 0, 1], [0, 0, 1, 1])]
    n = 20 if thorough else 7

    def rot_of(q):
        return Rotation.from_quat(q.astype(float)[None] / np.linalg.norm(q))

    for it in range(n):
        qR = special[it % len(special)] if it % 2 == 0 else _int_quat(rng)
        R = rat_rotation(qR)
        p = [Fraction(int(x), 4) for x in rng.integers(-20, 21, size=3)]
        m = Molecules(np.array([[float(x) for x in p]]), rot_of(qR))
        # --- history of calls
        args = p + _flat(R)
        cur = m
        for _ in range(int(rng.integers(1, 7))):
            kind = int(rng.choice([0, 1, 4, 5]))
            v = [Fraction(int(x), 8) for x in rng.integers(-16, 17, size=3)]
            qQ = special[int(rng.integers(0, len(special)))] if rng.integers(0, 3) == 0 else _int_quat(rng)
            vf = np.array([[float(x) for x in v]])
            rq = rot_of(qQ)
            if kind == 0:
                cur = cur.translate_internal(vf)
            elif kind == 1:
                cur = cur.rotate_by_rotvec_internal(rq.as_rotvec())
            elif kind == 4:
                cur = cur.rotate_by(rq)
            else:
                cur = cur.translate(vf)
            args += [kind] + v + _flat(rat_rotation(qQ))
        lines.append("m:poseHist " + " ".join(C.rat_str(x) for x in args))
        impl.append(" ".join(repr(float(x)) for x in list(cur.pos[0]) + list(cur.rotator.as_matrix()[0].reshape(-1))))
        stats["hist"] += 1
        # --- axes
        lines.append("m:axes " + " ".join(C.rat_str(x) for x in _flat(R)))
        impl.append(" ".join(repr(float(x)) for x in list(m.z[0]) + list(m.y[0]) + list(m.x[0])))
        stats["axes"] += 1
        # --- from_axes with the exact (rational, orthonormal) axes
        cols = [[R[i][j] for i in range(3)] for j in range(3)]     # columns z, y, x
        for kind, (u, w, kw) in enumerate([(cols[0], cols[1], ("z", "y")), (cols[1], cols[2], ("y", "x")),
                                           (cols[0], cols[2], ("z", "x"))]):
            mm = Molecules.from_axes(np.zeros((1, 3)), **{kw[0]: np.array([[float(x) for x in u]]),
                                                          kw[1]: np.array([[float(x) for x in w]])})
            lines.append(f"m:fromAxes {kind} " + " ".join(C.rat_str(x) for x in u + w))
            impl.append(" ".join(repr(float(x)) for x in mm.rotator.as_matrix()[0].reshape(-1)))
            stats["fromAxes"] += 1
        # --- local coordinates / affine matrix
        shape = [int(x) for x in rng.integers(1, 6, size=3)]
        scale = Fraction([1, 1, 2, 13][it % 4], [1, 2, 1, 8][it % 4])
        k = [int(rng.integers(0, s)) for s in shape]
        lc = m.local_coordinates(tuple(shape), float(scale))
        lines.append("m:localCoord " + " ".join(C.rat_str(x) for x in p + _flat(R) + shape + [scale] + k))
        impl.append(" ".join(repr(float(lc[d][tuple(k)])) for d in range(3)))
        stats["local"] += 1
        src = [Fraction(int(x), 2) for x in rng.integers(-6, 7, size=3)]
        dst = [Fraction(int(x), 2) for x in rng.integers(-6, 7, size=3)]
        o = [Fraction(int(x), 2) for x in rng.integers(-6, 7, size=3)]
        inv = bool(it % 2)
        A = m.affine_matrix(np.array([float(x) for x in src]), np.array([[float(x) for x in dst]]), inverse=inv)[0]
        res = A @ np.array([float(x) for x in o] + [1.0])
        lines.append("m:affine " + " ".join(C.rat_str(x) for x in p + _flat(R) + src + dst + o + [int(inv)]))
        impl.append(" ".join(repr(float(x)) for x in res[:3]))
        stats["affine"] += 1
    from acryo.molecules._rotation import translate_euler
    for seq in ["ZXZ", "zxz", "XYZ", "xyz", "zyx", "ZYX", "yxz", "XZY", "zyz", "YXY"]:
        lines.append("m:eulerTr " + " ".join(str(ord(c)) for c in seq))
        impl.append(" ".join(str(ord(c)) for c in translate_euler(seq)))
        stats["euler"] += 1
    return lines, impl, stats


def k2_post(line, impl_out, model_out):
    if line.startswith("m:eulerTr"):
        return impl_out, model_out
    try:
        a = np.array([float(x) for x in impl_out.split()])
        b = np.array([float(Fraction(x)) for x in model_out.split()])
        tol = 3e-5 * (1 + np.abs(b).max())
        if a.shape == b.shape and np.abs(a - b).max() <= tol:
            return "agrees", "agrees"
        return " ".join(f"{x:.4f}" for x in a), " ".join(f"{x:.4f}" for x in b)
    except Exception as e:  # noqa: BLE001
        return impl_out, f"unparsable: {e}"


# ------------------------------------------------------------------------------------------
def _batch(kind, seed, n):
    from scipy.spatial.transform import Rotation
    gen = Rotation.random(n, random_state=seed)
    deg = Rotation.concatenate([Rotation.identity(), Rotation.from_euler("x", 180, degrees=True),
                                Rotation.from_euler("y", 180, degrees=True), Rotation.from_euler("z", 180, degrees=True),
                                Rotation.from_euler("x", 90, degrees=True), Rotation.from_euler("zy", [90, 180], degrees=True),
                                Rotation.from_euler("y", -90, degrees=True)])
    if kind == "generic":
        return gen
    if kind == "degenerate":
        return deg
    if kind == "single-degenerate":
        return deg[[seed % len(deg)]]
    return Rotation.concatenate([gen[: max(1, n // 2)], deg, gen[max(1, n // 2):]])


def run_case(inp):
    from scipy.spatial.transform import Rotation
    from acryo import Molecules
    viols = []

    def V(clause, desc):
        viols.append({"clause": clause, "desc": desc, "input": dict(inp)})

    rots = _batch(inp["batch"], inp["seed"], inp["n"])
    r = np.random.default_rng(inp["seed"])
    n = len(rots)
    pos = r.uniform(-20, 20, size=(n, 3)).astype(np.float32)
    m = Molecules(pos, rots)
    Rm = rots.as_matrix()
    x, y, z = m.x, m.y, m.z
    tol = 1e-6
    kind = inp["kind"]
    if kind == "axes":
        if np.abs(z - Rm[:, :, 0]).max() > tol or np.abs(y - Rm[:, :, 1]).max() > tol or np.abs(x - Rm[:, :, 2]).max() > tol:
            V("axes", "x, y, z are not the images of (0,0,1), (0,1,0), (1,0,0)")
        G = np.einsum("ni,nj->nij", z, z)
        for a, b, want in ((x, x, 1), (y, y, 1), (z, z, 1), (x, y, 0), (y, z, 0), (x, z, 0)):
            if not (np.abs(np.sum(a * b, axis=1) - want).max() <= tol):
                V("orthonormal", "axes are not orthonormal")
        if not (np.abs(z - (-np.cross(x, y))).max() <= tol):
            V("right-handed", "z != cross(x, y) in the z,y,x convention")
    elif kind == "from_axes":
        for kw, label in ((dict(z=z, y=y), "z,y"), (dict(y=y, x=x), "y,x"), (dict(z=z, x=x), "z,x")):
            try:
                m2 = Molecules.from_axes(pos, **kw)
            except Exception as e:  # noqa: BLE001
                V("from_axes", f"from_axes({label}) raised {type(e).__name__}: {e}")
                continue
            err = max(np.abs(m2.z - z).max(), np.abs(m2.y - y).max(), np.abs(m2.x - x).max())
            if not np.isfinite(err) or err > 1e-5:
                bad = int(np.argmax(np.abs(m2.z - z).max(axis=1) + np.abs(m2.y - y).max(axis=1) + np.abs(m2.x - x).max(axis=1)))
                V("from_axes", f"from_axes({label}) does not read back the same axes (max error {err:.3g}, worst "
                               f"member {bad} of a {inp['batch']} batch of {n})")
        # scaled (non-unit) inputs describe the same orientation
        m3 = Molecules.from_axes(pos, z=2.5 * z, y=0.3 * y)
        if not (np.abs(m3.x - x).max() <= 1e-5):
            V("from_axes", "from_axes with non-unit axis vectors gives a different orientation")
    elif kind == "roundtrip":
        seqs = ["ZXZ", "zxz", "XYZ", "xyz", "ZYX", "zyx", "YXZ", "yzx", "ZYZ"]
        for order in ("xyz", "zyx"):
            for seq in seqs:
                ang = m.euler_angle(seq) if order == "xyz" else m.rotator.as_euler(seq)
                m2 = Molecules.from_euler(pos, ang, seq=seq, order=order)
                d = (m2.rotator * rots.inv()).magnitude().max()
                if d > 1e-5:
                    V("euler", f"from_euler(euler_angle) differs by {d:.3g} rad for seq {seq}, order {order}")
                if order == "xyz":
                    back = m2.euler_angle(seq)
                    m3 = Molecules.from_euler(pos, back, seq=seq, order="xyz")
                    if (m3.rotator * rots.inv()).magnitude().max() > 1e-5:
                        V("euler", f"euler_angle is not stable for seq {seq}")
        for name, mk, rd in (("quat", Molecules.from_quat, lambda a: a.quaternion()),
                             ("rotvec", Molecules.from_rotvec, lambda a: a.rotvec()),
                             ("matrix", Molecules.from_matrix, lambda a: a.matrix())):
            m2 = mk(pos, rd(m))
            if (m2.rotator * rots.inv()).magnitude().max() > 1e-6 or np.abs(m2.pos - pos).max() > 0:
                V("representation", f"{name} round trip changes the orientation")
        # a quaternion is a rotation up to a positive factor (scipy's convention, which from_quat documents itself
        # by): the axes stay orthonormal and every derived object inherits that
        qs = m.quaternion().astype(np.float64) * r.uniform(0.2, 9.0, size=(n, 1))
        mq = Molecules.from_quat(pos, qs)
        for label, obj in (("from_quat", mq), ("from_quat().copy()", mq.copy()), ("from_quat().subset()", mq.subset(slice(None))),
                           ("concat([from_quat()])", Molecules.concat([mq]))):
            M = np.asarray(obj.matrix(), dtype=np.float64)
            if np.abs(M @ np.transpose(M, (0, 2, 1)) - np.eye(3)).max() > 1e-5 or (obj.rotator * rots.inv()).magnitude().max() > 1e-5:
                V("representation", f"{label} with non-unit quaternions: the axes are not the orthonormal axes of the rotation "
                                    f"(|M M^T - 1| = {np.abs(M @ np.transpose(M, (0, 2, 1)) - np.eye(3)).max():.3g})")
                break
        dd = r.uniform(-3, 3, size=3)
        if not (np.abs(mq.translate_internal(dd).pos - (pos + rots.apply(dd))).max() <= 1e-3):
            V("compose", "translate_internal on molecules built from non-unit quaternions does not add R d")
    elif kind == "compose":
        W = Rotation.random(n, random_state=inp["seed"] + 5)
        d = r.uniform(-3, 3, size=(n, 3))
        before = (m.pos.copy(), m.quaternion().copy())
        a = m.rotate_by(W)
        if np.abs(a.pos - pos).max() > 0 or (a.rotator * (W * rots).inv()).magnitude().max() > 1e-6:
            V("compose", "rotate_by does not compose on the left / moves the position")
        b = m.translate(d)
        if np.abs(b.pos - (pos + d.astype(np.float32))).max() > 1e-5 or (b.rotator * rots.inv()).magnitude().max() > 1e-9:
            V("compose", "translate is not a world translation")
        c = m.translate_internal(d)
        if not (np.abs(c.pos - (pos + rots.apply(d))).max() <= 1e-4):
            V("compose", "translate_internal does not add R d")
        Q = Rotation.random(n, random_state=inp["seed"] + 9)
        e = m.rotate_by_rotvec_internal(Q.as_rotvec())
        if (e.rotator * (rots * Q).inv()).magnitude().max() > 1e-6 or np.abs(e.pos - pos).max() > 0:
            V("compose", "rotate_by_rotvec_internal is not R Q")
        if np.abs(m.pos - before[0]).max() > 0 or np.abs(m.quaternion() - before[1]).max() > 0:
            V("copy", "an operation with copy=True altered the original")
        mc = m.copy()
        mc.translate(d, copy=False)
        mc.rotate_by(W, copy=False)
        if np.abs(mc.pos - (pos + d.astype(np.float32))).max() > 1e-5 or (mc.rotator * (W * rots).inv()).magnitude().max() > 1e-6:
            V("compose", "in-place operations differ from the copying ones")
    elif kind == "alias":
        # copy=True results share nothing with their source: a later in-place operation on either
        # object leaves the other (and the caller's own arrays) untouched
        W = Rotation.random(random_state=inp["seed"] + 5)
        d = r.uniform(-3, 3, size=3)
        derive = {
            "rotate_by": lambda q: q.rotate_by(W),
            "rotate_by_rotvec": lambda q: q.rotate_by_rotvec(W.as_rotvec()),
            "rotate_by_quaternion": lambda q: q.rotate_by_quaternion(W.as_quat()),
            "rotate_by_matrix": lambda q: q.rotate_by_matrix(W.as_matrix()),
            "rotate_by_rotvec_internal": lambda q: q.rotate_by_rotvec_internal(W.as_rotvec()),
            "translate": lambda q: q.translate(d),
            "translate_internal": lambda q: q.translate_internal(d),
            "copy": lambda q: q.copy(),
            "subset": lambda q: q.subset(slice(None)),
            # transformations that happen to be the identity are still copies
            "translate(zeros)": lambda q: q.translate(np.zeros(3)),
            "translate(zeros (N,3))": lambda q: q.translate(np.zeros((len(q), 3))),
            "translate_internal(zeros)": lambda q: q.translate_internal(np.zeros(3)),
            "translate_internal(0.0)": lambda q: q.translate_internal([0.0, 0.0, 0.0]),
            "rotate_by(identity)": lambda q: q.rotate_by(Rotation.identity()),
            "rotate_by_rotvec(zeros)": lambda q: q.rotate_by_rotvec(np.zeros(3)),
            "rotate_by_rotvec_internal(zeros)": lambda q: q.rotate_by_rotvec_internal(np.zeros(3)),
            "rotate_by_quaternion(identity)": lambda q: q.rotate_by_quaternion(np.array([0.0, 0.0, 0.0, 1.0])),
            "rotate_by_matrix(identity)": lambda q: q.rotate_by_matrix(np.eye(3)),
            "linear_transform(identity)": lambda q: q.linear_transform(np.zeros(3), Rotation.identity()),
        }
        inplace = {
            "translate": lambda q: q.translate(d, copy=False),
            "translate_internal": lambda q: q.translate_internal(d, copy=False),
            "rotate_by": lambda q: q.rotate_by(W, copy=False),
            "rotate_by_rotvec_internal": lambda q: q.rotate_by_rotvec_internal(W.as_rotvec(), copy=False),
        }
        for dn, df in derive.items():
            for on, of in inplace.items():
                for target in ("derived", "source"):
                    pos_in = pos.copy()
                    src = Molecules(pos_in, rots)
                    try:
                        der = df(src)
                        keep = src if target == "derived" else der
                        p0, q0 = keep.pos.copy(), keep.rotator.as_quat().copy()
                        of(der if target == "derived" else src)
                    except Exception as e:  # noqa: BLE001
                        V("no-error", f"{dn} then in-place {on}: {type(e).__name__}: {str(e)[:80]}")
                        continue
                    if not np.array_equal(keep.pos, p0) or np.abs(keep.rotator.as_quat() - q0).max() > 0:
                        V("copy-independent", f"{dn}() result and its source share state: in-place {on} on the "
                                              f"{target} changed the other object")
                    if target == "derived" and not np.array_equal(pos_in, pos):
                        V("copy-independent", f"in-place {on} after {dn}() overwrote the caller's position array")
    elif kind == "grids":
        shape = tuple(inp["shape"])
        scale = float(inp["scale"])
        lc = m.local_coordinates(shape, scale, squeeze=False)
        kk = np.stack(np.meshgrid(*[np.arange(s) for s in shape], indexing="ij"), axis=0).reshape(3, -1)
        c = (np.array(shape) - 1) / 2
        for i in range(n):
            want = (pos[i].astype(np.float64) / scale)[:, None] + Rm[i] @ (kk - c[:, None])
            if not (np.abs(lc[i].reshape(3, -1) - want).max() <= 2e-4 * (1 + np.abs(want).max())):
                V("local_coordinates", f"local_coordinates differs from p/scale + R(k-(shape-1)/2) for member {i}")
                break
        src = r.uniform(-3, 3, size=3)
        A = m.affine_matrix(src)
        Ai = m.affine_matrix(src, inverse=True)
        o = r.uniform(-3, 3, size=3)
        for i in range(n):
            want = pos[i] + Rm[i] @ (o - src)
            if not (np.abs((A[i] @ np.append(o, 1))[:3] - want).max() <= 1e-3):
                V("affine_matrix", "affine_matrix is not o -> dst + R (o - src)")
                break
            want_i = pos[i] + Rm[i].T @ (o - src)
            if not (np.abs((Ai[i] @ np.append(o, 1))[:3] - want_i).max() <= 1e-3):
                V("affine_matrix", "inverse affine_matrix is not o -> dst + R^T (o - src)")
                break
    return viols


def oracle(rng, thorough, deep=False, hints=None):
    big = thorough or deep
    cases = []
    kinds = ["axes", "from_axes", "roundtrip", "compose", "grids"]
    batches = ["generic", "degenerate", "mixed", "single-degenerate"]
    for it in range(40 if big else 16):
        cases.append(dict(kind=kinds[it % len(kinds)], batch=batches[(it // len(kinds) + it) % len(batches)],
                          n=int(rng.integers(1, 9)), seed=int(rng.integers(0, 10 ** 6)),
                          shape=[int(x) for x in rng.integers(1, 6, size=3)], scale=float(rng.choice([1.0, 0.5, 2.5]))))
    cases.append(dict(kind="alias", batch="generic", n=4, seed=int(rng.integers(0, 10 ** 6)), shape=[3, 3, 3], scale=1.0))
    # from_axes on every batch kind, always
    for b in batches:
        cases.append(dict(kind="from_axes", batch=b, n=5, seed=int(rng.integers(0, 10 ** 6)), shape=[3, 3, 3], scale=1.0))
    viols, stats = [], {"by_kind": {}, "by_batch": {}, "samples": [{"oracle_case": c} for c in cases[:2]]}
    for c in cases:
        stats["by_kind"][c["kind"]] = stats["by_kind"].get(c["kind"], 0) + 1
        stats["by_batch"][c["batch"]] = stats["by_batch"].get(c["batch"], 0) + 1
        viols += run_case(c)
    return len(cases), viols, stats


def replay(payload):
    v = run_case(dict(payload["input"]))
    return {"violated": bool(v), "violations": v}
