"""C05 — Alignment stays inside the search range and never fails on a valid range."""
from __future__ import annotations

from fractions import Fraction

import numpy as np

import common as C

PROP = "C05"
LEAN_MODULES = ["AcryoVerif.Props.C05"]
LEAN_SUPPORT = ["AcryoVerif.Lemmas.PyLemmas"]
KERNELS = ["upsampleFactor", "paddingWidth", "padWidthEff0", "padWidthEff1", "padWidthEff2",
           "padWidthEff3", "meshBounds", "meshNode", "upsampleShift", "meshOffset", "pccCropBounds",
           "pccLandscapeBounds", "fscOutShape", "fscPhaseRange", "pccRefine", "pccRefineShift",
           "pccCoarse"]
TRUSTED = [
    "Lean 4.33 kernel; axioms propext / Classical.choice / Quot.sound only",
    "translator/py2lean.py + Py.lean (int(), ceil, floor, //, max, min), self-checked each run",
    "numpy/scipy: argmax/unravel_index return an index inside the array; map_coordinates evaluates "
    "the mesh it is given; fftshift/ifftshift; slicing (modelled, sampled by the correspondence)",
    "float32 conversion of max_shifts inside _create_mesh is not modelled (model is exact; the "
    "correspondence uses dyadic max_shifts, the oracle allows 1e-4 px)",
]
ASSUMPTIONS = [
    "the integer peak returned by argmax lies inside the cropped landscape (numpy contract)",
    "finite inputs; the theorems are about which nodes can be returned, not about score values",
]
EXPLANATION = (
    "Theorems (every max_shifts m >= 0, on or off the 1/20 grid, every box and peak position): "
    "effective pad width >= 2 and cropped side 2*int(m)+1; refinement mesh non-empty; every mesh "
    "node s + j/20 in [-m, m]; the shift returned by upsample is such a node; nodes stay inside the "
    "un-cropped response; FSC landscape side/range; PCC first crop non-empty with lag 0 at index 0; "
    "PCC refinement slice non-empty, in bounds, refined shift in [-m, m]. Tie: all arithmetic "
    "regenerated from backend/_upsample.py, _zncc.py, _pcc.py, _fsc.py; real _create_mesh, "
    "crop_by_max_shifts and landscape shapes compared with the model; all four alignment models "
    "replayed on noise / constant / unrelated sub-volumes.")
SAMPLE_OBLIGATIONS = [
    {"theorem": "C05.mesh_in_range",
     "statement": "lo <= j <= hi -> -m <= (maxima - mid) + j/20 <= m, for every rational m"},
    {"theorem": "C05.pcc_refine_range",
     "statement": "PCC: kept slice non-empty and inside [0,R); refined shift in [-m, m]"},
]


def k1_grids(rng, thorough):
    g = {}
    ms = [Fraction(k, 16) for k in range(0, 90, 3 if not thorough else 1)]
    g["paddingWidth"] = [[m] for m in ms]
    for i in range(4):
        g[f"padWidthEff{i}"] = [[m, s] for m in ms[::3] for s in (5, 7, 9, 13, 21)]
    g["meshBounds"] = [[mx, mid, m] for m in ms for mid in (0, 1, 3) for mx in range(0, 2 * mid + 1)]
    g["meshNode"] = [[j, m, w] for j in (-20, -7, 0, 13, 20) for m in (0, 3) for w in (0, 2, 5)]
    g["upsampleShift"] = [[mx, n, lm, Fraction(lo, 16)] for mx in (0, 2, 5) for n in (1, 5, 6)
                          for lm in (0, 7, 40) for lo in (-16, -3, 0)]
    g["meshOffset"] = [[s] for s in range(-20, 21, 5)]
    g["pccCropBounds"] = [[l, r, s] for l in range(0, 9) for r in range(0, 9) for s in (1, 4, 7, 8)]
    g["pccLandscapeBounds"] = [[m, m, s] for m in ms[::2] for s in (1, 4, 7, 8)]
    g["fscOutShape"] = [[m] for m in ms]
    g["fscPhaseRange"] = [[s] for s in range(1, 14)]
    g["pccRefine"] = [[Fraction(s), m, 20, 30] for m in ms for s in range(-int(m), int(m) + 1)]
    g["pccRefineShift"] = [[Fraction(s), lm, st, Fraction(15), 20] for s in (-2, 0, 1) for lm in (0, 3, 29)
                           for st in (0, 4, 15)]
    g["pccCoarse"] = [[Fraction(s), 20] for s in range(-4, 5)]
    return g


# ------------------------------------------------------------------------------------------
def correspondence(rng, thorough):
    from acryo.backend import Backend
    from acryo.backend._upsample import _create_mesh, UPSAMPLE
    from acryo.backend._pcc import crop_by_max_shifts
    from acryo.backend import _zncc
    xp = Backend()
    lines, impl = [], []
    stats = {"mesh": 0, "mesh_offgrid20": 0, "crop": 0, "shapes": 0}
    n = 200 if thorough else 60
    for it in range(n):
        m = [Fraction(int(rng.integers(0, 200)), 32) for _ in range(3)]
        mid = [int(np.ceil(float(x))) if it % 2 else int(float(x)) for x in m]
        maxima = [int(rng.integers(0, 2 * c + 1)) for c in mid]
        pw = [int(rng.integers(0, 4)) for _ in range(3)]
        mesh, offset = _create_mesh(np.array(maxima), tuple(float(x) for x in m),
                                    np.array(mid, dtype=np.float32), tuple(pw), xp)
        mesh = np.asarray(mesh)
        offset = np.asarray(offset)
        for ax in range(3):
            lo = int(round(float(offset[ax]) * UPSAMPLE))       # offset is float32(lo) / 20
            hi = lo + mesh.shape[1 + ax] - 1
            first = Fraction(int(round(float(mesh[(ax,) + (0, 0, 0)]) * UPSAMPLE)), UPSAMPLE)
            lines.append(f"m:mesh {maxima[ax]} {mid[ax]} {C.rat_str(m[ax])} {pw[ax]}")
            impl.append(C.canon((lo, hi, first)))
            stats["mesh"] += 1
            stats["mesh_offgrid20"] += (m[ax] * 20).denominator != 1
    for it in range(n // 2):
        N = int(rng.integers(1, 12))
        l, r = int(rng.integers(0, 8)), int(rng.integers(0, 8))
        if it % 2:
            r = l
        arr = np.arange(N, dtype=np.float32).reshape(N, 1, 1)
        out = np.asarray(crop_by_max_shifts(arr, np.array([l, 0, 0]), np.array([r, 0, 0]), xp))
        lines.append(f"m:pccCrop {l} {r} {N}")
        impl.append(C.canon([int(x) for x in out.reshape(-1)]))
        stats["crop"] += 1
    for it in range(n // 4):
        N = [int(x) for x in rng.integers(4, 9, size=3)]
        m = [Fraction(int(rng.integers(0, 70)), 16) for _ in range(3)]
        a = rng.normal(size=N).astype(np.float32)
        b = rng.normal(size=N).astype(np.float32)
        mf = tuple(float(x) for x in m)
        full = np.asarray(_zncc.ncc_landscape(a, b, mf, xp))
        crop = np.asarray(_zncc.zncc_landscape_with_crop(a, b, mf, xp))
        crop2 = np.asarray(_zncc.ncc_landscape_with_crop(a, b, mf, xp))
        lines.append("m:znccShape " + " ".join(C.rat_str(x) for x in m))
        impl.append(C.canon(tuple(int(x) for x in full.shape) + tuple(int(x) for x in crop.shape)
                            + tuple(int(x) for x in crop2.shape)))
        stats["shapes"] += 1
    return lines, impl, stats


# ------------------------------------------------------------------------------------------
def _models():
    from acryo.alignment import ZNCCAlignment, NCCAlignment, PCCAlignment
    from acryo.alignment._concrete import FSCAlignment
    return {"ZNCC": ZNCCAlignment, "NCC": NCCAlignment, "PCC": PCCAlignment, "FSC": FSCAlignment}


def _blob(seed, shape):
    from scipy import ndimage as ndi
    r = np.random.default_rng(seed)
    return ndi.gaussian_filter(r.normal(size=shape), 1.2).astype(np.float32)


def run_case(inp):
    import dask
    from scipy.spatial.transform import Rotation
    shape = tuple(inp["shape"])
    m = tuple(float(x) for x in inp["max_shifts"])
    M = _models()[inp["model"]]
    r = np.random.default_rng(inp["seed"])
    tmpl = _blob(inp["seed"] + 1, shape)
    kind = inp["sub"]
    if kind == "noise":
        sub = r.normal(size=shape).astype(np.float32)
    elif kind == "constant":
        sub = np.full(shape, 2.5, dtype=np.float32)
    elif kind == "zeros":
        sub = np.zeros(shape, dtype=np.float32)
    elif kind == "unrelated":
        sub = _blob(inp["seed"] + 77, shape)
    else:  # shifted copy far beyond the range
        from scipy import ndimage as ndi
        sub = ndi.shift(tmpl, [3.3, -2.6, 4.1], order=1, mode="wrap").astype(np.float32)
    kw = {}
    if inp.get("rotations"):
        kw["rotations"] = [Rotation.identity(), Rotation.from_euler("z", 90, degrees=True)]
    if inp.get("cutoff"):
        kw["cutoff"] = inp["cutoff"]
    if inp.get("tilt"):
        kw["tilt"] = tuple(inp["tilt"])
    viols = []

    def V(clause, desc):
        viols.append({"clause": clause, "desc": desc, "input": dict(inp)})

    try:
        with dask.config.set(scheduler="synchronous"):
            model = M(tmpl, **kw)
            res = model.align(sub, m)
    except Exception as e:  # noqa: BLE001
        V("no-error", f"{inp['model']}.align raised {type(e).__name__}: {str(e)[:120]}")
        return viols
    sh = np.asarray(res.shift, dtype=np.float64)
    if sh.shape != (3,) or not np.all(np.isfinite(sh)):
        V("finite-shift", f"shift {sh.tolist()}")
        return viols
    if not np.isfinite(float(res.score)):
        V("finite-score", f"score {res.score!r} for a {kind} sub-volume")
    exc = np.abs(sh) - np.array(m)
    if np.any(exc > 1e-4):
        V("range", f"|shift| exceeds max_shifts by {exc.max():.4g}: shift {sh.tolist()} max {list(m)}")
    return viols


def run_loader_case(inp):
    """Consequence for molecules: displacement along the molecule's own axes <= max_shifts (nm)."""
    import dask
    from scipy.spatial.transform import Rotation
    from acryo import SubtomogramLoader, Molecules
    r = np.random.default_rng(inp["seed"])
    tomo = r.normal(size=(26, 26, 26)).astype(np.float32)
    scale = float(inp["scale"])
    n = int(inp["n"])
    pos = r.uniform(10, 16, size=(3, 3)) * scale
    rot = Rotation.random(3, random_state=inp["seed"])
    mole = Molecules(pos, rot, features={"g": [0, 0, 0]})
    tmpl = _blob(inp["seed"], (n, n, n))
    ms = inp["max_shifts"]
    M = _models()[inp["model"]]
    viols = []
    via = inp.get("via", "align")
    msv = ms if not isinstance(ms, list) else tuple(ms)
    try:
        with dask.config.set(scheduler="synchronous"):
            ld = SubtomogramLoader(tomo, mole, order=1, scale=scale)
            if via == "align":
                out = ld.align(tmpl, max_shifts=msv, alignment_model=M)
            elif via == "multi":
                out = ld.align_multi_templates([tmpl, tmpl[::-1].copy()], max_shifts=msv, alignment_model=M)
            elif via == "align_list":
                out = ld.align([tmpl, tmpl[::-1].copy()], max_shifts=msv, alignment_model=M)
            elif via == "align_rot":
                out = ld.align(tmpl, max_shifts=msv, alignment_model=M, rotations=((0, 0), (0, 0), (10, 10)))
            elif via == "group":
                out = list(ld.groupby("g").align(tmpl, max_shifts=msv, alignment_model=M))[0][1]
            else:
                out = list(ld.groupby("g").align_multi_templates([tmpl, tmpl[::-1].copy()], max_shifts=msv,
                                                                  alignment_model=M))[0][1]
    except Exception as e:  # noqa: BLE001
        return [{"clause": "no-error", "desc": f"loader {via} with max_shifts={ms!r} raised {type(e).__name__}: "
                                              f"{str(e)[:120]}", "input": dict(inp)}]
    d = out.molecules.pos.astype(np.float64) - mole.pos.astype(np.float64)
    Rm = rot.as_matrix()
    local = np.einsum("nji,nj->ni", Rm, d)   # R^T d : components along the molecule's own axes
    lim = np.broadcast_to(np.asarray(ms, dtype=np.float64), (3,))
    exc = np.abs(local) - lim[None, :]
    if np.any(exc > 2e-3 * max(1.0, scale)):
        viols.append({"clause": "molecule-range", "input": dict(inp),
                      "desc": f"molecule displaced by {np.abs(local).max(axis=0).tolist()} nm along its own "
                              f"axes, max_shifts {lim.tolist()} nm"})
    return viols


def oracle(rng, thorough, deep=False, hints=None):
    big = thorough or deep
    ms_list = [0, 0.3, 0.73, 0.7, 1.37, 2.51, 5, [0.73, 0.0, 2.2], [1.0, 3.6, 0.4]]
    shapes = [(8, 8, 8), (7, 7, 7), (6, 8, 9), (5, 5, 4)]
    cases = []
    models = ["ZNCC", "NCC", "PCC", "FSC"]
    subs = ["noise", "constant", "unrelated", "far", "zeros"]
    for i, ms in enumerate(ms_list):
        for j, mdl in enumerate(models):
            reps = 3 if big else 1
            for rep in range(reps):
                shape = shapes[int(rng.integers(0, len(shapes)))]
                if mdl == "FSC" and not big and max(np.atleast_1d(ms)) > 1.5:
                    continue
                m3 = ms if isinstance(ms, list) else [ms] * 3
                if mdl == "FSC":
                    m3 = [min(x, 2.51) for x in m3]
                cases.append(dict(kind="model", model=mdl, shape=list(shape), max_shifts=m3,
                                  sub=subs[int(rng.integers(0, len(subs)))] if rep else subs[(i + j) % len(subs)],
                                  seed=int(rng.integers(0, 10 ** 6)),
                                  rotations=bool(rng.integers(0, 3) == 0),
                                  cutoff=[None, 0.3][int(rng.integers(0, 2))],
                                  tilt=[None, [-60, 60]][int(rng.integers(0, 2))]))
    # box larger than the box itself / very large ranges
    for mdl in models[:3]:
        cases.append(dict(kind="model", model=mdl, shape=[6, 6, 6], max_shifts=[11.0, 7.5, 11.9], sub="noise",
                          seed=5, rotations=False, cutoff=None, tilt=None))
    vias = ["align", "multi", "group", "group_multi", "align_list", "align_rot"]
    nl = 0
    for mdl in (models[:3] if not big else models):
        for ms in ([0.73, 1.0] if not big else [0.0, 0.73, 1.0, [0.5, 1.5, 0.25]]):
            for rep in range(2):
                # every entry point is visited with a scale other than 1 (nm != px)
                cases.append(dict(kind="loader", model=mdl, scale=[0.5, 2.0, 1.0, 0.37][(nl // len(vias) + rep) % 4],
                                  n=int(rng.choice([6, 7])), max_shifts=ms, seed=int(rng.integers(0, 10 ** 6)),
                                  via=vias[nl % len(vias)]))
                nl += 1
    viols, stats = [], {"by_model": {}, "by_sub": {}, "samples": [{"oracle_case": c} for c in cases[:2]]}
    for c in cases:
        stats["by_model"][c["model"]] = stats["by_model"].get(c["model"], 0) + 1
        if c["kind"] == "model":
            stats["by_sub"][c["sub"]] = stats["by_sub"].get(c["sub"], 0) + 1
            viols += run_case(c)
        else:
            viols += run_loader_case(c)
    return len(cases), viols, stats


def replay(payload):
    inp = dict(payload["input"])
    v = run_case(inp) if inp.get("kind", "model") == "model" else run_loader_case(inp)
    return {"violated": bool(v), "violations": v}
