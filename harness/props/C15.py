"""C15 — Binned loaders look at the same physical region."""
from __future__ import annotations

from fractions import Fraction

import numpy as np

import common as C

PROP = "C15"
LEAN_MODULES = ["AcryoVerif.Props.C15", "AcryoVerif.Props.C15Array"]
LEAN_SUPPORT = ["AcryoVerif.Lemmas.PyLemmas", "AcryoVerif.Model.Bin"]
KERNELS = ["binAxis", "binIsBlockSum", "binTrLoader", "binTrBatch", "binScaleLoader", "binScaleBatch",
           "binStructureLoader", "binStructureBatch"]
TRUSTED = [
    "Lean 4.33 kernel; axioms propext / Classical.choice / Quot.sound only",
    "translator/py2lean.py + Py.lean (divmod, //, %), self-checked each run",
    "numpy/dask slicing, reshape and sum over the block axes compute the block sums "
    "(modelled by Model.binImage, compared voxel by voxel with bin_image)",
    "Molecules.translate adds the vector to every position (C11/C12)",
]
ASSUMPTIONS = ["integer-valued images make the float sums exact in the correspondence"]
EXPLANATION = (
    "Theorems (every b >= 1, every axis length): block structure of bin_image (s//b outputs, first "
    "b*(s//b) voxels used, remainder < b dropped); scale multiplied by b; the translated molecule, read "
    "at the new scale, maps back to the same original pixel coordinate; voxel k of a binned box is the "
    "b-block K = b*k + j of the b-times larger original box. K2: bin_image vs the block-sum model on "
    "numpy and dask inputs. Oracle: binned loader subtomograms vs block sums of the original loader's "
    "larger subtomograms (single and batch, b = 1..6, lazy/eager). Array level (C15Array): Model.binList / "
    "binHist are the executable list model of one axis of bin_image and of a history of binnings; "
    "binList_spec (voxel i = sum of x[b*i .. b*i+b-1], s//b voxels, nothing read past the axis), "
    "binList_binList / binHist_eq (any history of binnings = one binning by the product, every length) and "
    "binList_mass hold for every list; K2 runs the same histories through the real bin_image (numpy and "
    "dask, random chunkings, lengths not divisible by the bin sizes) along one axis.")
SAMPLE_OBLIGATIONS = [
    {"theorem": "C15.same_location", "statement": "b*((p+tr)/(b*sigma)) + (b-1)/2 = p/sigma"},
    {"theorem": "C15.bin_axis", "statement": "npix = s//b, used = b*npix <= s < used + b"},
    {"theorem": "C15.binList_spec", "statement": "i < len/b -> (binList b xs)[i]? = some (sum_{r<b} xs[b*i+r])"},
    {"theorem": "C15.binHist_eq", "statement": "binHist bs xs = binList bs.prod xs"},
]


def k1_grids(rng, thorough):
    g = {"binAxis": [[s, b] for s in range(0, 25) for b in range(1, 8)]}
    for nm in ("Loader", "Batch"):
        g[f"binTr{nm}"] = [[b, Fraction(s, 8)] for b in range(1, 8) for s in (1, 4, 8, 13)]
        g[f"binScale{nm}"] = [[b, Fraction(s, 8)] for b in range(1, 8) for s in (1, 4, 8, 13)]
    return g


def correspondence(rng, thorough):
    import dask.array as da
    from acryo._utils import bin_image
    lines, impl, stats = [], [], {"dask": 0, "remainder": 0, "cases": 0}
    for it in range(30 if thorough else 10):
        b = int(rng.integers(1, 5))
        shape = tuple(int(x) for x in rng.integers(b, 8 + b, size=3))   # every axis holds at least one block
        a = rng.integers(-4, 5, size=shape).astype(np.float32)
        use_dask = bool(it % 2)

        def compose(s):
            # a random composition of the axis length: chunk boundaries anywhere (also not multiples of b)
            cuts = sorted({int(c) for c in rng.integers(1, s, size=int(rng.integers(0, 4)))}) if s > 1 else []
            return tuple(np.diff([0] + cuts + [s]).tolist())
        chunks = tuple(max(1, s // 2) for s in shape) if it % 4 == 1 else tuple(compose(s) for s in shape)
        arr = da.from_array(a, chunks=chunks) if use_dask else a
        out = np.asarray(bin_image(arr, b))
        stats["dask"] += use_dask
        stats["remainder"] += any(s % b for s in shape)
        stats["cases"] += 1
        lines.append(f"m:bin {b} {shape[0]} {shape[1]} {shape[2]} " + " ".join(C.rat_str(x) for x in a.reshape(-1)))
        impl.append(" ".join(map(str, out.shape)) + " | " + " ".join(C.rat_str(x) for x in out.reshape(-1)))
    # array-level model (C15Array): a history of binnings b1, b2, .. of ONE axis through the real bin_image.
    # The axis is row [0, 0, :] of an image that holds exactly one block along the other two axes (zeros
    # elsewhere), so the real 3-D block sum along that row is the 1-D block sum of the model.
    stats["axis_histories"] = 0
    stats["axis_remainders"] = 0
    for it in range(40 if thorough else 16):
        k = int(rng.integers(1, 4))
        bs = [int(rng.integers(1, 5)) for _ in range(k)]
        if it % 5 == 0:
            bs = [1] + bs[:2]
        k = len(bs)
        prod = int(np.prod(bs))
        n = int(rng.integers(0, 3)) * prod + int(rng.integers(0, 2 * prod + 3))     # also shorter than one block
        xs = rng.integers(-9, 10, size=n).astype(np.float32)
        side = prod
        a = np.zeros((side, side, n), dtype=np.float32)
        a[0, 0, :] = xs
        axis = it % 3
        a = np.moveaxis(a, 2, axis)
        cur = a
        if it % 2 and n > 0:
            cuts = sorted({int(c) for c in rng.integers(1, max(2, n), size=int(rng.integers(0, 4)))} - {n}) if n > 1 else []
            ch = [(side,), (side,), (side,)]
            ch[axis] = tuple(np.diff([0] + cuts + [n]).tolist())
            cur = da.from_array(a, chunks=tuple(ch))
        try:
            for b in bs:
                cur = bin_image(cur, b)
            out = np.moveaxis(np.asarray(cur), axis, 2)
            got = " ".join(C.rat_str(x) for x in out.reshape(-1)) if out.shape[:2] == (1, 1) else f"shape {out.shape}"
        except Exception as e:  # noqa: BLE001
            got = "error " + type(e).__name__
        stats["axis_histories"] += 1
        stats["axis_remainders"] += any(n % b for b in bs)
        lines.append(f"m:binaxis {k} " + " ".join(map(str, bs)) + (" " if n else "") + " ".join(C.rat_str(x) for x in xs))
        impl.append(got)
    return lines, impl, stats


# ------------------------------------------------------------------------------------------
def _blocksum(a, b):
    n = [s // b for s in a.shape]
    a = a[: n[0] * b, : n[1] * b, : n[2] * b]
    return a.reshape(n[0], b, n[1], b, n[2], b).sum(axis=(1, 3, 5))


def run_case(inp):
    import dask
    import dask.array as da
    from acryo import SubtomogramLoader, BatchLoader, Molecules
    r = np.random.default_rng(inp["seed"])
    b, n, scale = inp["b"], inp["n"], float(inp["scale"])
    viols = []

    def V(clause, desc):
        viols.append({"clause": clause, "desc": desc, "input": dict(inp)})

    shape = tuple(inp["shape"])
    ntomo = inp["ntomo"]
    tomos = [r.integers(-5, 6, size=shape).astype(np.float32) for _ in range(ntomo)]
    # molecule positions on the binned grid: binned pixel coordinate u integer (odd n) or half-integer (even n)
    nb = [s // b for s in shape]
    half = n // 2 + 1
    us = []
    for _ in range(inp["nmol"]):
        u = np.array([r.integers(half, max(half + 1, nb[d] - half)) for d in range(3)], dtype=float)
        if n % 2 == 0:
            u = u - 0.5
        us.append(u)
    us = np.array(us)
    pos_px = b * us + (b - 1) / 2            # original pixel coordinates of the same physical points
    pos = pos_px * scale

    def wrap(a, t=0):
        if inp.get("mixed") and t % 2 == 0:
            return a                      # numpy and dask tomograms in the same batch
        if not inp["chunks"]:
            return a
        ch = inp["chunks"]
        if inp.get("irregular"):
            # a first chunk that is not a multiple of the bin size although the largest chunk is
            # (what a lazily cropped or concatenated tomogram looks like)
            lead = 2 * b if inp.get("irregular") == "inner" else 0      # "inner": a divisible first chunk, then the odd one
            ch = tuple(((lead,) if 0 < lead < s - b - 1 else ()) + (min(b + 1, s - (lead if 0 < lead < s - b - 1 else 0)),)
                       + tuple([2 * b] * ((s - (lead if 0 < lead < s - b - 1 else 0) - min(b + 1, s - (lead if 0 < lead < s - b - 1 else 0))) // (2 * b)))
                       + (((s - (lead if 0 < lead < s - b - 1 else 0) - min(b + 1, s - (lead if 0 < lead < s - b - 1 else 0))) % (2 * b),)
                          if (s - (lead if 0 < lead < s - b - 1 else 0) - min(b + 1, s - (lead if 0 < lead < s - b - 1 else 0))) % (2 * b) else ())
                       for s in a.shape)
            assert all(sum(c) == s for c, s in zip(ch, a.shape)), (ch, a.shape)
            return da.from_array(a, chunks=ch)
        return da.from_array(a, chunks=tuple(ch))

    with dask.config.set(scheduler="synchronous"):
        try:
            if inp["kind"] == "single":
                ld = SubtomogramLoader(wrap(tomos[0], 1), Molecules(pos), order=inp["order"], scale=scale,
                                       output_shape=(n,) * 3)
                ids = [0] * len(us)
            else:
                ld = BatchLoader(order=inp["order"], scale=scale, output_shape=(n,) * 3)
                ids = [i % ntomo for i in range(len(us))]
                names = [f"TS_{t + 1:02d}" for t in range(ntomo)] if inp.get("named") else list(range(ntomo))
                for t in range(ntomo):
                    sel = [i for i in range(len(us)) if ids[i] == t]
                    ld.add_tomogram(wrap(tomos[t], t), Molecules(pos[sel]), names[t])
                ids = sorted(ids)
                order_idx = [i for t in range(ntomo) for i in range(len(us)) if i % ntomo == t]
                pos_px = pos_px[order_idx]
                if inp.get("shuffle"):
                    # molecules of the tomograms interleaved (a batch after sort / sample / replace)
                    perm = np.random.default_rng(inp["seed"] + 5).permutation(len(order_idx))
                    ld = ld.replace(molecules=ld.molecules.subset(perm))
                    pos_px = pos_px[perm]
                    ids = [ids[int(k)] for k in perm]
            lb = ld.binning(b, compute=inp["compute"])
        except Exception as e:  # noqa: BLE001
            V("no-error", f"binning({b}, compute={inp['compute']}) raised {type(e).__name__}: {str(e)[:120]}")
            return viols
        if abs(lb.scale - scale * b) > 1e-9:
            V("scale", f"binned scale {lb.scale} != {scale * b}")
        if inp["kind"] != "single":
            if sorted(map(str, lb.images.keys())) != sorted(map(str, names)):
                V("image-ids", f"binned batch has images {sorted(map(str, lb.images.keys()))}, the batch had {sorted(map(str, names))}")
                return viols
            if not (np.abs(lb.molecules.pos - (pos_px - (b - 1) / 2) / b * (scale * b)).max() <= 1e-3 * scale * b):
                V("same-region", "molecule i of the binned batch is not molecule i of the batch (positions differ)")
                return viols
        imgs = [lb.image] if inp["kind"] == "single" else [lb.images[names[t]] for t in range(ntomo)]
        for t, im in enumerate(imgs):
            im = np.asarray(im)
            want = _blocksum(tomos[t], b)
            if im.shape != want.shape or not np.array_equal(im, want):
                V("blocksum", f"binned image is not the {b}x{b}x{b} block sum of image[:n*b] "
                              f"(shape {im.shape} vs {want.shape})")
                return viols
        try:
            small = np.asarray(lb.asnumpy())
            big = np.asarray(ld.asnumpy(output_shape=(n * b,) * 3))
        except Exception as e:  # noqa: BLE001
            V("no-error", f"loading raised {type(e).__name__}: {str(e)[:120]}")
            return viols
        for i in range(len(small)):
            want = _blocksum(big[i], b)
            if not np.allclose(small[i], want, rtol=1e-5, atol=1e-3):
                V("same-region", f"molecule {i}: binned subtomogram differs from the block sum of the {b}x larger "
                                 f"original subtomogram by {np.abs(small[i] - want).max():.4g}")
                break
        # binning twice is binning once by the product (images, poses and scale)
        if b in (2, 3):
            b2 = 2
            try:
                twice = lb.binning(b2, compute=inp["compute"])
                once = ld.binning(b * b2, compute=inp["compute"])
            except Exception as e:  # noqa: BLE001
                V("no-error", f"binning({b}).binning({b2}) raised {type(e).__name__}: {str(e)[:120]}")
                return viols
            if abs(twice.scale - once.scale) > 1e-9 or np.abs(twice.molecules.pos - once.molecules.pos).max() > 1e-4 * scale:
                V("composition", f"binning({b}).binning({b2}) and binning({b * b2}) give different scales / positions")
            im2 = [twice.image] if inp["kind"] == "single" else [twice.images[names[t]] for t in range(ntomo)]
            im1 = [once.image] if inp["kind"] == "single" else [once.images[names[t]] for t in range(ntomo)]
            for x, y in zip(im2, im1):
                x, y = np.asarray(x), np.asarray(y)
                if x.shape != y.shape or not np.array_equal(x, y):
                    V("composition", f"binning({b}).binning({b2}) image differs from binning({b * b2}) (shapes {x.shape}, {y.shape})")
                    break
    return viols


def oracle(rng, thorough, deep=False, hints=None):
    big = thorough or deep
    cases = []
    for it in range(36 if big else 12):
        b = (it % 6) + 1
        n = int(rng.choice([3, 4, 5]))
        # image large enough for a b*n box around an interior binned voxel, not necessarily divisible by b
        shape = [int(b * (n + 4) + rng.integers(0, b + 2)) for _ in range(3)]
        kind = "single" if it % 3 else "batch"
        chunks = None
        if it % 2:
            chunks = [int(rng.choice([max(2, s // 2), 16, 15, s])) for s in shape]
        cases.append(dict(kind=kind, ntomo=1 if kind == "single" else 2, b=b, n=n, shape=shape,
                          scale=float(rng.choice([1.0, 0.5, 1.625])), order=int(rng.choice([0, 1])),
                          nmol=3, chunks=chunks, compute=bool((it // 2) % 2), seed=int(rng.integers(0, 10 ** 6)),
                          mixed=bool(kind == "batch" and chunks is not None and it % 4 == 3),
                          irregular=bool(chunks is not None and it % 3 == 1)))
    # always: a batch with a numpy tomogram registered before a dask one, computed; irregular chunks
    for b, comp in ((2, True), (3, True)):
        n = 3
        shape = [b * (n + 4) + 1] * 3
        cases.append(dict(kind="batch", ntomo=2, b=b, n=n, shape=shape, scale=1.0, order=0, nmol=4, chunks=[16, 16, 16],
                          compute=comp, seed=int(rng.integers(0, 10 ** 6)), mixed=True, irregular=False))
        cases.append(dict(kind="single", ntomo=1, b=b, n=n, shape=shape, scale=0.5, order=1, nmol=3, chunks=[16, 16, 16],
                          compute=False, seed=int(rng.integers(0, 10 ** 6)), mixed=False, irregular=True))
    # always: an odd INNER chunk behind a divisible first one; batches with named image ids and interleaved molecules
    for b in (3, 2):
        n = 3
        shape = [b * (n + 6) + 2] * 3
        cases.append(dict(kind="single", ntomo=1, b=b, n=n, shape=shape, scale=1.0, order=0, nmol=3, chunks=[16, 16, 16],
                          compute=bool(b % 2), seed=int(rng.integers(0, 10 ** 6)), mixed=False, irregular="inner"))
        cases.append(dict(kind="batch", ntomo=2, b=b, n=n, shape=shape, scale=[1.0, 0.5][b % 2], order=0, nmol=5, chunks=None if b == 2 else [16, 16, 16],
                          compute=bool(b % 2), seed=int(rng.integers(0, 10 ** 6)), mixed=False, irregular="inner" if b == 3 else False,
                          named=bool(b == 2), shuffle=True))
        cases.append(dict(kind="batch", ntomo=3, b=b, n=n, shape=shape, scale=1.0, order=1, nmol=6, chunks=None,
                          compute=False, seed=int(rng.integers(0, 10 ** 6)), mixed=False, irregular=False, named=True, shuffle=False))
    viols, stats = [], {"by_b": {}, "dask": 0, "batch": 0, "samples": [{"oracle_case": c} for c in cases[:2]]}
    for c in cases:
        stats["by_b"][c["b"]] = stats["by_b"].get(c["b"], 0) + 1
        stats["dask"] += c["chunks"] is not None
        stats["batch"] += c["kind"] == "batch"
        viols += run_case(c)
    return len(cases), viols, stats


def replay(payload):
    v = run_case(dict(payload["input"]))
    return {"violated": bool(v), "violations": v}
