"""C16 — Low-pass filtering is a real, linear, zero-phase Butterworth filter."""
from __future__ import annotations

from fractions import Fraction

import numpy as np

import common as C

PROP = "C16"
LEAN_MODULES = ["AcryoVerif.Props.C16"]
LEAN_SUPPORT = ["AcryoVerif.Lemmas.PyLemmas", "AcryoVerif.Model.Lowpass", "AcryoVerif.Model.Wedge"]
_NM = ["Utils", "Backend"]
KERNELS = ([f"bwRange{n}" for n in _NM] + [f"bwUsesIfftshift{n}" for n in _NM]
           + [f"bwAxisValue{n}" for n in _NM] + [f"bwLimit{n}" for n in _NM]
           + [f"bwWeight{n}" for n in _NM]
           + [f"lpGuard{n}_{s}" for n in _NM for s in ("lp", "lp_ft")]
           + [f"lpIrfftnHasShape{n}" for n in _NM])
TRUSTED = [
    "Lean 4.33 kernel; axioms propext / Classical.choice / Quot.sound only",
    "translator/py2lean.py + Py.lean, self-checked against CPython each run",
    "scipy.fft: rfftn/irfftn/fftn are the DFT with fftfreq index order; irfftn without s= returns "
    "last-axis length 2(m-1) (modelled as Model.rfftLen / outLastLen, not verified)",
    "np.arange / ifftshift / meshgrid(sparse) / broadcasting add (modelled as Model.axisSq, "
    "weightAt; sampled by the correspondence)",
]
ASSUMPTIONS = [
    "weights are compared with the exact rational model to 2e-6 (the implementation works in float32)",
    "np.sqrt(img.ndim) enters the guard as the float the code computes",
]
EXPLANATION = (
    "Theorems (every d >= 1, odd or even): per-axis vector = (fftfreq(d)/cutoff)^2, weight = "
    "1/(1+(|f|^2/cutoff^2)^order), weight(0)=1, weight symmetric under k -> -k (all bins), weight in "
    "(0,1], half-spectrum limit = d//2+1, output last axis = d, identity guard exact, the two copies "
    "are the same function. Tie: all pieces regenerated from both source files; weights, output "
    "shapes and guard decisions compared with the real functions; frequency response of all entry "
    "points measured against fftfreq.")
SAMPLE_OBLIGATIONS = [
    {"theorem": "C16.axis_grid", "statement": "axisSq d cutoff i = (freqIdx d i / (d*cutoff))^2"},
    {"theorem": "C16.shape_preserved", "statement": "outLastLen d = d for every d >= 1"},
]


def k1_grids(rng, thorough):
    g = {}
    for n in _NM:
        g[f"bwRange{n}"] = [[d] for d in range(1, 20)]
        g[f"bwLimit{n}"] = [[d] for d in range(1, 20)]
        g[f"bwAxisValue{n}"] = [[k, d, Fraction(c, 8)] for k in range(-4, 5) for d in (1, 2, 4, 8)
                                for c in (1, 2, 4)]
        g[f"bwWeight{n}"] = [[Fraction(q, 4), o] for q in range(0, 12) for o in (1, 2, 3)]
        for s in ("lp", "lp_ft"):
            g[f"lpGuard{n}_{s}"] = [[Fraction(c, 16), Fraction(float(np.sqrt(nd)))]
                                    for c in range(-4, 20) for nd in (1, 2, 3)]
    return g


def _impl_weight(copy, shape, cutoff, order, real):
    if copy == "utils":
        from acryo._utils import nd_butterworth_weight as f
        return np.asarray(f(tuple(shape), cutoff, order, real))
    from acryo.backend._bandpass import nd_butterworth_weight as f
    from acryo.backend import Backend
    return np.asarray(f(tuple(shape), cutoff, order, real, Backend()))


def _entry(copy):
    if copy == "utils":
        from acryo import _utils as U
        return U.lowpass_filter
    from acryo.backend import Backend
    return Backend().lowpass_filter


def correspondence(rng, thorough):
    lines, impl = [], []
    stats = {"weights": 0, "shapes": 0, "guard": 0, "odd_last": 0}
    n = 40 if thorough else 14
    for it in range(n):
        shape = [int(x) for x in rng.integers(1, 7, size=3)]
        cutoff = float(rng.choice([0.125, 0.25, 0.3125, 0.5, 0.75]))
        order = int(rng.choice([1, 2, 3]))
        real = bool(it % 2)
        copy = ["utils", "backend"][(it // 2) % 2]
        w = _impl_weight(copy, shape, cutoff, order, real)
        lines.append(f"m:bw_{copy} {shape[0]} {shape[1]} {shape[2]} {C.rat_str(cutoff)} {order} {int(real)}")
        impl.append(" ".join(map(str, w.shape)) + " | " + " ".join(repr(float(x)) for x in w.reshape(-1)))
        stats["weights"] += 1
    for it in range(n):
        shape = [int(x) for x in rng.integers(1, 9, size=3)]
        copy = ["utils", "backend"][it % 2]
        img = rng.normal(size=shape).astype(np.float32)
        out = np.asarray(_entry(copy)(img, 0.25))
        lines.append(f"m:lpShape_{copy} {shape[0]} {shape[1]} {shape[2]}")
        impl.append(C.canon(tuple(int(x) for x in out.shape)))
        stats["shapes"] += 1
        stats["odd_last"] += shape[2] % 2
    for it in range(n):
        cutoff = float(rng.choice([-1.0, 0.0, 0.25, 0.5, 0.75, 0.8125, 0.875, 1.0, 2.0]))
        copy = ["utils", "backend"][it % 2]
        img = rng.normal(size=(4, 4, 4)).astype(np.float32)
        out = _entry(copy)(img, cutoff)
        ident = bool(np.array_equal(np.asarray(out), img))
        lines.append(f"m:lpGuard_{copy} {C.rat_str(cutoff)} {C.rat_str(float(0.5 * np.sqrt(3)) * 2)}")
        impl.append(C.canon(ident))
        stats["guard"] += 1
    return lines, impl, stats


def k2_post(line, impl_out, model_out):
    if not line.startswith("m:bw_"):
        return impl_out, model_out
    try:
        ish, ivals = impl_out.split(" | ")
        msh, mvals = model_out.split(" | ")
        if ish != msh:
            return impl_out, model_out
        a = np.array([float(x) for x in ivals.split()])
        b = np.array([float(Fraction(x)) for x in mvals.split()])
        if a.shape == b.shape and np.abs(a - b).max() <= 2e-6:
            return "weights-agree " + ish, "weights-agree " + msh
        return f"weights {ish} maxdiff={np.abs(a - b).max():.3g}", "weights " + msh
    except Exception:  # noqa: BLE001
        return impl_out, model_out


# ------------------------------------------------------------------------------------------
def _apply(entry, img, cutoff, order):
    from acryo import _utils as U
    from acryo.backend import Backend
    if entry == "utils":
        return np.asarray(U.lowpass_filter(img, cutoff, order))
    if entry == "backend":
        return np.asarray(Backend().lowpass_filter(img, cutoff, order))
    if entry == "pipe":
        from acryo import pipe
        return np.asarray(pipe.lowpass_filter(cutoff, order)(img, 1.3))
    if entry == "utils_ft":
        return np.asarray(U.lowpass_filter_ft(img, cutoff, order))
    if entry == "backend_ft":
        return np.asarray(Backend().lowpass_filter_ft(img, cutoff, order))
    if entry == "model":
        from acryo.alignment import ZNCCAlignment
        m = ZNCCAlignment(np.ones(img.shape, dtype=np.float32), cutoff=cutoff)
        return np.asarray(m.pre_transform(img, Backend()))
    raise ValueError(entry)


def _history(ops, img, cutoff, order):
    """Earlier calls in the same process that share the (shape, cutoff, order) cache key."""
    from acryo import _utils as U
    from acryo.backend import Backend
    from acryo import pipe
    for op in ops:
        try:
            if op == "hp":
                U.highpass_filter(img, cutoff, order)
            elif op == "hp_ft":
                U.highpass_filter_ft(img, cutoff, order)
            elif op == "pipe_hp":
                pipe.highpass_filter(cutoff, order)(img, 1.3)
            elif op == "backend_hp":
                Backend().highpass_filter(img, cutoff, order)
            elif op == "lp":
                U.lowpass_filter(img, cutoff, order)
            elif op == "lp_ft":
                U.lowpass_filter_ft(img, cutoff, order)
        except Exception:  # noqa: BLE001  (the history is context, not the property under test)
            pass


def run_case(inp):
    shape = tuple(inp["shape"])
    cutoff, order, entry = float(inp["cutoff"]), int(inp["order"]), inp["entry"]
    r = np.random.default_rng(inp["seed"])
    img = r.normal(size=shape).astype(np.float32) + 0.7
    if inp.get("dtype"):
        # raw-count images and binary masks are filtered as the real numbers they hold
        img = (np.round(img * 20) > 10) if inp["dtype"] == "bool" else np.round(img * 20 + (60 if inp["dtype"] == "uint8" else 0)).astype(inp["dtype"])
    viols = []

    def V(clause, desc):
        viols.append({"clause": clause, "desc": desc, "input": dict(inp)})

    if entry == "model" and order != 2:
        order = 2
    try:
        _history(inp.get("history", []), img, cutoff, order)
        out = _apply(entry, img, cutoff, order)
    except Exception as e:  # noqa: BLE001
        V("no-error", f"{type(e).__name__}: {e}")
        return viols
    is_ft = entry in ("utils_ft", "backend_ft", "model")
    if out.shape != shape:
        V("shape", f"output shape {out.shape} != input shape {shape} ({entry})")
        return viols
    if not is_ft and np.iscomplexobj(out):
        V("real", "real-space filter returned a complex array")
    if not np.all(np.isfinite(out)):
        V("finite", f"filter output has {int(np.sum(~np.isfinite(out)))} non-finite values for a finite input "
                    f"({entry}, cutoff {cutoff}, order {order})")
        return viols
    identity = cutoff <= 0 or cutoff >= 0.5 * np.sqrt(3)
    f = np.meshgrid(*[np.fft.fftfreq(s) for s in shape], indexing="ij")
    f2 = sum(x ** 2 for x in f)
    gain = np.ones(shape) if identity else 1.0 / (1.0 + (f2 / cutoff ** 2) ** order)
    spec_in = np.fft.fftn(img.astype(np.float64))
    spec_out = out.astype(np.complex128) if is_ft else np.fft.fftn(out.astype(np.float64))
    expect = gain * spec_in
    err = np.abs(spec_out - expect).max() / (np.abs(spec_in).max() + 1e-12)
    if not (err <= 2e-4):
        V("gain", f"spectrum differs from 1/(1+(|f|/cutoff)^(2*order)) * input by {err:.3g} "
                  f"({entry}, shape {shape}, {'odd' if any(s % 2 for s in shape) else 'even'}"
                  + (f", after {inp['history']} with the same shape/cutoff/order" if inp.get("history") else "") + ")")
    if not is_ft:
        if not (abs(float(out.mean()) - float(img.mean())) <= 1e-4 * (1 + abs(float(img.mean())))):
            V("mean", f"mean changed from {img.mean():.6g} to {out.mean():.6g}")
        img2 = r.normal(size=shape).astype(np.float32)
        if inp.get("dtype"):
            return viols            # (linear combinations leave the integer type)
        lin = _apply(entry, (2.0 * img + 0.5 * img2).astype(np.float32), cutoff, order)
        comb = 2.0 * out + 0.5 * _apply(entry, img2, cutoff, order)
        if lin.shape == comb.shape and not (np.abs(lin - comb).max() <= 1e-3):
            V("linear", f"filter is not linear: {np.abs(lin - comb).max():.3g}")
    return viols


def oracle(rng, thorough, deep=False, hints=None):
    n = 120 if (thorough or deep) else 36
    entries = ["utils", "backend", "pipe", "utils_ft", "backend_ft", "model"]
    fixed = [(7, 7, 7), (6, 6, 6), (5, 6, 7), (8, 5, 4), (1, 1, 1), (1, 4, 3), (4, 4, 9)]
    cases = []
    for it in range(n):
        shape = fixed[it % len(fixed)] if it < 3 * len(fixed) else tuple(int(x) for x in rng.integers(1, 11, size=3))
        cases.append(dict(shape=list(shape), cutoff=float(rng.choice([0.1, 0.2, 0.35, 0.5, 0.8, 0.9, 0.0, -0.5, 1.5])),
                          order=int(rng.choice([1, 2, 3])), entry=entries[it % len(entries)],
                          seed=int(rng.integers(0, 10000)),
                          history=[["hp", "hp_ft", "pipe_hp", "backend_hp", "lp", "lp_ft"][int(k)]
                                   for k in rng.integers(0, 6, size=int(rng.integers(1, 4)))] if it % 2 else []))
    # sides with large prime factors (FFT-unfriendly lengths) and long axes (index arithmetic beyond 8/16-bit ranges)
    awkward = [(13, 6, 5), (6, 17, 4), (5, 4, 26), (19, 13, 23), (2, 3, 364), (2, 400, 3), (512, 2, 2), (1, 1, 1031),
               (3, 2, 131), (37, 1, 2), (2, 259, 2), (1, 70000, 1)]
    for it, shape in enumerate(awkward if (thorough or deep) else awkward[:8]):
        for entry in (entries if it < 8 else entries[:2]):
            cases.append(dict(shape=list(shape), cutoff=float(rng.choice([0.2, 0.35, 0.5])), order=int(rng.choice([1, 2])),
                              entry=entry, seed=int(rng.integers(0, 10000)), history=[]))
    for it, dt in enumerate(["int16", "uint8", "bool", "int8", "float64", "int32"][: 6 if (thorough or deep) else 4]):
        for entry in ("pipe", "utils", "backend"):
            cases.append(dict(shape=[7, 6, 8], cutoff=float(rng.choice([0.2, 0.35])), order=2, entry=entry, dtype=dt,
                              seed=int(rng.integers(0, 10000)), history=[]))
    # always: a high-pass call with the same (shape, cutoff, order) right before the low-pass under test
    for hist, entry in ((["hp"], "utils"), (["pipe_hp"], "pipe"), (["hp_ft"], "utils_ft"), (["backend_hp"], "backend"),
                        (["hp", "lp", "hp", "hp"], "utils"), (["hp"], "pipe")):
        cases.append(dict(shape=[7, 8, 6], cutoff=float(rng.choice([0.2, 0.35])), order=2, entry=entry,
                          seed=int(rng.integers(0, 10000)), history=hist))
    # always: very sharp, very narrow filters -- (f/cutoff)^(2*order) leaves the float32 range in both directions
    # (cutoff^(2*order) underflows, (f/cutoff)^(2*order) overflows); the gain is still 1 at DC and ~0 elsewhere
    for (cut, order), entry in zip([(0.01, 12), (0.02, 14), (0.005, 10), (0.01, 12), (0.9, 40), (0.02, 14)],
                                   ["utils", "backend", "pipe", "utils_ft", "utils", "backend_ft"]):
        cases.append(dict(shape=[6, 7, 8], cutoff=cut, order=order, entry=entry, seed=int(rng.integers(0, 10000)), history=[]))
    cases.append(dict(shape=[6, 6, 6], cutoff=1e-12, order=2, entry="model", seed=int(rng.integers(0, 10000)), history=[]))
    viols, stats = [], {"by_entry": {}, "samples": [{"oracle_case": c} for c in cases[:2]]}
    for c in cases:
        stats["by_entry"][c["entry"]] = stats["by_entry"].get(c["entry"], 0) + 1
        viols += run_case(c)
    return len(cases), viols, stats


def replay(payload):
    v = run_case(dict(payload["input"]))
    return {"violated": bool(v), "violations": v}
