"""C09 — Averages are plain arithmetic means of the loaded subtomograms."""
from __future__ import annotations

import numpy as np

import common as C

PROP = "C09"
LEAN_MODULES = ["AcryoVerif.Props.C09", "AcryoVerif.Props.C09Array"]
LEAN_SUPPORT = ["AcryoVerif.Model.Split"]
KERNELS = ["splitDraws", "splitterComplementary", "splitLoopLoader", "splitLoopGroup", "splitSqueeze", "averageIsPlainMean"]
TRUSTED = [
    "Lean 4.33 kernel; axioms propext / Classical.choice / Quot.sound only",
    "structure of random_splitter / average_split read from the AST (specs.py patterns); number of "
    "draws translated by py2lean",
    "numpy Generator.choice returns indices in [0, n) (the draws are a parameter of the model); "
    "boolean-mask indexing, da.stack / mean / rechunk compute what numpy computes (sampled)",
]
ASSUMPTIONS = ["averages are compared with float32 tolerance 1e-5 relative in the oracle; integer-valued "
               "tomograms with order 0 make them exact"]
EXPLANATION = (
    "Theorems: mean of a concatenation = count-weighted mean (2 parts and any number of parts); for "
    "every n >= 2 and every draw list the two masks are disjoint, exhaustive and both non-empty; "
    "count-weighted mean of the half averages = full average; determinism in the draw stream; squeeze "
    "rule. K2: random_splitter driven by a stub generator with prescribed draws vs the model masks. "
    "Oracle: single / batch (interleaved ids) / group / mock loaders, several chunkings: average = "
    "mean of loaded subtomograms, batch = weighted mean, group = per-group, split membership decoded "
    "from marker-valued half maps.")
SAMPLE_OBLIGATIONS = [
    {"theorem": "C09.split_nonempty", "statement": "n >= 2 -> both masks contain a True, for every draw list"},
    {"theorem": "C09.split_recombines", "statement": "count-weighted mean of half averages = full mean"},
]


def k1_grids(rng, thorough):
    return {"splitDraws": [[n] for n in range(0, 40)],
            "splitSqueeze": [[b, k] for b in (True, False) for k in (0, 1, 2, 3)]}


class _StubRng:
    def __init__(self, draws):
        self.draws = list(draws)

    def choice(self, arr, size=None, *a, **kw):
        k = int(size)
        out = np.array(self.draws[:k], dtype=np.int64)
        assert len(out) == k, "not enough prescribed draws"
        return out


def correspondence(rng, thorough):
    from acryo.loader._misc import random_splitter
    lines, impl, stats = [], [], {"n1": 0, "with_repeats": 0, "cases": 0}
    for n in list(range(1, 14)) * (3 if thorough else 1):
        draws = [int(x) for x in rng.integers(0, n, size=n)]
        if n > 3 and rng.integers(0, 2):
            draws[1] = draws[0]
        used = draws[: n // 2]
        stats["with_repeats"] += len(set(used)) < len(used)
        stats["n1"] += n == 1
        stats["cases"] += 1
        i0, i1 = random_splitter(_StubRng(draws), n)
        lines.append(f"m:split {n} " + " ".join(map(str, draws)))
        impl.append("".join("1" if b else "0" for b in i0) + " " + "".join("1" if b else "0" for b in i1))
    # array level (C09Array): the real average_split of a real loader with a prescribed draw stream; the half maps
    # (means of integer-valued blocks of 2..8 images) are compared as round(840 * value) = 840 * exact mean
    import dask
    import dask.array as da
    from unittest import mock
    from acryo import SubtomogramLoader, Molecules
    stats["avgsplit"] = {"cases": 0, "n_set_gt1": 0, "dask": 0}

    class _SeqRng:                     # one generator for the whole call: every choice() consumes its draws
        def __init__(self, draws):
            self.draws = list(draws)

        def choice(self, arr, size=None, *a, **kw):
            k = int(size)
            out, self.draws = self.draws[:k], self.draws[k:]
            assert len(out) == k
            return np.array(out, dtype=np.int64)

    for it in range(18 if thorough else 8):
        n = int(rng.integers(2, 9))
        nset = int([1, 2, 3, 2][it % 4])
        tomo = rng.integers(-9, 10, size=(12, 12, 14)).astype(np.float32)
        corners = [(int(rng.integers(1, 9)), int(rng.integers(1, 9)), int(rng.integers(1, 11))) for _ in range(n)]
        pos = np.array(corners, dtype=np.float32) + 0.5          # 2x2x2 boxes at grid-coincident positions
        stream = [int(x) for x in rng.integers(0, n, size=nset * (n // 2))]
        img = da.from_array(tomo, chunks=(5, 6, 7)) if it % 2 else tomo
        ld = SubtomogramLoader(img, Molecules(pos), order=0, output_shape=(2, 2, 2))
        try:
            with dask.config.set(scheduler="synchronous"), mock.patch("numpy.random.default_rng", lambda seed=None: _SeqRng(stream)):
                hs = np.asarray(ld.average_split(n_set=nset, seed=0, squeeze=False))
            got = " ; ".join(" | ".join(" ".join(str(int(round(float(x) * 840))) for x in hs[s_, h_].reshape(-1)) for h_ in (0, 1))
                             for s_ in range(hs.shape[0])) if hs.shape[1:] == (2, 2, 2, 2) else f"shape {hs.shape}"
        except Exception as e:  # noqa: BLE001
            got = "error " + type(e).__name__ + " " + str(e)[:60]
        blocks = [tomo[z:z + 2, y:y + 2, x:x + 2].reshape(-1) for z, y, x in corners]
        stats["avgsplit"]["cases"] += 1
        stats["avgsplit"]["n_set_gt1"] += nset > 1
        stats["avgsplit"]["dask"] += it % 2
        lines.append(f"m:avgsplit 8 {n} {nset} {len(stream)} " + " ".join(map(str, stream)) + (" " if stream else "")
                     + " ".join(C.rat_str(x) for b in blocks for x in b))
        impl.append(got)
    return lines, impl, stats


# ------------------------------------------------------------------------------------------
def _scenario(inp):
    """Build tomograms whose subtomograms carry a unique power-of-two marker at the box centre."""
    import dask.array as da
    from acryo import SubtomogramLoader, BatchLoader, Molecules
    r = np.random.default_rng(inp["seed"])
    n = inp["n"]
    ntomo = inp["ntomo"]
    box = inp["box"]
    tomos, poss = [], []
    per = [[] for _ in range(ntomo)]
    order_ids = [int(x) for x in (r.permutation(n) % ntomo)] if inp["interleave"] else sorted(int(x) for x in (np.arange(n) % ntomo))
    grid = [(z, y, x) for z in (5, 11, 17) for y in (5, 11, 17) for x in (5, 11)]
    for t in range(ntomo):
        tomos.append(r.integers(-3, 4, size=(23, 23, 17)).astype(np.float32))
    slot = [0] * ntomo
    mol_pos, mol_id = [], []
    for i in range(n):
        t = order_ids[i]
        p = grid[slot[t]]
        slot[t] += 1
        tomos[t][p] = float(2 ** i)            # marker: molecule i <-> 2**i at the box centre voxel
        tomos[t][p[0], p[1], p[2] + 1] = float(3 ** i)   # second channel resolves decoding ambiguities
        mol_pos.append(p)
        mol_id.append(t)
    mol_pos = np.array(mol_pos, dtype=np.float32)
    chunks = inp["chunks"]

    def wrap(a):
        return da.from_array(a, chunks=chunks) if chunks else a

    if inp["kind"] == "single":
        assert ntomo == 1
        return SubtomogramLoader(wrap(tomos[0]), Molecules(mol_pos, features={"g": ((2 * np.arange(n) + 2) % 3)}),     # first appearances 2, 1, 0
                                 order=0, output_shape=(box,) * 3), tomos, mol_pos, mol_id
    b = BatchLoader(order=0, output_shape=(box,) * 3)

    def mols(t):
        sel = [i for i in range(n) if mol_id[i] == t]
        return Molecules(mol_pos[sel], features={"tag": sel, "g": [(2 * i + 2) % 3 for i in sel]})
    if inp.get("merge_history") and ntomo >= 3:
        # the batch as the result of a history: automatic ids, a tomogram that loses all its molecules (the id
        # table gets a gap) and a second batch merged in with add_loader -- the same molecules in the same tomograms
        import polars as pl
        b.add_tomogram(wrap(tomos[0]), mols(0))
        b.add_tomogram(np.full_like(tomos[0], 777.0), Molecules(np.array([[5.0, 5.0, 5.0]], dtype=np.float32),
                                                              features={"tag": [-1], "g": [0]}))
        b.add_tomogram(wrap(tomos[1]), mols(1))
        b = b.filter(pl.col("tag") >= 0)
        other = BatchLoader(order=0, output_shape=(box,) * 3)
        for t in range(2, ntomo):
            other.add_tomogram(wrap(tomos[t]), mols(t))
        b.add_loader(other)
    else:
        for t in range(ntomo):
            b.add_tomogram(wrap(tomos[t]), mols(t), t)
    if inp["interleave"]:
        b = b.replace(molecules=b.molecules.sort("tag"))
    return b, tomos, mol_pos, mol_id


def _decode(center_value, second_value, n):
    """half-map centre value = sum_{i in half} 2**i / |half| and its x-neighbour = sum 3**i / |half|
    ->  the set of molecules in the half."""
    if not (np.isfinite(center_value) and np.isfinite(second_value)):
        return None
    for cnt in range(1, n + 1):
        tot = center_value * cnt
        k = int(round(tot))
        if abs(tot - k) < 0.02 and 0 < k < 2 ** n and bin(k).count("1") == cnt:
            members = {i for i in range(n) if (k >> i) & 1}
            want = sum(3 ** i for i in members)
            if abs(second_value * cnt - want) < 0.02 + 1e-6 * want:
                return members
    return None


def run_case(inp):
    import dask
    viols = []

    def V(clause, desc):
        viols.append({"clause": clause, "desc": desc, "input": dict(inp)})

    # "array.chunk-size": a small value makes the ("auto", ...) rechunking of the stack produce several
    # blocks of unequal length also for small stacks (the default 128 MiB needs thousands of molecules)
    cfg = {"scheduler": "synchronous"}
    if inp.get("chunk_size"):
        cfg["array.chunk-size"] = inp["chunk_size"]
    with dask.config.set(cfg):
        loader, tomos, mol_pos, mol_id = _scenario(inp)
        n, box = inp["n"], inp["box"]
        c = box // 2
        stack = np.asarray(loader.asnumpy())
        avg = np.asarray(loader.average())
        if stack.shape[0] != n:
            V("count", f"asnumpy returned {stack.shape[0]} subtomograms for {n} molecules")
            return viols
        if not np.allclose(avg, stack.mean(axis=0), rtol=1e-5, atol=1e-4):
            V("mean", f"average differs from the mean of the loaded subtomograms by {np.abs(avg - stack.mean(axis=0)).max():.4g}")
        # the true mean from the tomograms themselves (markers identify molecule <-> subtomogram)
        h = box // 2
        true = np.mean([tomos[mol_id[i]][tuple(slice(int(p) - h, int(p) - h + box) for p in mol_pos[i])]
                        for i in range(n)], axis=0)
        if box % 2 == 1 and not np.allclose(avg, true, rtol=1e-5, atol=1e-4):
            V("mean-true", f"average differs from the mean of the true blocks by {np.abs(avg - true).max():.4g}")
        if inp["kind"] == "batch":
            parts, counts = [], []
            for ld in loader.loaders:
                parts.append(np.asarray(ld.average()))
                counts.append(ld.count())
            if parts:
                w = sum(p * k for p, k in zip(parts, counts)) / sum(counts)
                if not np.allclose(avg, w, rtol=1e-5, atol=1e-4):
                    V("batch-weighted", f"batch average differs from the count-weighted mean of its tomograms by "
                                        f"{np.abs(avg - w).max():.4g}")
        # group averages
        grp = loader.groupby("g")
        ga = grp.average()
        for key, ld in grp:
            k = key[0] if isinstance(key, tuple) else key
            want = np.asarray(ld.average())
            got = ga.get(key, ga.get(k))
            if got is None or not np.allclose(got, want, rtol=1e-5, atol=1e-4):
                V("group", f"group average for key {key!r} differs from that group's own loader average")
        # split
        for n_set in inp["n_sets"]:
            for seed in inp["split_seeds"]:
                hs = np.asarray(loader.average_split(n_set=n_set, seed=seed, squeeze=False))
                hs2 = np.asarray(loader.average_split(n_set=n_set, seed=seed, squeeze=False))
                if hs.shape != (n_set, 2) + (box,) * 3:
                    V("split-shape", f"average_split shape {hs.shape}")
                    continue
                if not np.array_equal(hs, hs2, equal_nan=True):
                    V("split-seed", "average_split is not reproducible for a fixed seed")
                for s in range(n_set):
                    if n < 2:
                        continue
                    a = _decode(float(hs[s, 0, c, c, c]), float(hs[s, 0, c, c, c + 1]), n)
                    b = _decode(float(hs[s, 1, c, c, c]), float(hs[s, 1, c, c, c + 1]), n)
                    if a is None or b is None or not np.all(np.isfinite(hs[s])):
                        V("split-halves", f"set {s} (seed {seed}): a half map is empty or not a plain mean "
                                          f"(centres {hs[s, 0, c, c, c]!r}, {hs[s, 1, c, c, c]!r})")
                        continue
                    if a & b:
                        V("split-disjoint", f"set {s} (seed {seed}): molecules {sorted(a & b)} are in both halves")
                    if (a | b) != set(range(n)):
                        V("split-exhaustive", f"set {s} (seed {seed}): molecules {sorted(set(range(n)) - (a | b))} "
                                              f"are in neither half (sizes {len(a)}+{len(b)} of {n})")
                    w = (hs[s, 0] * len(a) + hs[s, 1] * len(b)) / (len(a) + len(b))
                    if a and b and not (a & b) and (a | b) == set(range(n)) and \
                            not np.allclose(w, avg, rtol=1e-5, atol=1e-3):
                        V("split-recombine", f"count-weighted mean of the half maps differs from the average by "
                                             f"{np.abs(w - avg).max():.4g}")
                sq = np.asarray(loader.average_split(n_set=n_set, seed=seed))
                if (n_set == 1 and sq.shape != (2,) + (box,) * 3) or (n_set > 1 and sq.shape != hs.shape):
                    V("split-shape", f"squeezed shape {sq.shape} for n_set={n_set}")
        if inp.get("group_split"):
            gs = grp.average_split(n_set=1, seed=3)
            for key, ld in grp:
                if ld.count() >= 2 and key not in gs:
                    V("group-split", f"group average_split has no entry for key {key!r}")
    return viols


def run_mock(inp):
    """MockLoader (template posed at each molecule, optional tilt-series noise): the same statements."""
    import dask
    import polars as pl
    from scipy.spatial.transform import Rotation
    from acryo import Molecules
    from acryo.loader import MockLoader
    viols = []

    def V(clause, desc):
        viols.append({"clause": clause, "desc": desc, "input": dict(inp)})

    r = np.random.default_rng(inp["seed"])
    n, box = int(inp["n"]), int(inp["box"])
    tmpl = r.normal(size=(box, box, box)).astype(np.float32)
    mole = Molecules(r.uniform(0, 10, size=(n, 3)), Rotation.random(n, random_state=inp["seed"]),
                     features={"g": [int(v) for v in r.integers(0, 3, size=n)]})
    kw = {}
    if inp["noise"] > 0 or inp["degrees"]:
        kw["degrees"] = np.linspace(-60, 60, 7)
    if inp.get("central_axis"):
        kw["central_axis"] = tuple(inp["central_axis"])
    with dask.config.set(scheduler="synchronous"):
        try:
            loader = MockLoader(tmpl, mole, noise=float(inp["noise"]), **kw)
            stack = np.asarray(loader.asnumpy())
            avg = np.asarray(loader.average())
        except Exception as e:  # noqa: BLE001
            V("no-error", f"MockLoader: {type(e).__name__}: {str(e)[:120]}")
            return viols
        if not np.allclose(avg, stack.mean(axis=0), rtol=1e-5, atol=1e-4):
            V("mean", f"MockLoader.average() differs from the mean of its subtomograms by {np.abs(avg - stack.mean(axis=0)).max():.4g}")
        grp = loader.groupby("g")
        ga = grp.average()
        for key, ld in grp:
            k = key[0] if isinstance(key, tuple) else key
            want = np.asarray(ld.average())
            got = ga.get(key, ga.get(k))
            if got is None or not np.allclose(got, want, rtol=1e-5, atol=1e-4):
                V("group", f"MockLoader (noise {inp['noise']}, axis {inp.get('central_axis')}): group average for key {key!r} "
                           f"differs from that group's own loader average")
        # (a group's split uses the group-level random stream, not the stream its own loader would use: only
        # reproducibility and shape are required of it)
        gs = grp.average_split(n_set=1, seed=3)
        gs2 = grp.average_split(n_set=1, seed=3)
        for key, ld in grp:
            if ld.count() < 2:
                continue
            k = key[0] if isinstance(key, tuple) else key
            a1, a2 = gs.get(key, gs.get(k)), gs2.get(key, gs2.get(k))
            if a1 is None or a2 is None or not np.array_equal(np.asarray(a1), np.asarray(a2), equal_nan=True):
                V("group-split", f"MockLoader: group average_split for key {key!r} is not reproducible for a fixed seed")
    return viols


def oracle(rng, thorough, deep=False, hints=None):
    big = thorough or deep
    cases = []
    for it in range(4 if big else 2):
        cases.append(dict(kind="mock", n=int(rng.integers(4, 12)), box=int([6, 7][it % 2]), noise=[0.5, 0.0, 1.0, 0.0][it % 4],
                          degrees=bool(it % 4 != 3), central_axis=[None, [0.0, 0.6, 0.8], [0.0, 1.0, 0.0], None][it % 4],
                          seed=int(rng.integers(0, 10 ** 6))))
    for it in range(24 if big else 8):
        kind = "single" if it % 2 == 0 else "batch"
        ntomo = 1 if kind == "single" else int(rng.integers(2, 4))
        n = int(rng.integers(2, 13)) if it % 7 else 1
        n = min(n, 6 * ntomo)
        cases.append(dict(kind=kind, ntomo=ntomo, n=n, box=int(rng.choice([3, 3, 5])),
                          interleave=bool(kind == "batch" and it % 4 == 1),
                          chunks=[None, (8, 8, 8), (23, 12, 5)][it % 3], seed=int(rng.integers(0, 10 ** 6)),
                          n_sets=[1, 3] if it % 3 == 0 else [1, 2], split_seeds=[0, int(rng.integers(1, 50))],
                          group_split=bool(it % 2)))
    # always: batches that are the result of a history (gapped id table, then add_loader of another batch)
    for it in range(2):
        nt = 3 + it
        cases.append(dict(kind="batch", ntomo=nt, n=int(rng.integers(2 * nt, 4 * nt)), box=3, interleave=bool(it),
                          chunks=[None, (8, 8, 8)][it], seed=int(rng.integers(0, 10 ** 6)), n_sets=[1], split_seeds=[0],
                          group_split=False, merge_history=True))
    # the stack split into several dask blocks of unequal length ("auto" chunks under a small chunk-size)
    for it in range(6 if big else 3):
        kind = "single" if it % 2 == 0 else "batch"
        ntomo = 1 if kind == "single" else 2
        box = 3
        n = [7, 11, 10, 5, 12, 9][it]
        n = min(n, 6 * ntomo + (6 if kind == "single" else 0))
        # one 3x3x3 float32 image is 108 bytes: blocks of 2 to 4 images
        cases.append(dict(kind=kind, ntomo=ntomo, n=min(n, 18 if kind == "single" else 12), box=box, interleave=bool(it % 4 == 1),
                          chunks=None, seed=int(rng.integers(0, 10 ** 6)), n_sets=[1], split_seeds=[0],
                          group_split=False, chunk_size=["300B", "450B", "250B"][it % 3]))
    viols, stats = [], {"by_kind": {}, "odd_n": 0, "samples": [{"oracle_case": c} for c in cases[:2]]}
    for c in cases:
        stats["by_kind"][c["kind"]] = stats["by_kind"].get(c["kind"], 0) + 1
        stats["odd_n"] += c["n"] % 2
        viols += run_mock(c) if c["kind"] == "mock" else run_case(c)
    return len(cases), viols, stats


def replay(payload):
    if payload["input"].get("kind") == "mock":
        v = run_mock(dict(payload["input"]))
        return {"violated": bool(v), "violations": v}
    v = run_case(dict(payload["input"]))
    return {"violated": bool(v), "violations": v}
