"""C08 — Missing-wedge masks follow the tilt geometry."""
from __future__ import annotations

import warnings
from fractions import Fraction

import numpy as np

import common as C

PROP = "C08"
LEAN_MODULES = ["AcryoVerif.Props.C08"]
LEAN_SUPPORT = ["AcryoVerif.Lemmas.PyLemmas", "AcryoVerif.Model.Wedge"]
_NM = ["Tilt", "Backend", "Utils"]
KERNELS = ([f"indicesOffset{n}" for n in _NM] + [f"indicesUsesFftshift{n}" for n in _NM]
           + [f"wedgeScaleBeforeRot{n}" for n in _NM + ["TiltNorms"]]
           + [f"wedgeScaleIsDiv{n}" for n in _NM + ["TiltNorms"]]
           + [f"wedgePredicate{n}" for n in _NM] + ["tiltSelect", "tiltRangeValidate"])
TRUSTED = [
    "Lean 4.33 kernel; axioms propext / Classical.choice / Quot.sound only",
    "translator/py2lean.py + Py.lean, self-checked against CPython each run",
    "numpy: np.indices, fftshift/ifftshift (roll by +-n//2), dot; scipy Rotation.apply / inv "
    "(modelled: gridIdx, M3.transpose.apply; sampled by the correspondence)",
    "cos/sin of the tilt angles: the two plane normals are inputs of the model (read back from "
    "the implementation as float32 values); the sign convention of the tilt angle is the "
    "implementation's",
]
ASSUMPTIONS = [
    "bins whose sign product is within 1e-6 of zero are not compared (float rounding decides them)",
    "symmetry is only asserted off the Nyquist planes of even axes (see Props/C08.lean spec_symmetric)",
]
EXPLANATION = (
    "Theorems (every box shape, every matrix R, every pair of normals): the three index grids "
    "equal fftfreq(n)*n; each mask entry point keeps bin i iff (n0 . R f_i)(n1 . R f_i) <= 0 with "
    "f_i = FFT-ordered index / box length; DC kept; k -> -k symmetry off Nyquist; tilt-model "
    "selection (tuple / model / legacy keyword) and tilt-range validation. Tie: offsets, shift "
    "direction, normal scaling, predicate and selection logic regenerated from the source; model "
    "masks compared bin-by-bin with the real masks; independent fftfreq-based oracle.")
SAMPLE_OBLIGATIONS = [
    {"theorem": "C08.grid_tilt", "statement": "gridIdx n i = fftfreq(n)[i]*n for all n>=1, 0<=i<n"},
    {"theorem": "C08.mask_exact_tilt", "statement": "maskTilt R N n0 n1 i = specBin R N n0 n1 i"},
]


def k1_grids(rng, thorough):
    g = {}
    for n in _NM:
        g[f"indicesOffset{n}"] = [[s] for s in range(1, 20)]
        vals = [Fraction(x, 4) for x in (-9, -1, 0, 1, 2, 7)]
        g[f"wedgePredicate{n}"] = [[a, b] for a in vals for b in vals]
    g["tiltSelect"] = [[a, b, c, -1] for a in (True, False) for b in (True, False) for c in (True, False)]
    edge = [Fraction(x, 2) for x in (-182, -180, -179, -60, 0, 60, 179, 180, 181)]
    g["tiltRangeValidate"] = [[a, b] for a in edge for b in edge]
    return g


def k1_globals():
    return {}


# ------------------------------------------------------------------------------------------
def _rotations(rng, n):
    from scipy.spatial.transform import Rotation
    out = [Rotation.identity()]
    for ax in "xyz":
        for a in (90, 180):
            out.append(Rotation.from_euler(ax, a, degrees=True))
    while len(out) < n:
        q = rng.integers(-3, 4, size=4).astype(float)
        if np.linalg.norm(q) > 0:
            out.append(Rotation.from_quat(q / np.linalg.norm(q)))
    return out


def _mask_impl(which, rot, rng_deg, shape, axis="y"):
    from acryo.tilt import single_axis
    from acryo.backend import Backend
    import acryo._utils as U
    if which == "tilt":
        return np.asarray(single_axis(rng_deg, axis).create_mask(rot, shape))
    if which == "backend":
        return np.asarray(Backend().missing_wedge_mask(rot, rng_deg, shape))
    return np.asarray(U.missing_wedge_mask(rot, rng_deg, shape))


def _normals(which, rng_deg, axis="y"):
    from acryo.tilt import single_axis
    if which == "tilt":
        return [np.asarray(v, dtype=np.float64) for v in single_axis(rng_deg, axis)._get_norms()]
    if which == "backend":
        from acryo.backend._missing_wedge import _get_unrotated_normals as g
    else:
        from acryo._utils import _get_unrotated_normals as g
    return [np.asarray(v, dtype=np.float64) for v in g(tuple(rng_deg))]


def _float_products(rot, n0, n1, shape):
    """Independent float evaluation of the two plane products at every bin (to find the bins
    that floating-point rounding may decide)."""
    f = np.stack(np.meshgrid(*[np.fft.fftfreq(s) for s in shape], indexing="ij"), axis=-1)
    F = rot.apply(f.reshape(-1, 3)).reshape(f.shape)
    return (F @ n0) * (F @ n1)


def correspondence(rng, thorough):
    ncase = 60 if thorough else 18
    rots = _rotations(rng, 14)
    lines, impl, stats = [], [], {"odd": 0, "even": 0, "noncubic": 0, "one_sized": 0, "bins": 0,
                                  "bins_skipped": 0}
    cases = []
    for it in range(ncase):
        shape = tuple(int(x) for x in rng.integers(1, 8, size=3))
        if it % 5 == 0:
            shape = (int(rng.integers(1, 8)),) * 3
        which = ["tilt", "backend", "utils"][it % 3]
        a = float(rng.choice([-60, -45.5, -70, -90, -30]))
        b = float(rng.choice([60, 50.25, 90, 30, 10]))
        axis = "x" if (which == "tilt" and it % 2) else "y"
        rot = rots[int(rng.integers(0, len(rots)))]
        cases.append((which, shape, (a, b), axis, rot))
    for which, shape, rg, axis, rot in cases:
        stats["odd"] += any(s % 2 for s in shape)
        stats["even"] += any(s % 2 == 0 for s in shape)
        stats["noncubic"] += len(set(shape)) > 1
        stats["one_sized"] += 1 in shape
        n0, n1 = _normals(which, rg, axis)
        R = rot.as_matrix()
        mask = _mask_impl(which, rot, rg, shape, axis).astype(bool)
        prod = _float_products(rot, n0, n1, shape)
        skip = np.abs(prod) < 1e-7
        bits = "".join("1" if m else "0" for m in mask.reshape(-1))
        args = list(shape) + [Fraction(float(x)) for x in R.reshape(-1)] \
            + [Fraction(float(x)) for x in n0] + [Fraction(float(x)) for x in n1]
        lines.append(f"m:wedge_{which} " + " ".join(C.rat_str(x) for x in args))
        impl.append(bits)
        stats["bins"] += mask.size
        stats["bins_skipped"] += int(skip.sum())
    return lines, impl, stats


def k2_post(line, impl_out, model_out):
    """Bins that floating-point rounding may decide are marked 'x' by the model (exact product
    within 1e-6 of zero); ignore those positions on the implementation side as well."""
    if len(impl_out) != len(model_out):
        return impl_out, model_out
    return "".join("x" if b == "x" else a for a, b in zip(impl_out, model_out)), model_out


# ------------------------------------------------------------------------------------------
def _spec_mask(rot, n0, n1, shape):
    prod = _float_products(rot, n0, n1, shape)
    return prod <= 0, np.abs(prod) < 1e-6


def run_case(inp):
    from scipy.spatial.transform import Rotation
    from acryo.tilt import single_axis, dual_axis, no_wedge
    from acryo.alignment import ZNCCAlignment
    shape = tuple(inp["shape"])
    rot = Rotation.from_quat(np.array(inp["quat"], dtype=float))
    a, b = inp["range"]
    kind = inp["kind"]
    viols = []

    def V(clause, desc):
        viols.append({"clause": clause, "desc": desc, "input": dict(inp)})

    def nrm(ang, axis):
        r = np.deg2rad(ang)
        return np.array([-np.cos(r), 0.0, np.sin(r)]) if axis == "y" else np.array([-np.cos(r), np.sin(r), 0.0])

    if kind in ("tilt", "backend", "utils"):
        axis = inp.get("axis", "y")
        mask = _mask_impl(kind, rot, (a, b), shape, axis).astype(bool)
        if mask.shape != shape:
            V("shape", f"mask shape {mask.shape} != {shape}")
            return viols
        spec, near = _spec_mask(rot, nrm(a, axis), nrm(b, axis), shape)
        bad = (mask != spec) & ~near
        if bad.any():
            cls = ("odd" if any(s % 2 for s in shape) else "even") + ("-noncubic" if len(set(shape)) > 1 else "")
            V("geometry", f"{int(bad.sum())} of {mask.size} bins differ from the fftfreq-based wedge "
                          f"({kind}, shape {shape}: {cls})")
        if not mask[0, 0, 0]:
            V("dc", "zero frequency is not kept")
        # symmetry under k -> -k off the Nyquist planes
        idx = np.indices(shape)
        mir = tuple((-idx[d]) % shape[d] for d in range(3))
        offny = np.ones(shape, dtype=bool)
        for d in range(3):
            if shape[d] % 2 == 0:
                offny &= idx[d] != shape[d] // 2
        asym = (mask != mask[mir]) & offny & ~near & ~near[mir]
        if asym.any():
            V("symmetry", f"{int(asym.sum())} bins differ from their mirror bin")
    elif kind == "nowedge":
        m = np.asarray(no_wedge().create_mask(rot, shape))
        if m.shape != shape or not np.all(m == 1):
            V("nowedge", "no-wedge mask is not all ones")
    elif kind == "dual":
        a2, b2 = inp["range2"]
        # masks handed out before, between and after the dual-axis request (same range / orientation / shape)
        y_first = np.asarray(single_axis((a, b), "y").create_mask(rot, shape))
        y_copy = y_first.astype(bool).copy()
        d = np.asarray(dual_axis((a, b), (a2, b2)).create_mask(rot, shape)).astype(bool)
        y_after = np.asarray(single_axis((a, b), "y").create_mask(rot, shape)).astype(bool)
        x_after = np.asarray(single_axis((a2, b2), "x").create_mask(rot, shape)).astype(bool)
        d2 = np.asarray(dual_axis((a, b), (a2, b2)).create_mask(rot, shape)).astype(bool)
        u = y_copy | x_after
        if not np.array_equal(d, u):
            V("union", f"dual-axis mask differs from the union at {int((d != u).sum())} bins")
        if not np.array_equal(y_first.astype(bool), y_copy):
            V("history", "a single-axis mask handed out earlier changed when a dual-axis mask was requested")
        if not np.array_equal(y_after, y_copy):
            V("history", f"single-axis mask requested after a dual-axis mask differs from the one requested before "
                         f"at {int((y_after != y_copy).sum())} bins")
        if not np.array_equal(d2, d):
            V("history", "a second dual-axis request gives a different mask")
        for name, m, ax, rg in (("y", y_after, "y", (a, b)), ("x", x_after, "x", (a2, b2))):
            spec, near = _spec_mask(rot, nrm(rg[0], ax), nrm(rg[1], ax), shape)
            bad = (m != spec) & ~near
            if bad.any():
                V("geometry", f"single-axis {name} mask requested after a dual-axis mask: {int(bad.sum())} of {m.size} bins "
                              f"differ from the fftfreq-based wedge")
    elif kind == "entry":
        tmpl = np.zeros(shape, dtype=np.float32)
        tmpl[tuple(s // 2 for s in shape)] = 1
        quat = np.array(inp["quat"], dtype=np.float32)
        with warnings.catch_warnings():
            warnings.simplefilter("ignore")
            m_tuple = np.asarray(ZNCCAlignment(tmpl, tilt=(a, b)).get_missing_wedge_mask(quat)).astype(bool)
            m_model = np.asarray(ZNCCAlignment(tmpl, tilt=single_axis((a, b))).get_missing_wedge_mask(quat)).astype(bool)
            m_legacy = np.asarray(ZNCCAlignment(tmpl, tilt_range=(a, b)).get_missing_wedge_mask(quat)).astype(bool)
            m_none = np.asarray(ZNCCAlignment(tmpl).get_missing_wedge_mask(quat)).astype(bool)
        if not np.array_equal(m_tuple, m_model):
            V("entry-points", "tuple and model object give different masks")
        # model objects of every kind keep their geometry when handed to an alignment model
        rot_ = Rotation.from_quat(quat)       # the same (float32) quaternion the alignment model receives
        a2, b2 = inp["range2"]
        for label, tm in (("single_axis(range, 'x')", single_axis((a, b), "x")), ("single_axis(range, 'y')", single_axis((a, b), "y")),
                          ("dual_axis", dual_axis((a, b), (a2, b2))), ("no_wedge", no_wedge())):
            with warnings.catch_warnings():
                warnings.simplefilter("ignore")
                via_model = np.asarray(ZNCCAlignment(tmpl, tilt=tm).get_missing_wedge_mask(quat)).astype(bool)
            direct = np.asarray(tm.create_mask(rot_, shape)).astype(bool)
            if via_model.shape != direct.shape or not np.array_equal(via_model, direct):
                V("entry-points", f"an alignment model built with tilt={label} uses a different mask than the tilt model itself "
                                  f"({int((via_model != direct).sum())} bins)")
        if not np.array_equal(m_tuple, m_legacy):
            V("entry-points", f"legacy tilt_range= keyword gives a different mask than tilt= "
                              f"({int((m_tuple != m_legacy).sum())} bins; all-ones: {bool(m_legacy.all())})")
        if not m_none.all():
            V("nowedge", "model without tilt does not use the no-wedge mask")
    return viols


def oracle(rng, thorough, deep=False, hints=None):
    n = 90 if (thorough or deep) else 30
    rots = _rotations(rng, 16)
    cases = []
    fixed_shapes = [(5, 5, 5), (4, 4, 4), (8, 8, 16), (5, 6, 7), (1, 4, 5), (9, 3, 3), (7, 7, 6)]
    for it in range(n):
        shape = fixed_shapes[it % len(fixed_shapes)] if it < 2 * len(fixed_shapes) else \
            tuple(int(x) for x in rng.integers(1, 12, size=3))
        kind = ["tilt", "backend", "utils", "tilt", "entry", "dual", "nowedge"][it % 7]
        rot = rots[int(rng.integers(0, len(rots)))]
        a = float(rng.choice([-60, -45.5, -70, -90, -30, -10]))
        b = float(rng.choice([60, 50.25, 90, 30, 20]))
        c = dict(kind=kind, shape=list(shape), quat=rot.as_quat().tolist(), range=[a, b],
                 range2=[float(rng.choice([-50, -40])), float(rng.choice([40, 65]))],
                 axis="x" if (kind == "tilt" and it % 2) else "y")
        cases.append(c)
    # edges of the quantifier: a tilt bound of exactly 0 (half tilt series), +-90, identical ranges on both axes
    edge_ranges = [[0.0, 60.0], [-50.0, 0.0], [0.0, 90.0], [-90.0, 0.0], [0, 45], [-60.0, 60.0]]
    for it, rg in enumerate(edge_ranges if (thorough or deep) else edge_ranges[:4]):
        rot = rots[int(rng.integers(0, len(rots)))]
        shape = fixed_shapes[(it + 3) % len(fixed_shapes)]
        for kind in ("tilt", "entry", "dual", "backend"):
            cases.append(dict(kind=kind, shape=list(shape), quat=rot.as_quat().tolist(), range=list(rg),
                              range2=list(rg) if it % 2 == 0 else [rg[0], rg[1]], axis="x" if (it % 2 and kind == "tilt") else "y"))
    viols, stats = [], {"by_kind": {}, "samples": [{"oracle_case": c} for c in cases[:2]]}
    for c in cases:
        stats["by_kind"][c["kind"]] = stats["by_kind"].get(c["kind"], 0) + 1
        viols += run_case(c)
    return len(cases), viols, stats


def replay(payload):
    v = run_case(dict(payload["input"]))
    return {"violated": bool(v), "violations": v}
