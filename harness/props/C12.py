"""C12 — Table operations keep a molecule's position, orientation and features together."""
from __future__ import annotations

import numpy as np

import common as C

PROP = "C12"
LEAN_MODULES = ["AcryoVerif.Props.C12"]
LEAN_SUPPORT = ["AcryoVerif.Model.Table"]
KERNELS = ["subsetIntIndex", "featuresLengthChecked", "rotLengthChecked", "dupColumnsRejected",
           "appendExtraRejected", "subsetSameSpecForAll", "rowOpsThroughDataFrame", "concatParallel"]
TRUSTED = [
    "Lean 4.33 kernel; axioms propext / Classical.choice / Quot.sound only",
    "which path each Molecules method takes (three parallel containers vs one data frame) is read from "
    "the AST by specs.py patterns; the integer-index normalisation is translated by py2lean",
    "numpy slicing / boolean / integer-array indexing, polars filter / sort / head / tail / group_by"
    "(maintain_order) / cut / concat act on whole rows of ONE container or frame (modelled by "
    "sliceSel, maskSel, idxSel, List operations; sampled by the history correspondence)",
]
ASSUMPTIONS = ["orientations pass through float32 rotation vectors in the data frame (tags are recovered by "
               "rounding); sort keys are unique so that polars' unstable sort is deterministic"]
EXPLANATION = (
    "Theorems (generic row types): zip/unzip round trip; every data-frame operation yields exactly "
    "f(rows) with equal container lengths; head/tail/filter sublists, sort a permutation; slice, "
    "boolean-mask, integer and index-list subset applied to the three containers separately select "
    "whole rows; bad indices/masks are rejected; concat appends rows; group_by partitions the rows "
    "(distinct keys, key-homogeneous groups, concatenation is a permutation); length invariant over "
    "every finite history. K2: random histories on real Molecules whose position, rotation and "
    "features all encode the row tag vs the model. Oracle: partition / rejection / no-mutation clauses.")
SAMPLE_OBLIGATIONS = [
    {"theorem": "C12.groupRows_partition", "statement": "groups have distinct keys and flatten to a permutation of the rows"},
    {"theorem": "C12.history_wf", "statement": "WF t -> WF (ops.foldl step t) for every op list"},
]


def k1_grids(rng, thorough):
    return {"subsetIntIndex": [[i, n] for n in range(0, 9) for i in range(-3, 11)]}


def k1_globals():
    return {}


# ------------------------------------------------------------------------------------------
_ANG = 0.01


def make_table(tags):
    import polars as pl
    from scipy.spatial.transform import Rotation
    from acryo import Molecules
    tags = list(tags)
    pos = np.array([[t, 2 * t, 3 * t] for t in tags], dtype=np.float32).reshape(-1, 3)
    if not tags:
        return Molecules(np.zeros((0, 3)), None,
                         features=pl.DataFrame({"tag": pl.Series([], dtype=pl.Int64), "val": pl.Series([], dtype=pl.Float64),
                                                "s": pl.Series([], dtype=pl.Utf8)}))
    rot = Rotation.from_rotvec(np.array([[(t + 1) * _ANG, 0.0, 0.0] for t in tags]))
    feat = pl.DataFrame({"tag": pl.Series(tags, dtype=pl.Int64),
                         "val": pl.Series([float(t) for t in tags], dtype=pl.Float64),
                         "s": pl.Series([f"s{t}" if t % 4 else None for t in tags], dtype=pl.Utf8)})
    return Molecules(pos, rot, features=feat)


def read_tags(m):
    """tags as seen through positions, orientations and features separately"""
    n = len(m)
    p = [int(round(float(x))) for x in m.pos[:, 0]] if n else []
    rv = m.rotvec() if n else np.zeros((0, 3))
    r = [int(round(float(v[0]) / _ANG)) - 1 for v in rv] if n else []
    f = [int(x) for x in m.features["tag"].to_list()] if "tag" in m.features.columns else None
    return p, r, f


def show(m):
    p, r, f = read_tags(m)
    if f is None:
        f = p if len(m) == 0 else None
    if p == r and r == f and len(m.features) in (len(p), 0):
        return "[" + ",".join(map(str, p)) + "]"
    return f"MISALIGNED pos={p} rot={r} feat={f}"


def _apply(m, op, args):
    import polars as pl
    if op == 1:
        return m.subset(int(args[0])), None
    if op == 2:
        return m.subset(slice(int(args[0]), int(args[1]))), None
    if op == 3:
        ln, bits = args
        mask = np.array([(bits >> k) & 1 == 1 for k in range(ln)], dtype=bool)
        return m.subset(mask), None
    if op == 13:
        lo, hi, st = (None if int(a) == 1000000 else int(a) for a in args[:2]), None, int(args[2])
        lo = list(lo)
        return m.subset(slice(lo[0], lo[1], st)), None
    if op == 4:
        return m.head(int(args[0])), None
    if op == 5:
        return m.tail(int(args[0])), None
    if op == 6:
        return m.filter(pl.col("tag") % int(args[0]) == int(args[1])), None
    if op == 7:
        mul, modp, desc = args
        return m.sort((pl.col("tag") * mul) % modp, descending=bool(desc)), None
    if op == 8:
        off, cnt = args
        return m.concat_with(make_table(range(off, off + cnt))), None
    if op == 9:
        off, cnt = args
        m.append(make_table(range(off, off + cnt)))     # documented as in-place; the same instance lives on
        return m, None
    if op == 10:
        g = int(args[0])
        gs = m.group_by((pl.col("tag") % g).alias("k"))      # called on the live instance itself
        out = []
        for k, mm in gs:
            kk = k[0] if isinstance(k, tuple) else k
            if "k" in mm.features.columns:
                mm = mm.drop_features("k")
            out.append(f"{int(kk)}:{show(mm)}")
        return m, "G " + " ".join(out)
    if op == 11:
        return m.subset([int(a) for a in args]), None
    if op == 12:
        edges = [float(a) for a in args]
        out = []
        for ce, mm in m.cutby("val", edges):
            label = len([e for e in edges if e < ce.le]) if np.isfinite(ce.le) else len(edges)
            tags = read_tags(mm)[0]
            if not all(ce.gt < t <= ce.le for t in tags):
                return m, "G bin-membership-violated"
            out.append(f"{label}:{show(mm)}")
        return m, "G " + " ".join(out)
    raise ValueError(op)


def gen_history(rng, n, length):
    ops = []
    cur = n          # upper bound for sensible indices (the real length may differ after filters)
    fresh = 100
    motif = []
    for _ in range(length):
        if not motif and rng.integers(0, 6) == 0:
            # a data-frame operation on the live instance, an in-place append, another data-frame operation
            motif = [10, 9, int(rng.choice([5, 6, 10, 7]))]
        if motif:
            op = motif.pop(0)
        else:
            op = int(rng.choice([1, 2, 3, 4, 5, 6, 7, 8, 9, 10, 11, 12, 13],
                                p=[.07, .1, .07, .07, .07, .09, .09, .07, .06, .07, .07, .06, .11]))
        if op == 1:
            args = [int(rng.integers(-2, cur + 2))]
        elif op == 2:
            args = [int(rng.integers(-cur - 1, cur + 2)), int(rng.integers(-cur - 1, cur + 3))]
        elif op == 3:
            ln = cur if rng.integers(0, 5) else max(1, cur + int(rng.integers(-1, 2)))
            ln = max(1, ln)     # numpy accepts a zero-length boolean index on any array; not generated
            args = [ln, int(rng.integers(0, 2 ** max(1, ln)))]
        elif op in (4, 5):
            args = [int(rng.integers(0, cur + 3))]
        elif op == 6:
            a = int(rng.integers(1, 5))
            args = [a, int(rng.integers(0, a))]
        elif op == 7:
            args = [int(rng.choice([1, 3, 5, 7, 11])), 997, int(rng.integers(0, 2))]
        elif op in (8, 9):
            cnt = int(rng.integers(0, 4)) if not motif else int(rng.integers(1, 4))
            args = [fresh, cnt]
            fresh += cnt + 1
        elif op == 10:
            args = [int(rng.integers(1, 5))]
        elif op == 13:
            def bound():
                return 1000000 if rng.integers(0, 3) == 0 else int(rng.integers(-cur - 2, cur + 3))
            args = [bound(), bound(), int(rng.choice([-3, -2, -1, -1, 1, 2, 3]))]
        elif op == 11:
            args = [int(rng.integers(0, cur + 1)) for _ in range(int(rng.integers(0, 5)))]
        else:
            args = sorted({int(x) for x in rng.integers(-1, 12, size=int(rng.integers(1, 4)))})
        ops.append((op, args))
    return ops


def run_history(n, ops):
    """Returns (canonical output string, per-op details) from the real Molecules class."""
    m = make_table(range(n))
    outs = []
    for op, args in ops:
        before = show(m)
        try:
            m2, obs = _apply(m, op, args)
        except Exception as e:  # noqa: BLE001
            outs.append(C.exc_kind(e))
            if show(m) != before:
                outs[-1] += " (and the input table was modified)"
            continue
        if op != 9 and show(m) != before:
            outs.append("INPUT-MUTATED " + show(m))
            m = m2
            continue
        if obs is not None:
            outs.append(obs)
        else:
            outs.append(show(m2))
            m = m2
    return " ; ".join(outs)


def ref_history(n, ops):
    """Statement-level reference on plain Python lists of row tags (independent of the Lean model):
    what 'exactly the selected or reordered rows of the input' means for each operation."""
    cur = list(range(n))
    outs = []

    def fmt(l):
        return "[" + ",".join(map(str, l)) + "]"

    for op, args in ops:
        try:
            if op == 1:
                i = int(args[0])
                if i < 0 or i >= len(cur):
                    raise IndexError
                cur = cur[i:i + 1]
            elif op == 2:
                cur = cur[int(args[0]):int(args[1])]
            elif op == 3:
                ln, bits = args
                if ln != len(cur):
                    raise IndexError
                cur = [t for k, t in enumerate(cur) if (bits >> k) & 1]
            elif op == 13:
                lo, hi = (None if int(a) == 1000000 else int(a) for a in args[:2])
                cur = cur[slice(lo, hi, int(args[2]))]
            elif op == 4:
                cur = cur[:int(args[0])]
            elif op == 5:
                k = int(args[0])
                cur = cur[len(cur) - k:] if k < len(cur) else cur
            elif op == 6:
                cur = [t for t in cur if t % int(args[0]) == int(args[1])]
            elif op == 7:
                mul, modp, desc = args
                cur = sorted(cur, key=lambda t: (t * mul) % modp, reverse=bool(desc))
            elif op in (8, 9):
                cur = cur + list(range(args[0], args[0] + args[1]))
            elif op == 10:
                g = int(args[0])
                keys = list(dict.fromkeys(t % g for t in cur))
                outs.append("G " + " ".join(f"{k}:{fmt([t for t in cur if t % g == k])}" for k in keys))
                continue
            elif op == 11:
                idx = [int(a) for a in args]
                if any(i >= len(cur) for i in idx):
                    raise IndexError
                cur = [cur[i] for i in idx]
            elif op == 12:
                edges = [float(a) for a in args]
                lab = lambda t: len([e for e in edges if e < t])
                keys = list(dict.fromkeys(lab(t) for t in cur))
                outs.append("G " + " ".join(f"{k}:{fmt([t for t in cur if lab(t) == k])}" for k in keys))
                continue
            outs.append(fmt(cur))
        except IndexError:
            outs.append("err:index")
    return " ; ".join(outs)


def parse_history(line):
    toks = [int(x) for x in line.split()[1:]]
    n, toks = toks[0], toks[1:]
    ops = []
    while toks:
        op, k = toks[0], toks[1]
        ops.append((op, toks[2:2 + k]))
        toks = toks[2 + k:]
    return n, ops


def correspondence(rng, thorough):
    lines, impl, stats = [], [], {"histories": 0, "ops": {}, "errors": 0, "empty_tables": 0}
    for it in range(120 if thorough else 40):
        n = int(rng.integers(0, 10))
        ops = gen_history(rng, max(n, 1), int(rng.integers(1, 9)))
        out = run_history(n, ops)
        toks = [str(n)]
        for op, args in ops:
            toks += [str(op), str(len(args))] + [str(a) for a in args]
            stats["ops"][op] = stats["ops"].get(op, 0) + 1
        lines.append("m:table " + " ".join(toks))
        impl.append(out)
        stats["histories"] += 1
        stats["errors"] += out.count("err:")
        stats["empty_tables"] += out.count("[]")
    return lines, impl, stats


# ------------------------------------------------------------------------------------------
def run_case(inp):
    import polars as pl
    from scipy.spatial.transform import Rotation
    from acryo import Molecules
    viols = []

    def V(clause, desc):
        viols.append({"clause": clause, "desc": desc, "input": dict(inp)})

    kind = inp["kind"]
    n = inp["n"]
    m = make_table(range(n))
    if kind == "history":
        out = run_history(n, [tuple(o) for o in inp["ops"]])
        want = ref_history(n, [tuple(o) for o in inp["ops"]])
        if out != want and "MISALIGNED" not in out and "INPUT-MUTATED" not in out and "was modified" not in out:
            V("exact-rows", f"history gives {out[:160]} but the selected/reordered rows are {want[:160]}")
        if "MISALIGNED" in out:
            V("rows-together", "position / orientation / features of a row were separated: " + out[:200])
        if "INPUT-MUTATED" in out or "was modified" in out:
            V("no-mutation", "an operation modified its input table: " + out[:200])
        if "bin-membership" in out:
            V("cut-bins", "cutby group contains a value outside its (gt, le] interval")
    elif kind == "mixed-features":
        # operands whose feature columns are a subset (possibly empty) of the other's: the result is either
        # rejected or has one feature row per molecule, the rows of each operand keeping their own values
        k = int(inp["k"])
        sub = inp["subset"]

        def other():
            t = make_table(range(100, 100 + k))
            if sub == "none":
                return Molecules(t.pos, t.rotator)
            if sub == "some":
                return Molecules(t.pos, t.rotator, features=t.features.select(["tag"]))
            return t
        variants = {
            "append": lambda: make_table(range(n)).append(other()),
            "concat_with": lambda: make_table(range(n)).concat_with(other()),
            "concat": lambda: Molecules.concat([make_table(range(n)), other()]),
            "concat-reversed": lambda: Molecules.concat([other(), make_table(range(n))]),
            "append-to-plain": lambda: other().append(make_table(range(n))),
        }
        for name, f in variants.items():
            try:
                r = f()
            except (ValueError, TypeError, pl.exceptions.PolarsError):
                continue                         # rejected: allowed
            npos, nrot, feat = len(r.pos), len(r.quaternion()), r.features
            if npos != n + k or nrot != npos or (feat.width > 0 and feat.height != npos):
                V("counts", f"{name} of {n} molecules with features and {k} molecules with {sub} of them: {npos} positions, "
                            f"{nrot} orientations, {feat.height} feature rows ({feat.width} columns)")
                continue
            if feat.width > 0 and "tag" in feat.columns:
                tags = [int(round(float(x))) for x in r.pos[:, 0]]
                ft = feat["tag"].to_list()
                bad = [(t, v) for t, v in zip(tags, ft) if v is not None and v != t]
                if bad or (sub != "none" and any(v is None for v in ft)):
                    V("rows-together", f"{name}: feature rows {ft} do not belong to the molecules at {tags}")
    elif kind == "alias":
        # objects related by copy / derivation / append share no state: an in-place append on one of them
        # leaves the others intact (their three containers stay parallel)
        x1, x2 = make_table(range(100, 103)), make_table(range(200, 202))

        def snap(o):
            return (show(o), len(o.pos), int(np.asarray(o.quaternion()).reshape(-1, 4).shape[0]), len(o.features))

        def intact(o, before, what):
            try:
                now = snap(o)
                o.filter(pl.col("tag") >= 0)
            except Exception as e:  # noqa: BLE001
                V("no-mutation", f"{what}: {type(e).__name__}: {str(e)[:80]}")
                return
            if now != before or not (now[1] == now[2] == now[3]):
                V("no-mutation", f"{what}: {before[0][:60]} (rows {before[1:]}) became {now[0][:60]} (rows {now[1:]})")
        try:
            acc = Molecules.empty()
            a, b = make_table(range(n)), make_table(range(50, 50 + max(1, n // 2)))
            sa, sb = snap(a), snap(b)
            acc.append(a)
            acc.append(b)
            acc.append(x1)
            intact(a, sa, "operand of append onto an empty table, after further appends")
            intact(b, sb, "second operand of append, after a further append")
            for label, derive in (("copy()", lambda q: q.copy()), ("subset(slice(None))", lambda q: q.subset(slice(None))),
                                  ("head(n)", lambda q: q.head(max(n, 1))), ("filter(all)", lambda q: q.filter(pl.col("tag") >= 0)),
                                  ("with_features", lambda q: q.with_features((pl.col("tag") * 1).alias("tag2")).drop_features("tag2")),
                                  ("concat_with(feature-less)", lambda q: q.concat_with(Molecules(np.zeros((0, 3)))) if n else q.copy())):
                src = make_table(range(n))
                der = derive(src)
                s_src, s_der = snap(src), snap(der)
                der.append(make_table(range(100, 103)))
                intact(src, s_src, f"source after in-place append on its {label}")
                src2 = make_table(range(n))
                der2 = derive(src2)
                s_der2 = snap(der2)
                src2.append(make_table(range(200, 202)))
                intact(der2, s_der2, f"{label} after in-place append on its source")
        except Exception as e:  # noqa: BLE001
            V("no-error", f"aliasing scenario raised {type(e).__name__}: {str(e)[:100]}")
    elif kind == "multisort":
        # sort by several keys with tied key tuples on a table of more than a few rows: whatever order the ties
        # come out in, every row must still carry its own position, orientation and features
        from scipy.spatial.transform import Rotation
        r = np.random.default_rng(inp["seed"])
        n_ = inp["n"]
        pos = np.arange(3 * n_, dtype=np.float32).reshape(n_, 3) * 1.5
        rot = Rotation.from_rotvec(r.uniform(-1, 1, size=(n_, 3)))
        t = Molecules(pos, rot, features={"tag": np.arange(n_), "k1": r.integers(0, inp["g1"], size=n_),
                                          "k2": r.integers(0, inp["g2"], size=n_)})
        for by, kw in ((["k1", "k2"], {}), (["k2", "k1"], {"descending": True}), (["k1"], {})):
            try:
                out = t.sort(by, **kw) if len(by) > 1 else t.sort(by[0], **kw)
            except Exception as e:  # noqa: BLE001
                V("no-error", f"sort({by}, {kw}) raised {type(e).__name__}: {str(e)[:100]}")
                continue
            tags = out.features["tag"].to_numpy()
            if sorted(tags.tolist()) != list(range(n_)):
                V("permutation", f"sort({by}) is not a permutation of the rows")
                continue
            keys = [tuple(int(out.features[c][i]) for c in by) for i in range(n_)]
            if keys != sorted(keys, reverse=bool(kw.get("descending"))):
                V("sorted", f"sort({by}, {kw}) result is not ordered by the keys")
            if not (np.abs(out.pos - pos[tags]).max() <= 1e-4):
                V("row-integrity", f"sort({by}, {kw}): positions no longer belong to the rows' features")
            dq = np.abs(np.sum(out.quaternion() * rot.as_quat()[tags], axis=1))
            bad = int(np.sum(dq < 1 - 1e-5))
            if bad:
                V("row-integrity", f"sort({by}, {kw}): {bad}/{n_} orientations belong to another molecule "
                                   f"(tied key tuples, {n_} rows)")
            for c in ("k1", "k2"):
                if not np.array_equal(out.features[c].to_numpy(), t.features[c].to_numpy()[tags]):
                    V("row-integrity", f"sort({by}, {kw}): feature {c} detached from its row")
    elif kind == "partition":
        g = inp["g"]
        mm = m.with_features((pl.col("tag") % g).alias("k"))
        groups = list(mm.group_by("k"))
        alltags = sorted(t for _, x in groups for t in read_tags(x)[0])
        if alltags != list(range(n)):
            V("partition", f"group_by does not partition the table: {alltags}")
        if len({int(k) for k, _ in groups}) != len(groups):
            V("partition", "duplicate group keys")
        for k, x in groups:
            p, r, f = read_tags(x)
            if not (p == r == f) or any(t % g != int(k) for t in p):
                V("rows-together", f"group {k}: pos={p} rot={r} feat={f}")
        # keys given as expressions (aliased to a new name, or un-aliased so that they carry the name of an existing
        # feature) and several keys at once: the groups still hold the molecules' own rows, features unchanged
        orig = {int(t): (float(v), sv) for t, v, sv in zip(m.features["tag"].to_list(), m.features["val"].to_list(),
                                                         m.features["s"].to_list())} if n else {}
        for label, keys in (("aliased expression", [(pl.col("tag") % g).alias("kk")]), ("un-aliased expression", [pl.col("tag") % g]),
                            ("un-aliased boolean", [pl.col("val") > 2.0]), ("two keys", ["s", (pl.col("tag") % 2).alias("par")])):
            try:
                gl = list(m.group_by(keys))
            except Exception as e:  # noqa: BLE001
                V("no-error", f"group_by({label}) raised {type(e).__name__}: {str(e)[:100]}")
                continue
            seen = []
            for k, x in gl:
                p, rr_, f = read_tags(x)
                if not (p == rr_) or (f is not None and f != p):
                    V("rows-together", f"group_by({label}) group {k}: pos={p} rot={rr_} feat={f}")
                    break
                if sorted(x.features.columns) != sorted(m.features.columns):
                    V("group-features", f"group_by({label}): group members have feature columns {x.features.columns}, the input has {m.features.columns}")
                    break
                for t, v, sv in zip(p, x.features["val"].to_list(), x.features["s"].to_list()):
                    if orig.get(int(t)) != (float(v), sv):
                        V("group-features", f"group_by({label}): molecule {t} carries features {(v, sv)} in its group, {orig.get(int(t))} in the input")
                        break
                seen += p
            if sorted(seen) != list(range(n)):
                V("partition", f"group_by({label}) does not partition the table: {sorted(seen)}")
        edges = inp["edges"]
        cut = list(m.cutby("val", edges))
        ctags = sorted(t for _, x in cut for t in read_tags(x)[0])
        if ctags != list(range(n)):
            V("partition", f"cutby does not partition the table: {ctags}")
        for ce, x in cut:
            if not all(ce.gt < t <= ce.le for t in read_tags(x)[0]):
                V("cut-bins", f"cutby bin {ce}: {read_tags(x)[0]}")
    elif kind == "reject":
        def raises(f, *exc):
            try:
                f()
            except exc:
                return True
            except Exception as e:  # noqa: BLE001
                return f"{type(e).__name__}"
            return False
        pos = np.zeros((max(n, 2), 3))
        checks = {
            "rotation-length": lambda: Molecules(pos, Rotation.random(len(pos) + 1, random_state=0)),
            "feature-length": lambda: Molecules(pos, features={"a": list(range(len(pos) + 1))}),
            "feature-setter-length": lambda: setattr(make_table(range(max(n, 2))), "features", pl.DataFrame({"a": [1]})),
            "colliding-column": lambda: Molecules(pos, features={"z": list(range(len(pos)))}).to_dataframe(),
            "colliding-column-filter": lambda: Molecules(pos, features={"xvec": list(range(len(pos)))}).head(1),
            "append-extra-column": lambda: make_table(range(max(n, 2))).append(
                Molecules(pos[:1], features={"tag": [7], "val": [1.0], "s": ["a"], "extra": [1]})),
            "pos-shape": lambda: Molecules(np.zeros((3, 2))),
            "negative-int": lambda: make_table(range(max(n, 2))).subset(-1),
            "int-out-of-range": lambda: make_table(range(max(n, 2))).subset(max(n, 2)),
        }
        for name, f in checks.items():
            r = raises(f, ValueError, TypeError, IndexError)
            if r is not True:
                V("reject", f"inconsistent input '{name}' was not rejected ({r})")
    return viols


def oracle(rng, thorough, deep=False, hints=None):
    big = thorough or deep
    cases = []
    for it in range(60 if big else 20):
        n = int(rng.integers(0, 11))
        cases.append(dict(kind="history", n=n, ops=[[op, args] for op, args in gen_history(rng, max(n, 1), int(rng.integers(2, 11)))]))
    for it in range(12 if big else 4):
        cases.append(dict(kind="partition", n=int(rng.integers(1, 13)), g=int(rng.integers(1, 5)),
                          edges=sorted({float(x) for x in rng.integers(-1, 12, size=3)})))
    for it in range(4 if big else 2):
        cases.append(dict(kind="multisort", n=int([30, 64, 25, 120][it]), g1=int(rng.integers(2, 4)), g2=int(rng.integers(2, 4)),
                          seed=int(rng.integers(0, 10 ** 6))))
    cases.append(dict(kind="reject", n=3))
    for it, sub in enumerate(["none", "some", "all"]):
        cases.append(dict(kind="mixed-features", n=int(rng.integers(1, 6)), k=int(rng.integers(1, 4)), subset=sub))
    for n in ((0, 1, 3, 6) if big else (3, 0)):
        cases.append(dict(kind="alias", n=n))
    for b in (hints or {}).get("k2", []):      # histories on which model and implementation disagreed
        if isinstance(b.get("op"), str) and b["op"].startswith("m:table "):
            n_, ops_ = parse_history(b["op"])
            cases.insert(0, dict(kind="history", n=n_, ops=[[o, a] for o, a in ops_]))
    viols, stats = [], {"by_kind": {}, "samples": [{"oracle_case": c} for c in cases[:2]]}
    for c in cases:
        stats["by_kind"][c["kind"]] = stats["by_kind"].get(c["kind"], 0) + 1
        viols += run_case(c)
    return len(cases), viols, stats


def replay(payload):
    v = run_case(dict(payload["input"]))
    return {"violated": bool(v), "violations": v}
