"""C04 — Translational alignment returns the true displacement."""
from __future__ import annotations

from fractions import Fraction

import numpy as np

import common as C
from props import C05 as _C05

PROP = "C04"
LEAN_MODULES = ["AcryoVerif.Props.C04"]
LEAN_SUPPORT = ["AcryoVerif.Lemmas.PyLemmas", "AcryoVerif.Lemmas.Corr", "AcryoVerif.Props.C05",
                "AcryoVerif.Model.Landscape"]
KERNELS = list(_C05.KERNELS) + ["pccScoreAtArgmax"] + \
    ["modelMethodsDoNotStoreBase", "modelMethodsDoNotStoreConcrete", "tiltModelsDoNotStore"]
TRUSTED = [
    "Lean 4.33 kernel; axioms propext / Classical.choice / Quot.sound only (Mathlib's "
    "Finset.sum_mul_sq_le_sq_mul_sq is the Cauchy-Schwarz inequality used)",
    "translator/py2lean.py + Py.lean, self-checked each run",
    "scipy FFT convolution computes the direct correlation sums; np.cumsum; np.pad; argmax "
    "(modelled by Model.landscapeCropped, compared entry by entry with the real landscape)",
    "scipy map_coordinates (cubic spline up-sampling of the landscape) and the matrix DFT of the PCC "
    "refinement: NOT modelled - their localisation accuracy for fractional shifts is only tested",
]
ASSUMPTIONS = [
    "C04 is PARTIAL: bookkeeping, integer displacements and grid resolution are theorems; the "
    "sub-pixel accuracy clause (0.1 px / 0.5 px for fractional displacements) is covered only by "
    "the real-code oracle and is a test, not a proof",
    "oracle templates vanish near the box faces so that the displaced copy stays inside the box",
]
EXPLANATION = (
    "Theorems: landscape entry <-> displacement bookkeeping for every max_shifts and box "
    "(peak_index, integer_shift_exact); cumulative-sum window sums = direct window sums; at an "
    "integer displacement the window-normalised response attains its upper bound 1 "
    "(Cauchy-Schwarz), every other entry is <= 1; the refinement mesh has a node within 1/20 px of "
    "every admissible displacement (and all nodes are admissible, C05); PCC grid spacing 1/u. "
    "K2: exact rational landscape model compared with zncc/ncc_landscape_with_crop entry by entry. "
    "Oracle (test): all four models on displaced smooth templates, thresholds from the property text.")
SAMPLE_OBLIGATIONS = [
    {"theorem": "C04.integer_peak", "statement": "num(W j) T ^2 <= var(W j) * ssd T for all j, equality and num >= 0 at the true displacement"},
    {"theorem": "C04.mesh_resolution", "statement": "some mesh node is within 1/20 px of any admissible displacement"},
]

k1_grids = _C05.k1_grids


def correspondence(rng, thorough):
    from acryo.backend import Backend, _zncc
    xp = Backend()
    lines, impl = [], []
    stats = {"zncc": 0, "ncc": 0, "odd": 0, "noncubic": 0, "planted_integer_shift": 0}
    n = 24 if thorough else 8
    for it in range(n):
        shape = [int(x) for x in rng.integers(2, 5, size=3)]
        m = [Fraction(int(rng.integers(0, 5)), 2) for _ in range(3)]
        b = rng.integers(-3, 4, size=shape).astype(np.float32)
        if it % 2:
            a = rng.integers(-3, 4, size=shape).astype(np.float32)
        else:       # planted integer displacement (circularly rolled copy, the model sees the same array)
            d = [int(rng.integers(-1, 2)) for _ in range(3)]
            a = np.roll(b, d, axis=(0, 1, 2)).astype(np.float32)
            stats["planted_integer_shift"] += 1
        z = it % 4 < 2
        f = _zncc.zncc_landscape_with_crop if z else _zncc.ncc_landscape_with_crop
        r = np.asarray(f(a, b, tuple(float(x) for x in m), xp), dtype=np.float64)
        stats["zncc" if z else "ncc"] += 1
        stats["odd"] += any(s % 2 for s in shape)
        stats["noncubic"] += len(set(shape)) > 1
        lines.append(f"m:landscape {int(z)} {shape[0]} {shape[1]} {shape[2]} "
                     + " ".join(C.rat_str(x) for x in m) + " "
                     + " ".join(C.rat_str(x) for x in a.reshape(-1)) + " "
                     + " ".join(C.rat_str(x) for x in b.reshape(-1)))
        impl.append(" ".join(map(str, r.shape)) + " | " + " ".join(repr(float(x)) for x in r.reshape(-1)))
    return lines, impl, stats


def k2_post(line, impl_out, model_out):
    try:
        ish, ivals = impl_out.split(" | ")
        a = np.array([float(x) for x in ivals.split()])
        toks = model_out.split()
        nums = [Fraction(x) for x in toks[0::2]]
        dens = [Fraction(x) for x in toks[1::2]]
        b = np.array([float(n) / np.sqrt(float(d)) if d > 0 else 0.0 for n, d in zip(nums, dens)])
        if a.shape != b.shape:
            return f"landscape {ish} n={a.size}", f"landscape n={b.size}"
        # entries where the exact variance is (nearly) zero are decided by float rounding
        ok = np.array([float(d) > 1e-6 for d in dens])
        if np.abs(a - b)[ok].max(initial=0.0) <= 2e-4:
            return "landscape-agrees " + ish, "landscape-agrees " + ish
        return f"landscape {ish} maxdiff={np.abs(a - b)[ok].max():.3g} argmax={int(np.argmax(a))}", \
            f"landscape argmax={int(np.argmax(b))}"
    except Exception as e:  # noqa: BLE001
        return impl_out[:80], f"unparsable model output: {e}"


# ------------------------------------------------------------------------------------------
def _template(seed, shape, margin, sigma):
    from scipy import ndimage as ndi
    r = np.random.default_rng(seed)
    a = np.zeros(shape)
    mg = margin if isinstance(margin, (list, tuple)) else [margin] * len(shape)
    inner = tuple(slice(int(k), s - int(k)) for k, s in zip(mg, shape))
    a[inner] = r.normal(size=a[inner].shape)
    return ndi.gaussian_filter(a, sigma, mode="constant").astype(np.float32)


def _fshift(img, d):
    F = np.fft.fftn(img.astype(np.float64))
    for ax, (s, dd) in enumerate(zip(img.shape, d)):
        sh = [1, 1, 1]
        sh[ax] = s
        F = F * np.exp(-2j * np.pi * np.fft.fftfreq(s) * dd).reshape(sh)
    return np.fft.ifftn(F).real.astype(np.float32)


def run_case(inp):
    import dask
    from scipy.spatial.transform import Rotation
    models = _C05._models()
    M = models[inp["model"]]
    shape = tuple(inp["shape"])
    m = tuple(float(x) for x in inp["max_shifts"])
    d = np.array(inp["d"], dtype=float)
    margin = int(np.ceil(max(m))) + 3
    if inp.get("margin"):
        # thin boxes: keep the density clear of the faces by the displacement itself, per axis
        margin = [int(np.ceil(abs(x))) + int(inp["margin"]) for x in d]
    tmpl = _template(inp["seed"], shape, margin, inp["sigma"])
    if float(np.abs(tmpl).max()) == 0.0:
        return []
    sub = _fshift(tmpl, d)
    kw = {}
    if inp.get("cutoff"):
        kw["cutoff"] = inp["cutoff"]
    if inp.get("tilt"):
        kw["tilt"] = tuple(inp["tilt"])
    mask = None
    if inp.get("mask") == "soft":
        # soft box mask: 0 on the faces, 1/2 one voxel inside, 1 from the second voxel on
        mask = np.ones(shape, dtype=np.float32)
        for ax, s in enumerate(shape):
            prof = np.ones(s, dtype=np.float32)
            prof[[0, -1]] = 0.0
            prof[[1, -2]] = 0.5
            sh = [1, 1, 1]
            sh[ax] = s
            mask = mask * prof.reshape(sh)
    quat = None
    if inp.get("quat") is not None:
        quat = np.array(inp["quat"], dtype=np.float32)
    viols = []

    def V(clause, desc):
        viols.append({"clause": clause, "desc": desc, "input": dict(inp)})

    try:
        with dask.config.set(scheduler="synchronous"):
            model = M(tmpl, mask, **kw)
            via = inp.get("via", "align")
            # earlier uses of the same model object (other sub-volumes, other orientations) must not matter
            hr = np.random.default_rng(inp["seed"] + 17)
            for j in range(int(inp.get("history", 0))):
                hq = Rotation.random(random_state=int(hr.integers(0, 10 ** 6))).as_quat().astype(np.float32)
                hd = np.array([hr.uniform(-x, x) for x in m])
                model.align(_fshift(tmpl, hd), m, quaternion=hq)
                if hasattr(model, "score"):
                    model.score(_fshift(tmpl, hd), hq, np.zeros(3, dtype=np.float32))
            if via == "fit":
                _, res = model.fit(sub, m)
            else:
                res = model.align(sub, m, quaternion=quat)
            if inp.get("history"):
                fresh = M(tmpl, mask, **kw).align(sub, m, quaternion=quat) if via != "fit" else M(tmpl, mask, **kw).fit(sub, m)[1]
                if np.abs(np.asarray(fresh.shift) - np.asarray(res.shift)).max() > 1e-6 or abs(float(fresh.score) - float(res.score)) > 1e-6:
                    viols_h = {"clause": "history-independent", "input": dict(inp),
                               "desc": f"{inp['model']}: after {inp['history']} earlier calls on other orientations the same "
                                       f"model returns shift {np.round(res.shift, 3).tolist()} score {float(res.score):.4f}, a fresh "
                                       f"model {np.round(fresh.shift, 3).tolist()} score {float(fresh.score):.4f}"}
                    return [viols_h]
    except Exception as e:  # noqa: BLE001
        V("no-error", f"{inp['model']} raised {type(e).__name__}: {str(e)[:100]}")
        return viols
    sh = np.asarray(res.shift, dtype=float)
    loose = inp["model"] == "FSC" or mask is not None
    tol = 0.5 if loose else 0.1
    err = np.abs(sh - d).max()
    # the accuracy clause is tested, not proved: allow 0.02 px of numerical slack so that the
    # oracle never fires on a borderline 0.1000x px result
    if err > tol + 0.02:
        V("displacement", f"{inp['model']} shift {np.round(sh, 3).tolist()} vs true {np.round(d, 3).tolist()}: "
                          f"error {err:.3f} px > {tol} (shape {shape}, max_shifts {m})")
    q = np.asarray(res.quat, dtype=float)
    if not (np.allclose(q, [0, 0, 0, 1], atol=1e-6) or np.allclose(q, [0, 0, 0, -1], atol=1e-6)):
        V("identity-rotation", f"quat {q.tolist()}")
    integer_d = bool(np.all(d == np.round(d)))
    if inp["model"] in ("ZNCC", "NCC") and mask is None and float(res.score) < 0.9:
        V("score", f"{inp['model']} score {float(res.score):.3f} < 0.9 for a displaced copy")
    if inp["model"] == "FSC" and integer_d and mask is None and float(res.score) < 0.9:
        V("score", f"FSC score {float(res.score):.3f} < 0.9 at an integer displacement")
    return viols


def oracle(rng, thorough, deep=False, hints=None):
    big = thorough or deep
    cases = []
    n = 40 if big else 9
    for mdl in ["ZNCC", "NCC", "PCC", "FSC"]:
        for it in range(n if mdl != "FSC" else max(4, n // 3)):
            m = float(rng.choice([0.5, 0.75, 1.0, 1.5, 1.75, 2.0, 2.3, 2.75] if mdl != "FSC" else [0.5, 1.0, 1.5, 1.75]))
            m3 = [m, m, m] if it % 3 else [m, float(rng.choice([0.5, 1.0])), m]
            need = 2 * (int(np.ceil(max(m3))) + 3) + 3
            shape = [int(x) for x in rng.integers(need, need + 5, size=3)]
            kind = it % 3
            if kind == 0:
                d = [float(rng.integers(-int(x), int(x) + 1)) for x in m3]
            elif kind == 1:
                d = [float(rng.uniform(-x, x)) for x in m3]
            else:
                d = [float(rng.choice([-x, x])) for x in m3]
            c = dict(model=mdl, shape=shape, max_shifts=m3, d=d, seed=int(rng.integers(0, 10 ** 6)),
                     sigma=float(rng.choice([0.8, 1.0, 1.1])) if mdl != "FSC" else 0.7,
                     cutoff=[None, None, 0.45][int(rng.integers(0, 3))] if mdl != "FSC" else None,
                     tilt=[None, [-60, 60]][int(rng.integers(0, 2))] if it % 4 == 1 else None,
                     mask="soft" if it % 5 == 4 else None,
                     quat=None, via="fit" if (it % 7 == 3 and mdl != "FSC") else "align")
            if it % 6 == 5:
                from scipy.spatial.transform import Rotation
                c["quat"] = Rotation.random(random_state=int(rng.integers(0, 1000))).as_quat().tolist()
                c["tilt"] = [-60, 60]
                c["history"] = 2
            cases.append(c)
        # always: displacements at the very end of a fractional range, and a used model with a wedge
        from scipy.spatial.transform import Rotation
        mm = float([0.75, 1.75, 2.75][len(cases) % 3]) if mdl != "FSC" else 1.75
        need = 2 * (int(np.ceil(mm)) + 3) + 3
        cases.append(dict(model=mdl, shape=[need + 1, need + 2, need], max_shifts=[mm, mm, mm],
                          d=[mm, -mm, mm if mdl != "FSC" else 1.0], seed=int(rng.integers(0, 10 ** 6)),
                          sigma=1.0 if mdl != "FSC" else 0.7, cutoff=None, tilt=None, mask=None, quat=None, via="align"))
        if mdl in ("ZNCC", "NCC"):
            cases.append(dict(model=mdl, shape=[15, 16, 15], max_shifts=[2.0, 2.0, 2.0], d=[1.0, -2.0, 0.5],
                              seed=int(rng.integers(0, 10 ** 6)), sigma=1.0, cutoff=None, tilt=[-60, 60], mask=None,
                              quat=Rotation.random(random_state=int(rng.integers(0, 1000))).as_quat().tolist(),
                              via="align", history=3))
    # a box of the minimal thickness along one axis with a search range wider than half of it (valid: max_shifts < 2*box)
    for it, (shape, m3, d) in enumerate([([8, 20, 20], [5.0, 5.0, 5.0], [1.0, -2.0, 3.0]), ([20, 9, 16], [3.0, 6.0, 3.0], [-2.0, 1.0, 0.0]),
                                         ([18, 18, 8], [4.0, 4.0, 7.0], [0.0, 3.0, -1.0])]):
        for mdl in ("PCC", "ZNCC"):
            cases.append(dict(model=mdl, shape=shape, max_shifts=m3, d=d, seed=int(rng.integers(0, 10 ** 6)), sigma=0.8,
                              cutoff=None, tilt=None, mask=None, quat=None, via="align", margin=2))
    viols, stats = [], {"by_model": {}, "by_dkind": {"integer": 0, "fractional": 0}, "samples":
                        [{"oracle_case": c} for c in cases[:2]]}
    for c in cases:
        stats["by_model"][c["model"]] = stats["by_model"].get(c["model"], 0) + 1
        stats["by_dkind"]["integer" if all(float(x).is_integer() for x in c["d"]) else "fractional"] += 1
        viols += run_case(c)
    return len(cases), viols, stats


def replay(payload):
    v = run_case(dict(payload["input"]))
    return {"violated": bool(v), "violations": v}
