"""C17 — Fourier shell correlation is the normalised cross-spectrum per shell."""
from __future__ import annotations

from fractions import Fraction

import os

import numpy as np

import common as C
from props import C09 as _C09

PROP = "C17"
LEAN_MODULES = ["AcryoVerif.Props.C17"]
LEAN_SUPPORT = ["AcryoVerif.Lemmas.PyLemmas", "AcryoVerif.Lemmas.Corr", "AcryoVerif.Model.Fsc",
                "AcryoVerif.Model.Split", "AcryoVerif.Props.C09"]
KERNELS = ["fscLabel", "fscShellFreq", "fscIsNormalisedCrossSpectrum", "fscDefaultDfreq",
           "fscLoaderUsesMaskedHalves", "splitDraws", "splitterComplementary", "splitLoopLoader",
           "splitLoopGroup"]
TRUSTED = [
    "Lean 4.33 kernel; axioms propext / Classical.choice / Quot.sound only; Mathlib Cauchy-Schwarz",
    "structure of fourier_shell_correlation and fsc_with_halfmaps read from the AST (specs.py patterns)",
    "numpy fftn / fftshift / fftfreq / sqrt and scipy.ndimage.sum_labels (modelled: the harness "
    "recomputes the per-shell sums with the model's labels and compares with the real output)",
]
ASSUMPTIONS = ["bins exactly on a shell boundary are decided by floating point in the implementation; "
               "correspondence cases containing such bins (other than DC) are skipped",
               "FSC values compared to 1e-4"]
EXPLANATION = (
    "Theorems (any shell, any spectra): num^2 <= sum|F1|^2 sum|F2|^2; symmetry; invariance under "
    "positive rescaling; self correlation = 1 on shells with power; label L <-> shell [L dfreq, (L+1) "
    "dfreq); shell mid-point frequencies; default dfreq; loader halves disjoint/exhaustive/non-empty "
    "(C09). K2: the model's exact shell labels (squared-radius form) are used to recompute the FSC of "
    "random image pairs and compared with fourier_shell_correlation. Oracle: statement-level FSC from "
    "an independent implementation for any 3-D shape, loader / group FSC from their own half maps.")
SAMPLE_OBLIGATIONS = [
    {"theorem": "C17.bounds", "statement": "num F1 F2 ^ 2 <= den2 F1 F2 on every shell"},
    {"theorem": "C17.shell_of_label", "statement": "label*dfreq <= r < (label+1)*dfreq"},
]


def k1_grids(rng, thorough):
    g = {"fscLabel": [[Fraction(a, 64), Fraction(b, 128)] for a in range(0, 60, 3) for b in (1, 2, 3, 5, 8)],
         "fscShellFreq": [[i, Fraction(b, 128)] for i in range(0, 12) for b in (1, 3, 5)],
         "fscDefaultDfreq": [[n] for n in (1, 2, 4, 8, 16, 32)],
         "splitDraws": [[n] for n in range(0, 30)]}
    return g


def _fsc_from_labels(a, b, labels, nlabels):
    F1, F2 = np.fft.fftn(a.astype(np.float64)), np.fft.fftn(b.astype(np.float64))
    cov = (F1 * np.conj(F2)).real
    p1, p2 = np.abs(F1) ** 2, np.abs(F2) ** 2
    out = []
    for L in range(nlabels):
        m = labels == L
        with np.errstate(all="ignore"):
            out.append(float(cov[m].sum() / np.sqrt(p1[m].sum() * p2[m].sum())) if m.any() else float("nan"))
    return np.array(out)


def correspondence(rng, thorough):
    from acryo._utils import fourier_shell_correlation
    lines, impl = [], []
    stats = {"odd": 0, "noncubic": 0, "cases": 0}
    n = 30 if thorough else 10
    _CASES.clear()
    for it in range(n):
        shape = tuple(int(x) for x in rng.integers(3, 11, size=3))
        dfreq = float(Fraction(int(rng.integers(37, 130)), 1024) + Fraction(1, 4099))
        a = rng.normal(size=shape).astype(np.float32)
        b = (0.5 * a + rng.normal(size=shape)).astype(np.float32)
        with np.errstate(all="ignore"):
            freq, fsc = fourier_shell_correlation(a, b, dfreq)
        line = f"m:fscLabels {shape[0]} {shape[1]} {shape[2]} {C.rat_str(Fraction(dfreq))}"
        _CASES[line] = (a, b, shape, dfreq, np.asarray(freq, dtype=float), np.asarray(fsc, dtype=float))
        lines.append(line)
        impl.append("fsc")
        stats["odd"] += any(s % 2 for s in shape)
        stats["noncubic"] += len(set(shape)) > 1
        stats["cases"] += 1
    return lines, impl, stats


_CASES: dict = {}


def k2_post(line, impl_out, model_out):
    a, b, shape, dfreq, freq, fsc = _CASES[line]
    try:
        nb, labs = model_out.split(" | ")
        labels = np.array([int(x) for x in labs.split()]).reshape(shape)
        if int(nb) > 0:
            return "skipped-boundary-bins", "skipped-boundary-bins"
        nlabels = int(labels.max())
        mine = _fsc_from_labels(a, b, labels, nlabels)
        if len(mine) != len(fsc):
            return f"fsc nshell={len(fsc)}", f"fsc nshell={len(mine)}"
        ok = np.isfinite(mine) & np.isfinite(fsc)
        if not np.array_equal(np.isfinite(mine), np.isfinite(fsc)):
            return "fsc nan-pattern " + str(np.isfinite(fsc).tolist()), "fsc nan-pattern " + str(np.isfinite(mine).tolist())
        wantf = (np.arange(nlabels) + 0.5) * dfreq
        if np.abs(mine - fsc)[ok].max(initial=0) <= 1e-4 and np.abs(wantf - freq).max(initial=0) <= 1e-6:
            return "fsc-agrees", "fsc-agrees"
        return f"fsc {np.round(fsc, 4).tolist()}", f"fsc {np.round(mine, 4).tolist()}"
    except Exception as e:  # noqa: BLE001
        return impl_out, f"unparsable: {e}"


# ------------------------------------------------------------------------------------------
def _ref_fsc(a, b, dfreq):
    """Independent statement-level implementation (unshifted grids)."""
    shape = a.shape
    f = np.meshgrid(*[np.fft.fftfreq(s) for s in shape], indexing="ij")
    r = np.sqrt(sum(x ** 2 for x in f))
    labels = np.floor(r / dfreq + 1e-9).astype(int)
    return labels, _fsc_from_labels(a, b, labels, int(labels.max())), r


def run_case(inp):
    import dask
    from acryo._utils import fourier_shell_correlation
    viols = []

    def V(clause, desc):
        viols.append({"clause": clause, "desc": desc, "input": dict(inp)})

    r = np.random.default_rng(inp["seed"])
    if inp["kind"] == "function":
        shape = tuple(inp["shape"])
        dfreq = inp["dfreq"]
        a = r.normal(size=shape).astype(np.float32)
        b = (0.4 * a + r.normal(size=shape)).astype(np.float32)
        # raw-count / un-normalised magnitudes: the FSC is a ratio, any common amplitude cancels
        amp = np.float32(inp.get("amp", 1.0))
        a, b = a * amp, b * np.float32(inp.get("amp_b", inp.get("amp", 1.0)))
        with np.errstate(all="ignore"):
            freq, fsc = fourier_shell_correlation(a, b, dfreq)
            _, fsc_ba = fourier_shell_correlation(b, a, dfreq)
            _, fsc_sc = fourier_shell_correlation((2.5 * a).astype(np.float32), (0.3 * b).astype(np.float32), dfreq)
            _, fsc_aa = fourier_shell_correlation(a, a, dfreq)
        fsc = np.asarray(fsc, dtype=float)
        labels, ref, rr = _ref_fsc(a, b, dfreq)
        # shells whose membership could be decided by rounding are not compared
        frac = rr / dfreq - np.floor(rr / dfreq + 1e-9)
        risky = {int(x) for x in labels[(frac < 1e-6) | (frac > 1 - 1e-6)] if x > 0} | \
                {int(x) - 1 for x in labels[(frac < 1e-6)] if x > 0}
        if len(ref) != len(fsc):
            V("shells", f"{len(fsc)} shells reported, {len(ref)} expected (shape {shape}, dfreq {dfreq})")
            return viols
        keep = np.array([i not in risky for i in range(len(ref))]) & np.isfinite(ref)
        fin = np.isfinite(fsc)
        if np.any(keep & ~fin):
            V("finite", "NaN FSC on a non-empty shell")
        k = keep & fin
        if k.any():
            if np.abs(fsc - ref)[k].max() > 1e-4:
                V("formula", f"FSC differs from Re sum(F1 conj F2)/sqrt(sum|F1|^2 sum|F2|^2) per shell by "
                             f"{np.abs(fsc - ref)[k].max():.3g} (shape {shape}: "
                             f"{'odd' if any(s % 2 for s in shape) else 'even'} axes)")
            if np.any(np.abs(fsc[k]) > 1 + 1e-5):
                V("bounds", "FSC outside [-1, 1]")
            if np.abs(np.asarray(fsc_ba, dtype=float) - fsc)[k].max() > 1e-5:
                V("symmetric", "FSC(a,b) != FSC(b,a)")
            if np.abs(np.asarray(fsc_sc, dtype=float) - fsc)[k].max() > 1e-4:
                V("scale", "FSC changes under positive rescaling")
            if np.abs(np.asarray(fsc_aa, dtype=float) - 1)[k].max() > 1e-4:
                V("self", "FSC(a,a) != 1 on a non-empty shell")
        if np.abs(np.asarray(freq) - (np.arange(len(fsc)) + 0.5) * dfreq).max(initial=0) > 1e-6:
            V("freq", "reported frequencies are not shell mid-points")
        return viols
    # loader level
    with dask.config.set(scheduler="synchronous"):
        inp2 = dict(kind=inp["lkind"], ntomo=inp["ntomo"], n=inp["n"], box=inp["box"], interleave=False,
                    chunks=None, seed=inp["seed"])
        loader, tomos, mol_pos, mol_id = _C09._scenario(inp2)
        n, box = inp["n"], inp["box"]
        c = box // 2
        mask = None
        if inp["mask"]:
            mask = np.ones((box,) * 3, dtype=np.float32)
            mask[0] = 0.5
        for n_set in inp["n_sets"]:
            res = loader.fsc_with_halfmaps(mask=mask, seed=inp["fseed"], n_set=n_set, dfreq=inp["dfreq"],
                                           squeeze=False, zero_norm=inp["zero_norm"])
            res2 = loader.fsc_with_halfmaps(mask=mask, seed=inp["fseed"], n_set=n_set, dfreq=inp["dfreq"],
                                            squeeze=False, zero_norm=inp["zero_norm"])
            df, (h0, h1), m = res
            if not df.equals(res2.fsc):
                V("seed", "loader FSC is not reproducible for a fixed seed")
            raw = np.asarray(loader.average_split(n_set=n_set, seed=inp["fseed"], squeeze=False))
            for s in range(n_set):
                a = _C09._decode(float(raw[s, 0, c, c, c]), float(raw[s, 0, c, c, c + 1]), n)
                b = _C09._decode(float(raw[s, 1, c, c, c]), float(raw[s, 1, c, c, c + 1]), n)
                if a is None or b is None or (a & b) or (a | b) != set(range(n)):
                    V("halves", f"set {s}: half maps are not disjoint and exhaustive ({a}, {b})")
                mm = 1.0 if mask is None else mask
                with np.errstate(all="ignore"):
                    _, want = fourier_shell_correlation(np.asarray(h0[s]) * mm, np.asarray(h1[s]) * mm, inp["dfreq"])
                got = df[f"FSC-{s}"].to_numpy()
                ok = np.isfinite(want) & np.isfinite(got)
                if len(got) != len(want) or np.abs(got - want)[ok].max(initial=0) > 1e-5:
                    V("loader-formula", f"FSC-{s} column is not the FSC of the (masked) half maps")
        if inp.get("group"):
            g = loader.groupby("g").fsc(seed=inp["fseed"], n_set=1, dfreq=inp["dfreq"])
            keys = [k for k, ld in loader.groupby("g") if ld.count() >= 2]
            for k in keys:
                if k not in g and (k[0] if isinstance(k, tuple) else k) not in g:
                    V("group", f"group FSC has no entry for key {k!r}")
    return viols


_REPRO_SCRIPT = r"""
import sys, json, warnings
warnings.filterwarnings("ignore")
import numpy as np, dask
from acryo import SubtomogramLoader, Molecules
r = np.random.default_rng(int(sys.argv[1]))
tomo = r.normal(size=(20, 20, 20)).astype(np.float32)
n = 12
pos = r.uniform(5, 14, size=(n, 3))
mole = Molecules(pos, features={"cls": ["alpha" if i % 3 else "beta" for i in range(n)], "k": [i % 2 for i in range(n)]})
with dask.config.set(scheduler="synchronous"):
    ld = SubtomogramLoader(tomo, mole, order=1, output_shape=(5, 5, 5))
    out = {}
    for by in ("cls", "k"):
        res = ld.groupby(by).fsc(seed=int(sys.argv[2]), n_set=2, dfreq=0.2)
        for key, df in res.items():
            out[f"{by}={key}"] = [[float(v) for v in df[c].to_list()] for c in df.columns]
    df = ld.fsc(seed=int(sys.argv[2]), n_set=2, dfreq=0.2)
    out["all"] = [[float(v) for v in df[c].to_list()] for c in df.columns]
print(json.dumps(out, sort_keys=True))
"""


def run_repro(inp):
    """Loader-level FSC is reproducible for a given seed: in another interpreter process too (string keys,
    different hash salt), not only when repeated in the same process."""
    import subprocess
    import sys as _sys
    outs = []
    for hs in inp["hashseeds"]:
        env = dict(os.environ, PYTHONHASHSEED=str(hs))
        p = subprocess.run([_sys.executable, "-c", _REPRO_SCRIPT, str(inp["seed"]), str(inp["fseed"])],
                           capture_output=True, text=True, env=env, timeout=600)
        if p.returncode != 0:
            return [{"clause": "no-error", "input": dict(inp), "desc": "fsc script failed: " + p.stderr[-200:]}]
        outs.append(p.stdout.strip().splitlines()[-1])
    if len(set(outs)) != 1:
        import json as _json
        a, b = _json.loads(outs[0]), _json.loads(outs[1])
        diff = [k for k in a if a[k] != b.get(k)]
        return [{"clause": "reproducible", "input": dict(inp),
                 "desc": f"FSC with seed={inp['fseed']} differs between two interpreter runs (PYTHONHASHSEED "
                         f"{inp['hashseeds']}) for {diff[:4]}"}]
    return []


def oracle(rng, thorough, deep=False, hints=None):
    big = thorough or deep
    cases = []
    fixed = [(24, 24, 24), (21, 21, 21), (24, 19, 22), (15, 26, 33), (8, 8, 8), (9, 7, 5)]
    for it in range(30 if big else 10):
        shape = fixed[it % len(fixed)] if it < len(fixed) else tuple(int(x) for x in rng.integers(4, 20, size=3))
        cases.append(dict(kind="function", shape=list(shape), seed=int(rng.integers(0, 10 ** 6)),
                          dfreq=float(max(1.0 / min(shape), rng.choice([0.03, 0.05, 0.0731, 0.11])))))
    for it, (amp, amp_b) in enumerate([(1e8, 1e8), (1e9, 1e7), (1e-6, 1e-6), (3e4, 2e4), (1e12, 1e12), (1e-9, 1e3)][:6 if big else 3]):
        shape = fixed[it % len(fixed)]
        cases.append(dict(kind="function", shape=list(shape), seed=int(rng.integers(0, 10 ** 6)), amp=amp, amp_b=amp_b,
                          dfreq=float(rng.choice([0.05, 0.0731, 0.11]))))
    for it in range(8 if big else 3):
        cases.append(dict(kind="loader", lkind="single" if it % 2 == 0 else "batch", ntomo=1 if it % 2 == 0 else 2,
                          n=int(rng.choice([8, 9, 12, 5])), box=3 if it % 3 else 5, seed=int(rng.integers(0, 10 ** 6)),
                          fseed=int(rng.choice([0, 1, 5])), n_sets=[1, 2], mask=bool(it % 2),
                          zero_norm=bool(it % 3 != 1), dfreq=0.2, group=bool(it % 2 == 0)))
    cases.append(dict(kind="repro", seed=int(rng.integers(0, 10 ** 6)), fseed=int(rng.choice([0, 3])),
                      hashseeds=[11, 12] if not deep else [11, 12, 13]))
    viols, stats = [], {"by_kind": {}, "samples": [{"oracle_case": c} for c in cases[:2]]}
    for c in cases:
        stats["by_kind"][c["kind"]] = stats["by_kind"].get(c["kind"], 0) + 1
        viols += run_repro(c) if c["kind"] == "repro" else run_case(c)
    return len(cases), viols, stats


def replay(payload):
    if payload["input"].get("kind") == "repro":
        v = run_repro(dict(payload["input"]))
        return {"violated": bool(v), "violations": v}
    v = run_case(dict(payload["input"]))
    return {"violated": bool(v), "violations": v}
