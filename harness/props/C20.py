"""C20 — Particle picking finds planted particles regardless of chunking."""
from __future__ import annotations

import warnings
from fractions import Fraction

import numpy as np

import common as C

PROP = "C20"
LEAN_MODULES = ["AcryoVerif.Props.C20"]
LEAN_SUPPORT = ["AcryoVerif.Model.Chunks", "AcryoVerif.Lemmas.PyLemmas"]
KERNELS = ["pickInChunk", "pickGlobal", "pickDepthClamp", "pickDepthWithMargin", "pickMoleculesStructure",
           "pickWrappedStructure", "logDepth", "dogDepth", "pickBlobRadius", "tmDepth", "tmMargin", "tmOffset",
           "tmMinDistancePx", "tmStructure", "tmRotationLookup", "maxFilterIdentity", "maxFilterRint", "maxFilterFoot",
           "findMaximaStructure"]
TRUSTED = [
    "Lean 4.33 kernel; axioms propext / Classical.choice / Quot.sound only",
    "translator/py2lean.py + Py.lean, self-checked each run; the call structure of pick_molecules / "
    "_pick_in_chunk_wrapped / the pickers is read from the AST",
    "dask map_overlap(trim=False, boundary=...) hands every block its chunk extended by `depth` on both sides and "
    "block_info[None]['array-location'] is the chunk's start in the original array (modelled by Model.Chunks; "
    "exercised with a stub detector over random chunkings incl. chunks smaller than the depth)",
    "scipy.ndimage gaussian_laplace / gaussian_filter / maximum_filter / label / center_of_mass and the ZNCC "
    "landscape (parameters: the responses of planted particles are local maxima at their centres; sampled)",
]
ASSUMPTIONS = ["particles are separated by more than the exclusion distance plus the filter support and lie at least "
               "that far inside the image",
               "plateaus of equal response wider than two voxels across a chunk face are not covered by the one-voxel "
               "labelling margin"]
EXPLANATION = (
    "Theorems: for EVERY chunking (any number / sizes of chunks, incl. smaller than the depth or empty) and depth, "
    "each position inside the image is kept by exactly one block and positions in the outside padding by none; "
    "the kept local position is reported at the original pixel position times scale; with a detector that is "
    "right inside block cores the concatenated result lists every particle exactly once and nothing else; a "
    "numpy image is the one-chunk case; a pipeline of local operators run on a block equals the whole-image "
    "pipeline on the block's core when the overlap covers the summed radii, and the LoG/DoG depths cover scipy's "
    "kernel radius int(4 sigma + 0.5) + ceil(sigma) + 1; template matching: the landscape of a block covers its core +- ceil(min_distance), odd and even templates); "
    "the max-filter footprint contains its centre and stays within the radius. K2: a stub detector that reports "
    "marked voxels (plus junk at block edges) through the real pick_molecules on random dask chunkings vs the "
    "model. Oracle: LoG / DoG / ZNCC pickers on planted particles, numpy vs chunkings, scales, dtypes.")
SAMPLE_OBLIGATIONS = [
    {"theorem": "C20.core_unique", "statement": "no position is kept by two blocks, for every chunk list and depth"},
    {"theorem": "C20.core_exists", "statement": "every position inside the image is kept by some block"},
    {"theorem": "C20.picked_once", "statement": "count x (concatenated filtered reports) = count x (true maxima)"},
]


def k1_grids(rng, thorough):
    pos = [Fraction(k, 4) for k in range(-6, 60, 5)]
    sc = [Fraction(1, 4), Fraction(1, 2), Fraction(1), Fraction(2), Fraction(5)]
    g = {
        "pickInChunk": [[p, d, b] for p in pos for d in (0, 1, 3, 5) for b in (4, 9, 14)],
        "pickGlobal": [[p, s, d, k] for p in pos[::2] for s in (0, 7, 20) for d in (0, 3) for k in sc],
        "pickDepthClamp": [[s, d] for s in range(0, 9) for d in range(0, 9)],
        "pickDepthWithMargin": [[d, m] for d in range(0, 7) for m in range(0, 5)],
        "logDepth": [[a, s] for a in [Fraction(k, 4) for k in range(0, 30, 3)] for s in sc],
        "dogDepth": [[a, a * Fraction(r, 4), s] for a in [Fraction(k, 4) for k in range(0, 30, 3)] for r in (5, 7, 13) for s in sc],
        "tmDepth": [[n] for n in range(1, 45)],
        "tmMargin": [[Fraction(k, 4)] for k in range(0, 30)],
        "tmOffset": [[n] for n in range(1, 45)],
        "tmMinDistancePx": [[a, s] for a in [Fraction(k, 4) for k in range(0, 20, 3)] for s in sc],
        "maxFilterIdentity": [[Fraction(k, 4)] for k in range(0, 12)],
        "maxFilterRint": [[Fraction(k, 4)] for k in range(0, 20)],
        "maxFilterFoot": [[Fraction(r4, 4), int(np.ceil(r4 / 4)), z, y, x] for r4 in (4, 6, 8, 11)
                          for z in range(0, 2 * int(np.ceil(r4 / 4)) + 1) for y in (0, int(np.ceil(r4 / 4)))
                          for x in range(0, 2 * int(np.ceil(r4 / 4)) + 1)],
    }
    return g


# ------------------------------------------------------------------------------------------
def _stub(depth, junk):
    """A picker that reports every voxel equal to 1 (a marker) of the block it is given, and optionally
    junk at the block's faces (as the cut-off borders of a real filter response produce)."""
    from acryo.pick._base import BasePickerModel

    class Stub(BasePickerModel):
        def get_params_and_depth(self, scale):
            return {}, depth

        def pick_in_chunk(self, image):
            pos = np.argwhere(image == 1.0).astype(np.float32).reshape(-1, 3)
            pos2 = np.argwhere(image == 2.0).astype(np.float32).reshape(-1, 3) + 0.5   # "between voxels"
            pos = np.concatenate([pos, pos2], axis=0)
            if junk:
                b = np.array(image.shape, dtype=np.float32)
                extra = np.array([[0, 0, 0], b - 1, [0, b[1] - 1, b[2] / 2]], dtype=np.float32)
                pos = np.concatenate([pos, extra], axis=0)
            quats = np.zeros((pos.shape[0], 4), dtype=np.float32)
            quats[:, 3] = 1
            return pos, quats, {"score": np.arange(pos.shape[0], dtype=np.float32)}

    return Stub()


def _chunking(rng, n, small):
    cs = []
    left = n
    while left > 0:
        c = int(rng.integers(1, 4 if small else max(2, n // 2 + 1)))
        c = min(c, left)
        cs.append(c)
        left -= c
    return cs


def correspondence(rng, thorough):
    import dask
    import dask.array as da
    lines, impl = [], []
    stats = {"cases": 0, "markers": 0, "chunks_smaller_than_depth": 0, "single_chunk": 0, "numpy": 0, "junk": 0,
             "depth_clipped": 0}
    for it in range(30 if thorough else 10):
        shape = [int(v) for v in rng.integers(5, 15, size=3)]
        depth = [int(v) for v in rng.integers(0, 5, size=3)]
        if it % 7 == 3:
            depth[int(rng.integers(0, 3))] = 20           # larger than the image: clipped
            stats["depth_clipped"] += 1
        scale = Fraction([1, 1, 2, 5][it % 4], [1, 2, 1, 4][it % 4])
        small = it % 3 == 0
        css = [_chunking(rng, n, small) for n in shape]
        mode = it % 5
        if mode == 1:
            css = [[n] for n in shape]
            stats["single_chunk"] += 1
        img = np.zeros(shape, dtype=np.float32)
        nm = int(rng.integers(1, 6))
        marks = {tuple(int(rng.integers(0, n)) for n in shape) for _ in range(nm)}
        halfs = set()
        for m in marks:
            img[m] = 1.0
        if it % 2 == 0 and min(depth) >= 1:
            # (a between-voxel maximum on a chunk face is seen by the owning chunk only through its overlap)
            # half-integer positions: on the face between two chunks whenever a chunk starts at m + 1
            for _ in range(int(rng.integers(1, 4))):
                # not in the first voxel layer: its "nearest" padding copies would be reported at -0.5
                m = tuple(int(rng.integers(1, n - 1)) for n in shape)
                if m not in marks:
                    img[m] = 2.0
                    halfs.add(m)
        stats["chunks_smaller_than_depth"] += any(min(cs) < d for cs, d in zip(css, depth))
        junk = bool(it % 2) and min(depth) >= 1      # block faces are margins only where the depth is positive
        stats["junk"] += junk
        if mode == 2:
            arr = img
            css = [[n] for n in shape]
            stats["numpy"] += 1
        else:
            arr = da.from_array(img, chunks=tuple(tuple(cs) for cs in css))
        d_arg = tuple(depth) if it % 2 else (depth[0] if len(set(depth)) == 1 else tuple(depth))
        with warnings.catch_warnings():
            warnings.simplefilter("ignore")
            with dask.config.set(scheduler="synchronous"):
                out = _stub(d_arg, junk).pick_molecules(arr, float(scale))
        got = [tuple(Fraction(float(v)) for v in p) for p in out.pos]
        for m in sorted(marks):
            want = tuple(Fraction(k) * scale for k in m)
            cnt = sum(1 for g in got if g == want)
            lines.append(f"m:pick3 {C.rat_str(scale)} {depth[0]} {depth[1]} {depth[2]} {m[0]} {m[1]} {m[2]} "
                         + " ".join(f"{len(cs)} " + " ".join(map(str, cs)) for cs in css))
            impl.append(C.canon((cnt, [[want[0]] if cnt else [], [want[1]] if cnt else [], [want[2]] if cnt else []])))
            stats["markers"] += 1
        for m in sorted(halfs):
            want = tuple((Fraction(k) + Fraction(1, 2)) * scale for k in m)
            cnt = sum(1 for g in got if g == want)
            lines.append(f"m:pick3 {C.rat_str(scale)} {depth[0]} {depth[1]} {depth[2]} "
                         + " ".join(C.rat_str(Fraction(k) + Fraction(1, 2)) for k in m) + " "
                         + " ".join(f"{len(cs)} " + " ".join(map(str, cs)) for cs in css))
            impl.append(C.canon((cnt, [[want[0]] if cnt else [], [want[1]] if cnt else [], [want[2]] if cnt else []])))
            stats["markers"] += 1
            stats["half_integer"] = stats.get("half_integer", 0) + 1
        # nothing but the markers may be reported
        allowed = {tuple(Fraction(k) * scale for k in m) for m in marks} | \
            {tuple((Fraction(k) + Fraction(1, 2)) * scale for k in m) for m in halfs}
        extra = [g for g in got if g not in allowed]
        lines.append(f"m:pick3 {C.rat_str(scale)} {depth[0]} {depth[1]} {depth[2]} -3 {shape[1] + 2} 0 "
                     + " ".join(f"{len(cs)} " + " ".join(map(str, cs)) for cs in css))
        impl.append(C.canon((len(extra), [[], [], [Fraction(0)]])))
        stats["cases"] += 1
    return lines, impl, stats


# ------------------------------------------------------------------------------------------
def _blobs(shape, pts, sigma):
    from scipy import ndimage as ndi
    a = np.zeros(shape, dtype=np.float32)
    for p in pts:
        a[tuple(p)] = 100.0
    return ndi.gaussian_filter(a, sigma)


def _layout(r, shape, spacing, margin, n):
    pts = []
    for _ in range(400):
        p = [int(r.integers(margin, s - margin)) for s in shape]
        if all(max(abs(a - b) for a, b in zip(p, q)) >= spacing for q in pts):
            pts.append(p)
        if len(pts) == n:
            break
    return pts


def _chunk_variants(r, shape, k):
    out = [tuple(shape), tuple(max(1, s // 2) for s in shape)]
    for _ in range(k):
        out.append(tuple(int(r.integers(3, s + 1)) for s in shape))
    out.append((int(r.integers(2, 5)), shape[1], int(r.integers(2, 6))))      # chunks smaller than the depth
    return out


def _cast(img, dtype):
    if dtype == "float32":
        return img.astype(np.float32)
    if dtype == "float64":
        return img.astype(np.float64)
    m = float(img.max()) or 1.0
    if dtype == "int16":
        return np.round(img / m * 2000).astype(np.int16)
    if dtype == "uint8":
        return np.round(img / m * 250).astype(np.uint8)
    raise ValueError(dtype)


def run_case(inp):
    import dask
    import dask.array as da
    from acryo import pick
    viols = []

    def V(clause, desc):
        viols.append({"clause": clause, "desc": desc, "input": dict(inp)})

    r = np.random.default_rng(inp["seed"])
    scale = float(inp["scale"])
    shape = tuple(inp["shape"])
    kind = inp["kind"]
    with warnings.catch_warnings():
        warnings.simplefilter("ignore")
        with dask.config.set(scheduler=inp.get("scheduler", "synchronous")):
            if kind in ("log", "dog"):
                sig = float(inp["sigma"])                       # particle size (px)
                pts = _layout(r, shape, int(np.ceil(6 * sig)), int(np.ceil(3 * sig)), int(inp["n"]))
                plateau = inp.get("plateau")
                if inp.get("diag"):
                    # pairs of point particles of unequal brightness on a space diagonal: farther apart than the
                    # exclusion distance (5.2 px > sigma), but within ceil(sigma) voxels along every single axis
                    base = _layout(r, shape, int(np.ceil(6 * sig)) + 4, int(np.ceil(3 * sig)) + 3, int(inp["n"]))
                    sgn = [[int(v) for v in r.choice([-3, 3], size=3)] for _ in base]
                    pts = [list(b) for b in base] + [[b[d] + g[d] for d in range(3)] for b, g in zip(base, sgn)]
                    a0 = np.zeros(shape, dtype=np.float32)
                    for j, q in enumerate(pts):
                        a0[tuple(q)] = [100.0, 80.0, 90.0][j % 3] if j < len(base) else [70.0, 100.0, 60.0][j % 3]
                    img = _cast(a0, inp["dtype"])
                elif plateau is not None:
                    # particles centred between two voxels along one axis: two equal maxima, one particle
                    e = np.eye(3, dtype=int)[int(plateau)]
                    a0 = np.zeros(shape, dtype=np.float32)
                    for p in pts:
                        a0[tuple(p)] = a0[tuple(np.array(p) + e)] = 100.0
                    from scipy import ndimage as _ndi
                    img = _cast(_ndi.gaussian_filter(a0, sig), inp["dtype"])
                else:
                    img = _cast(_blobs(shape, pts, sig), inp["dtype"])
                P = pick.LoGPicker(sig * scale) if kind == "log" else pick.DoGPicker(sig * scale, 1.6 * sig * scale)
                want = np.array(sorted(pts), dtype=np.float64) * scale
                if plateau is not None:
                    want = want + 0.5 * np.eye(3)[int(plateau)] * scale
                tol = 1e-3 * max(1.0, scale)
                quat_ref = None
            else:
                from scipy import ndimage as ndi
                from scipy.spatial.transform import Rotation
                from acryo._utils import compose_matrices
                n = int(inp["tsize"])
                ts = tuple(inp["tshape"]) if inp.get("tshape") else (n, n, n)      # non-cubic: per-axis depths
                T = np.zeros(ts, dtype=np.float32)
                c = (np.array(ts) - 1) / 2
                # nine points of similar weight: shifting the template onto itself by the vector between two of its points
                # (or onto a rotated copy) then scores about 1/9, far from the acceptance score, whatever the draw
                for _ in range(9):
                    p = np.clip(np.round(c + r.uniform(-0.25, 0.25, 3) * np.array(ts)), 1, np.array(ts) - 2).astype(int)
                    T[tuple(p)] += r.uniform(0.8, 1.2)
                T = ndi.gaussian_filter(T, 0.8).astype(np.float32)
                if inp.get("tshape"):
                    rots = [Rotation.identity()]        # a rotated box would leave the template frame
                else:
                    rots = [Rotation.identity(), Rotation.from_euler("z", 90, degrees=True),
                            Rotation.from_euler("y", 90, degrees=True)]
                pts = _layout(r, shape, max(ts) + 3, max(ts) // 2 + 3, int(inp["n"]))
                ks = [int(v) for v in r.integers(0, len(rots), size=len(pts))]
                vol = np.zeros(shape, dtype=np.float32)
                for ctr, k in zip(pts, ks):
                    mtx = compose_matrices(c, [rots[k].inv()])[0]
                    tk = ndi.affine_transform(T, mtx, order=1, mode="constant")
                    lo = [ctr[d] - (ts[d] - 1) // 2 for d in range(3)]
                    vol[lo[0]:lo[0] + ts[0], lo[1]:lo[1] + ts[1], lo[2]:lo[2] + ts[2]] += tk
                # noise well below the template's own amplitude (a blurred 5-point template peaks near 0.1-0.3)
                vol += 0.02 * float(T.max()) * r.normal(size=shape).astype(np.float32)
                img = _cast(vol, inp["dtype"]) if inp["dtype"] in ("float32", "float64") else vol
                P = pick.ZNCCTemplateMatcher(T, rotation=Rotation.concatenate(rots))
                half = np.array([0.0 if k % 2 else 0.5 for k in ts])
                order = sorted(range(len(pts)), key=lambda i: pts[i])
                want = (np.array([pts[i] for i in order], dtype=np.float64) + half) * scale
                quat_ref = np.array([rots[ks[i]].as_quat() for i in order])
                tol = 1e-3 * max(1.0, scale)

            def run(arr):
                if kind == "tm":
                    out = P.pick_molecules(arr, scale, min_distance=float(inp["min_distance"]) * scale, min_score=0.75)
                else:
                    out = P.pick_molecules(arr, scale)
                o = np.lexsort(out.pos.T[::-1]) if len(out) else np.array([], dtype=int)
                return out.pos[o].astype(np.float64), out.rotator.as_quat()[o] if len(out) else np.zeros((0, 4)), \
                    out.features["score"].to_numpy()[o].astype(np.float64) if len(out) else np.zeros(0)

            try:
                ref = run(img)
            except Exception as e:  # noqa: BLE001
                V("no-error", f"{kind} picker on a numpy image raised {type(e).__name__}: {str(e)[:100]}")
                return viols
            if len(ref[0]) == len(want) and len(want):
                # pair every particle with its nearest pick (a half-voxel ambiguity may change the lexicographic order)
                dm = np.abs(ref[0][None, :, :] - want[:, None, :]).max(axis=2)
                nearest = dm.argmin(axis=1)
                if len(set(nearest.tolist())) == len(want):
                    want = want[np.argsort(nearest)]
                    if quat_ref is not None:
                        quat_ref = quat_ref[np.argsort(nearest)]
            if len(ref[0]) != len(want) or np.abs(ref[0] - want).max() > max(tol, 0.51 * scale if kind != "tm" and (inp["dtype"] in ("int16", "uint8") or inp.get("plateau") is not None) else tol):
                V("planted", f"{kind} picker (numpy, dtype {inp['dtype']}, scale {scale}): {len(ref[0])} picks "
                             f"{np.round(ref[0], 2).tolist()[:8]} for {len(want)} particles at {want.tolist()[:8]}")
                return viols
            if quat_ref is not None:
                d = np.minimum(np.abs(ref[1] - quat_ref).max(axis=1), np.abs(ref[1] + quat_ref).max(axis=1))
                if d.max() > 1e-4:
                    V("rotation", f"template matcher reports rotations {np.round(ref[1], 3).tolist()} for planted "
                                  f"{np.round(quat_ref, 3).tolist()}")
            # one chunking whose faces pass right behind the first particle's voxel on every axis (for an
            # even template the particle centre then lies exactly on the face between two chunks)
            p0 = pts[0] if pts else [s // 2 for s in shape]
            through = tuple((int(p0[d]) + 1, shape[d] - int(p0[d]) - 1) if 0 < int(p0[d]) + 1 < shape[d] else (shape[d],)
                            for d in range(3))
            for chunks in list(inp["chunkings"]) + [through]:
                try:
                    got = run(da.from_array(img, chunks=tuple(chunks)))
                except Exception as e:  # noqa: BLE001
                    V("no-error", f"{kind} picker with chunks {chunks} raised {type(e).__name__}: {str(e)[:100]}")
                    continue
                if len(got[0]) != len(ref[0]):
                    V("chunk-independent", f"{kind} picker with chunks {chunks} returns {len(got[0])} molecules, "
                                           f"{len(ref[0])} for the numpy image ({len(want)} particles)")
                    continue
                if not (np.abs(got[0] - ref[0]).max() <= tol):
                    V("chunk-independent", f"{kind} picker with chunks {chunks}: positions differ from the numpy result by "
                                           f"{np.abs(got[0] - ref[0]).max():.3g}")
                dq = np.minimum(np.abs(got[1] - ref[1]).max(axis=1), np.abs(got[1] + ref[1]).max(axis=1))
                if dq.max() > 1e-5:
                    V("chunk-independent", f"{kind} picker with chunks {chunks}: rotations differ from the numpy result")
                rel = np.abs(got[2] - ref[2]).max() / (np.abs(ref[2]).max() + 1e-12)
                if kind == "tm" and rel > 1e-3:
                    V("chunk-independent", f"{kind} picker with chunks {chunks}: scores differ from the numpy result by "
                                           f"{100 * rel:.1f} %")
                elif kind != "tm" and rel > 1e-4:
                    # the blocks overlap by the kernel radius (4 sigma; DoG: 4 sigma_high) + search radius + 1
                    V("blob-score", f"{kind} picker with chunks {chunks}: scores differ from the numpy result by "
                                    f"{100 * rel:.3g} % (same positions)")
                    break
    return viols


def run_bank(inp):
    """More than 256 searched rotations: the reported rotation is the planted one also for rotation
    indices beyond the range of a narrow integer."""
    import dask
    import dask.array as da
    from scipy import ndimage as ndi
    from scipy.spatial.transform import Rotation
    from acryo import pick
    from acryo._utils import compose_matrices
    viols = []
    r = np.random.default_rng(inp["seed"])
    n = 9
    T = np.zeros((n, n, n), dtype=np.float32)
    c = (n - 1) / 2
    for _ in range(6):
        p = np.clip(np.round(c + r.uniform(-0.3, 0.3, 3) * n), 1, n - 2).astype(int)
        T[tuple(p)] += r.uniform(0.5, 1.5)
    T = ndi.gaussian_filter(T, 0.7).astype(np.float32)
    grid = tuple(tuple(g) for g in inp["grid"]) if inp.get("grid") else ((30, 10), (30, 10), (30, 10))   # default: 7^3 = 343 rotations
    M = pick.ZNCCTemplateMatcher(T, rotation=grid)
    quats = np.asarray(M._quaternions)
    idxs = [int(v) % len(quats) for v in inp["indices"]]
    shape = (24, 24, 16 * len(idxs) + 8)
    vol = np.zeros(shape, dtype=np.float32)
    ctrs = [(12, 12, 12 + 16 * i) for i in range(len(idxs))]
    for ctr, k in zip(ctrs, idxs):
        mtx = compose_matrices(np.array([c, c, c]), [Rotation.from_quat(quats[k]).inv()])[0]
        tk = ndi.affine_transform(T, mtx, order=1, mode="constant")
        lo = [ctr[d] - (n - 1) // 2 for d in range(3)]
        vol[lo[0]:lo[0] + n, lo[1]:lo[1] + n, lo[2]:lo[2] + n] += tk
    vol += 0.01 * r.normal(size=shape).astype(np.float32)
    for arr, label in ((vol, "numpy"), (da.from_array(vol, chunks=(24, 24, 20)), "chunks (24, 24, 20)")):
        try:
            with warnings.catch_warnings():
                warnings.simplefilter("ignore")
                with dask.config.set(scheduler="synchronous"):
                    # (exclusion distance well above half a template: with 90 / 180 degree members in the bank a
                    # half-overlapping rotated copy of the template's own density can score above 0.7)
                    out = M.pick_molecules(arr, 1.0, min_distance=7.0, min_score=0.75)
        except Exception as e:  # noqa: BLE001
            viols.append({"clause": "no-error", "input": dict(inp), "desc": f"{label}: {type(e).__name__}: {str(e)[:100]}"})
            continue
        o = np.lexsort(out.pos.T[::-1])
        pos, q = out.pos[o], out.rotator.as_quat()[o]
        if len(pos) != len(ctrs) or np.abs(pos - np.array(sorted(ctrs), dtype=float)).max() > 1e-3:
            viols.append({"clause": "planted", "input": dict(inp),
                          "desc": f"{len(quats)}-rotation bank ({label}): picks {pos.tolist()} for particles {sorted(ctrs)}"})
            continue
        want = quats[[idxs[ctrs.index(cc)] for cc in sorted(ctrs)]]
        ang = np.array([(Rotation.from_quat(a) * Rotation.from_quat(b).inv()).magnitude() for a, b in zip(q, want)])
        if np.degrees(ang).max() > 1.0:
            viols.append({"clause": "rotation", "input": dict(inp),
                          "desc": f"{len(quats)}-rotation bank {grid} ({label}): particles planted with rotations #{idxs} are reported "
                                  f"{np.round(np.degrees(ang), 1).tolist()} degrees away from the planted rotation"})
    return viols


def run_reuse(inp):
    """One matcher object (template given as a provider) used for tomograms of different pixel sizes, and
    used twice for the same tomogram: every call stands on its own."""
    import dask
    import dask.array as da
    from scipy import ndimage as ndi
    from acryo import pick, pipe
    viols = []
    r = np.random.default_rng(inp["seed"])
    n = 8
    T = np.zeros((n, n, n), dtype=np.float32)
    for _ in range(6):
        p = np.clip(np.round((n - 1) / 2 + r.uniform(-0.3, 0.3, 3) * n), 1, n - 2).astype(int)
        T[tuple(p)] += r.uniform(0.5, 1.5)
    T = ndi.gaussian_filter(T, 0.9).astype(np.float32)
    prov = pipe.from_array(T, original_scale=1.0)
    M = pick.ZNCCTemplateMatcher(prov)
    results = []
    for scale in inp["scales"]:
        Ts = np.asarray(prov(scale), dtype=np.float32)
        k = Ts.shape[0]
        shape = (3 * k + 6, 3 * k + 4, 5 * k)
        ctrs = [(k + 2, k + 1, k + 1), (2 * k + 1, 2 * k, 3 * k + 2)]
        vol = 0.01 * r.normal(size=shape).astype(np.float32)
        for ctr in ctrs:
            lo = [ctr[d] - (k - 1) // 2 for d in range(3)]
            vol[lo[0]:lo[0] + k, lo[1]:lo[1] + k, lo[2]:lo[2] + k] += Ts
        half = 0.0 if k % 2 else 0.5
        want = (np.array(sorted(ctrs), dtype=float) + half) * scale
        for arr, label in ((vol, "numpy"), (da.from_array(vol, chunks=(k + 3, shape[1], 2 * k)), "dask")):
            try:
                with warnings.catch_warnings():
                    warnings.simplefilter("ignore")
                    with dask.config.set(scheduler="synchronous"):
                        out = M.pick_molecules(arr, scale, min_distance=k / 2 * scale, min_score=0.75)
            except Exception as e:  # noqa: BLE001
                viols.append({"clause": "no-error", "input": dict(inp),
                              "desc": f"matcher reused at scale {scale} ({label}): {type(e).__name__}: {str(e)[:100]}"})
                continue
            pos = out.pos[np.lexsort(out.pos.T[::-1])] if len(out) else np.zeros((0, 3))
            if len(pos) != len(want) or np.abs(pos - want).max() > 1e-3 * max(1.0, scale):
                viols.append({"clause": "reuse", "input": dict(inp),
                              "desc": f"a matcher built from a template provider, used at scales {inp['scales']} in turn: at scale "
                                      f"{scale} ({label}) it returns {np.round(pos, 2).tolist()} for particles at {want.tolist()}"})
    return viols


def run_empty(inp):
    """No particle at all, or none in some chunk: an empty result, not an error."""
    import dask
    import dask.array as da
    from acryo import pick
    viols = []
    shape = tuple(inp["shape"])
    img = np.zeros(shape, dtype=np.float32)
    if inp["one"]:
        img = _blobs(shape, [[s // 4 for s in shape]], 2.0)
    T = np.zeros((5, 5, 5), dtype=np.float32)
    T[2, 2, 2] = 1
    T[1, 2, 3] = 0.5
    for name, P, kw in (("LoG", pick.LoGPicker(2.0), {}), ("DoG", pick.DoGPicker(2.0, 3.2), {}),
                        ("ZNCC", pick.ZNCCTemplateMatcher(T), dict(min_score=0.9))):
        for arr, label in ((img, "numpy"), (da.from_array(img, chunks=tuple(inp["chunks"])), f"chunks {inp['chunks']}")):
            try:
                with warnings.catch_warnings():
                    warnings.simplefilter("ignore")
                    with dask.config.set(scheduler="synchronous"):
                        out = P.pick_molecules(arr, 1.0, **kw)
                if name != "ZNCC" and len(out) != (1 if inp["one"] else 0):
                    viols.append({"clause": "planted", "input": dict(inp),
                                  "desc": f"{name} ({label}): {len(out)} picks in an image with {int(inp['one'])} particle(s)"})
            except Exception as e:  # noqa: BLE001
                viols.append({"clause": "no-error", "input": dict(inp),
                              "desc": f"{name} picker ({label}) on an image with {int(inp['one'])} particle(s) raised "
                                      f"{type(e).__name__}: {str(e)[:80]}"})
    return viols


def oracle(rng, thorough, deep=False, hints=None):
    big = thorough or deep
    cases = []
    for i in range(8 if big else 3):
        kind = ["log", "dog"][i % 2]
        shape = [int(v) for v in rng.integers(36, 52, size=3)]
        r = np.random.default_rng(int(rng.integers(0, 10 ** 6)))
        cases.append(dict(kind=kind, shape=shape, sigma=float([2.0, 1.5, 2.5][i % 3]), n=int(rng.integers(2, 6)),
                          scale=float([1.0, 0.5, 2.0, 0.2][i % 4]), dtype=["float32", "float64", "int16", "uint8"][i % 4],
                          chunkings=[list(c) for c in _chunk_variants(r, shape, 2 if big else 1)],
                          seed=int(rng.integers(0, 10 ** 6)), scheduler=["synchronous", "threads"][i % 2]))
    for i in range(3 if big else 1):
        shape = [int(v) for v in rng.integers(38, 48, size=3)]
        r = np.random.default_rng(int(rng.integers(0, 10 ** 6)))
        cases.append(dict(kind="log", shape=shape, sigma=2.2, n=int(rng.integers(1, 4)), scale=float([1.0, 0.5, 2.0][i % 3]),
                          dtype=["float32", "float64"][i % 2], diag=True, chunkings=[list(c) for c in _chunk_variants(r, shape, 1)],
                          seed=int(rng.integers(0, 10 ** 6)), scheduler="synchronous"))
    # particles centred between two voxels (two equal maxima); the extra chunking cuts right between them
    for i in range(6 if big else 2):
        shape = [int(v) for v in rng.integers(36, 48, size=3)]
        r = np.random.default_rng(int(rng.integers(0, 10 ** 6)))
        cases.append(dict(kind=["log", "dog"][i % 2], shape=shape, sigma=float([1.5, 2.0][i % 2]), n=int(rng.integers(1, 4)),
                          scale=float([1.0, 0.5, 2.0][i % 3]), dtype=["float32", "float64"][i % 2], plateau=int(rng.integers(0, 3)),
                          chunkings=[list(c) for c in _chunk_variants(r, shape, 1)],
                          seed=int(rng.integers(0, 10 ** 6)), scheduler="synchronous"))
    for i in range(4 if big else 2):
        shape = [int(v) for v in rng.integers(34, 44, size=3)]
        r = np.random.default_rng(int(rng.integers(0, 10 ** 6)))
        cases.append(dict(kind="tm", shape=shape, tsize=[9, 8, 7, 10][i % 4], n=int(rng.integers(2, 5)),
                          scale=float([1.0, 0.5][i % 2]), dtype=["float32", "float64"][i % 2],
                          # exclusion distance of half a template: side lobes of the template's own
                          # autocorrelation are not separate particles
                          min_distance=float([9, 8, 7, 10][i % 4]) / 2 + float([0.0, 0.5, 1.0][i % 3]),
                          chunkings=[list(c) for c in _chunk_variants(r, shape, 2 if big else 1)],
                          seed=int(rng.integers(0, 10 ** 6))))
    for i in range(2 if big else 1):
        shape = [int(v) for v in rng.integers(34, 44, size=3)]
        r = np.random.default_rng(int(rng.integers(0, 10 ** 6)))
        cases.append(dict(kind="tm", shape=shape, tsize=9, tshape=[[9, 7, 5], [6, 10, 8]][i % 2], n=int(rng.integers(2, 4)),
                          scale=1.0, dtype="float32", min_distance=5.0,
                          chunkings=[list(c) for c in _chunk_variants(r, shape, 2 if big else 1)],
                          seed=int(rng.integers(0, 10 ** 6))))
    cases.append(dict(kind="reuse", scales=[[1.0, 0.5, 1.0], [0.5, 1.0]][int(rng.integers(0, 2))], seed=int(rng.integers(0, 10 ** 6)),
                      scale=1.0, shape=[0, 0, 0]))
    cases.append(dict(kind="bank", indices=[int(rng.integers(0, 256)), int(rng.integers(256, 343)), 342], seed=int(rng.integers(0, 10 ** 6)),
                      scale=1.0, shape=[24, 24, 56]))
    # a rotation grid that lists some rotations twice (+-180 degrees give q and -q): the reported rotation is still the planted one
    cases.append(dict(kind="bank", grid=[[0, 0], [90, 90], [180, 90]], indices=[7, 13, int(rng.integers(4, 15))], seed=int(rng.integers(0, 10 ** 6)),
                      scale=1.0, shape=[24, 24, 56]))
    cases.append(dict(kind="empty", shape=[24, 20, 28], one=False, chunks=[12, 20, 9], seed=0, scale=1.0))
    cases.append(dict(kind="empty", shape=[30, 26, 28], one=True, chunks=[10, 13, 9], seed=0, scale=1.0))
    viols, stats = [], {"by_kind": {}, "samples": [{"oracle_case": c} for c in cases[:2]]}
    for c in cases:
        stats["by_kind"][c["kind"]] = stats["by_kind"].get(c["kind"], 0) + 1
        try:
            viols += {"empty": run_empty, "bank": run_bank, "reuse": run_reuse}.get(c["kind"], run_case)(c)
        except Exception as e:  # noqa: BLE001
            viols.append({"clause": "no-error", "desc": f"{c['kind']}: {type(e).__name__}: {str(e)[:120]}", "input": dict(c)})
    return len(cases), viols, stats


def replay(payload):
    inp = dict(payload["input"])
    v = {"empty": run_empty, "bank": run_bank, "reuse": run_reuse}.get(inp.get("kind"), run_case)(inp)
    return {"violated": bool(v), "violations": v}
