"""C10 — Results do not depend on dask scheduling, threading or chunking."""
from __future__ import annotations

import sys
from fractions import Fraction

import numpy as np

import common as C

PROP = "C10"
LEAN_MODULES = ["AcryoVerif.Props.C10"]
LEAN_SUPPORT = ["AcryoVerif.Model.Cache", "AcryoVerif.Model.Loader", "AcryoVerif.Props.C03", "AcryoVerif.Props.C05"]
KERNELS = ["backendEqByModule", "cacheGetProtocol", "cacheFilledAtInit", "declaredLandscapeShapeFromModel",
           "declaredLoadingShape", "landscapePad", "landscapeNeedUpsample", "buildMeshAxis",
           "batchTasksScatteredToMoleculeOrder", "paddingWidth", "padWidthEff0", "padWidthEff1", "pccLandscapeBounds",
           "fscOutShape", "modelMethodsDoNotStoreBase", "modelMethodsDoNotStoreConcrete", "tiltModelsDoNotStore"]
TRUSTED = [
    "Lean 4.33 kernel; axioms propext / Classical.choice / Quot.sound only",
    "structure of Backend.__eq__/__hash__, TemplateMaskCache.get/set, construct_landscape read from the AST",
    "CPython: one bytecode instruction is the unit of interleaving of pure-Python code; dict.get uses "
    "__hash__/__eq__; a dict raises RuntimeError when its size changes between iter() and next() "
    "(modelled by Model.stepThread; replayed on the real class with a sys.monitoring scheduler)",
    "dask: delayed tasks are pure calls, compute returns results in list order; numpy releases the GIL "
    "inside C code without exposing partial state - preemption inside C extensions cannot be exhibited "
    "by the model",
]
ASSUMPTIONS = ["oracle results under different schedulers/chunkings are compared bit-wise on integer-valued data",
               "the guided schedule replay stops threads at the statement boundaries of TemplateMaskCache.get; "
               "random instruction-level interleavings are exploration only"]
EXPLANATION = (
    "Theorems: for every number of threads and every schedule of TemplateMaskCache.get (keys compared "
    "by wrapped module, cache filled at construction) no thread raises, the dict never changes, every get "
    "returns the stored value (invariant by induction over the schedule); pure tasks stored by index give "
    "the same list under every execution order; batch tasks are in molecule order; up-sampled landscape "
    "mesh has 2*int(m*u)+1 samples inside the padded landscape; un-upsampled sides. K2: model schedules "
    "replayed on the real cache with a deterministic bytecode scheduler; declared vs computed landscape "
    "shapes vs the model. Oracle: schedulers / worker counts / chunkings / numpy vs dask compared bit-wise.")
SAMPLE_OBLIGATIONS = [
    {"theorem": "C10.cache_safe", "statement": "for all thread counts and schedules: no RuntimeError, dict unchanged, stored value returned"},
    {"theorem": "C10.pure_tasks_order_free", "statement": "execute f n order = map f (range n) for every permutation order"},
]


def k1_grids(rng, thorough):
    ms = [Fraction(k, 8) for k in range(0, 40, 3)]
    return {"landscapePad": [[True], [False]], "landscapeNeedUpsample": [[u] for u in range(0, 6)],
            "buildMeshAxis": [[m, u, s] for m in ms for u in (1, 2, 3, 5) for s in (3, 5, 8, 11)]}


def _cache_size(c):
    """number of entries of the cache, whatever the attribute holding them is called"""
    return max([len(v) for v in vars(c).values() if isinstance(v, dict)] or [0])


def _replay_cache(n, schedule):
    import sched
    from acryo.alignment._base import TemplateMaskCache
    from acryo.backend import Backend
    c = TemplateMaskCache()
    stored = (np.zeros(2), np.ones(2))
    c.set(Backend(), *stored)
    code = TemplateMaskCache.get.__code__
    bp = sched.cache_get_breakpoints(code)
    funcs = [(lambda: c.get(Backend())) for _ in range(n)]
    res, trace = sched.run_schedule(funcs, [code], schedule, bp)
    # threads that were never granted enough steps finish in the free-run phase: ask the trace
    outs = []
    steps = {i: 0 for i in range(n)}
    finished = set()
    for tid, what in trace:
        if what == "done":
            finished.add(tid)
    for i, r in enumerate(res):
        if i not in finished:
            outs.append("running")
        elif r[0] == "err":
            outs.append("raised" if r[1] == "RuntimeError" else "err:" + r[1])
        else:
            outs.append("ret" if (r[1] is not None and r[1][0] is stored[0]) else ("none" if r[1] is None else "ret-other"))
    return outs, _cache_size(c), bp is not None


def correspondence(rng, thorough):
    import dask
    from acryo import SubtomogramLoader, Molecules
    from props.C05 import _models
    lines, impl, stats = [], [], {"schedules": 0, "guided": 0, "shapes": 0}
    # --- schedule replay
    scheds = [(2, [0, 1]), (2, [0, 0, 1, 1, 1, 1, 0, 0]), (2, [0, 1, 0, 1, 0, 1, 0, 1]), (3, [0, 0, 1, 2, 1, 2, 1, 2, 0, 1, 2]),
              (2, [0, 0]), (3, [2, 2, 0, 0, 1])]
    for _ in range(20 if thorough else 6):
        n = int(rng.integers(2, 5))
        scheds.append((n, [int(x) for x in rng.integers(0, n, size=int(rng.integers(1, 14)))]))
    for n, sc in scheds:
        outs, size, guided = _replay_cache(n, sc)
        # the model's free-run phase does not exist: compare only threads that finished inside the schedule
        lines.append(f"m:cache {n} " + " ".join(map(str, sc)))
        impl.append(" ".join(outs) + f" size={size}")
        stats["schedules"] += 1
        stats["guided"] += guided
    # --- declared vs computed shapes vs model
    models = _models()
    tomo = rng.normal(size=(24, 24, 24)).astype(np.float32)
    ld = SubtomogramLoader(tomo, Molecules(np.array([[12.0, 12.0, 12.0]])), order=1)
    with dask.config.set(scheduler="synchronous"):
        for it in range(16 if thorough else 6):
            name = ["ZNCC", "NCC", "PCC", "FSC"][it % 4]
            N = [int(x) for x in rng.integers(6, 9, size=3)]
            t = rng.normal(size=N).astype(np.float32)
            m = [Fraction(int(rng.integers(0, 20 if name != "FSC" else 8)), 4) for _ in range(3)]
            u = int(rng.choice([1, 1, 2, 3]))
            arr = ld.construct_landscape(t, max_shifts=tuple(float(x) for x in m), alignment_model=models[name], upsample=u)
            comp = arr.compute()
            lines.append(f"m:ldsShape {it % 4} " + " ".join(C.rat_str(x) for x in m) + f" {u} " + " ".join(map(str, N)))
            impl.append(C.canon(tuple(int(x) for x in arr.shape[1:])) if tuple(arr.shape) == tuple(comp.shape)
                        else f"declared {tuple(arr.shape)} computed {tuple(comp.shape)}")
            stats["shapes"] += 1
    return lines, impl, stats


# ------------------------------------------------------------------------------------------
def _shuffled_get(seed):
    """A dask scheduler that executes ready tasks in a seeded random order (single thread)."""
    import dask
    from dask.local import get_sync
    return get_sync   # dask's synchronous scheduler; ordering variation is obtained through chunking/threads


def run_case(inp):
    import dask
    import dask.array as da
    from acryo import SubtomogramLoader, Molecules
    from acryo.alignment import ZNCCAlignment
    viols = []

    def V(clause, desc):
        viols.append({"clause": clause, "desc": desc, "input": dict(inp)})

    r = np.random.default_rng(inp["seed"])
    kind = inp["kind"]
    if kind == "cache-stress":
        import sched
        from acryo.alignment._base import TemplateMaskCache
        from acryo.backend import Backend
        code = TemplateMaskCache.get.__code__
        for trial in range(inp["trials"]):
            c = TemplateMaskCache()
            stored = (np.zeros(2), np.ones(2))
            c.set(Backend(), *stored)
            n = int(r.integers(2, 5))
            schedule = [int(x) for x in r.integers(0, n, size=int(r.integers(10, 120)))]
            res, _ = sched.run_schedule([(lambda: c.get(Backend())) for _ in range(n)], [code], schedule, None)
            bad = [x for x in res if x is None or x[0] == "err" or x[1] is None or x[1][0] is not stored[0]]
            if bad or _cache_size(c) != 1:
                V("cache-race", f"instruction-level schedule {schedule[:30]} with {n} threads: results {res}, cache size {_cache_size(c)}")
                break
        return viols
    if kind == "backend-context":
        # `with using_backend(name)` must govern every task of the computation, also the ones that look the
        # backend up lazily inside worker threads (the process-wide default is set to a backend that cannot
        # be used here, so any task that misses the context fails loudly instead of silently differing)
        from acryo.backend import set_backend, using_backend
        from acryo.backend._api import Backend as _B
        tomo = r.normal(size=(22, 22, 22)).astype(np.float32)
        mole = Molecules(r.uniform(8, 13, size=(6, 3)).astype(np.float32))
        tmpl = r.normal(size=(5, 5, 5)).astype(np.float32)
        old_default = _B._default

        def run(cfg):
            with dask.config.set(**cfg):
                ld = SubtomogramLoader(tomo, mole, order=1, output_shape=(5, 5, 5))
                return (np.asarray(ld.score([tmpl])[0]), np.asarray(ld.construct_landscape(tmpl, max_shifts=1.0).compute()),
                        ld.align(tmpl, max_shifts=1.0).molecules.pos.copy(), np.asarray(ld.average()))
        try:
            ref = run(dict(scheduler="synchronous"))
            set_backend("cupy")                      # not installed: a task that ignores the context raises
            with using_backend("numpy"):
                for cfg in (dict(scheduler="synchronous"), dict(scheduler="threads", num_workers=1),
                            dict(scheduler="threads", num_workers=4)):
                    try:
                        got = run(cfg)
                    except Exception as e:  # noqa: BLE001
                        V("spurious-error", f"inside `with using_backend('numpy')` (process default 'cupy'), {cfg}: "
                                            f"{type(e).__name__}: {str(e)[:100]}")
                        continue
                    if any(not np.array_equal(a, b) for a, b in zip(ref, got)):
                        V("schedule-dependence", f"results inside using_backend('numpy') differ from the plain numpy run under {cfg}")
        finally:
            set_backend(old_default)
        return viols
    if kind == "declared-shape":
        from acryo.alignment import PCCAlignment, NCCAlignment
        from acryo.alignment._concrete import FSCAlignment
        cls = {"ZNCC": ZNCCAlignment, "PCC": PCCAlignment, "NCC": NCCAlignment, "FSC": FSCAlignment}[inp["model"]]
        tomo = r.normal(size=(24, 24, 24)).astype(np.float32)
        mole = Molecules(r.uniform(9, 14, size=(2, 3)).astype(np.float32))
        n = int(inp["n"])
        tm = r.normal(size=(n, n, n)).astype(np.float32)
        tmpl = [tm, tm[::-1].copy()] if inp["two_templates"] else tm
        ms = inp["max_shifts"]
        ms = tuple(ms) if isinstance(ms, list) else ms
        kw = dict(rotations=((0, 0), (0, 0), (10, 10))) if inp["rotations"] else {}
        try:
            with dask.config.set(scheduler="synchronous"):
                sc = float(inp.get("scale", 1.0))
                ld = SubtomogramLoader(tomo, Molecules(mole.pos * sc), order=1, scale=sc, output_shape=(n, n, n))
                lds = ld.construct_landscape(tmpl, max_shifts=ms, upsample=int(inp["upsample"]), alignment_model=cls, **kw)
                declared = tuple(int(v) for v in lds.shape)
                computed = tuple(int(v) for v in np.asarray(lds.compute()).shape)
        except Exception as e:  # noqa: BLE001
            V("spurious-error", f"construct_landscape({inp['model']}, max_shifts={ms}, upsample={inp['upsample']}): "
                                f"{type(e).__name__}: {str(e)[:100]}")
            return viols
        if declared != computed:
            V("declared-shape", f"construct_landscape({inp['model']}, max_shifts={ms}, upsample={inp['upsample']}, "
                                f"rotations={bool(inp['rotations'])}) declares {declared} but computes {computed}")
        return viols
    if kind == "model-interleave":
        # Two or three tasks share ONE alignment model (as every loader method does). Their Python
        # code inside acryo.alignment / acryo.tilt is interleaved instruction by instruction following a
        # seeded schedule (sys.monitoring scheduler); each task must return what it returns when run alone.
        import sched
        import types
        from scipy.spatial.transform import Rotation
        import acryo.alignment._base as AB
        import acryo.alignment._concrete as AC
        import acryo.tilt._base as TB
        import acryo.tilt._single as TS
        from acryo.alignment import ZNCCAlignment, PCCAlignment

        def codes_of(mod):
            out = []

            def rec(c):
                out.append(c)
                for k in c.co_consts:
                    if isinstance(k, types.CodeType):
                        rec(k)
            for obj in vars(mod).values():
                if isinstance(obj, type) and obj.__module__ == mod.__name__:
                    for v in vars(obj).values():
                        f = getattr(v, "__func__", v)
                        if isinstance(f, types.FunctionType):
                            rec(f.__code__)
                elif isinstance(obj, types.FunctionType) and obj.__module__ == mod.__name__:
                    rec(obj.__code__)
            return out
        codes = codes_of(AB) + codes_of(AC) + codes_of(TB) + codes_of(TS)
        # stop only where shared state can be touched (attribute / item loads and stores): every step of
        # the schedule is then a potential conflict point, as in preemption-bounded schedule exploration
        import dis
        bps = {}
        for c in codes:
            offs = {i.offset for i in dis.get_instructions(c)
                    if i.opname in ("STORE_ATTR", "LOAD_ATTR", "STORE_SUBSCR", "BINARY_SUBSCR", "DELETE_ATTR", "DELETE_SUBSCR")}
            if offs:
                bps[c] = offs
        nthreads = int(inp["threads"])
        cls = {"ZNCC": ZNCCAlignment, "PCC": PCCAlignment}[inp["model"]]
        tmpl = r.normal(size=(6, 6, 6)).astype(np.float32)
        subs = [r.normal(size=(6, 6, 6)).astype(np.float32) for _ in range(nthreads)]
        quats = Rotation.random(nthreads, random_state=inp["seed"]).as_quat().astype(np.float32)
        method = inp["method"]

        def task(model, i):
            if method == "align":
                res = model.align(subs[i], (1.0, 1.0, 1.0), quats[i], np.zeros(3, dtype=np.float32))
                return (float(res.score),) + tuple(float(v) for v in res.shift)
            if method == "score":
                return (float(model.score(subs[i], quats[i], np.zeros(3, dtype=np.float32))),)
            lds = np.asarray(model.landscape(subs[i], (1.0, 1.0, 1.0), quats[i], np.zeros(3, dtype=np.float32)))
            return (float(lds.sum()), float(lds.max()))
        # several candidates per sub-volume (rotation search and / or several templates): the per-candidate
        # loops of the model run interleaved as well
        mkw = dict(tilt=(-60, 60), cutoff=0.5)
        if inp.get("candidates") in ("rotations", "both"):
            mkw["rotations"] = [Rotation.identity(), Rotation.from_euler("z", 40, degrees=True), Rotation.from_euler("y", -40, degrees=True)]
        tin = [tmpl, r.normal(size=(6, 6, 6)).astype(np.float32)] if inp.get("candidates") in ("templates", "both") else tmpl
        for trial in range(int(inp["trials"])):
            alone = []
            for i in range(nthreads):
                alone.append(task(cls(tin, **mkw), i))
            model = cls(tin, **mkw)
            sr = np.random.default_rng(inp["seed"] * 1000 + trial)
            # bursts of varying length so that both fine and coarse interleavings occur
            schedule = []
            while len(schedule) < int(inp["steps"]):
                schedule += [int(sr.integers(0, nthreads))] * int(sr.choice([1, 1, 1, 2, 3, 8, 30]))
            res, _ = sched.run_schedule([(lambda i=i: task(model, i)) for i in range(nthreads)], codes, schedule,
                                        bps if trial % 2 == 0 else None)
            for i, (st, val) in enumerate(res):
                if st != "ok":
                    V("spurious-error", f"{inp['model']}.{method}: task {i} raised {val} under instruction schedule "
                                        f"(trial {trial})")
                    return viols
                if any(abs(a - b) > 1e-5 for a, b in zip(val, alone[i])):
                    V("schedule-dependence", f"{inp['model']}.{method} with a shared model and a missing-wedge tilt model: "
                                             f"task {i} returns {val} when interleaved with {nthreads - 1} other task(s) "
                                             f"(trial {trial}) but {alone[i]} when run alone")
                    return viols
        return viols
    if kind == "wedge-race":
        # many molecules with distinct orientations share one model with a missing-wedge tilt model:
        # threaded runs must reproduce the synchronous scores / poses
        from scipy.spatial.transform import Rotation
        n = int(inp["nmol"])
        tomo = r.normal(size=(30, 30, 30)).astype(np.float32)
        pos = r.uniform(9, 20, size=(n, 3)).astype(np.float32)
        mole = Molecules(pos, Rotation.random(n, random_state=inp["seed"]))
        tmpl = r.normal(size=(7, 7, 7)).astype(np.float32)

        def run(cfg):
            with dask.config.set(**cfg):
                ld = SubtomogramLoader(tomo, mole, order=1, output_shape=(7, 7, 7))
                al = ld.align(tmpl, max_shifts=1.0, tilt=(-60, 60), cutoff=0.5)
                sc = np.asarray(ld.score([tmpl], tilt=(-60, 60))[0])
                return al.molecules.pos.copy(), al.molecules.features["score"].to_numpy(), sc
        old = sys.getswitchinterval()
        try:
            ref = run(dict(scheduler="synchronous"))
            sys.setswitchinterval(1e-6)
            for rep in range(int(inp["reps"])):
                for w in inp["workers"]:
                    try:
                        got = run(dict(scheduler="threads", num_workers=int(w)))
                    except Exception as e:  # noqa: BLE001
                        V("spurious-error", f"threads/{w}: {type(e).__name__}: {str(e)[:120]}")
                        continue
                    bad = [int((np.abs(a - b) > 1e-5).reshape(n, -1).any(axis=1).sum()) for a, b in zip(ref, got)]
                    if any(bad):
                        V("schedule-dependence", f"with a missing-wedge model and {n} differently oriented molecules, "
                                                 f"threads/{w} changes {bad[1]} alignment scores, {bad[0]} aligned positions "
                                                 f"and {bad[2]} score() values of the synchronous run")
                        return viols
        finally:
            sys.setswitchinterval(old)
        return viols
    tomo = r.integers(-6, 7, size=(26, 25, 24)).astype(np.float32)
    pos = np.array([[r.integers(7, 18), r.integers(7, 17), r.integers(7, 16)] for _ in range(inp["nmol"])], dtype=np.float32)
    if len(pos) >= 3:
        # two molecules whose sampling windows cross tomogram faces (padding is part of the result)
        pos[-1] = [1, r.integers(7, 17), 22]
        pos[-2] = [r.integers(7, 18), 0, r.integers(7, 16)]
    mole = Molecules(pos)
    tmpl = r.integers(-3, 4, size=(5, 5, 5)).astype(np.float32)

    def results(image, scheduler, workers):
        cfg = dict(scheduler=scheduler)
        if scheduler == "threads":
            cfg["num_workers"] = workers
        out = {}
        with dask.config.set(**cfg):
            ld = SubtomogramLoader(image, mole, order=inp["order"], output_shape=(5, 5, 5))
            out["asnumpy"] = np.asarray(ld.asnumpy())
            out["average"] = np.asarray(ld.average())
            out["apply"] = ld.apply(np.mean, np.std).to_numpy()
            al = ld.align(tmpl, max_shifts=1.0)
            out["align_pos"] = al.molecules.pos.copy()
            out["align_score"] = al.molecules.features["score"].to_numpy()
            out["score"] = np.asarray(ld.score([tmpl])[0])
            lds = ld.construct_landscape(tmpl, max_shifts=1.0)
            out["lds_declared"] = np.array(lds.shape)
            out["landscape"] = np.asarray(lds.compute())
            lb = ld.binning(2)
            out["binned_image_shape"] = np.array(np.asarray(lb.image).shape)
            out["binned"] = np.asarray(lb.asnumpy())
            out["binned_average"] = np.asarray(lb.average())
            cd = ld.construct_dask()
            out["dask_declared"] = np.array(cd.shape)
            out["dask_shape"] = np.array(cd.compute().shape)
        return out

    old = sys.getswitchinterval()
    try:
        ref = results(tomo, "synchronous", 1)
        if not np.array_equal(ref["lds_declared"], np.array(ref["landscape"].shape)):
            V("declared-shape", f"construct_landscape declares {ref['lds_declared'].tolist()} but computes {list(ref['landscape'].shape)}")
        if not np.array_equal(ref["dask_declared"], ref["dask_shape"]):
            V("declared-shape", "construct_dask declares a different shape than it computes")
        sys.setswitchinterval(1e-6)
        variants = []
        for chunks in inp["chunkings"]:
            if chunks == "cropped":
                # what a lazily cropped tomogram looks like: a short first chunk, then regular ones
                padded = np.pad(tomo, ((7, 0), (5, 0), (3, 0)))
                img = da.from_array(padded, chunks=10)[7:, 5:, 3:]
            else:
                img = da.from_array(tomo, chunks=tuple(chunks)) if chunks else tomo
            for sch, w in inp["schedulers"]:
                variants.append((f"chunks={chunks} scheduler={sch}/{w}", img, sch, w))
        for label, img, sch, w in variants:
            try:
                got = results(img, sch, w)
            except Exception as e:  # noqa: BLE001
                V("spurious-error", f"{label}: {type(e).__name__}: {str(e)[:120]}")
                continue
            for k, v in ref.items():
                if not np.array_equal(v, got[k]):
                    V("schedule-dependence", f"{k} differs from the synchronous numpy result under {label} "
                                             f"(max abs diff {np.abs(np.asarray(v, dtype=float) - np.asarray(got[k], dtype=float)).max():.3g})")
    finally:
        sys.setswitchinterval(old)
    return viols


def oracle(rng, thorough, deep=False, hints=None):
    big = thorough or deep
    cases = [dict(kind="cache-stress", seed=int(rng.integers(0, 10 ** 6)), trials=40 if big else 12)]
    for it in range(5 if big else 2):
        cases.append(dict(kind="loader", seed=int(rng.integers(0, 10 ** 6)), nmol=int(rng.integers(3, 9)),
                          order=int(rng.choice([0, 1])),
                          chunkings=[None, [13, 13, 12], [26, 9, 24], "cropped"] if big else [None, [13, 13, 12], "cropped"],
                          schedulers=[["threads", 1], ["threads", 4], ["threads", 16]] if big else [["threads", 4], ["threads", 16]]))
    mss = [1.4, [1.0, 2.6, 2.0], 5.0, 0.6, 2.0]
    combos = [(m, j) for m in ("ZNCC", "PCC", "FSC", "NCC") for j in range(len(mss))]
    if not big:
        combos = [combos[int(k)] for k in rng.permutation(len(combos))[:8]] + [("FSC", 0), ("PCC", 2)]
    for m, j in combos:
        cases.append(dict(kind="declared-shape", model=m, max_shifts=mss[j], n=7, upsample=[1, 2][(j + len(m)) % 2] if m != "FSC" else 1,
                          rotations=bool(j % 2), two_templates=bool(j == 3), seed=int(rng.integers(0, 10 ** 6))))
    # search ranges that are a whole number of pixels only up to floating-point rounding (1.2 / 0.4 = 2.9999999999999996)
    for i, (msn, sc) in enumerate([(1.2, 0.4), (0.6, 0.2), (2.1, 0.7), (0.29, 0.01)][: 4 if big else 2]):
        cases.append(dict(kind="declared-shape", model=["ZNCC", "FSC", "NCC", "PCC"][i % 4] if i != 2 else "FSC", max_shifts=msn, scale=sc, n=7,
                          upsample=1, rotations=bool(i % 2), two_templates=False, seed=int(rng.integers(0, 10 ** 6))))
    for i in range(6 if deep else (3 if thorough else 2)):
        cases.append(dict(kind="model-interleave", seed=int(rng.integers(0, 10 ** 6)), threads=[2, 3][i % 2],
                          model=["ZNCC", "PCC"][i % 2], method=["align", "score", "landscape"][i % 3],
                          trials=40 if deep else 4, steps=3000))
    for i in range(6 if deep else (3 if thorough else 2)):
        cases.append(dict(kind="model-interleave", seed=int(rng.integers(0, 10 ** 6)), threads=[2, 3][i % 2],
                          model=["ZNCC", "PCC"][(i // 2) % 2], method=["align", "landscape"][i % 2],
                          candidates=["rotations", "both", "templates"][i % 3], trials=30 if deep else 3, steps=6000))
    cases.append(dict(kind="backend-context", seed=int(rng.integers(0, 10 ** 6))))
    cases.append(dict(kind="wedge-race", seed=int(rng.integers(0, 10 ** 6)), nmol=64 if big else 32,
                      workers=[8, 16] if big else [8], reps=6 if deep else (2 if thorough else 1)))
    viols, stats = [], {"cases": len(cases), "samples": [{"oracle_case": c} for c in cases[:2]]}
    for c in cases:
        viols += run_case(c)
    return len(cases), viols, stats


def replay(payload):
    v = run_case(dict(payload["input"]))
    return {"violated": bool(v), "violations": v}
