"""C01 — Alignment moves each molecule onto the true particle pose."""
from __future__ import annotations

from fractions import Fraction

import numpy as np

import common as C

PROP = "C01"
LEAN_MODULES = ["AcryoVerif.Props.C01"]
LEAN_SUPPORT = ["AcryoVerif.Lemmas.PoseMat", "AcryoVerif.Lemmas.PyLemmas", "AcryoVerif.Model.Pose",
                "AcryoVerif.Model.Wedge"]
KERNELS = ["ltPreRotatesShift", "ltTranslateFirst", "ltRotvecFromRotator", "translateInternalUsesOwnRotation",
           "rotateInternalConjugates", "rotateByComposesLeft", "postAlignShiftNm", "postAlignMultiShiftNm",
           "alignMaxShiftsPx", "alignPosPx", "postAlignUsesLinearTransform", "featureRounding"]
TRUSTED = [
    "Lean 4.33 kernel; axioms propext / Classical.choice / Quot.sound only; Mathlib matrices over a "
    "commutative ring",
    "structure of linear_transform / translate_internal / rotate_by(_rotvec_internal) / _post_align read "
    "from the AST (specs.py patterns); unit conversions translated by py2lean",
    "scipy Rotation: r1 * r2 applies r2 first, apply(v) = R v, from_rotvec(R v) = R from_rotvec(v) R^-1 "
    "(modelled as matrix products, sampled by the correspondence with rational rotation matrices)",
    "that the optimiser returns the (d, Q) of the hypothesis is C04 / C06, not proved here",
]
ASSUMPTIONS = ["molecule positions are float32: the correspondence tolerates 1e-4 (relative to |p|+1)",
               "oracle thresholds: position within 0.15 px * scale, orientation within 1e-3 rad"]
EXPLANATION = (
    "Theorems (every position, shift, scale, orthogonal R, every Q): sampling-map composition; the true "
    "pose of an alignment result is (p + sigma R d, R Q); linear_transform as written in the source and "
    "_post_align produce exactly that pose; displacement in the molecule's frame is sigma d; pixel/nm "
    "conversion. K2: real Molecules methods on rational rotation matrices vs the executable model. "
    "Oracle: tomograms with a template planted at a known pose, aligned through single / batch / group / "
    "template-free / multi-template loaders and ZNCC / NCC / PCC.")
SAMPLE_OBLIGATIONS = [
    {"theorem": "C01.post_align_pose", "statement": "postAlign sigma (p,R) (d,Q) = (p + sigma R d, R Q) for orthogonal R"},
    {"theorem": "C01.true_pose_of_alignment", "statement": "S[c+Q(o-c)+d] = T[o] and S = V o (p,R) imply T = V o (p + sigma R d, R Q)"},
]


def k1_grids(rng, thorough):
    v = [Fraction(x, 4) for x in (-9, -2, 0, 1, 6)]
    s = [Fraction(x, 8) for x in (1, 4, 8, 13)]
    return {"postAlignShiftNm": [[a, b] for a in v for b in s],
            "postAlignMultiShiftNm": [[a, b] for a in v for b in s],
            "alignMaxShiftsPx": [[a, b] for a in v for b in (Fraction(1, 2), Fraction(1), Fraction(2), Fraction(4))],
            "alignPosPx": [[a, b] for a in v for b in (Fraction(1, 2), Fraction(1), Fraction(2), Fraction(4))]}


def rat_rotation(q):
    """exact rotation matrix (rows, as Fractions) of the integer quaternion q = (x, y, z, w)"""
    x, y, z, w = (Fraction(int(v)) for v in q)
    n = x * x + y * y + z * z + w * w
    return [[1 - 2 * (y * y + z * z) / n, 2 * (x * y - z * w) / n, 2 * (x * z + y * w) / n],
            [2 * (x * y + z * w) / n, 1 - 2 * (x * x + z * z) / n, 2 * (y * z - x * w) / n],
            [2 * (x * z - y * w) / n, 2 * (y * z + x * w) / n, 1 - 2 * (x * x + y * y) / n]]


def _int_quat(rng):
    while True:
        q = rng.integers(-3, 4, size=4)
        if np.any(q != 0):
            return q


def correspondence(rng, thorough):
    from scipy.spatial.transform import Rotation
    from acryo import Molecules
    lines, impl, stats = [], [], {"by_kind": {}}
    special = [np.array([0, 0, 0, 1]), np.array([1, 0, 0, 0]), np.array([0, 1, 0, 0]), np.array([1, 1, 0, 0]),
               np.array([1, 1, 1, 1])]
    for it in range(90 if thorough else 30):
        kind = it % 6
        qR = special[it % len(special)] if it % 4 == 0 else _int_quat(rng)
        qQ = special[(it // 2) % len(special)] if it % 5 == 0 else _int_quat(rng)
        R, Q = rat_rotation(qR), rat_rotation(qQ)
        p = [Fraction(int(x), 4) for x in rng.integers(-40, 41, size=3)]
        v = [Fraction(int(x), 8) for x in rng.integers(-24, 25, size=3)]
        scale = Fraction([1, 1, 2, 13][it % 4], [1, 2, 1, 8][it % 4])
        m = Molecules(np.array([[float(x) for x in p]]), Rotation.from_quat(qR.astype(float)[None] / np.linalg.norm(qR)))
        rq = Rotation.from_quat(qQ.astype(float)[None] / np.linalg.norm(qQ))
        vf = np.array([[float(x) for x in v]])
        if kind == 0:
            out = m.translate_internal(vf)
        elif kind == 1:
            out = m.rotate_by_rotvec_internal(rq.as_rotvec())
        elif kind == 2:
            out = m.linear_transform(vf, rq)
        elif kind == 3:
            from acryo import SubtomogramLoader
            from acryo.alignment._base import AlignmentResult
            ld = SubtomogramLoader(np.zeros((4, 4, 4), dtype=np.float32), m, scale=float(scale), output_shape=(2, 2, 2))
            res = AlignmentResult(0, vf[0].astype(np.float32), rq.as_quat()[0].astype(np.float32), 0.5)
            out = ld._post_align([res], (2, 2, 2)).molecules
        elif kind == 4:
            out = m.rotate_by(rq)
        else:
            out = m.translate(vf)
        stats["by_kind"][kind] = stats["by_kind"].get(kind, 0) + 1
        vals = [float(x) for x in out.pos[0]] + [float(x) for x in out.rotator.as_matrix()[0].reshape(-1)]
        args = [kind] + p + [x for row in R for x in row] + v + [x for row in Q for x in row] + [scale]
        lines.append("m:pose " + " ".join(C.rat_str(x) for x in args))
        impl.append(" ".join(repr(x) for x in vals))
    return lines, impl, stats


def k2_post(line, impl_out, model_out):
    try:
        a = np.array([float(x) for x in impl_out.split()])
        b = np.array([float(Fraction(x)) for x in model_out.split()])
        tol = 2e-4 * (1 + np.abs(b).max())
        if a.shape == b.shape and np.abs(a - b).max() <= tol:
            return "pose-agrees", "pose-agrees"
        return "pose " + " ".join(f"{x:.4f}" for x in a), "pose " + " ".join(f"{x:.4f}" for x in b)
    except Exception as e:  # noqa: BLE001
        return impl_out, f"unparsable: {e}"


# ------------------------------------------------------------------------------------------
def _template(seed, n):
    from scipy import ndimage as ndi
    r = np.random.default_rng(seed)
    t = np.zeros((n, n, n), np.float32)
    for _ in range(7):
        p = r.integers(5, n - 5, size=3)      # density stays inside the box under the displacements used (<= 2 px, 3 sigma)
        t[tuple(p)] += r.uniform(0.5, 1.5)
    return ndi.gaussian_filter(t, 1.0).astype(np.float32)


def _place(tmpl, N, pstar, Rstar):
    """tomogram V with V(pstar + Rstar (k - c)) = tmpl[k]"""
    from scipy import ndimage as ndi
    n = tmpl.shape[0]
    c = (n - 1) / 2
    idx = np.indices((N, N, N)).reshape(3, -1).astype(float)
    k = Rstar.inv().apply((idx - pstar[:, None]).T).T + c
    return ndi.map_coordinates(tmpl, k, order=3, mode="constant").reshape(N, N, N).astype(np.float32)


def run_case(inp):
    import dask
    import polars as pl
    from scipy.spatial.transform import Rotation
    from acryo import SubtomogramLoader, BatchLoader, Molecules
    from props.C05 import _models
    n, N = inp["n"], 44
    scale = float(inp["scale"])
    tmpl = _template(inp["seed"], n)
    rotset = inp.get("rotset", "mixed")
    if rotset == "mixed":
        rots = [Rotation.identity(), Rotation.from_euler("z", 30, degrees=True), Rotation.from_euler("z", -30, degrees=True),
                Rotation.from_euler("x", 25, degrees=True)][: inp["K"]]
    else:
        # searches restricted to one axis (list form, or the ((max, step), …) range form of the same set)
        ax = rotset[0]
        rots = [Rotation.identity(), Rotation.from_euler(ax, 20, degrees=True), Rotation.from_euler(ax, -20, degrees=True)]
    M = _models()[inp["model"]]
    r = np.random.default_rng(inp["seed"] + 1)
    nm = inp["nmol"]
    tomos, moles, truth = [], [], []
    for i in range(nm):
        Rstar = Rotation.random(random_state=inp["seed"] + 10 * i)
        pstar = np.array([22.0, 21.0, 23.0]) + r.uniform(-0.5, 0.5, size=3)
        if inp.get("near_face") is not None:
            # the box sticks out of a lower face by two voxels (the particle itself, compact, is fully inside)
            pstar[int(inp["near_face"])] = (n - 1) / 2 - 2.0 + r.uniform(-0.4, 0.4)
        V = _place(tmpl, N, pstar, Rstar)
        Q = rots[inp["ks"][i % len(inp["ks"])] % len(rots)]
        d = np.array(inp["d"], dtype=float) * (1 if i % 2 == 0 else -1)
        R = Rstar * Q.inv()
        p = pstar - R.apply(d)
        tomos.append(V)
        moles.append((p * scale, R))
        truth.append((pstar * scale, Rstar, d * scale, Q))
    viols = []

    def V_(clause, desc):
        viols.append({"clause": clause, "desc": desc, "input": dict(inp)})

    kw = dict(rotations=rots) if len(rots) > 1 else {}
    if rotset.endswith("range"):
        # the three ranges are about acryo's z, y, x axes; a scipy Rotation acts on (x, y, z) vectors, so scipy's
        # "z" is the last range
        kw = dict(rotations=tuple((20, 20) if a == rotset[0] else (0, 0) for a in "xyz"))
    ms = float(inp["max_shifts"]) * scale
    via = inp["via"]
    try:
        with dask.config.set(scheduler="synchronous"):
            if via in ("single", "no_template", "multi", "align_list"):
                outs = []
                for (p, R), V in zip(moles, tomos):
                    ld = SubtomogramLoader(V, Molecules(p[None], Rotation.from_quat(R.as_quat()[None])), order=1,
                                           scale=scale, output_shape=(n, n, n))
                    if via == "single":
                        o = ld.align(tmpl, max_shifts=ms, alignment_model=M, **kw)
                    elif via == "multi":
                        other = _template(inp["seed"] + 999, n)
                        o = ld.align_multi_templates([other, tmpl], max_shifts=ms, alignment_model=M, **kw)
                    elif via == "align_list":
                        # several templates handed to align() itself (list and 4-D stack forms)
                        other = _template(inp["seed"] + 999, n)
                        tl = [other, tmpl] if inp["seed"] % 2 else np.stack([other, tmpl], axis=0)
                        o = ld.align(tl, max_shifts=ms, alignment_model=M, **kw)
                    else:
                        o = None
                    outs.append(o)
                if via == "no_template":
                    return viols   # handled by the batch branch below (needs several copies)
                got = [(o.molecules.pos[0], o.molecules.rotator[0], o.molecules.features) for o in outs]
            else:
                b = BatchLoader(order=1, scale=scale, output_shape=(n, n, n))
                for i, ((p, R), V) in enumerate(zip(moles, tomos)):
                    b.add_tomogram(V, Molecules(p[None], Rotation.from_quat(R.as_quat()[None]), features={"g": [i % 2]}), i)
                if via == "batch":
                    o = b.align(tmpl, max_shifts=ms, alignment_model=M, **kw)
                    mol = o.molecules
                    got = [(mol.pos[i], mol.rotator[i], mol.features[i]) for i in range(nm)]
                else:  # group
                    og = b.groupby("g").align(tmpl, max_shifts=ms, alignment_model=M, **kw)
                    got = [None] * nm
                    for key, ld in og:
                        ids = ld.molecules.features["image-id"].to_list()
                        for j, iid in enumerate(ids):
                            got[int(iid)] = (ld.molecules.pos[j], ld.molecules.rotator[j], ld.molecules.features[j])
    except Exception as e:  # noqa: BLE001
        V_("no-error", f"{via} alignment raised {type(e).__name__}: {str(e)[:150]}")
        return viols
    for i, (g, (pstar, Rstar, dnm, Q)) in enumerate(zip(got, truth)):
        if g is None:
            V_("count", f"molecule {i} missing from the result")
            continue
        pos, rot, feat = g
        perr = float(np.abs(np.asarray(pos, dtype=float) - pstar).max())
        aerr = float((rot * Rstar.inv()).magnitude())
        # "sub-pixel accuracy": ZNCC / NCC reach 0.1 px on these twice-interpolated particles, the whitened PCC 0.25 px
        tol_px = 0.3 if inp["model"] == "PCC" else 0.15
        if perr > tol_px * scale:
            V_("position", f"molecule {i}: output position differs from the true pose by {perr / scale:.3f} px "
                           f"(via {via}, model {inp['model']}, searched rotation #{inp['ks'][i % len(inp['ks'])]}, scale {scale})")
        if aerr > 2e-3:
            V_("orientation", f"molecule {i}: output orientation differs from the true pose by {aerr:.4f} rad")
        fz, fy, fx = (float(feat[c][0]) for c in ("align-dz", "align-dy", "align-dx"))
        if not (np.abs(np.array([fz, fy, fx]) - dnm).max() <= tol_px * scale + 0.006):
            V_("features", f"molecule {i}: align-d* features {[fz, fy, fx]} do not describe the shift {dnm.tolist()}")
        rv = np.array([float(feat[c][0]) for c in ("align-dzrot", "align-dyrot", "align-dxrot")])
        if not (np.abs(rv - Q.as_rotvec()).max() <= 2e-3):
            V_("features", f"molecule {i}: rotation-vector features {rv.tolist()} != searched rotation {Q.as_rotvec().tolist()}")
    return viols


def oracle(rng, thorough, deep=False, hints=None):
    big = thorough or deep
    cases = []
    vias = ["single", "batch", "group", "multi", "align_list"]
    # always: several templates through align() at a scale far from 1 with a shift near the end of the range
    for sc, dd in ((2.0, [2.0, -2.0, 1.0]), (0.5, [-2.0, 1.0, 2.0])):
        cases.append(dict(via="align_list", model="ZNCC", n=16, scale=sc, K=1, ks=[0], nmol=1, d=dd, max_shifts=3.0,
                          seed=int(rng.integers(0, 10 ** 6))))
    # always: rotation searches about a single axis (both ways of writing them), and pixel sizes far from 1
    for it, rs in enumerate(["y", "yrange", "x", "zrange", "xrange", "z"][: 6 if big else 3]):
        # (ZNCC / NCC: PCC's score is not normalised across candidates, 20-degree neighbours of a compact particle are
        # beyond what it tells apart reliably - it stays in the 30-degree mixed sets below)
        cases.append(dict(via=["single", "batch", "multi"][it % 3], model=["ZNCC", "NCC"][it % 2], n=16,
                          scale=float([1.0, 0.5][it % 2]), K=3, rotset=rs, ks=[1 + it % 2, 2 - it % 2, 1], nmol=2 if it % 3 == 1 else 1,
                          d=[float(x) for x in rng.integers(-1, 2, size=3)], max_shifts=2.0, seed=int(rng.integers(0, 10 ** 6))))
    for it, sc in enumerate([0.01, 37.5, 0.003][: 3 if big else 2]):
        cases.append(dict(via=["single", "batch", "group"][it % 3], model=["ZNCC", "PCC", "NCC"][it % 3], n=16, scale=sc, K=1, ks=[0],
                          nmol=2 if it % 3 else 1, d=[0.5, -1.5, 1.0], max_shifts=2.0, seed=int(rng.integers(0, 10 ** 6))))
    for it in range(6 if big else 3):
        cases.append(dict(via=["single", "batch", "group"][it % 3], model=["ZNCC", "NCC", "PCC"][it % 3], n=int([15, 16, 17][it % 3]),
                          scale=float([1.0, 0.5][it % 2]), K=1, ks=[0], nmol=2 if it % 3 else 1, near_face=it % 3,
                          d=[float(x) for x in rng.integers(-1, 2, size=3)], max_shifts=2.0, seed=int(rng.integers(0, 10 ** 6))))
    for it in range(20 if big else 6):
        K = [3, 1, 4][it % 3]
        cases.append(dict(via=vias[it % len(vias)], model=["ZNCC", "NCC", "PCC"][it % 3] if it % 4 != 3 else "ZNCC",
                          n=int(rng.choice([15, 16, 17])), scale=float(rng.choice([1.0, 0.5, 2.0, 1.625])), K=K,
                          ks=[int(x) for x in rng.integers(0, K, size=3)], nmol=2 if it % 4 in (1, 2) else 1,
                          d=[float(x) for x in rng.integers(-2, 3, size=3)], max_shifts=3.0,
                          seed=int(rng.integers(0, 10 ** 6))))
    # PCC (phase correlation) whitens the spectrum: on these smooth, twice-interpolated synthetic particles its scores do
    # not discriminate between candidates (true candidate 0.034, a different template 0.044 in one recorded case while
    # ZNCC has 0.99 against 0.76). Its pose update is exercised where no candidate has to be chosen; candidate choice is
    # exercised with the normalised models.
    for c in cases:
        if c["model"] == "PCC" and (c["K"] > 1 or c["via"] in ("multi", "align_list")):
            c["model"] = "ZNCC"
    viols, stats = [], {"by_via": {}, "by_model": {}, "samples": [{"oracle_case": c} for c in cases[:2]]}
    for c in cases:
        stats["by_via"][c["via"]] = stats["by_via"].get(c["via"], 0) + 1
        stats["by_model"][c["model"]] = stats["by_model"].get(c["model"], 0) + 1
        viols += run_case(c)
    return len(cases), viols, stats


def replay(payload):
    v = run_case(dict(payload["input"]))
    return {"violated": bool(v), "violations": v}
