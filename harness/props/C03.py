"""C03 — Row i of every result belongs to molecule i."""
from __future__ import annotations

import numpy as np

import common as C

PROP = "C03"
LEAN_MODULES = ["AcryoVerif.Props.C03", "AcryoVerif.Props.C03Batch"]
LEAN_SUPPORT = ["AcryoVerif.Model.Loader", "AcryoVerif.Model.Table", "AcryoVerif.Model.Batch", "AcryoVerif.Props.C12"]
KERNELS = ["batchTasksScatteredToMoleculeOrder", "groupByKeepsOrder", "mappingTasksZipRows", "dictIterrowsRowwise",
           "derivedLoadersDelegate", "batchReplacePrunesImages", "addTomogramFreshId", "groupDerivedAreLists",
           "groupIteratorPartitions"]
TRUSTED = [
    "Lean 4.33 kernel; axioms propext / Classical.choice / Quot.sound only",
    "structure of task construction, keyword pairing, write-back, derived loaders and groups read from the "
    "AST (specs.py patterns)",
    "polars group_by(maintain_order=True), numpy flatnonzero, dask compute returning results in list order "
    "(modelled by groupRows / posFrom / list order; sampled by the history correspondence)",
    "table operations on the molecules are those of C12",
]
ASSUMPTIONS = ["tomograms are filled with values that identify (image, z-slab), molecules sit at distinct "
               "integer positions and subtomograms are loaded at order 0, so a loaded array identifies its source exactly"]
EXPLANATION = (
    "Theorems: scattering each image group's tasks back to flatnonzero(ids == key) puts the task of "
    "molecule i at slot i for every arrangement of image ids (contiguous or interleaved); the plain "
    "per-image concatenation is only a permutation; zip pairs task i with keyword row i; replace keeps "
    "exactly the referenced images; automatically allocated image ids are fresh; grouping partitions (C12). "
    "K2: random histories of add_tomogram / sort / filter / head / tail / slice / groupby on a real "
    "BatchLoader vs the model (rows, task order decoded from asnumpy, registered images). Oracle: row i of "
    "asnumpy / apply / score / align and of every derived or grouped loader belongs to molecule i; groups "
    "are re-iterable; nothing mutates its source.")
SAMPLE_OBLIGATIONS = [
    {"theorem": "C03.batch_task_order", "statement": "batchTasks key rows = rows.map some for every key function and row list"},
    {"theorem": "C03.replace_keeps_referenced", "statement": "an image referenced by a remaining molecule survives replace"},
]


def k1_grids(rng, thorough):
    return {}


# tomogram for image id t: value at voxel (z, y, x) = 100 * (t + 1) + z   (identifies image and z position)
_SHAPE = (30, 9, 9)


def _tomo(t):
    z = np.arange(_SHAPE[0], dtype=np.float32)[:, None, None]
    a = (100.0 * (t + 1) + z + np.zeros(_SHAPE, dtype=np.float32)).astype(np.float32)
    if t % 3 == 1:
        # batches hold numpy and dask tomograms side by side
        import dask.array as da
        return da.from_array(a, chunks=tuple(max(1, s // 2 + 1) for s in _SHAPE))
    return a


def _decode(val):
    t = int(round(val)) // 100 - 1
    z = int(round(val)) % 100
    return t, z


class Scenario:
    """A BatchLoader whose molecule with tag g sits at z = 2 + (g % 26) in its tomogram."""

    def __init__(self):
        from acryo import BatchLoader
        self.b = BatchLoader(order=0, output_shape=(1, 3, 3))
        self.next_tag = 0

    def add(self, image_id, cnt, explicit=True):
        from acryo import Molecules
        tags = list(range(self.next_tag, self.next_tag + cnt))
        self.next_tag += cnt
        pos = np.array([[2 + (g % 26), 4, 4] for g in tags], dtype=np.float32).reshape(-1, 3)
        if explicit:
            tid = image_id
        else:
            tid = len(self.b.images)
            while tid in self.b.images:
                tid += 1
        # "src": the tomogram (by content) this molecule was registered with, whatever id it carries later
        mole = Molecules(pos, features={"tag": np.array(tags, dtype=np.int64),
                                        "src": np.full(len(tags), tid, dtype=np.int64)})
        if explicit:
            self.b.add_tomogram(_tomo(tid), mole, tid)
        else:
            self.b.add_tomogram(_tomo(tid), mole)
        return self

    def merge(self, ntomo, cnt, how):
        """Merge another BatchLoader (tomogram contents 20, 21, ...) into this one."""
        from acryo import BatchLoader, Molecules
        other = BatchLoader(order=0, output_shape=(1, 3, 3))
        for k in range(ntomo):
            tags = list(range(self.next_tag, self.next_tag + cnt))
            self.next_tag += cnt
            pos = np.array([[2 + (g % 26), 4, 4] for g in tags], dtype=np.float32).reshape(-1, 3)
            src = 20 + 10 * how + k + len(self.b.images)
            other.add_tomogram(_tomo(src), Molecules(pos, features={"tag": np.array(tags, dtype=np.int64),
                                                                      "src": np.full(len(tags), src, dtype=np.int64)}), k)
        if how == 0:
            self.b.add_loader(other)
        else:
            self.b = BatchLoader.from_loaders([self.b, other], order=0, output_shape=(1, 3, 3))
        return self

    def check_sources(self, b=None):
        """Every molecule's subtomogram comes from the tomogram it was registered with, at its own z."""
        import dask
        b = self.b if b is None else b
        f = b.molecules.features
        if len(f) == 0 or "src" not in f.columns:
            return None
        with dask.config.set(scheduler="synchronous"):
            arr = np.asarray(b.asnumpy())
        src = [int(x) for x in f["src"].to_list()]
        zs = [int(round(float(z))) for z in b.molecules.pos[:, 0]]
        got = [_decode(float(arr[k, 0, 1, 1])) for k in range(arr.shape[0])]
        bad = [k for k in range(len(src)) if got[k] != (src[k], zs[k])]
        if bad or len(got) != len(src):
            return (f"molecules registered with tomograms {src[:10]} at z {zs[:10]} are loaded from (tomogram, z) "
                    f"{got[:10]}")
        return None

    def observe(self, b=None):
        import dask
        b = self.b if b is None else b
        f = b.molecules.features
        ids = [int(x) for x in f["image-id"].to_list()] if len(f) else []
        tags = [int(x) for x in f["tag"].to_list()] if len(f) else []
        rows = ",".join(f"{i}:{g}" for i, g in zip(ids, tags))
        with dask.config.set(scheduler="synchronous"):
            arr = np.asarray(b.asnumpy()) if len(ids) else np.zeros((0, 1, 3, 3))
        tasks = []
        zs = b.molecules.pos[:, 0] if len(ids) else []
        for k in range(arr.shape[0]):
            t, z = _decode(float(arr[k, 0, 1, 1]))
            # which molecule sits at (image t, z)?
            cand = [g for i, g, zz in zip(ids, tags, zs) if i == t and int(round(float(zz))) == z]
            tasks.append(f"{t}:{cand[0]}" if len(cand) == 1 else f"{t}:z{z}?")
        imgs = ",".join(str(int(k)) for k in b.images.keys())
        return f"rows={rows} tasks={','.join(tasks)} images={imgs}"


def _apply(s: Scenario, op, args):
    import polars as pl
    b = s.b
    if op == 1:
        s.add(int(args[0]), int(args[1]), explicit=True)
        return s.observe()
    if op == 2:
        s.add(None, int(args[0]), explicit=False)
        return s.observe()
    if op == 3:
        mul, modp, desc = args
        s.b = b.replace(molecules=b.molecules.sort((pl.col("tag") * mul) % modp, descending=bool(desc)))
    elif op == 4:
        s.b = b.filter(pl.col("tag") % int(args[0]) == int(args[1]))
    elif op == 5:
        s.b = b.head(int(args[0]))
    elif op == 6:
        s.b = b.tail(int(args[0]))
    elif op == 7:
        g = int(args[0])
        out = []
        for key, ld in b.groupby((pl.col("tag") % g).alias("k")):
            kk = key[0] if isinstance(key, tuple) else key
            f = ld.molecules.features
            out.append(f"{int(kk)}=" + ",".join(f"{int(i)}:{int(t)}" for i, t in zip(f["image-id"].to_list(), f["tag"].to_list())))
        return "G " + " ".join(out)
    elif op == 8:
        s.b = b.replace(molecules=b.molecules.subset(slice(int(args[0]), int(args[1]))))
    elif op == 9:
        s.merge(int(args[0]), int(args[1]), int(args[2]))
        return "merged"
    return s.observe()


def gen_history(rng, length):
    ops = [(1, [int(rng.choice([5, 1, 3])), int(rng.integers(1, 4))])]
    used = {ops[0][1][0]}
    cur = ops[0][1][1]
    for _ in range(length):
        op = int(rng.choice([1, 2, 3, 4, 5, 6, 7, 8], p=[.18, .12, .22, .1, .08, .08, .12, .1]))
        if op == 1:
            cand = [i for i in (0, 1, 2, 3, 5, 7) if i not in used]
            if not cand:
                continue
            iid = int(rng.choice(cand))
            used.add(iid)
            cnt = int(rng.integers(0, 4))      # 0: a tomogram in which nothing was picked
            args = [iid, cnt]
            cur += cnt
        elif op == 2:
            cnt = int(rng.integers(1, 4))
            args = [cnt]
            cur += cnt
            used |= set(range(0, 12))     # auto ids are len(images)+..: avoid later explicit clashes
        elif op == 3:
            args = [int(rng.choice([1, 3, 5, 7, 11])), 997, int(rng.integers(0, 2))]
        elif op == 4:
            a = int(rng.integers(2, 4))
            args = [a, int(rng.integers(0, a))]
        elif op in (5, 6):
            args = [int(rng.integers(0, cur + 2))]       # 0 (an empty selection) up to more than the loader holds
        elif op == 7:
            args = [int(rng.integers(1, 4))]
        else:
            args = [int(rng.integers(0, 3)), int(rng.integers(-2, cur + 2))]
        ops.append((op, args))
    return ops


def run_history(ops):
    s = Scenario()
    outs = []
    for op, args in ops:
        try:
            outs.append(_apply(s, op, args))
        except Exception as e:  # noqa: BLE001
            outs.append(C.exc_kind(e) + ":" + str(e)[:60])
    return " ; ".join(outs)


# ---- image-table state machine (Model.Batch / C03Batch.history_lookup_own) -------------------------
def _imgtab_gen(rng, depth=0):
    """A random history of add_tomogram / filter / add_loader(batch) in the encoding of Model.parseOp,
    together with a replayable structure. Explicit ids are chosen above every automatic id, never re-used."""
    n_ops = int(rng.integers(2, 7)) if depth == 0 else int(rng.integers(1, 4))
    ops, nmol, explicit = [], 0, 100 + 50 * depth + int(rng.integers(0, 5))
    for j in range(n_ops):
        kind = int(rng.choice([0, 0, 0, 1, 2, 3])) if depth == 0 else int(rng.choice([0, 0, 1]))
        if j == 0 or (kind in (1, 3) and nmol == 0):
            kind = 0
        if kind == 0:
            flag = int(rng.integers(0, 4) == 0)
            explicit += 1
            n = int(rng.integers(1, 4))
            ops.append(("add", flag, explicit if flag else 0, int(rng.integers(1, 900)), n))
            nmol += n
        elif kind == 1:
            mask = [int(rng.integers(0, 3) > 0) for _ in range(nmol)]
            # sometimes drop one whole leading tomogram's molecules so that the table gets a gap
            ops.append(("filter", mask))
            nmol = sum(mask)
        elif kind == 2:
            sub, subn = _imgtab_gen(rng, depth + 1)
            ops.append(("merge", sub))
            nmol += subn
        else:
            ops.append(("mergeSelf",))
            nmol *= 2
        if nmol > 40:
            break
    return ops, nmol


def _imgtab_encode(ops):
    out = []
    for op in ops:
        if op[0] == "add":
            out += [0, op[1], op[2], op[3], op[4]]
        elif op[0] == "filter":
            out += [1, len(op[1])] + list(op[1])
        elif op[0] == "merge":
            out += [2, len(op[1])] + _imgtab_encode(op[1])
        else:
            out += [3]
    return out


def _imgtab_run(ops, observe):
    """The same history on the real BatchLoader. A tomogram is a 2x2x2 array filled with its tag."""
    from acryo import BatchLoader, Molecules
    ld = BatchLoader(order=0, scale=1.0, output_shape=(1, 1, 1))
    outs = []
    for op in ops:
        if op[0] == "add":
            img = np.full((2, 2, 2), float(op[3]), dtype=np.float32)
            mol = Molecules(np.zeros((op[4], 3), dtype=np.float32))
            ld.add_tomogram(img, mol, op[2] if op[1] else None)
        elif op[0] == "filter":
            keep = np.array(op[1], dtype=bool)
            ld = ld.replace(molecules=ld.molecules.subset(np.flatnonzero(keep)))
        elif op[0] == "merge":
            ld.add_loader(_imgtab_run(op[1], False))
        else:
            ld.add_loader(ld.copy())
        if observe:
            ids = [int(x) for x in ld.molecules.features["image-id"].to_list()] if len(ld.molecules) else []
            tab = ",".join(f"{int(k)}:{int(np.asarray(v)[0, 0, 0])}" for k, v in ld.images.items())
            rows = " ".join(f"{i}:{int(np.asarray(ld.images[i])[0, 0, 0]) if i in ld.images else 999999}" for i in ids)
            outs.append(f"[{tab}] | {rows}")
    return " ; ".join(outs) if observe else ld


def correspondence(rng, thorough):
    lines, impl, stats = [], [], {"histories": 0, "interleaved": 0, "ops": {}}
    stats["imgtab"] = {"histories": 0, "merges": 0, "filters": 0, "explicit_ids": 0, "gapped_before_merge": 0}
    fixed = [[("add", 0, 0, 10, 2), ("add", 0, 0, 20, 1), ("add", 0, 0, 30, 1), ("filter", [1, 1, 0, 1]),
              ("merge", [("add", 0, 0, 40, 1), ("add", 0, 0, 50, 2)])],
             [("add", 0, 0, 10, 1), ("merge", [("add", 0, 0, 20, 3), ("add", 0, 0, 30, 3), ("add", 0, 0, 40, 1)])],
             [("add", 0, 0, 7, 2), ("add", 1, 5, 8, 1), ("add", 0, 0, 9, 1), ("mergeSelf",), ("filter", [0, 0, 1, 1, 1, 1, 1, 1]),
              ("mergeSelf",)]]
    for it in range(40 if thorough else 14):
        ops = fixed[it] if it < len(fixed) else _imgtab_gen(rng)[0]
        try:
            out = _imgtab_run(ops, True)
        except Exception as e:  # noqa: BLE001
            out = C.exc_kind(e) + ":" + str(e)[:60]
        st = stats["imgtab"]
        st["histories"] += 1
        st["merges"] += sum(o[0] in ("merge", "mergeSelf") for o in ops)
        st["filters"] += sum(o[0] == "filter" for o in ops)
        st["explicit_ids"] += sum(o[0] == "add" and o[1] for o in ops)
        lines.append("m:imgtab " + " ".join(map(str, _imgtab_encode(ops))))
        impl.append(out)
    for it in range(50 if thorough else 16):
        ops = gen_history(rng, int(rng.integers(2, 8)))
        out = run_history(ops)
        toks = []
        for op, args in ops:
            toks += [str(op), str(len(args))] + [str(a) for a in args]
            stats["ops"][op] = stats["ops"].get(op, 0) + 1
        lines.append("m:batch " + " ".join(toks))
        impl.append(out)
        stats["histories"] += 1
        # interleaved = some state where the image ids of consecutive rows go back to an earlier id
        for part in out.split(" ; "):
            if part.startswith("rows="):
                ids = [x.split(":")[0] for x in part.split(" ")[0][5:].split(",") if x]
                seen, inter = [], False
                for i in ids:
                    if seen and i != seen[-1] and i in seen:
                        inter = True
                    seen.append(i)
                stats["interleaved"] += inter
    return lines, impl, stats


# ------------------------------------------------------------------------------------------
def run_case(inp):
    import dask
    import polars as pl
    viols = []

    def V(clause, desc):
        viols.append({"clause": clause, "desc": desc, "input": dict(inp)})

    ops = [tuple(o) for o in inp["ops"]]
    s = Scenario()
    with dask.config.set(scheduler="synchronous"):
        for op, args in ops:
            before = s.observe() if len(s.b.molecules) else None
            old = s.b
            try:
                res = _apply(s, op, args)
            except Exception as e:  # noqa: BLE001
                V("no-error", f"op {op}{args} raised {type(e).__name__}: {str(e)[:100]}")
                return viols
            if op not in (1, 2) and before is not None and old is not s.b:
                # a derived loader must not modify its source
                s2 = Scenario.__new__(Scenario)
                s2.b = old
                if s2.observe() != before:
                    V("no-mutation", f"op {op}{args} modified the loader it was derived from")
            if op in (5, 6) and before is not None:
                # head(n) / tail(n): the first / last min(n, count) molecules, in order
                prev = [int(x) for x in old.molecules.features["tag"].to_list()]
                k = int(args[0])
                want_tags = prev[:k] if op == 5 else (prev[len(prev) - k:] if k < len(prev) else prev)
                got_tags = [int(x) for x in s.b.molecules.features["tag"].to_list()]
                if got_tags != want_tags:
                    V("derived-loader", f"{'head' if op == 5 else 'tail'}({k}) of a loader with molecules {prev} returned {got_tags}")
                    return viols
            msg = s.check_sources()
            if msg:
                V("source-tomogram", f"after op {op}{args}: {msg}")
                return viols
            if res.startswith("rows=") and not any(o == 9 for o, _ in ops):   # (content id = image id only without merges)
                rows = res.split(" ")[0][5:]
                tasks = res.split(" ")[1][6:]
                if rows != tasks:
                    V("row-order", f"after op {op}{args}: subtomogram i does not belong to molecule i: molecules "
                                   f"{rows} but loaded {tasks}")
                    return viols
        b = s.b
        n = len(b.molecules)
        if n == 0:
            return viols
        ids = [int(x) for x in b.molecules.features["image-id"].to_list()]
        srcs = [int(x) for x in b.molecules.features["src"].to_list()]
        zs = [int(round(float(z))) for z in b.molecules.pos[:, 0]]
        want = [100.0 * (i + 1) + z for i, z in zip(srcs, zs)]
        # apply / score-like mapping: row i must come from molecule i's tomogram and position
        df = b.apply(np.mean)
        got = [float(x) for x in df[df.columns[0]].to_list()]
        if len(got) != n or any(abs(a - w) > 1e-3 for a, w in zip(got, want)):
            V("apply-rows", f"apply(np.mean) rows {got[:8]} do not follow the molecules {want[:8]}")
        # alignment writes result i back to molecule i: use a model whose score identifies the sub-volume
        from acryo.alignment._base import BaseAlignmentModel

        class Probe(BaseAlignmentModel):
            def pre_transform(self, image, backend):
                return image

            def _optimize(self, subvolume, template, max_shifts, quaternion, pos, backend):
                return (np.zeros(3, dtype=np.float32), np.array([0, 0, 0, 1], dtype=np.float32),
                        float(np.asarray(subvolume).mean()))

            def _score(self, subvolume, template, quaternion, pos, backend):
                return float(np.asarray(subvolume).mean())

        tmpl = np.ones((1, 3, 3), dtype=np.float32)
        out = b.align(tmpl, alignment_model=Probe, max_shifts=1.0)
        sc = [float(x) for x in out.molecules.features["score"].to_list()]
        tg = [int(x) for x in out.molecules.features["tag"].to_list()]
        if tg != [int(x) for x in b.molecules.features["tag"].to_list()]:
            V("align-rows", "align changed the order of the molecules")
        if any(abs(a - w) > 1e-2 for a, w in zip(sc, want)):
            V("align-rows", f"align wrote scores {sc[:8]} to molecules whose own sub-volumes give {want[:8]}")
        # per-molecule keyword arguments (pos, quaternion) reach the task of the same molecule
        class ProbeKw(Probe):
            def _score(self, subvolume, template, quaternion, pos, backend):
                return float(pos[0]) + 1000.0 * float(quaternion[2]) + 1e6 * float(quaternion[3])

            def _optimize(self, subvolume, template, max_shifts, quaternion, pos, backend):
                return (np.zeros(3, dtype=np.float32), np.array([0, 0, 0, 1], dtype=np.float32),
                        float(pos[0]) + 1000.0 * float(quaternion[2]) + 1e6 * float(quaternion[3]))

            def _landscape(self, subvolume, template, max_shifts, quaternion, pos, backend):
                q = np.zeros(4) if quaternion is None else quaternion       # a dropped keyword shows as 0
                p0 = -1.0 if pos is None else float(pos[0])
                return np.full((3, 3, 3), p0 + 1000.0 * float(q[2]) + 1e6 * float(q[3]), dtype=np.float32)

        qs = np.asarray(b.molecules.quaternion(), dtype=np.float64)
        want_kw = [float(p[0]) + 1000.0 * float(q[2]) + 1e6 * float(q[3]) for p, q in zip(b.molecules.pos, qs)]
        got_kw = [float(x) for x in b.score([tmpl], alignment_model=ProbeKw)[0]]
        if len(got_kw) != n or any(abs(a - w) > 0.5 for a, w in zip(got_kw, want_kw)):
            V("kwarg-rows", f"score(): task i does not receive molecule i's own pos/quaternion: got "
                            f"{[round(x, 1) for x in got_kw[:6]]}, molecules have {[round(x, 1) for x in want_kw[:6]]}")
        try:
            lds_kw = np.asarray(b.construct_landscape(tmpl, alignment_model=ProbeKw, max_shifts=1.0).compute())
            got_l = [float(lds_kw[i].reshape(-1)[0]) for i in range(lds_kw.shape[0])]
            if len(got_l) != n or any(abs(a - w) > 0.5 for a, w in zip(got_l, want_kw)):
                V("kwarg-rows", f"construct_landscape(): task i does not receive molecule i's own pos/quaternion: got "
                                f"{[round(x, 1) for x in got_l[:6]]}, molecules have {[round(x, 1) for x in want_kw[:6]]}")
        except Exception as e:  # noqa: BLE001
            V("no-error", f"construct_landscape with a probe model raised {type(e).__name__}: {str(e)[:100]}")
        al_kw = [float(x) for x in b.align(tmpl, alignment_model=ProbeKw, max_shifts=1.0).molecules.features["score"].to_list()]
        if any(abs(a - w) > 0.5 for a, w in zip(al_kw, want_kw)):
            V("kwarg-rows", f"align(): task i does not receive molecule i's own pos/quaternion: got "
                            f"{[round(x, 1) for x in al_kw[:6]]}, molecules have {[round(x, 1) for x in want_kw[:6]]}")
        scs = b.score([tmpl], alignment_model=Probe)[0]
        if any(abs(float(a) - w) > 1e-2 for a, w in zip(scs, want)):
            V("score-rows", f"score rows {list(map(float, scs[:8]))} do not follow the molecules {want[:8]}")
        # binned loader: every molecule still reads from the tomogram it was registered with
        for compute in (True, False):
            try:
                bb = b.binning(2, compute=compute)
                arr = np.asarray(bb.asnumpy())
            except Exception as e:  # noqa: BLE001
                V("no-error", f"binning(2, compute={compute}) raised {type(e).__name__}: {str(e)[:100]}")
                break
            src = [int(round(float(arr[k].mean()) / 8.0)) // 100 - 1 for k in range(arr.shape[0])]   # bin_image sums 2x2x2 voxels
            bids = [int(x) for x in bb.molecules.features["image-id"].to_list()]
            bsrc = [int(x) for x in bb.molecules.features["src"].to_list()]
            if src != bsrc or bids != ids or bsrc != srcs:
                V("binning-images", f"after binning(2, compute={compute}) molecules registered with tomograms {srcs[:8]} "
                                    f"(image ids {ids[:8]}) are loaded from tomograms {src[:8]}")
                break
        # LoaderGroup.apply: row i of every group's table belongs to molecule i of that group, for any number of
        # functions (also when a group has exactly as many molecules as there are functions)
        for nf, fs in ((1, [np.mean]), (2, [np.mean, np.max]), (3, [np.mean, np.max, np.min])):
            try:
                tabs = b.groupby((pl.col("tag") % 2).alias("k")).apply(fs)
            except Exception as e:  # noqa: BLE001
                V("no-error", f"LoaderGroup.apply with {nf} functions raised {type(e).__name__}: {str(e)[:100]}")
                break
            bad = None
            for key, ld in b.groupby((pl.col("tag") % 2).alias("k")):
                kk = key[0] if isinstance(key, tuple) else key
                tab = tabs.get(key, tabs.get(kk))
                srcs_g = [int(x) for x in ld.molecules.features["src"].to_list()]
                zs_g = [int(round(float(z))) for z in ld.molecules.pos[:, 0]]
                want_g = [100.0 * (i + 1) + z for i, z in zip(srcs_g, zs_g)]      # constant sub-volume: mean = max = min
                if tab is None or tab.shape != (len(want_g), nf) or \
                        any(abs(float(tab[r, c]) - want_g[r]) > 1e-2 for r in range(len(want_g)) for c in range(nf)):
                    bad = (kk, None if tab is None else tab.shape, len(want_g))
                    break
            if bad:
                V("group-apply-rows", f"LoaderGroup.apply with {nf} functions: table of group {bad[0]} (shape {bad[1]}) does not "
                                      f"hold one row per molecule ({bad[2]} molecules) with that molecule's values")
                break
        # groups: partition, re-iterable, derived groups too
        g = b.groupby((pl.col("tag") % 2).alias("k"))
        for label, grp in (("groupby", g), ("groupby.filter", g.filter(pl.col("tag") >= 0)), ("groupby.head", g.head(50)),
                           ("groupby.tail", g.tail(50)), ("groupby.tail(n+1)", g.tail(n + 1)), ("groupby.head(n+1)", g.head(n + 1))):
            first = [(k, [int(t) for t in ld.molecules.features["tag"].to_list()]) for k, ld in grp]
            second = [(k, [int(t) for t in ld.molecules.features["tag"].to_list()]) for k, ld in grp]
            if first != second:
                V("group-reiterable", f"{label}: second iteration yields {len(second)} groups, first {len(first)}")
            alltags = sorted(t for _, ts in first for t in ts)
            if alltags != sorted(int(x) for x in b.molecules.features["tag"].to_list()):
                V("group-partition", f"{label}: groups do not partition the molecules")
            # every key is paired with its own group's result (keys need not appear in ascending order)
            avg_all = grp.average()
            for key, ld in grp:
                kk = key[0] if isinstance(key, tuple) else key
                got_avg = avg_all.get(key, avg_all.get(kk))
                want_avg = np.asarray(ld.average())
                if got_avg is None or np.abs(np.asarray(got_avg) - want_avg).max() > 1e-3:
                    V("group-keys", f"{label}.average()[{kk}] is not the average of group {kk}'s own molecules")
                    break
            if label != "groupby":
                avg = grp.average()
                if len(avg) != len(first):
                    V("group-reiterable", f"{label}.average() returned {len(avg)} entries for {len(first)} groups")
                spl = grp.average_split()
                if len(spl) != len(first):
                    V("group-reiterable", f"{label}.average_split() returned {len(spl)} entries for {len(first)} groups")
    return viols


def oracle(rng, thorough, deep=False, hints=None):
    big = thorough or deep
    cases = []
    # the classic interleaved batch: two tomograms, sorted so that ids alternate
    cases.append(dict(ops=[[1, [0, 3]], [1, [1, 3]], [3, [7, 997, 0]]]))
    cases.append(dict(ops=[[1, [5, 2]], [2, [3]], [1, [1, 2]], [3, [3, 997, 1]], [6, [5]]]))
    # head / tail asking for more molecules than there are (whole loader and groups of unequal size)
    cases.append(dict(ops=[[1, [0, 3]], [1, [1, 2]], [6, [6]]]))
    cases.append(dict(ops=[[1, [0, 3]], [1, [1, 2]], [6, [11]]]))
    cases.append(dict(ops=[[1, [2, 2]], [5, [9]], [6, [3]]]))
    # batches merged into batches (fewer / more tomograms than the receiving collection)
    cases.append(dict(ops=[[1, [0, 2]], [9, [2, 2, 0]], [3, [7, 997, 0]]]))
    cases.append(dict(ops=[[1, [3, 1]], [9, [3, 2, 1]], [9, [1, 2, 0]], [3, [5, 997, 1]]]))
    cases.append(dict(ops=[[1, [0, 1]], [1, [1, 2]], [1, [2, 1]], [9, [2, 1, 0]]]))
    # image ids with gaps (0 and 3, or 1 and 5) and then a whole batch added: the new tomograms need ids that are all free
    cases.append(dict(ops=[[1, [0, 2]], [1, [3, 2]], [9, [2, 2, 0]], [3, [7, 997, 0]]]))
    cases.append(dict(ops=[[1, [1, 1]], [1, [5, 2]], [1, [2, 1]], [9, [3, 1, 0]]]))
    # a tomogram without molecules registered before populated ones
    cases.append(dict(ops=[[1, [2, 0]], [1, [0, 2]], [1, [7, 0]], [1, [1, 3]]]))
    for it in range(24 if big else 8):
        cases.append(dict(ops=[[o, a] for o, a in gen_history(rng, int(rng.integers(2, 9)))]))
    for b in (hints or {}).get("k2", []):
        if isinstance(b.get("op"), str) and b["op"].startswith("m:batch "):
            toks = [int(x) for x in b["op"].split()[1:]]
            ops = []
            while toks:
                ops.append([toks[0], toks[2:2 + toks[1]]])
                toks = toks[2 + toks[1]:]
            cases.insert(0, dict(ops=ops))
    viols, stats = [], {"histories": len(cases), "samples": [{"oracle_case": c} for c in cases[:2]]}
    for c in cases:
        viols += run_case(c)
    return len(cases), viols, stats


def replay(payload):
    v = run_case(dict(payload["input"]))
    return {"violated": bool(v), "violations": v}
