"""C07 — Correlation scores mean what they say."""
from __future__ import annotations

from fractions import Fraction

import numpy as np

import common as C
from props import C04 as _C04

PROP = "C07"
LEAN_MODULES = ["AcryoVerif.Props.C07"]
LEAN_SUPPORT = ["AcryoVerif.Lemmas.PyLemmas", "AcryoVerif.Lemmas.Corr", "AcryoVerif.Props.C05",
                "AcryoVerif.Model.Landscape"]
KERNELS = ["nccIsNormalisedDot", "znccIsCentredNcc", "znccScoreChain", "nccScoreChain",
           "scoreMaskThenTransform", "optimizeMaskThenTransform", "landscapeMaskThenTransform",
           "fscIsLandscapeCentre", "znccAlignUsesLandscape", "nccAlignUsesLandscape", "pccMidpoint",
           "pccWrapCond", "pccScoreAtArgmax", "pccCropBounds", "pccLandscapeBounds", "paddingWidth",
           "padWidthEff0", "padWidthEff1", "meshBounds", "meshNode",
           "modelMethodsDoNotStoreBase", "modelMethodsDoNotStoreConcrete", "tiltModelsDoNotStore"]
TRUSTED = [
    "Lean 4.33 kernel; axioms propext / Classical.choice / Quot.sound only; Mathlib's Cauchy-Schwarz "
    "for Finset sums",
    "structural facts about the score code are read from the AST by translator/specs.py patterns "
    "(true iff the source has the expected shape)",
    "FFT-based convolution = direct correlation sums, fftn/ifftn inverse pair, sqrt (modelled: scores "
    "are kept as (num, den2) and compared numerically with the implementation)",
]
ASSUMPTIONS = [
    "scores of the real code are float32/float64: compared with the exact rational model to 2e-4",
    "the property's 'up to rounding': bounds checked with 1e-5 slack by the oracle",
]
EXPLANATION = (
    "Theorems (all images over any voxel set): ZNCC/NCC numerator^2 <= denominator^2 (scores in "
    "[-1,1]); self score 1; gain/offset invariance (gain only under a mask); ZNCC = Pearson "
    "correlation; landscape centre = zncc score; zero-range alignment samples exactly that entry; PCC "
    "landscape and alignment map indices to the same lags. Structure of score/_score/fsc and of the "
    "mask -> pre-transform -> wedge chain is regenerated from the source. K2: exact (num, den2) "
    "model vs zncc/ncc and the landscapes of the real code. Oracle: independent Pearson of "
    "independently pre-processed images, invariances, score = landscape centre = zero-range score, "
    "landscape arg-max vs alignment, multi-call histories on one model.")
SAMPLE_OBLIGATIONS = [
    {"theorem": "C07.zncc_bounds", "statement": "znccNum x y ^ 2 <= znccDen2 x y"},
    {"theorem": "C07.landscape_centre_is_zncc", "statement": "window-normalised response at zero displacement = zncc"},
]


def k1_grids(rng, thorough):
    g = _C04.k1_grids(rng, thorough)
    g = {k: v for k, v in g.items() if k in KERNELS}
    g["pccMidpoint"] = [[n] for n in range(1, 24)]
    g["pccWrapCond"] = [[Fraction(a), Fraction(b)] for a in range(0, 8) for b in range(0, 8)]
    return g


def correspondence(rng, thorough):
    from acryo.backend import Backend, _zncc
    xp = Backend()
    lines, impl, stats = _C04.correspondence(rng, thorough)
    stats = {"landscapes": len(lines), "scores": 0, "self": 0, **stats}
    n = 40 if thorough else 16
    for it in range(n):
        shape = [int(x) for x in rng.integers(1, 5, size=3)]
        if np.prod(shape) < 2:
            shape = [2, 1, 2]
        a = rng.integers(-4, 5, size=shape).astype(np.float32)
        b = a.copy() if it % 5 == 0 else rng.integers(-4, 5, size=shape).astype(np.float32)
        stats["self"] += it % 5 == 0
        z = bool(it % 2)
        f = _zncc.zncc if z else _zncc.ncc
        with np.errstate(all="ignore"):
            v = float(f(a, b, xp))
        lines.append(f"m:score {int(z)} {shape[0]} {shape[1]} {shape[2]} "
                     + " ".join(C.rat_str(x) for x in a.reshape(-1)) + " "
                     + " ".join(C.rat_str(x) for x in b.reshape(-1)))
        impl.append("score " + repr(v))
        stats["scores"] += 1
    return lines, impl, stats


def k2_post(line, impl_out, model_out):
    if line.startswith("m:landscape"):
        return _C04.k2_post(line, impl_out, model_out)
    try:
        v = float(impl_out.split()[1])
        num, den2 = (Fraction(x) for x in model_out.split())
        if den2 <= 0:
            return ("score-degenerate", "score-degenerate") if not np.isfinite(v) or abs(v) < 1e-6 \
                else (impl_out, "score-degenerate")
        m = float(num) / np.sqrt(float(den2))
        if abs(m - v) <= 2e-5:
            return "score-agrees", "score-agrees"
        return impl_out, f"score {m!r}"
    except Exception as e:  # noqa: BLE001
        return impl_out, f"unparsable: {e}"


# ------------------------------------------------------------------------------------------
def _pre(img, mask, cutoff, tilt, quat):
    """Independent pre-processing: mask -> Butterworth low-pass (fftfreq formula) -> wedge."""
    from scipy.spatial.transform import Rotation
    from acryo.tilt import single_axis
    x = img.astype(np.float64) * (1.0 if mask is None else mask.astype(np.float64))
    F = np.fft.fftn(x)
    if cutoff is not None and 0 < cutoff < 0.5 * np.sqrt(3):
        f = np.meshgrid(*[np.fft.fftfreq(s) for s in img.shape], indexing="ij")
        f2 = sum(v ** 2 for v in f)
        F = F / (1.0 + (f2 / cutoff ** 2) ** 2)
    if tilt is not None:
        mw = np.asarray(single_axis(tuple(tilt)).create_mask(Rotation.from_quat(quat), img.shape))
        F = F * mw
    return np.fft.ifftn(F).real


def _pearson(a, b):
    a = a - a.mean()
    b = b - b.mean()
    return float((a * b).sum() / np.sqrt((a * a).sum() * (b * b).sum()))


def _ncc(a, b):
    return float((a * b).sum() / np.sqrt((a * a).sum() * (b * b).sum()))


def run_case(inp):
    import dask
    from scipy.spatial.transform import Rotation
    from props.C05 import _models
    r = np.random.default_rng(inp["seed"])
    shape = tuple(inp["shape"])
    from scipy import ndimage as ndi
    tmpl = ndi.gaussian_filter(r.normal(size=shape), 0.8).astype(np.float32)
    sub = (0.6 * tmpl + 0.8 * ndi.gaussian_filter(r.normal(size=shape), 0.8)).astype(np.float32)
    mask = None
    if inp["mask"] == "binary":
        mask = (r.uniform(size=shape) > 0.3).astype(np.float32)
    elif inp["mask"] == "soft":
        mask = np.clip(ndi.gaussian_filter((r.uniform(size=shape) > 0.4).astype(float), 1.0) * 1.5, 0, 1).astype(np.float32)
    kw = {}
    if inp["cutoff"] is not None:
        kw["cutoff"] = inp["cutoff"]
    if inp["tilt"] is not None:
        kw["tilt"] = tuple(inp["tilt"])
    quat = np.array(inp["quat"], dtype=np.float32)
    pos = np.zeros(3, dtype=np.float32)
    viols = []

    def V(clause, desc):
        viols.append({"clause": clause, "desc": desc, "input": dict(inp)})

    M = _models()
    with dask.config.set(scheduler="synchronous"):
        kind = inp["kind"]
        if kind == "pearson":
            for name, ref in (("ZNCC", _pearson), ("NCC", _ncc)):
                model = M[name](tmpl, mask, **kw)
                for j in range(int(inp.get("history", 0))):      # the same model used for other orientations first
                    hq = Rotation.random(random_state=inp["seed"] + j).as_quat().astype(np.float32)
                    model.score(tmpl, hq, pos)
                    model.align(sub, (1.0, 1.0, 1.0), quaternion=hq, pos=pos)
                    model.landscape(sub, (1.0, 1.0, 1.0), quaternion=hq, pos=pos)
                s = float(model.score(sub, quat, pos))
                want = ref(_pre(sub, mask, inp["cutoff"], inp["tilt"], quat),
                           _pre(tmpl, mask, inp["cutoff"], inp["tilt"], quat))
                if abs(s - want) > 2e-4:
                    V("pearson", f"{name}.score = {s:.6f} but the {'Pearson' if name == 'ZNCC' else 'uncentred'} "
                                 f"correlation of the pre-processed images is {want:.6f} (shape {shape})")
                if not (-1 - 1e-5 <= s <= 1 + 1e-5):
                    V("bounds", f"{name} score {s} outside [-1, 1]")
            model = M["ZNCC"](tmpl, mask, **kw)
            s_self = float(model.score(tmpl, quat, pos))
            if abs(s_self - 1) > 1e-4:
                V("self", f"ZNCC score of the template with itself is {s_self:.6f}")
            s0 = float(model.score(sub, quat, pos))
            s_gain = float(model.score((3.5 * sub).astype(np.float32), quat, pos))
            if abs(s_gain - s0) > 2e-4:
                V("gain", f"score changes under positive gain: {s0:.6f} -> {s_gain:.6f}")
            if mask is None:
                s_off = float(model.score((sub + 2.25).astype(np.float32), quat, pos))
                if abs(s_off - s0) > 2e-4:
                    V("offset", f"unmasked ZNCC changes under an offset: {s0:.6f} -> {s_off:.6f}")
                # un-normalised detector counts: mean / contrast ~ 10^3
                big_sub = (12.0 * sub + 30000.0).astype(np.float32)
                s_big = float(model.score(big_sub, quat, pos))
                lds_b = np.asarray(model.landscape(big_sub, (1.0, 1.0, 1.0), quaternion=quat, pos=pos))
                c_big = float(lds_b[tuple(x // 2 for x in lds_b.shape)])
                z_big = float(model.align(big_sub, (0.0, 0.0, 0.0), quaternion=quat, pos=pos).score)
                if abs(s_big - s0) > 2e-3:
                    V("offset", f"unmasked ZNCC score changes under gain 12 and offset 30000: {s0:.6f} -> {s_big:.6f}")
                if abs(c_big - s_big) > 5e-3 or abs(z_big - s_big) > 5e-3:
                    V("agree", f"ZNCC on intensities with a large offset: score {s_big:.5f}, landscape centre {c_big:.5f}, "
                               f"zero-range alignment {z_big:.5f}")
        elif kind == "loader":
            # loader.score / construct_landscape: per molecule the same numbers as the model called with that
            # molecule's own sub-volume and orientation (wedge model, rotated molecules)
            from acryo import SubtomogramLoader, Molecules
            nmol = 4
            tomo = ndi.gaussian_filter(r.normal(size=(26, 26, 26)), 0.7).astype(np.float32)
            mpos = r.uniform(9, 16, size=(nmol, 3))
            mrot = Rotation.random(nmol, random_state=inp["seed"])
            mole = Molecules(mpos, mrot)
            ld = SubtomogramLoader(tomo, mole, order=1, output_shape=shape)
            subs = np.asarray(ld.asnumpy())
            quats = np.asarray(mole.quaternion(), dtype=np.float32)
            for name in ("ZNCC", "NCC"):
                sc = np.asarray(ld.score([tmpl], mask=mask, alignment_model=M[name], **kw)[0], dtype=float)
                model = M[name](tmpl, mask, **kw)
                want = np.array([float(model.score(subs[i], quats[i], mpos[i].astype(np.float32))) for i in range(nmol)])
                if not (np.abs(sc - want).max() <= 3e-4):
                    V("loader-score", f"loader.score ({name}) differs from Model.score of the same sub-volumes / orientations by "
                                      f"{np.abs(sc - want).max():.4f}")
                lds = np.asarray(ld.construct_landscape(tmpl, mask=mask, max_shifts=1.0, alignment_model=M[name], **kw).compute())
                for i in range(nmol):
                    direct = np.asarray(model.landscape(subs[i], (1.0, 1.0, 1.0), quaternion=quats[i], pos=mpos[i].astype(np.float32)))
                    if lds[i].shape != direct.shape or np.abs(lds[i] - direct).max() > 3e-4:
                        V("loader-landscape", f"construct_landscape ({name}) of molecule {i} differs from Model.landscape called with that "
                                              f"molecule's orientation by {np.abs(lds[i] - direct).max():.4f}")
                        break
                if name == "ZNCC":
                    cs = np.array([float(lds[i][tuple(x // 2 for x in lds[i].shape)]) for i in range(nmol)])
                    if not (np.abs(cs - sc).max() <= 3e-4):
                        V("agree", f"loader: ZNCC landscape centres {np.round(cs, 4).tolist()} vs scores {np.round(sc, 4).tolist()}")
        elif kind == "multi":
            # several templates (no rotation search): every candidate's score is the Pearson correlation with
            # that template, pre-processed like the sub-volume (mask, low-pass, wedge)
            t2 = ndi.gaussian_filter(r.normal(size=shape), 0.8).astype(np.float32)
            temps = [tmpl, t2]
            for name, ref in (("ZNCC", _pearson), ("NCC", _ncc)):
                model = M[name](temps, mask, **kw)
                for j, tj in enumerate(temps):
                    single = float(M[name](tj, mask, **kw).score(sub, quat, pos))
                    want = ref(_pre(sub, mask, inp["cutoff"], inp["tilt"], quat),
                               _pre(tj, mask, inp["cutoff"], inp["tilt"], quat))
                    if abs(single - want) > 2e-4:
                        V("pearson", f"{name} single-template score {single:.6f} vs correlation {want:.6f}")
                if name != "ZNCC":
                    continue        # score / landscape / alignment agreement is stated for the normalised models only
                res = model.align(sub, (0.0, 0.0, 0.0), quaternion=quat, pos=pos)
                wants = [ref(_pre(sub, mask, inp["cutoff"], inp["tilt"], quat),
                             _pre(tj, mask, inp["cutoff"], inp["tilt"], quat)) for tj in temps]
                if abs(float(res.score) - max(wants)) > 3e-4:
                    V("multi-template", f"{name} with 2 templates and mask={inp['mask']}: zero-range alignment score "
                                        f"{float(res.score):.6f} but the per-template correlations are {np.round(wants, 6).tolist()}")
                lds = np.asarray(model.landscape(sub, (1.0, 1.0, 1.0), quaternion=quat, pos=pos))
                if lds.ndim == 4:
                    cs = [float(lds[(j,) + tuple(x // 2 for x in lds.shape[1:])]) for j in range(len(temps))]
                    if not (np.abs(np.array(cs) - np.array(wants)).max() <= 3e-4):
                        V("multi-template", f"{name} landscape centres {np.round(cs, 6).tolist()} vs per-template "
                                            f"correlations {np.round(wants, 6).tolist()} (mask={inp['mask']})")
                self_res = model.align(t2, (0.0, 0.0, 0.0), quaternion=quat, pos=pos)
                if name == "ZNCC" and abs(float(self_res.score) - 1) > 1e-3:
                    V("self", f"{name} with 2 templates: a sub-volume identical to template 1 scores {float(self_res.score):.6f}")
        elif kind == "agree":
            for name in ("ZNCC", "FSC"):
                model = M[name](tmpl, mask, **kw)
                s = float(model.score(sub, quat, pos))
                lds = np.asarray(model.landscape(sub, (1.0, 1.0, 1.0), quaternion=quat, pos=pos))
                c = float(lds[tuple(x // 2 for x in lds.shape)])
                z = float(model.align(sub, (0.0, 0.0, 0.0), quaternion=quat, pos=pos).score)
                if abs(s - c) > 3e-4 or abs(s - z) > 3e-4:
                    V("agree", f"{name}: score {s:.6f}, landscape centre {c:.6f}, zero-range alignment {z:.6f}")
        elif kind == "argmax":
            d = np.array(inp["d"], dtype=float)
            big = _C04._template(inp["seed"], shape, 4, 0.9)
            sub2 = np.roll(big, d.astype(int), axis=(0, 1, 2))
            if inp.get("offset"):
                # a sub-volume whose mean is large compared with its contrast (raw tomogram intensities)
                sub2 = (2.0 * sub2 + float(inp["offset"]) * float(big.std())).astype(np.float32)
            # (with an offset only the real-space models: a phase / shell correlation of an image dominated by its
            # DC term has no usable peak, and its coarse maximum and refined shift may differ by up to half a pixel)
            for name in (("ZNCC", "NCC") if inp.get("offset") else ("ZNCC", "NCC", "PCC", "FSC")):
                model = M[name](big, None, **kw)
                m = (2.0, 2.0, 2.0)
                lds = np.asarray(model.landscape(sub2, m, quaternion=quat, pos=pos))
                idx = np.array(np.unravel_index(int(np.argmax(lds)), lds.shape))
                lag = idx - np.array(lds.shape) // 2
                sh = np.asarray(model.align(sub2, m, quaternion=quat, pos=pos).shift, dtype=float)
                if not (np.abs(lag - sh).max() <= 0.3):
                    V("landscape-argmax", f"{name}: landscape maximum at lag {lag.tolist()} but alignment "
                                          f"reports {np.round(sh, 2).tolist()} (true {d.tolist()})")
        elif kind == "history":
            # one model, several calls with different orientations: results must equal fresh-model results
            model = M[inp["model"]](tmpl, mask, **kw)
            quats = [Rotation.random(random_state=inp["seed"] + k).as_quat().astype(np.float32) for k in range(3)]
            seq = []
            for q in quats + [quats[0]]:
                seq.append(float(model.score(sub, q, pos)))
            seq.append(float(model.score(tmpl, quats[1], pos)))
            seq.append(float(model.align(sub, (1.0, 1.0, 1.0), quaternion=quats[2], pos=pos).score))
            fresh = []
            for q in quats + [quats[0]]:
                fresh.append(float(M[inp["model"]](tmpl, mask, **kw).score(sub, q, pos)))
            fresh.append(float(M[inp["model"]](tmpl, mask, **kw).score(tmpl, quats[1], pos)))
            fresh.append(float(M[inp["model"]](tmpl, mask, **kw).align(sub, (1.0, 1.0, 1.0), quaternion=quats[2], pos=pos).score))
            dd = np.abs(np.array(seq) - np.array(fresh))
            if dd.max() > 1e-5 * max(1.0, np.abs(fresh).max()):
                V("history", f"{inp['model']}: results of repeated calls on one model differ from fresh models: "
                             f"{np.round(seq, 5).tolist()} vs {np.round(fresh, 5).tolist()}")
    return viols


def run_maskdtype(inp):
    """A binary mask is the same mask whether it is given as bool, uint8 or float32 — with and without a rotation
    search, for one and for several templates; a sub-volume identical to the template scores 1 under it."""
    from scipy import ndimage as ndi
    from scipy.spatial.transform import Rotation
    from props.C05 import _models
    viols = []

    def V(clause, desc):
        viols.append({"clause": clause, "desc": desc, "input": dict(inp)})

    r = np.random.default_rng(inp["seed"])
    n = int(inp["n"])
    tmpl = ndi.gaussian_filter(r.normal(size=(n, n, n)), 1.0).astype(np.float32)
    other = ndi.gaussian_filter(r.normal(size=(n, n, n)), 1.0).astype(np.float32)
    zz, yy, xx = np.indices((n, n, n)) - (n - 1) / 2
    binary = (zz ** 2 + yy ** 2 + xx ** 2) <= (n / 2 - 1) ** 2
    quat, pos = np.array([0, 0, 0, 1], dtype=np.float32), np.zeros(3, dtype=np.float32)
    kw = {}
    if inp["rotations"]:
        kw["rotations"] = [Rotation.identity(), Rotation.from_euler("z", 90, degrees=True), Rotation.from_euler("y", 90, degrees=True)]
    tin = [other, tmpl] if inp["two_templates"] else tmpl
    M = _models()[inp["model"]]
    res = {}
    for dt in ("float32", "bool", "uint8", "callable-bool"):
        mk = (lambda t: binary) if dt == "callable-bool" else binary.astype(dt)
        try:
            m = M(tin, mk, **kw)
            a = m.align(tmpl, (1.0, 1.0, 1.0), quat, pos)
            res[dt] = (float(a.score), [float(v) for v in a.shift], int(a.label))
        except Exception as e:  # noqa: BLE001
            V("no-error", f"binary mask given as {dt}: {type(e).__name__}: {str(e)[:100]}")
            return viols
    ref = res["float32"]
    # (with a rotation search the mask bank is resampled without prefilter, i.e. smoothed: the identity candidate then
    # scores about 0.95, not 1 - C07 does not speak about rotation searches, so "scores 1" is only required without one)
    if inp["model"] in ("ZNCC", "NCC") and not inp["rotations"] and abs(ref[0] - 1.0) > 1e-3:
        V("self", f"{inp['model']} with a binary float32 mask: identical sub-volume scores {ref[0]:.4f}")
    for dt, got in res.items():
        if abs(got[0] - ref[0]) > 1e-5 * (1 + abs(ref[0])) or np.abs(np.array(got[1]) - np.array(ref[1])).max() > 1e-6 or got[2] != ref[2]:
            V("mask-dtype", f"{inp['model']} (rotations={inp['rotations']}, {'two templates' if inp['two_templates'] else 'one template'}): the "
                            f"binary mask given as {dt} gives score {got[0]:.6g}, shift {got[1]}, label {got[2]}; as float32 "
                            f"{ref[0]:.6g}, {ref[1]}, {ref[2]}")
    return viols


def oracle(rng, thorough, deep=False, hints=None):
    from scipy.spatial.transform import Rotation
    big = thorough or deep
    cases = []
    for it in range(8 if big else 4):
        cases.append(dict(kind="maskdtype", n=int([9, 10][it % 2]), model=["ZNCC", "NCC", "ZNCC", "PCC"][it % 4], rotations=bool(it % 2 == 0),
                          two_templates=bool(it % 4 >= 2), seed=int(rng.integers(0, 10 ** 6))))
    shapes = [(8, 8, 8), (9, 9, 9), (8, 9, 10), (7, 11, 9), (6, 6, 7)]
    n = 14 if big else 4
    for it in range(n):
        for kind in ("pearson", "agree", "history", "argmax", "multi") + (("loader",) if it % 2 == 0 else ()):
            shape = shapes[(it + len(kind)) % len(shapes)]
            if kind == "argmax":
                shape = (14, 15, 16)[it % 3], 14, 15
            q = Rotation.random(random_state=int(rng.integers(0, 10 ** 6))).as_quat().tolist() if it % 2 else [0, 0, 0, 1.0]
            cases.append(dict(kind=kind, shape=list(shape), seed=int(rng.integers(0, 10 ** 6)),
                              mask=[None, "binary", "soft"][it % 3] if kind != "argmax" else None,
                              cutoff=[None, 0.3, 0.6][(it + 1) % 3],
                              tilt=[None, [-60, 60], [-40, 50]][(it + (kind == "history")) % 3],
                              quat=q, model=["ZNCC", "NCC", "PCC", "FSC"][it % 4],
                              d=[int(x) for x in rng.integers(-2, 3, size=3)],
                              history=2 if (kind == "pearson" and it % 2) else 0))
    # always: landscape maximum vs alignment on sub-volumes with a large intensity offset
    for it, off in enumerate([3.0, 40.0]):
        cases.append(dict(kind="argmax", shape=[14, 15, 16][it:] + [14, 15, 16][:it], seed=int(rng.integers(0, 10 ** 6)), mask=None, cutoff=None,
                          tilt=None, quat=[0, 0, 0, 1.0], model="NCC", d=[[1, -1, 2], [2, 0, -1]][it], history=0, offset=off))
    # cutoffs between 0.5 (Nyquist along an axis) and 0.866 (box diagonal) still filter; no wedge, every model
    for it, co in enumerate([0.5, 0.6, 0.8, 0.55][: 4 if big else 2]):
        for kind in ("pearson", "agree"):
            cases.append(dict(kind=kind, shape=[8, 9, 8], seed=int(rng.integers(0, 10 ** 6)), mask=[None, "soft"][it % 2], cutoff=co,
                              tilt=None, quat=[0, 0, 0, 1.0], model=["ZNCC", "NCC"][it % 2], d=[0, 0, 0], history=0))
    # always: a wedge model used for other orientations before the score that is checked
    cases.append(dict(kind="pearson", shape=[8, 9, 8], seed=int(rng.integers(0, 10 ** 6)), mask=None, cutoff=None,
                      tilt=[-60, 60], quat=Rotation.random(random_state=int(rng.integers(0, 10 ** 6))).as_quat().tolist(),
                      model="ZNCC", d=[0, 0, 0], history=3))
    cases.append(dict(kind="loader", shape=[7, 7, 7], seed=int(rng.integers(0, 10 ** 6)), mask=None, cutoff=None,
                      tilt=[-60, 60], quat=[0, 0, 0, 1.0], model="ZNCC", d=[0, 0, 0], history=0))
    cases.append(dict(kind="pearson", shape=[8, 8, 8], seed=int(rng.integers(0, 10 ** 6)), mask=None, cutoff=None,
                      tilt=None, quat=[0, 0, 0, 1.0], model="ZNCC", d=[0, 0, 0], history=0))
    cases.append(dict(kind="multi", shape=[8, 8, 9], seed=int(rng.integers(0, 10 ** 6)), mask="soft", cutoff=None,
                      tilt=None, quat=[0, 0, 0, 1.0], model="ZNCC", d=[0, 0, 0], history=0))
    viols, stats = [], {"by_kind": {}, "samples": [{"oracle_case": c} for c in cases[:2]]}
    for c in cases:
        stats["by_kind"][c["kind"]] = stats["by_kind"].get(c["kind"], 0) + 1
        viols += run_maskdtype(c) if c["kind"] == "maskdtype" else run_case(c)
    return len(cases), viols, stats


def replay(payload):
    if payload["input"].get("kind") == "maskdtype":
        v = run_maskdtype(dict(payload["input"]))
        return {"violated": bool(v), "violations": v}
    v = run_case(dict(payload["input"]))
    return {"violated": bool(v), "violations": v}
