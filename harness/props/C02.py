"""C02 — Subtomograms sample the tomogram on the molecule's local grid."""
from __future__ import annotations

import itertools
from fractions import Fraction

import numpy as np

import common as C

PROP = "C02"
LEAN_MODULES = ["AcryoVerif.Props.C02", "AcryoVerif.Props.C02Array"]
LEAN_SUPPORT = ["AcryoVerif.Lemmas.PyLemmas", "AcryoVerif.Model.Crop", "AcryoVerif.Model.Load"]
KERNELS = ["makeSliceAndPad", "prepareAffineAxis", "prepareAffineOutputCenter", "cornerSafeAxis",
           "cornerSafeOutputCenter"]
TRUSTED = [
    "Lean 4.33 kernel; axioms propext / Classical.choice / Quot.sound only (audited per theorem)",
    "translator/py2lean.py + lean/AcryoVerif/Py.lean give Python's meaning to int(), //, slices "
    "(differentially checked against CPython on every run: k1_selfcheck)",
    "scipy.ndimage.affine_transform / map_coordinates interpolate at matrix @ o + offset "
    "(modelled, not verified)",
    "dask.array.pad(mode='mean'), slicing (modelled, not verified)",
]
ASSUMPTIONS = [
    "floating point is not modelled: positions are exact rationals in the model, dyadic in the "
    "correspondence",
    "order-3 interpolation prefilters the crop, so agreement with whole-tomogram interpolation is "
    "only checked to 8% of the intensity range by the oracle",
]
EXPLANATION = (
    "Theorems (all inputs): slice/pad arithmetic of make_slice_and_pad (inside [0,N), non-empty, "
    "length preserved, out-of-bound error iff no overlap), window width, coordinate rule "
    "c + R(k-(n-1)/2) independent of the window origin, window covers the interpolation support "
    "for prepare_affine and for the corner-safe variant. Array level (C02Array): Model.loadAxis follows the "
    "code along one axis (regenerated window / clipping / centre kernels, mean padding, evaluation at "
    "new_center + k - output_center); loadAxis_spec: for every tomogram, box size, spline order and "
    "grid-coincident centre (also negative, straddling, outside) the box is the tomogram block where it "
    "overlaps and the mean of the clipped block elsewhere, and the out-of-bound error is raised exactly when "
    "the window misses the tomogram. Tie: kernels regenerated from "
    "acryo/_utils.py; prepare_affine(_cornersafe) compared with Model.cropAxis; the real loader along one axis "
    "(numpy and dask, load / asnumpy) compared with Model.loadAxis; loader.load "
    "replayed against whole-tomogram interpolation.")
SAMPLE_OBLIGATIONS = [
    {"theorem": "C02.loadAxis_spec",
     "statement": "grid-coincident centre: loadAxis = tomogram block where in bounds, one finite fill value elsewhere; "
                  "error oob iff the window misses the tomogram (all N, s, order, c)"},
    {"theorem": "C02.slice_error_iff",
     "statement": "makeSliceAndPad z0 z1 N = error oob <-> N <= z0 or z1 <= 0 (for z0<z1, N>0)"},
    {"theorem": "C02.window_covers",
     "statement": "every in-bounds index within the interpolation support of a sampled coordinate "
                  "of the box lies in [x0, x1)"},
]


def k1_globals():
    import acryo._utils as U
    return {"makeSliceAndPad": dict(U.__dict__)}


def k1_grids(rng, thorough):
    g = {}
    zs = range(-7, 16) if thorough else range(-4, 13)
    g["makeSliceAndPad"] = [[z0, z0 + w, n] for z0 in zs for w in (-1, 0, 1, 2, 5, 9)
                            for n in (1, 4, 10)]
    step = Fraction(1, 8) if thorough else Fraction(1, 4)
    cs = [Fraction(-3) + step * i for i in range(int(16 / step))]
    g["prepareAffineAxis"] = [[c, s, o] for c in cs for s in (1, 2, 5, 6) for o in (0, 1, 3)]
    g["prepareAffineOutputCenter"] = [[s] for s in range(1, 12)]
    g["cornerSafeOutputCenter"] = [[s] for s in range(1, 12)]
    lens = [Fraction(float(np.sqrt(np.sum(np.asarray(sh, dtype=np.float32) ** 2))))
            for sh in [(3, 3, 3), (4, 5, 6), (1, 1, 9)]]
    g["cornerSafeAxis"] = [[c, L, o] for c in cs[::2] for L in lens for o in (0, 1, 3)]
    return g


# ------------------------------------------------------------------------------------------
# K2: prepare_affine / prepare_affine_cornersafe against Model.cropAxis / cropAxisCS
# ------------------------------------------------------------------------------------------
def correspondence(rng, thorough):
    import dask.array as da
    from scipy.spatial.transform import Rotation
    import acryo._utils as U

    n = 400 if thorough else 120
    lines, impl = [], []
    stats = {"inside": 0, "straddle": 0, "error": 0, "cornersafe": 0, "plain": 0}
    ident = Rotation.identity()
    for it in range(n):
        N = [int(x) for x in rng.integers(1, 14, size=3)]
        s = [int(x) for x in rng.integers(1, 9, size=3)]
        order = int(rng.choice([0, 1, 3]))
        kind = rng.integers(0, 4)
        c = []
        for ax in range(3):
            if kind == 0:      # interior
                v = rng.integers(0, 8 * N[ax] + 1) / 8
            elif kind == 1:    # near a face
                v = rng.choice([0, N[ax]]) + rng.integers(-48, 49) / 8
            else:              # anywhere incl. far outside
                v = rng.integers(-8 * 12, 8 * (N[ax] + 12)) / 8
            c.append(float(v))
        img = da.zeros(tuple(N), dtype=np.float32, chunks=tuple(N))
        cs = bool(rng.integers(0, 2))
        stats["cornersafe" if cs else "plain"] += 1
        if cs:
            max_len = np.sqrt(np.sum(np.asarray(s, dtype=np.float32) ** 2))
            f = U.prepare_affine_cornersafe
            op = "m:prepAffineCS " + " ".join(C.rat_str(x) for x in c) + " " + C.rat_str(max_len) \
                + " " + " ".join(map(str, s)) + f" {order} " + " ".join(map(str, N))
        else:
            f = U.prepare_affine
            op = "m:prepAffine " + " ".join(C.rat_str(x) for x in c) + " " \
                + " ".join(map(str, s)) + f" {order} " + " ".join(map(str, N))
        try:
            sub, mtx = f(img, c, tuple(s), ident, order)
            out = C.canon(tuple(int(x) for x in sub.shape) + tuple(float(x) for x in mtx[:3, 3]))
            padded = any(sub.shape[a] != 0 for a in range(3))
            stats["inside" if kind == 0 else "straddle"] += 1
        except Exception as e:  # noqa: BLE001
            out = C.exc_kind(e)
            stats["error"] += 1
        lines.append(op)
        impl.append(out)
    # array level: the real loader along one axis (identity orientation, grid-coincident centre) against
    # Model.loadAxis: interior, straddling either face, outside, negative centres; odd and even boxes; orders 0/1/3
    from acryo import SubtomogramLoader, Molecules
    stats.update({"load1d": 0, "load1d_straddle": 0, "load1d_error": 0, "load1d_even": 0, "load1d_dask": 0})
    for it in range(150 if thorough else 45):
        ax = it % 3
        N = int(rng.integers(1, 14))
        sbox = int(rng.integers(1, 8))
        order = [0, 1, 3][(it // 3) % 3]
        k0 = int(rng.integers(-sbox - 6, N + 6))
        cpx = Fraction(k0) + Fraction(sbox - 1, 2)
        scale = Fraction([1, 1, 2, 13][it % 4], [1, 2, 1, 8][it % 4])
        vals = [int(v) for v in rng.integers(0, 40, size=N)]
        shp = [1, 1, 1]
        shp[ax] = N
        tomo = np.array(vals, dtype=np.float32).reshape(shp)
        if it % 2:
            import dask.array as da
            tomo = da.from_array(tomo, chunks=tuple(max(1, n // 2) for n in shp))
            stats["load1d_dask"] += 1
        pos = [0.0, 0.0, 0.0]
        pos[ax] = float(cpx * scale)
        box = [1, 1, 1]
        box[ax] = sbox
        try:
            ld = SubtomogramLoader(tomo, Molecules(np.array([pos])), order=order, scale=float(scale), output_shape=tuple(box))
            out = np.asarray([ld.load(0), np.asarray(ld.asnumpy())[0]][it % 2]).reshape(-1)
            res = " ".join(repr(float(v)) for v in out)
        except Exception as e:  # noqa: BLE001
            res = C.exc_kind(e)
            stats["load1d_error"] += 1
        lines.append(f"m:load1d {C.rat_str(cpx)} {sbox} {order} {N} " + " ".join(map(str, vals)))
        impl.append(res)
        stats["load1d"] += 1
        stats["load1d_even"] += sbox % 2 == 0
        stats["load1d_straddle"] += (k0 < 0 < k0 + sbox) or (k0 < N < k0 + sbox)
    return lines, impl, stats


def k2_post(line, impl_out, model_out):
    if not line.startswith("m:load1d") or impl_out.startswith("err") or model_out.startswith("err"):
        return impl_out, model_out
    try:
        a = np.array([float(x) for x in impl_out.split()])
        b = np.array([float(Fraction(x)) for x in model_out.split()])
        if a.shape == b.shape and np.abs(a - b).max(initial=0.0) <= 2e-4 * (1 + np.abs(b).max(initial=0.0)):
            return "box-agrees", "box-agrees"
        return "box " + " ".join(f"{x:.4f}" for x in a), "box " + " ".join(f"{x:.4f}" for x in b)
    except Exception as e:  # noqa: BLE001
        return impl_out, f"unparsable: {e}"


# ------------------------------------------------------------------------------------------
# oracle on the real loader
# ------------------------------------------------------------------------------------------
def _tomogram(seed, shape):
    r = np.random.default_rng(seed)
    from scipy import ndimage as ndi
    a = r.normal(size=shape).astype(np.float32)
    return ndi.gaussian_filter(a, 1.0).astype(np.float32) * 10


def run_case(inp: dict) -> list[dict]:
    """One loader scenario; returns violations of the property statement."""
    from scipy import ndimage as ndi
    from scipy.spatial.transform import Rotation
    import dask.array as da
    from acryo import SubtomogramLoader, Molecules
    from acryo._utils import SubvolumeOutOfBoundError

    tomo = _tomogram(inp["tomo_seed"], tuple(inp["tomo_shape"]))
    N = np.array(tomo.shape)
    pos = np.array(inp["pos"], dtype=np.float64)
    scale = float(inp["scale"])
    quat = np.array(inp["quat"], dtype=np.float64)
    rot = Rotation.from_quat(quat[None])
    shape = tuple(inp["shape"])
    order = int(inp["order"])
    cs = bool(inp["corner_safe"])
    mole = Molecules(pos[None] * scale, rot)
    img = da.from_array(tomo, chunks=tuple(inp["chunks"])) if inp.get("chunks") else tomo
    loader = SubtomogramLoader(img, mole, order=order, scale=scale, output_shape=shape,
                               corner_safe=cs)
    viols = []

    def V(clause, desc, **kw):
        viols.append({"clause": clause, "desc": desc, "input": dict(inp), **kw})

    oc = (np.array(shape) - 1) / 2
    kk = np.stack(np.meshgrid(*[np.arange(s) for s in shape], indexing="ij"), axis=0).reshape(3, -1)
    R = rot.as_matrix()[0]
    off = R @ (kk - oc[:, None])
    # the position the loader actually uses is float32(pos*scale)/scale
    p_used = mole.pos[0].astype(np.float64) / scale
    coords = p_used[:, None] + off
    rad = {0: 0.5, 1: 1.0, 3: 2.0}[order]
    box_lo, box_hi = coords.min(axis=1), coords.max(axis=1)
    surely_outside = bool(np.any(p_used - np.array(shape) / 2 - order - 2 >= N)
                          or np.any(p_used + np.array(shape) / 2 + order + 2 <= 0)) and not cs
    surely_inside = bool(np.all(box_lo - rad - 1 >= 0) and np.all(box_hi + rad + 1 <= N - 1)) \
        and np.allclose(quat, [0, 0, 0, 1])
    try:
        out = np.asarray(loader.load(0))
    except SubvolumeOutOfBoundError:
        if surely_inside:
            V("no-spurious-oob", "out-of-bound error for a box well inside the tomogram")
        return viols
    except Exception as e:  # noqa: BLE001
        V("no-other-error", f"{type(e).__name__}: {e}")
        return viols
    if out.shape != shape:
        V("shape", f"shape {out.shape} != {shape}")
        return viols
    if not np.all(np.isfinite(out)):
        V("finite-fill", f"{int(np.sum(~np.isfinite(out)))} non-finite voxels "
                         f"(window {'without' if surely_outside else 'with partial'} overlap)")
        return viols
    if surely_outside:
        V("oob-error", "window has no overlap with the tomogram but no out-of-bound error was raised")
        return viols
    # reference: interpolate the whole tomogram
    ref = ndi.map_coordinates(tomo, coords, order=order, mode="constant", cval=np.nan,
                              prefilter=order > 1).reshape(shape)
    # voxels whose support is inside the tomogram
    inb = np.all((coords - rad >= 0) & (coords + rad <= (N - 1)[:, None]), axis=0)
    # guaranteed region
    if cs:
        L = float(np.sqrt(np.sum(np.asarray(shape, dtype=np.float32) ** 2)))
        H = L / 2 + order / 2 - 1.5
        guar = np.all(np.abs(off) <= H, axis=0)
    elif np.allclose(np.abs(R), np.eye(3)) or np.allclose(R, np.eye(3)):
        guar = np.ones(kk.shape[1], dtype=bool)
    else:
        guar = np.linalg.norm(kk - oc[:, None], axis=0) <= (min(shape) - 1) / 2 + 1e-9
    sel = inb & guar
    if order == 0:
        fr = np.abs(coords - np.floor(coords) - 0.5)
        sel &= np.all(fr > 1e-3, axis=0)
    sel &= np.isfinite(ref.reshape(-1))
    if sel.any():
        rng_ = float(tomo.max() - tomo.min())
        tol = {0: 1e-4, 1: 2e-4 * rng_, 3: 0.08 * rng_}[order]
        d = np.abs(out.reshape(-1)[sel] - ref.reshape(-1)[sel])
        if d.max() > tol:
            bad = np.zeros(kk.shape[1], dtype=bool)
            bad[np.flatnonzero(sel)[d > tol]] = True
            # voxels that the order-0 window [int(c - s/2), int(c - s/2) + s] cannot hold
            cause = "other"
            if order == 0 and not cs:
                x0 = np.trunc(p_used - np.array(shape) / 2)
                # the window is [x0, x0 + s]: a coordinate at (floating-point rounding decides) or beyond
                # its last index is filled by scipy's mode="constant"
                lost = np.any(coords > (x0 + np.array(shape))[:, None] - 1e-6, axis=0)
                if np.all(lost[bad]):
                    cause = "order0-window"
            elif order == 0 and cs:
                # prepare_affine_cornersafe: x0 = int(c - L/2), x1 = int(x0 + L + 1); scipy's
                # mode="constant" fills every coordinate beyond the last index x1 - 1
                Lf = float(np.sqrt(np.sum(np.asarray(shape, dtype=np.float32) ** 2)))
                x0 = np.trunc(p_used - Lf / 2)
                last = np.trunc(x0 + Lf + 1) - 1
                lost = np.any((coords > last[:, None] - 1e-6) | (coords < x0[:, None] + 1e-6), axis=0)
                if np.all(lost[bad]):
                    cause = "order0-window"
            inp2 = dict(inp, cause=cause)
            viols.append({"clause": "coordinate-rule", "input": inp2,
                          "desc": f"voxel differs from tomogram interpolated at pos/scale + R(k-(n-1)/2) "
                                  f"by {d.max():.4g} (tol {tol:.3g}) on {int((d > tol).sum())} voxels "
                                  f"[cause={cause}]"})
    if inp.get("exact") and sel.all():
        lo = (p_used - oc).round().astype(int)
        block = tomo[lo[0]:lo[0] + shape[0], lo[1]:lo[1] + shape[1], lo[2]:lo[2] + shape[2]]
        if block.shape == shape and np.abs(out - block).max() > 1e-3 * float(np.abs(tomo).max()):
            V("exact-block", f"identity/integer/odd case differs from the block by {np.abs(out - block).max():.4g}")
    return viols


def run_context(inp: dict) -> list[dict]:
    """A molecule's subtomogram does not depend on which other molecules are in the loader, nor on whether
    it is read through a SubtomogramLoader or a BatchLoader with the same settings."""
    import dask
    from scipy.spatial.transform import Rotation
    from acryo import SubtomogramLoader, BatchLoader, Molecules
    viols = []
    r = np.random.default_rng(inp["seed"])
    shape = tuple(inp["shape"])
    order, cs, scale = int(inp["order"]), bool(inp["corner_safe"]), float(inp["scale"])
    tomos = [_tomogram(inp["seed"] + t, tuple(inp["tomo_shape"])) for t in range(2)]
    n = int(inp["n"])
    base = np.array([int(r.integers(9, s - 9)) for s in inp["tomo_shape"]], dtype=float)
    pos = []
    for i in range(n):
        if i % 2 == 0:      # several molecules in the same voxel, different sub-voxel positions
            pos.append(base + r.uniform(0.05, 0.95, size=3))
        else:
            pos.append(np.array([r.uniform(9, s - 9) for s in inp["tomo_shape"]]))
    pos = np.array(pos)
    rot = Rotation.random(n, random_state=inp["seed"])
    kw = dict(order=order, scale=scale, output_shape=shape, corner_safe=cs)
    with dask.config.set(scheduler="synchronous"):
        try:
            alone = [np.asarray(SubtomogramLoader(tomos[i % 2], Molecules(pos[[i]] * scale, rot[[i]]), **kw).load(0))
                     for i in range(n)]
            idx0 = [i for i in range(n) if i % 2 == 0]
            together = np.asarray(SubtomogramLoader(tomos[0], Molecules(pos[idx0] * scale, rot[idx0]), **kw).asnumpy())
            rev = np.asarray(SubtomogramLoader(tomos[0], Molecules(pos[idx0[::-1]] * scale, rot[idx0[::-1]]), **kw).asnumpy())
            b = BatchLoader(**kw)
            for t in range(2):
                sel = [i for i in range(n) if i % 2 == t]
                b.add_tomogram(tomos[t], Molecules(pos[sel] * scale, rot[sel]), t)
            batch = np.asarray(b.asnumpy())
            border = [i for t in range(2) for i in range(n) if i % 2 == t]
        except Exception as e:  # noqa: BLE001
            return [{"clause": "no-other-error", "desc": f"context case: {type(e).__name__}: {str(e)[:120]}", "input": dict(inp)}]
    tol = 1e-5 * float(np.ptp(tomos[0])) + 1e-6

    def V(desc):
        viols.append({"clause": "context-independent", "desc": desc, "input": dict(inp)})

    for k, i in enumerate(idx0):
        if not (np.abs(together[k] - alone[i]).max() <= tol):
            V(f"molecule {i} read together with others in its voxel differs from reading it alone by "
              f"{np.abs(together[k] - alone[i]).max():.4g} (order {order}, corner_safe {cs})")
            break
    for k, i in enumerate(idx0[::-1]):
        if not (np.abs(rev[k] - alone[i]).max() <= tol):
            V(f"molecule {i} read in reversed molecule order differs from reading it alone by "
              f"{np.abs(rev[k] - alone[i]).max():.4g}")
            break
    for k, i in enumerate(border):
        if batch.shape[0] != n or np.abs(batch[k] - alone[i]).max() > tol:
            V(f"BatchLoader(corner_safe={cs}, order={order}) row {k} differs from the SubtomogramLoader result for the "
              f"same molecule by {np.abs(batch[k] - alone[i]).max():.4g}")
            break
    return viols


def _rand_quat(rng, kind):
    if kind == "identity":
        return [0.0, 0.0, 0.0, 1.0]
    if kind == "axis":
        from scipy.spatial.transform import Rotation
        ax = "xyz"[int(rng.integers(0, 3))]
        return Rotation.from_euler(ax, 90 * int(rng.integers(1, 4)), degrees=True).as_quat().tolist()
    q = rng.normal(size=4)
    return (q / np.linalg.norm(q)).tolist()


def oracle(rng, thorough, deep=False, hints=None):
    n = 260 if (thorough or deep) else 70
    viols, stats = [], {"exact": 0, "rotated": 0, "straddle": 0, "outside": 0, "cornersafe": 0,
                        "dask": 0, "samples": []}
    cases = []
    # boundary cases of the out-of-bound rule first (model counterexamples z0 = N, z1 = 0)
    for order in (0, 1, 3):
        for s in (5, 4):
            Nz = 20
            c_hi = Nz + s / 2 + order            # x0 == N
            c_lo = -(s / 2 + order + 1)          # x1 == 0 for integer/half-integer centres
            for cz in (c_hi, c_hi + 1, c_hi - 1, c_lo, c_lo - 1, c_lo + 1):
                cases.append(dict(tomo_seed=1, tomo_shape=[Nz, 18, 22], pos=[cz, 9.0, 11.0], scale=1.0,
                                  quat=[0, 0, 0, 1.0], shape=[s, s, s], order=order, corner_safe=False,
                                  chunks=None, kind="outside"))
    for it in range(n):
        kind = ["exact", "rotated", "straddle", "outside"][int(rng.integers(0, 4))]
        tshape = [int(x) for x in rng.integers(14, 26, size=3)]
        shape = [int(x) for x in rng.integers(3, 8, size=3)]
        order = int(rng.choice([0, 1, 3]))
        scale = float(rng.choice([1.0, 0.5, 2.0, 1.625]))
        cs = bool(rng.integers(0, 3) == 0)
        qk = "identity"
        exact = False
        if kind == "exact":
            shape = [int(2 * rng.integers(1, 4) + 1) for _ in range(3)]
            pos = [float(rng.integers(5, t - 5)) for t in tshape]
            exact = True
            cs = False
        elif kind == "rotated":
            pos = [float(rng.integers(8 * 6, 8 * (t - 6)) / 8) for t in tshape]
            qk = ["generic", "axis"][int(rng.integers(0, 2))]
        elif kind == "straddle":
            ax = int(rng.integers(0, 3))
            pos = [float(rng.integers(8 * 6, 8 * (t - 6)) / 8) for t in tshape]
            pos[ax] = float(rng.choice([0, tshape[ax] - 1]) + rng.integers(-24, 25) / 8)
            qk = ["identity", "generic"][int(rng.integers(0, 2))]
        else:
            ax = int(rng.integers(0, 3))
            pos = [float(rng.integers(8 * 6, 8 * (t - 6)) / 8) for t in tshape]
            far = rng.integers(0, 40) / 8
            pos[ax] = float(tshape[ax] + shape[ax] / 2 + order + far) if rng.integers(0, 2) else \
                float(-(shape[ax] / 2 + order + far))
        chunks = [max(2, t // 2) for t in tshape] if rng.integers(0, 3) == 0 else None
        cases.append(dict(tomo_seed=int(rng.integers(0, 1000)), tomo_shape=tshape, pos=pos, scale=scale,
                          quat=_rand_quat(rng, qk), shape=shape, order=order, corner_safe=cs,
                          chunks=chunks, exact=exact, kind=kind))
    # rotations by exact multiples of 90 degrees at grid-coincident centres, nearest-neighbour sampling: the outermost
    # sampled coordinates are window nodes up to 1e-16 (no slack may be assumed on either side)
    from scipy.spatial.transform import Rotation as _R
    for it, (axn, ang) in enumerate([("z", 90), ("z", 180), ("y", -90), ("x", 270), ("y", 180), ("x", 90)][: 6 if (thorough or deep) else 3]):
        for order in (0, 1):
            sbox = [5, 5, 5] if it % 2 == 0 else [7, 5, 3]
            cases.append(dict(tomo_seed=int(rng.integers(0, 1000)), tomo_shape=[20, 21, 22], pos=[float(v) for v in rng.integers(7, 13, size=3)],
                              scale=[1.0, 0.5][it % 2], quat=_R.from_euler(axn, ang, degrees=True).as_quat().tolist(), shape=sbox, order=order,
                              corner_safe=False, chunks=None, exact=False, kind="rotated"))
    # identity orientation on integer positions with EVEN box axes: the samples fall between voxels
    for it in range(12 if (thorough or deep) else 4):
        tshape = [int(x) for x in rng.integers(20, 30, size=3)]
        shape = [[8, 8, 8], [6, 7, 7], [7, 7, 10], [4, 6, 5]][it % 4]
        cases.append(dict(tomo_seed=int(rng.integers(0, 1000)), tomo_shape=tshape,
                          pos=[float(rng.integers(8, t - 8)) for t in tshape], scale=float([1.0, 0.5][it % 2]),
                          quat=[0.0, 0.0, 0.0, 1.0], shape=shape, order=int([1, 3][it % 2]), corner_safe=bool(it % 3 == 0),
                          chunks=None, exact=False, kind="lattice-even"))
    # corner-safe loading of elongated boxes at orientations that are not single-axis rotations
    from scipy.spatial.transform import Rotation
    perm = Rotation.from_rotvec(np.array([1.0, 1.0, 1.0]) / np.sqrt(3) * (2 * np.pi / 3)).as_quat().tolist()
    for it in range(40 if (thorough or deep) else 8):
        shape = [int(x) for x in rng.permutation([3, 5, 11])]
        q = perm if it % 4 == 0 else _rand_quat(rng, "generic")
        cases.append(dict(tomo_seed=int(rng.integers(0, 1000)), tomo_shape=[30, 30, 30],
                          pos=[float(rng.integers(8 * 13, 8 * 17) / 8) for _ in range(3)], scale=1.0,
                          quat=q, shape=shape, order=int(rng.choice([1, 3])), corner_safe=True,
                          chunks=None, exact=False, kind="cs-elongated"))
    for inp in cases:
        k = inp.pop("kind")
        stats[k] = stats.get(k, 0) + 1
        stats["cornersafe"] += int(inp["corner_safe"])
        stats["dask"] += int(inp["chunks"] is not None)
        v = run_case(inp)
        viols += v
    ctx = []
    for it in range(12 if (thorough or deep) else 4):
        ctx.append(dict(context=True, seed=int(rng.integers(0, 10 ** 6)), tomo_shape=[30, 28, 32],
                        shape=[[5, 5, 5], [4, 6, 5], [7, 3, 5]][it % 3], order=int([1, 3, 1, 0][it % 4]) if it % 4 != 3 else 1,
                        corner_safe=bool(it % 2), scale=float([1.0, 0.5][it % 2]), n=int(rng.integers(4, 9))))
    for inp in ctx:
        stats["context"] = stats.get("context", 0) + 1
        viols += run_context(inp)
    stats["samples"] = [{"oracle_case": c} for c in cases[-2:]]
    return len(cases) + len(ctx), viols, stats


def replay(payload):
    inp = dict(payload["input"])
    v = run_context(inp) if inp.get("context") else run_case(inp)
    return {"violated": bool(v), "violations": v}
