"""C14 — Simulated tomograms contain the template at the requested poses."""
from __future__ import annotations

from fractions import Fraction

import numpy as np

import common as C

PROP = "C14"
LEAN_MODULES = ["AcryoVerif.Props.C14"]
LEAN_SUPPORT = ["AcryoVerif.Lemmas.PyLemmas", "AcryoVerif.Props.C02", "AcryoVerif.Model.Sim"]
KERNELS = ["simPrep", "simMatrixStructure", "simAccumulates", "sim2dProjectsEveryMolecule", "sim2dZSize",
           "simClipUsesSlicePad", "makeSliceAndPad"]
TRUSTED = [
    "Lean 4.33 kernel; axioms propext / Classical.choice / Quot.sound only",
    "translator/py2lean.py + Py.lean (astype(int32) truncation), self-checked each run; structure of the "
    "simulator loops read from the AST",
    "scipy affine_transform evaluates the template at M o (exact at integer nodes for orders 0/1, "
    "spline accuracy for order 3); numpy slicing and in-place += (modelled, sampled)",
]
ASSUMPTIONS = ["for poses that are not grid-coincident the template must vanish ~2 voxels from its faces "
               "(density leaving the template box is legitimately truncated): such poses are only tested"]
EXPLANATION = (
    "Theorems (every template size, position incl. negative, scale): starts + output_center = pos/scale "
    "(template centre at the molecule position), fragment length = template length; grid-coincident poses "
    "(integer for odd, half-integer for even sizes) give output_center = center, i.e. an exact paste at "
    "pos - (n-1)/2; clipped source and destination slices have equal length inside the volume, "
    "non-overlapping fragments are skipped; the sum is independent of the order and partition of "
    "fragments; simulate_2d's volume is tall enough and projects every molecule. Array level (refinement): "
    "Model.simulate1d follows the code (regenerated window and clipping kernels, whole-voxel translation, skip "
    "on out-of-bound, += per molecule) and for every list of grid-coincident molecules never fails and "
    "yields at voxel j the sum of the template voxels the poses put there (simulate1d_spec); order/partition "
    "independence and the exact paste are corollaries on arrays. K2: _prep_iterators and "
    "its matrices vs the generated kernel; the real simulate() along one axis vs Model.simulate1d. Oracle: exact pastes, order independence, clipping, loader round "
    "trip, 2-D = z-projection, off-grid poses with smooth templates.")
SAMPLE_OBLIGATIONS = [
    {"theorem": "C14.centre_at_position", "statement": "starts + output_center = pos/scale for every n, pos, scale"},
    {"theorem": "C14.exact_paste", "statement": "grid-coincident pose -> output_center = center and starts = pos - (n-1)/2"},
    {"theorem": "C14.simulate1d_spec", "statement": "for all grid-coincident molecule lists: no error, length N, voxel j = sum of posed template voxels"},
    {"theorem": "C14.simulate1d_order_free", "statement": "Perm m1 m2 -> simulate1d m1 = simulate1d m2 (arrays)"},
]


def k1_grids(rng, thorough):
    ps = [Fraction(k, 4) for k in range(-13, 60, 3)]
    return {"simPrep": [[p, s, n] for p in ps for s in (Fraction(1), Fraction(1, 2), Fraction(2)) for n in (1, 4, 5, 6, 9)],
            "sim2dZSize": [[Fraction(z, 2), s, k] for z in range(0, 40, 7) for s in (Fraction(1), Fraction(1, 2)) for k in (3, 12, 17)],
            "makeSliceAndPad": [[z0, z0 + w, n] for z0 in range(-6, 14) for w in (1, 4, 6) for n in (5, 12)]}


def k1_globals():
    import acryo._utils as U
    return {"makeSliceAndPad": dict(U.__dict__)}


def correspondence(rng, thorough):
    from acryo import Molecules
    from acryo.simulator import _prep_iterators
    lines, impl, stats = [], [], {"cases": 0, "even": 0, "negative": 0}
    for it in range(60 if thorough else 20):
        n = [int(x) for x in rng.integers(1, 9, size=3)]
        scale = Fraction([1, 1, 2, 13][it % 4], [1, 2, 1, 8][it % 4])
        p = [Fraction(int(x), 8) * scale for x in rng.integers(-40, 200, size=3)]
        m = Molecules(np.array([[float(x) for x in p]]))
        starts, stops, mtxs = _prep_iterators(m, tuple(n), float(scale))
        center = (np.array(n) - 1.0) / 2.0
        oc = center - mtxs[0][:3, 3]          # identity rotation: translation = center - output_center
        for ax in range(3):
            lines.append(f"k:simPrep {C.rat_str(p[ax])} {C.rat_str(scale)} {n[ax]}")
            impl.append(C.canon((int(starts[0][ax]), int(stops[0][ax]), float(center[ax]), float(oc[ax]))))
            stats["cases"] += 1
            stats["even"] += n[ax] % 2 == 0
            stats["negative"] += p[ax] < 0
    # array level: the real simulator along one axis against Model.simulate1d (grid-coincident poses: whole
    # templates inside, straddling either face, outside; overlapping molecules; several components)
    from acryo import TomogramSimulator
    stats.update({"sim1d": 0, "sim1d_straddle": 0, "sim1d_outside": 0, "sim1d_left_of_origin": 0})
    for it in range(90 if thorough else 30):
        ax = it % 3
        scale = Fraction([1, 1, 2, 13][it % 4], [1, 2, 1, 8][it % 4])
        N = int(rng.integers(1, 14))
        nmol = int(rng.integers(1, 5))
        sim = TomogramSimulator(order=int(it % 2), scale=float(scale))
        toks = []
        for m in range(nmol):
            n = int(rng.integers(1, 7))
            k = int(rng.integers(-n - 2, N + 3))
            p = (Fraction(k) + Fraction(n - 1, 2)) * scale
            vals = [int(v) for v in rng.integers(1, 30, size=n)]
            shp = [1, 1, 1]
            shp[ax] = n
            pos = [0.0, 0.0, 0.0]
            pos[ax] = float(p)
            sim.add_molecules(Molecules(np.array([pos])), np.array(vals, dtype=np.float32).reshape(shp), name=f"c{m}")
            toks += [C.rat_str(p), str(n)] + [str(v) for v in vals]
            stats["sim1d_straddle"] += (k < 0 < k + n) or (k < N < k + n)
            stats["sim1d_outside"] += (k + n <= 0) or (k >= N)
            stats["sim1d_left_of_origin"] += p < 0
        vol = [1, 1, 1]
        vol[ax] = N
        import dask
        try:
            with dask.config.set(scheduler="synchronous"):
                out = np.asarray(sim.simulate(tuple(vol))).reshape(-1)
            res = " ".join(C.rat_str(float(v)) for v in out)
        except Exception as e:  # noqa: BLE001
            res = C.exc_kind(e)
        lines.append(f"m:sim1d {C.rat_str(scale)} {N} {nmol} " + " ".join(toks))
        impl.append(res)
        stats["sim1d"] += 1
    return lines, impl, stats


# ------------------------------------------------------------------------------------------
def _smooth(seed, shape):
    from scipy import ndimage as ndi
    r = np.random.default_rng(seed)
    a = np.zeros(shape)
    inner = tuple(slice(3, s - 3) for s in shape)
    a[inner] = r.uniform(0.5, 1.5, size=a[inner].shape)
    return ndi.gaussian_filter(a, 0.8, mode="constant").astype(np.float32)


def run_case(inp):
    import dask
    from scipy.spatial.transform import Rotation
    from acryo import TomogramSimulator, Molecules, SubtomogramLoader
    viols = []

    def V(clause, desc):
        viols.append({"clause": clause, "desc": desc, "input": dict(inp)})

    r = np.random.default_rng(inp["seed"])
    shape = tuple(inp["tshape"])
    scale = float(inp["scale"])
    order = int(inp["order"])
    N = tuple(inp["volume"])
    kind = inp["kind"]
    with dask.config.set(scheduler="synchronous"):
        if kind == "exact":
            tmpl = r.integers(1, 9, size=shape).astype(np.float32)
            c = (np.array(shape) - 1) / 2
            nm = inp["nmol"]
            lows = [min(-2, N[d] - shape[d] - 1) for d in range(3)]
            corners = np.array([[int(r.integers(lows[d], max(N[d] - shape[d] + 3, lows[d] + 2))) for d in range(3)]
                                for _ in range(nm)])
            # (pixel sizes are dyadic here: at 0.3 or 0.1 nm a grid position k * scale comes back from the float32 division as
            # k -+ 1e-7 px, which the code truncates to the neighbouring voxel and interpolates: such poses are not grid
            # coincident in float32 and the exact-paste clause does not speak about them)
            pos_px = corners + c                                  # voxel-coincident poses
            sim = TomogramSimulator(order=order, scale=scale)
            sim.add_molecules(Molecules(pos_px * scale), tmpl)
            try:
                tomo = np.asarray(sim.simulate(N))
            except Exception as e:  # noqa: BLE001
                V("no-error", f"simulate raised {type(e).__name__}: {str(e)[:120]}")
                return viols
            want = np.zeros(N, dtype=np.float64)
            for k in corners:
                sl_dst, sl_src = [], []
                for d in range(3):
                    a, b = max(k[d], 0), min(k[d] + shape[d], N[d])
                    sl_dst.append(slice(a, max(a, b)))
                    sl_src.append(slice(a - k[d], max(a, b) - k[d]))
                want[tuple(sl_dst)] += tmpl[tuple(sl_src)]
            if not np.allclose(tomo, want, atol=1e-3):
                d = np.abs(tomo - want)
                V("exact-paste", f"grid-coincident paste differs from the template by {d.max():.4g} "
                                 f"({'even' if any(s % 2 == 0 for s in shape) else 'odd'} template {shape}, order {order})")
                return viols
            # loading at an interior simulated molecule returns the template exactly
            for i, k in enumerate(corners):
                if np.all(k >= 2) and np.all(k + np.array(shape) <= np.array(N) - 2) and nm == 1:
                    ld = SubtomogramLoader(tomo, Molecules(pos_px[[i]] * scale), order=order, scale=scale, output_shape=shape)
                    got = np.asarray(ld.load(0))
                    if order >= 1 and not np.allclose(got, tmpl, atol=1e-3 * float(tmpl.max())):
                        V("loader-roundtrip", f"loading at the simulated molecule differs from the template by {np.abs(got - tmpl).max():.4g}")
            # 2-D simulation = z-projection
            try:
                p2 = np.asarray(sim.simulate_2d(N[1:]))
            except Exception as e:  # noqa: BLE001
                V("no-error", f"simulate_2d raised {type(e).__name__}: {str(e)[:120]}")
                return viols
            zmax = int(np.ceil(pos_px[:, 0].max() + sum(shape))) + 2
            # (also for molecules that straddle z = 0: what lies below the volume is clipped in 3-D and so in 2-D)
            if True:
                big = np.asarray(sim.simulate((zmax,) + tuple(N[1:])))
                if not np.allclose(p2, big.sum(axis=0), atol=1e-3 * (1 + np.abs(big).max())):
                    V("projection", f"simulate_2d differs from the z-projection of the 3-D simulation by "
                                    f"{np.abs(p2 - big.sum(axis=0)).max():.4g} ({nm} molecules)")
        elif kind == "overwrite":
            # a simulator that was already used: replacing a component (same name) must take effect
            t1 = _smooth(inp["seed"], shape)
            t2 = _smooth(inp["seed"] + 9, shape)
            pos = r.uniform(8, min(N) - 8, size=(3, 3)) * scale
            m1 = Molecules(pos, Rotation.random(3, random_state=inp["seed"]))
            m2 = Molecules(pos[::-1].copy(), Rotation.random(3, random_state=inp["seed"] + 1))
            sim = TomogramSimulator(order=order, scale=scale)
            sim.add_molecules(m1, t1, name="a")
            first = np.asarray(sim.simulate(N))
            p_first = np.asarray(sim.simulate_2d(N[1:]))
            sim.add_molecules(m2, t2, name="a", overwrite=True)
            second = np.asarray(sim.simulate(N))
            p_second = np.asarray(sim.simulate_2d(N[1:]))
            fresh = TomogramSimulator(order=order, scale=scale).add_molecules(m2, t2, name="a")
            want, p_want = np.asarray(fresh.simulate(N)), np.asarray(fresh.simulate_2d(N[1:]))
            if not np.allclose(second, want, atol=1e-5):
                V("history", f"after add_molecules(..., overwrite=True) on a used simulator, simulate() differs from a fresh "
                             f"simulator by {np.abs(second - want).max():.4g}"
                             + (" (it still equals the first simulation)" if np.allclose(second, first, atol=1e-5) else ""))
            if not np.allclose(p_second, p_want, atol=1e-4 * (1 + np.abs(p_want).max())):
                V("history", "after overwriting a component simulate_2d() differs from a fresh simulator")
            again = np.asarray(sim.simulate(N))
            if not np.allclose(again, second, atol=1e-6):
                V("history", "two consecutive simulate() calls on the same simulator differ")
        elif kind == "order":
            t1 = _smooth(inp["seed"], shape)
            t2 = _smooth(inp["seed"] + 1, shape)
            pos = r.uniform(4, min(N) - 4, size=(5, 3)) * scale
            rot = Rotation.random(5, random_state=inp["seed"])
            m = Molecules(pos, rot)
            s1 = TomogramSimulator(order=order, scale=scale)
            s1.add_molecules(m[:3], t1, name="a").add_molecules(m[3:], t2, name="b")
            s2 = TomogramSimulator(order=order, scale=scale)
            s2.add_molecules(m[3:][::-1] if hasattr(m, "__getitem__") else m[3:], t2, name="x")
            s2.add_molecules(m.subset([2, 0]), t1, name="y").add_molecules(m.subset([1]), t1, name="z")
            a, b = np.asarray(s1.simulate(N)), np.asarray(s2.simulate(N))
            if not np.allclose(a, b, atol=1e-4):
                V("order", f"result depends on the order / partition of components and molecules (max diff {np.abs(a - b).max():.4g})")
        elif kind == "offgrid":
            tmpl = _smooth(inp["seed"], shape)
            pos_px = r.uniform(8, min(N) - 8, size=(1, 3))
            rot = Rotation.random(1, random_state=inp["seed"]) if inp["rotate"] else Rotation.identity(1)
            m = Molecules(pos_px * scale, rot)
            sim = TomogramSimulator(order=3, scale=scale)
            sim.add_molecules(m, tmpl)
            tomo = np.asarray(sim.simulate(N))
            ld = SubtomogramLoader(tomo, m, order=3, scale=scale, output_shape=shape)
            got = np.asarray(ld.load(0))
            cc = np.corrcoef(got.reshape(-1), tmpl.reshape(-1))[0, 1]
            # centre of mass of the pasted density vs expected
            idx = np.indices(N).reshape(3, -1)
            com = (idx * tomo.reshape(1, -1)).sum(axis=1) / tomo.sum()
            tc = (np.indices(shape).reshape(3, -1) * tmpl.reshape(1, -1)).sum(axis=1) / tmpl.sum() - (np.array(shape) - 1) / 2
            want = pos_px[0] + rot.apply(tc)[0]
            if not (np.abs(com - want).max() <= 0.08):
                V("pose", f"pasted density is displaced by {np.abs(com - want).max():.3f} px from the requested pose "
                          f"({'even' if any(s % 2 == 0 for s in shape) else 'odd'} template {shape})")
            if cc < 0.97:
                V("loader-roundtrip", f"loading at the simulated molecule correlates only {cc:.3f} with the template")
        elif kind == "deep2d":
            # molecules deep along z (many template heights): the projected volume must still contain them
            tmpl = r.integers(1, 9, size=shape).astype(np.float32)
            c = (np.array(shape) - 1) / 2
            nm = inp["nmol"]
            corners = np.array([[int(inp["depth"]) - 7 * j, int(r.integers(0, N[1] - shape[1] + 1)),
                                 int(r.integers(0, N[2] - shape[2] + 1))] for j in range(nm)])
            pos_px = corners + c
            sim = TomogramSimulator(order=order, scale=scale)
            sim.add_molecules(Molecules(pos_px * scale), tmpl)
            try:
                p2 = np.asarray(sim.simulate_2d(N[1:]))
            except Exception as e:  # noqa: BLE001
                V("no-error", f"simulate_2d raised {type(e).__name__}: {str(e)[:120]}")
                return viols
            want = np.zeros(N[1:], dtype=np.float64)
            for k in corners:
                want[k[1]:k[1] + shape[1], k[2]:k[2] + shape[2]] += tmpl.sum(axis=0)
            if not np.allclose(p2, want, atol=1e-3 * (1 + np.abs(want).max())):
                V("projection", f"simulate_2d of molecules at depth {int(inp['depth'])} px (scale {scale}) differs from the "
                                f"projected templates by {np.abs(p2 - want).max():.4g}")
        elif kind == "derived":
            # simulators derived through replace() / copy() / subset() behave as directly constructed ones
            tmpl = _smooth(inp["seed"], shape)
            pos = r.uniform(7, min(N) - 7, size=(3, 3))
            rot = Rotation.random(3, random_state=inp["seed"])
            o0, o1 = int(inp["order"]), int(inp["order_to"])
            s1 = float(inp["scale_to"])
            base = TomogramSimulator(order=o0, scale=scale)
            base.add_molecules(Molecules(pos * s1, rot)[:2], tmpl, name="a").add_molecules(Molecules(pos * s1, rot)[2:], tmpl, name="b")
            direct = TomogramSimulator(order=o1, scale=s1)
            direct.add_molecules(Molecules(pos * s1, rot)[:2], tmpl, name="a").add_molecules(Molecules(pos * s1, rot)[2:], tmpl, name="b")
            want = np.asarray(direct.simulate(N))
            want2 = np.asarray(direct.simulate_2d(N[1:]))
            for label, der in (("replace", base.replace(order=o1, scale=s1)), ("replace().copy()", base.replace(order=o1, scale=s1).copy()),
                               ("replace().subset()", base.replace(order=o1, scale=s1).subset(["a", "b"]))):
                if der.order != o1 or abs(der.scale - s1) > 1e-12:
                    V("derived", f"{label}(order={o1}, scale={s1}) reports order {der.order}, scale {der.scale}")
                got = np.asarray(der.simulate(N))
                if not np.allclose(got, want, atol=1e-4 * (1 + np.abs(want).max())):
                    V("derived", f"a simulator obtained by {label}(order={o1}, scale={s1}) from (order={o0}, scale={scale}) differs from a "
                                 f"directly constructed one by {np.abs(got - want).max():.4g}")
                    break
                got2 = np.asarray(der.simulate_2d(N[1:]))
                if not np.allclose(got2, want2, atol=1e-4 * (1 + np.abs(want2).max())):
                    V("derived", f"simulate_2d of a simulator obtained by {label} differs from a directly constructed one")
                    break
        elif kind == "window":
            # the tomogram is a window of the infinite density: simulating a larger volume with all molecules moved
            # by the same whole number of voxels and cropping gives the same voxels (molecules straddling any face,
            # any orientation)
            tmpl = _smooth(inp["seed"], shape)
            nm_ = int(inp["nmol"])
            lo = np.array([-2.0, -2.0, -2.0])
            hi = np.array(N, dtype=float) + 1.0
            pos_px = r.uniform(lo, hi, size=(nm_, 3))
            pos_px[0] = [r.uniform(-1.5, 1.5), N[1] / 2, r.uniform(-1.5, 1.5)]          # low-face corner straddler
            rot = Rotation.random(nm_, random_state=inp["seed"]) if inp["rotate"] else Rotation.identity(nm_)
            pad = int(max(shape)) + 2
            small = TomogramSimulator(order=order, scale=scale)
            small.add_molecules(Molecules(pos_px * scale, rot), tmpl)
            bigs = TomogramSimulator(order=order, scale=scale)
            bigs.add_molecules(Molecules((pos_px + pad) * scale, rot), tmpl)
            got = np.asarray(small.simulate(N))
            ref = np.asarray(bigs.simulate(tuple(n_ + 2 * pad for n_ in N)))[pad:pad + N[0], pad:pad + N[1], pad:pad + N[2]]
            # (the two simulations evaluate the same poses from float32 matrices with different translations: 1e-3)
            if not np.allclose(got, ref, atol=2e-3 * (1 + np.abs(ref).max())):
                d = np.abs(got - ref)
                V("window", f"the volume is not the corresponding window of a larger simulation: max difference {d.max():.4g} at "
                            f"{np.unravel_index(int(d.argmax()), d.shape)} (order {order}, rotated {bool(inp['rotate'])})")
        elif kind == "outside":
            tmpl = r.integers(1, 5, size=shape).astype(np.float32)
            pos_px = np.array([[-30.0, 5, 5], [N[0] + 25.0, 5, 5], [5, -3.0, N[2] + 2.0], [N[0] / 2, N[1] / 2, N[2] / 2]])
            sim = TomogramSimulator(order=order, scale=scale)
            sim.add_molecules(Molecules(pos_px * scale), tmpl)
            try:
                tomo = np.asarray(sim.simulate(N))
                if not np.all(np.isfinite(tomo)):
                    V("finite", "non-finite voxels")
            except Exception as e:  # noqa: BLE001
                V("no-error", f"molecules outside the volume raise {type(e).__name__}: {str(e)[:100]}")
    return viols


def oracle(rng, thorough, deep=False, hints=None):
    big = thorough or deep
    cases = []
    tshapes = [(5, 5, 5), (6, 6, 6), (4, 5, 6), (7, 6, 5), (3, 3, 4)]
    for it in range(30 if big else 10):
        cases.append(dict(kind="exact", tshape=list(tshapes[it % len(tshapes)]), scale=float(rng.choice([1.0, 0.5, 1.625, 0.25, 2.0])),
                          order=int(rng.choice([0, 1, 3])), volume=[int(x) for x in rng.integers(14, 22, size=3)],
                          nmol=[1, 3, 1, 4][it % 4], seed=int(rng.integers(0, 10 ** 6))))
    # volumes thinner than the template: fragments overhang both opposite faces
    for it in range(6 if big else 3):
        vol = [int(x) for x in rng.integers(14, 22, size=3)]
        vol[it % 3] = int(rng.integers(2, 5))
        cases.append(dict(kind="exact", tshape=list(tshapes[it % len(tshapes)]), scale=float(rng.choice([1.0, 0.5])),
                          order=int(rng.choice([0, 1, 3])), volume=vol, nmol=[1, 2][it % 2], seed=int(rng.integers(0, 10 ** 6))))
    for it in range(8 if big else 4):
        cases.append(dict(kind="deep2d", tshape=list(tshapes[it % len(tshapes)]), scale=[0.5, 0.25, 2.0, 1.0, 0.125][it % 5],
                          order=int(rng.choice([0, 1, 3])), volume=[4] + [int(x) for x in rng.integers(8, 14, size=2)],
                          depth=int(rng.integers(40, 160)), nmol=[1, 3][it % 2], seed=int(rng.integers(0, 10 ** 6))))
    for it in range(3 if big else 1):
        cases.append(dict(kind="overwrite", tshape=[9, 10, 9], scale=float([1.0, 0.5][it % 2]), order=[1, 3, 0][it % 3],
                          volume=[26, 24, 25], seed=int(rng.integers(0, 10 ** 6))))
    for it in range(6 if big else 2):
        cases.append(dict(kind="order", tshape=[9, 10, 11], scale=1.0, order=1, volume=[24, 24, 24], seed=int(rng.integers(0, 10 ** 6))))
    for it in range(10 if big else 4):
        cases.append(dict(kind="offgrid", tshape=[[13, 13, 13], [14, 14, 14], [12, 13, 14]][it % 3], scale=float(rng.choice([1.0, 0.5])),
                          order=3, volume=[30, 30, 30], rotate=bool(it % 2), seed=int(rng.integers(0, 10 ** 6))))
    for it in range(6 if big else 3):
        o0, o1 = [(3, 1), (1, 3), (0, 3), (3, 0), (1, 1), (3, 3)][it % 6]
        cases.append(dict(kind="derived", tshape=[9, 10, 9], scale=float([1.0, 0.5][it % 2]), order=o0, order_to=o1,
                          scale_to=float([0.5, 1.0, 1.0][it % 3]), volume=[24, 25, 26], seed=int(rng.integers(0, 10 ** 6))))
    for it in range(8 if big else 4):
        cases.append(dict(kind="window", tshape=[[7, 7, 7], [6, 8, 7], [8, 8, 8]][it % 3], scale=float([1.0, 0.5][it % 2]),
                          order=[1, 3, 0][it % 3], volume=[int(x) for x in rng.integers(12, 18, size=3)], nmol=4, rotate=bool(it % 4 != 3),
                          seed=int(rng.integers(0, 10 ** 6))))
    cases.append(dict(kind="outside", tshape=[5, 6, 5], scale=1.0, order=1, volume=[16, 16, 16], seed=3))
    viols, stats = [], {"by_kind": {}, "samples": [{"oracle_case": c} for c in cases[:2]]}
    for c in cases:
        stats["by_kind"][c["kind"]] = stats["by_kind"].get(c["kind"], 0) + 1
        viols += run_case(c)
    return len(cases), viols, stats


def replay(payload):
    v = run_case(dict(payload["input"]))
    return {"violated": bool(v), "violations": v}
