"""C06 — Rotation/template search returns the best candidate, correctly labelled."""
from __future__ import annotations

from fractions import Fraction

import numpy as np

import common as C

PROP = "C06"
LEAN_MODULES = ["AcryoVerif.Props.C06"]
LEAN_SUPPORT = ["AcryoVerif.Lemmas.PyLemmas", "AcryoVerif.Model.Search"]
KERNELS = ["decodeRotation", "reduceLabel", "loaderRemainder", "groupRemainder",
           "candidateRotationMajor", "rotRange"]
TRUSTED = [
    "Lean 4.33 kernel; axioms propext / Classical.choice / Quot.sound only",
    "translator/py2lean.py + Py.lean (//, %, int()), self-checked against CPython each run",
    "np.argmax returns the first maximum (modelled as Model.argmaxFirst; sampled by K2)",
    "scipy Rotation / affine_transform produce the rotated candidate templates (not verified)",
]
ASSUMPTIONS = [
    "the per-candidate optimiser (_optimize) is a parameter: the theorems are about which "
    "candidate is selected and how its index is decoded, not about the scores themselves",
]
EXPLANATION = (
    "Theorems: np.argmax model returns a global maximiser; for all T,K>=1, j<T, k<K the flat "
    "candidate index (loop order read from the source) decodes to rotation k "
    "(RotationImplemented.align) and label j (loader and loader-group paths); labels < 256 "
    "survive the uint8 cast; (max, step) ranges give 2n+1 angles containing 0. K2: a stub "
    "alignment model with prescribed candidate scores driven through Model.align, "
    "loader.align_multi_templates and LoaderGroup.align_multi_templates. Oracle: real ZNCC/NCC/PCC "
    "models on sub-volumes made from template j rotated by q_k.")
SAMPLE_OBLIGATIONS = [
    {"theorem": "C06.decode_rotation",
     "statement": "decodeRotation (candIdx T K j k) K T = k for all T,K>=1, 0<=j<T, 0<=k<K"},
    {"theorem": "C06.decode_label_loader", "statement": "stored label = j through the loader"},
]


def k1_grids(rng, thorough):
    g = {}
    R = range(1, 7 if thorough else 5)
    g["decodeRotation"] = [[i, K, T] for K in R for T in R for i in range(K * T)]
    g["reduceLabel"] = [[lab, r] for lab in list(range(0, 13)) + [255, 256, 257, 300, 374, 511, 1000]
                        for r in (-1, 0, 1, 2, 3, 5)]
    g["loaderRemainder"] = [[b, K, T, 0] for b in (True, False) for K in R for T in R]
    g["groupRemainder"] = [[b, T] for b in (True, False) for T in R]
    g["rotRange"] = [[Fraction(a, 4), Fraction(b, 4)] for a in range(0, 40, 3) for b in (1, 2, 4, 6, 10)]
    return g


# ------------------------------------------------------------------------------------------
def _stub_class(scores):
    from acryo.alignment._base import RotationImplemented

    class Stub(RotationImplemented):
        _scores = list(scores)

        def pre_transform(self, image, backend):
            return image

        def align(self, *a, **kw):
            self._ctr = 0
            return super().align(*a, **kw)

        def _optimize(self, subvolume, template, max_shifts, quaternion, pos, backend):
            i = self._ctr
            self._ctr += 1
            return (np.zeros(3, dtype=np.float32), np.array([0, 0, 0, 1], dtype=np.float32),
                    float(self._scores[i]))

        def _score(self, *a, **kw):
            return 0.0

    return Stub


def _rotations(K):
    from scipy.spatial.transform import Rotation
    angs = [0, 90, 180, 270, 45, 135][:K] if K <= 6 else [360.0 * i / K for i in range(K)]
    return [Rotation.from_euler("z", a, degrees=True) for a in angs]


def _rot_index(model, quat):
    d = np.abs(np.asarray(model.quaternions, dtype=np.float64) - np.asarray(quat, dtype=np.float64)).sum(axis=1)
    hits = np.flatnonzero(d < 1e-6)
    return int(hits[0]) if len(hits) == 1 else -1


def correspondence(rng, thorough):
    import dask
    import polars as pl
    from acryo import SubtomogramLoader, Molecules
    lines, impl = [], []
    stats = {"model": 0, "loader": 0, "group": 0, "ties": 0, "T1": 0, "K1": 0, "flat_ge_256": 0}
    maxn = 5 if thorough else 4
    tomo = np.zeros((12, 12, 12), dtype=np.float32)
    with dask.config.set(scheduler="synchronous"):
        grid = [(T, K, None) for T in range(1, maxn + 1) for K in range(1, maxn + 1)]
        # more than 256 candidates: flat indices beyond the uint8 range of the label column
        grid += [(3, 90, [256, 257, 258, 269]), (5, 53, [259, 263])] + ([(7, 40, [256, 279])] if thorough else [])
        for T, K, reps in grid:
            if True:
                if T * K == 1:
                    continue
                templates = [np.full((4, 4, 4), t + 1, dtype=np.float32) for t in range(T)]
                for rep in (range(T * K + 1) if reps is None else reps):
                    sc = [int(x) for x in rng.integers(0, 6, size=T * K)]
                    if rep < T * K:
                        sc[rep] = 9          # unique maximum at candidate `rep`
                    else:
                        stats["ties"] += 1   # ties allowed: first maximum wins
                    stats["flat_ge_256"] += rep >= 256
                    Stub = _stub_class(sc)
                    rots = _rotations(K) if K > 1 else None
                    stats["T1"] += T == 1
                    stats["K1"] += K == 1
                    # --- model level
                    m = Stub(templates if T > 1 else templates[0], rotations=rots)
                    r = m.align(np.zeros((4, 4, 4), dtype=np.float32), (1, 1, 1))
                    mole = Molecules(np.array([[6.0, 6.0, 6.0]]), features={"g": [0]})
                    ld = SubtomogramLoader(tomo, mole, order=0, output_shape=(4, 4, 4))
                    kw = dict(rotations=rots) if rots is not None else {}
                    out = ld.align_multi_templates(templates, alignment_model=Stub, **kw)
                    lab = int(out.molecules.features["labels"][0])
                    lines.append(f"m:searchLoader {T} {K} " + " ".join(map(str, sc)))
                    impl.append(C.canon((int(r.label), _rot_index(m, r.quat), lab)))
                    stats["model"] += 1
                    stats["loader"] += 1
                    # --- group level (list form and mapping form)
                    for form in ("list", "map"):
                        tm = templates if form == "list" else {0: templates}
                        outg = ld.groupby("g").align_multi_templates(tm, alignment_model=Stub, **kw)
                        labg = int(list(outg)[0][1].molecules.features["labels"][0])
                        lines.append(f"m:searchGroup {T} {K} " + " ".join(map(str, sc)))
                        impl.append(C.canon((int(r.label), _rot_index(m, r.quat), labg)))
                        stats["group"] += 1
    return lines, impl, stats


# ------------------------------------------------------------------------------------------
def _template(seed, n):
    from scipy import ndimage as ndi
    r = np.random.default_rng(seed)
    a = np.zeros((n, n, n), dtype=np.float32)
    c = (n - 1) / 2
    for _ in range(4):
        p = np.clip(np.round(c + r.uniform(-0.28, 0.28, 3) * n), 2, n - 3).astype(int)
        a[tuple(p)] += r.uniform(0.5, 1.5)
    return ndi.gaussian_filter(a, 0.9).astype(np.float32)


def run_case(inp):
    import dask
    from scipy import ndimage as ndi
    from scipy.spatial.transform import Rotation
    from acryo import SubtomogramLoader, Molecules
    from acryo.alignment import ZNCCAlignment, NCCAlignment, PCCAlignment
    from acryo._utils import compose_matrices
    T, K, j, k = inp["T"], inp["K"], inp["j"], inp["k"]
    n = inp["n"]
    d = np.array(inp["shift"], dtype=float)
    model_cls = {"ZNCC": ZNCCAlignment, "NCC": NCCAlignment, "PCC": PCCAlignment}[inp["model"]]
    temps = [_template(100 + t, n) for t in range(T)]
    rots = [Rotation.from_euler(ax, a, degrees=True)
            for ax, a in [("z", 0), ("z", 90), ("y", 90), ("z", -90), ("x", 90)][:K]]
    if inp.get("single_rot"):
        # a rotation set of size one whose only member is not the identity
        rots = [Rotation.from_euler(*inp["single_rot"], degrees=True)]
    qk = rots[k]
    c = (n - 1) / 2
    # sub-volume = template j rotated by q_k, then displaced by d:  S[o] = T_k[o - d]
    mtx = compose_matrices(np.array([c, c, c]), [qk.inv()])[0].astype(np.float64)
    tk = ndi.affine_transform(temps[j], mtx, order=1, mode="constant", cval=0.0)
    sub = ndi.shift(tk, d, order=1, mode="constant", cval=0.0).astype(np.float32)
    viols = []

    def V(clause, desc):
        viols.append({"clause": clause, "desc": desc, "input": dict(inp)})

    kw = dict(rotations=rots) if (K > 1 or inp.get("single_rot")) else {}
    tin = temps if T > 1 else temps[0]
    via = inp["via"]
    ms = (2.0, 2.0, 2.0)
    mask = None
    if inp.get("mask") == "slab":
        # not invariant under the searched rotations: every candidate needs the mask of ITS rotation
        mask = np.zeros((n, n, n), dtype=np.float32)
        mask[:, max(0, int(c) - 2):int(c) + 3, 1:n - 1] = 1.0
        mask = ndi.gaussian_filter(mask, 0.6).astype(np.float32)
    with dask.config.set(scheduler="synchronous"):
        if via == "model":
            m = model_cls(tin, mask, **kw)
            r = m.align(sub, ms)
            qi = _rot_index(m, r.quat)
            if qi != k:
                V("rotation", f"reported rotation index {qi}, expected {k} (T={T},K={K},j={j})")
            if K == 1 and int(r.label) != j:
                V("label", f"model label {int(r.label)} != {j}")
            # (a mask that cuts through the displaced particle biases the shift: C04's subject, not C06's)
            if mask is None and np.abs(np.asarray(r.shift) - d).max() > 0.3:
                V("shift", f"shift {np.asarray(r.shift).tolist()} != {d.tolist()}")
            return viols
        # loader / group paths: embed the sub-volume in a tomogram, molecule at the box centre
        N = n + 8
        tomo = np.zeros((N, N, N), dtype=np.float32)
        tomo[4:4 + n, 4:4 + n, 4:4 + n] = sub
        mole = Molecules(np.array([[4 + c] * 3]), features={"g": [0]})
        ld = SubtomogramLoader(tomo, mole, order=1, output_shape=(n, n, n))
        if via == "loader":
            out = ld.align_multi_templates(temps, mask=mask, alignment_model=model_cls, max_shifts=2.0, **kw)
        elif via == "align_stack":
            if T == 1:
                out = ld.align(temps[0], mask=mask, alignment_model=model_cls, max_shifts=2.0, **kw)
            else:
                out = ld.align(np.stack(temps, axis=0), mask=mask, alignment_model=model_cls, max_shifts=2.0, **kw)
        else:
            tm = temps if via == "group_list" else {0: temps}
            out = list(ld.groupby("g").align_multi_templates(tm, mask=mask, alignment_model=model_cls,
                                                             max_shifts=2.0, **kw))[0][1]
        f = out.molecules.features
        if "labels" in f.columns:
            lab = int(f["labels"][0])
            if lab != j:
                V("label", f"stored label {lab}, expected template {j} (T={T},K={K},k={k},via={via})")
        rv = np.array([f["align-dzrot"][0], f["align-dyrot"][0], f["align-dxrot"][0]], dtype=float)
        want = qk.as_rotvec()
        if np.abs(rv - want).max() > 1e-3 and np.abs(np.linalg.norm(rv) - np.linalg.norm(want)) > 1e-3:
            V("rotation", f"stored rotation vector {rv.tolist()} != searched rotation {want.tolist()}")
        elif np.abs(rv - want).max() > 1e-3 and not np.isclose(np.linalg.norm(want), np.pi, atol=1e-3):
            V("rotation", f"stored rotation vector {rv.tolist()} != searched rotation {want.tolist()}")
    return viols


def run_range_case(inp):
    """(max, step) ranges: the searched set is the documented one — per axis the multiples of `step` within
    [-max, max] (2n+1 angles, n = floor(max/step), zero included), combined over acryo's z, y, x axes — and a
    sub-volume rotated by a member of that set is reported with that member."""
    import dask
    from scipy import ndimage as ndi
    from scipy.spatial.transform import Rotation
    from acryo.alignment import ZNCCAlignment
    from acryo._utils import compose_matrices
    viols = []

    def V(clause, desc):
        viols.append({"clause": clause, "desc": desc, "input": dict(inp)})

    spec = tuple((float(a), float(b)) for a, b in inp["ranges"])
    grids = []
    for mx, st in spec:
        nn = int(np.floor(mx / st + 1e-9)) if st > 0 else 0
        grids.append([st * i for i in range(-nn, nn + 1)])
    import itertools
    # acryo's (z, y, x) Euler angles act on scipy's (x, y, z) axes
    want = [Rotation.from_euler("zyx", [ax, ay, az], degrees=True) for az, ay, ax in itertools.product(*grids)]
    n = inp["n"]
    tmpl = _template(100 + inp["seed"] % 7, n)
    if inp.get("sharp"):
        # sharp-edged blocks: finely spaced candidates are only told apart by the high frequencies
        rr = np.random.default_rng(inp["seed"])
        tmpl = np.zeros((n, n, n), dtype=np.float32)
        for _ in range(3):
            lo = rr.integers(2, n - 6, size=3)
            hi = lo + rr.integers(2, 5, size=3)
            tmpl[lo[0]:hi[0], lo[1]:hi[1], lo[2]:hi[2]] += float(rr.uniform(0.5, 1.5))
    m = ZNCCAlignment(tmpl, rotations=spec)
    got = Rotation.from_quat(np.asarray(m.quaternions, dtype=np.float64))
    if len(got) != len(want):
        V("range-set", f"(max, step) ranges {spec} search {len(got)} rotations, the documented grid has {len(want)}")
        return viols
    ang = np.array([min((g * w.inv()).magnitude() for g in got) for w in want])
    if ang.max() > 1e-4:
        k = int(np.argmax(ang))
        V("range-set", f"(max, step) ranges {spec}: documented rotation {np.round(want[k].as_euler('zyx', degrees=True)[::-1], 3).tolist()} "
                       f"(z, y, x degrees) is not searched (nearest searched one is {np.degrees(ang[k]):.2f} degrees away)")
        return viols
    k = int(inp["k"]) % len(want)
    if inp.get("plant_identity"):
        k = int(np.argmin([w.magnitude() for w in want]))
    c = (n - 1) / 2
    mtx = compose_matrices(np.array([c, c, c]), [want[k].inv()])[0].astype(np.float64)
    sub = ndi.affine_transform(tmpl, mtx, order=1, mode="constant", cval=0.0).astype(np.float32)
    with dask.config.set(scheduler="synchronous"):
        r = m.align(sub, (1.0, 1.0, 1.0))
    err = (Rotation.from_quat(np.asarray(r.quat, dtype=np.float64)) * want[k].inv()).magnitude()
    if err > 1e-3:
        V("rotation", f"(max, step) ranges {spec}: planted documented rotation #{k} reported {np.degrees(err):.2f} degrees off")
    return viols


def run_stub_case(inp):
    """Prescribed candidate scores (unique maximum at flat index `best`) through the loader paths:
    the stored label must be the template of the best candidate and the stored rotation its rotation,
    also for candidate sets larger than 256."""
    import dask
    from acryo import SubtomogramLoader, Molecules
    T, K, best, via = inp["T"], inp["K"], inp["best"], inp["via"]
    sc = [0] * (T * K)
    sc[best] = 9
    Stub = _stub_class(sc)
    rots = _rotations(K) if K > 1 else None
    templates = [np.full((4, 4, 4), t + 1, dtype=np.float32) for t in range(T)]
    tomo = np.zeros((12, 12, 12), dtype=np.float32)
    mole = Molecules(np.array([[6.0, 6.0, 6.0]]), features={"g": [0]})
    kw = dict(rotations=rots) if rots is not None else {}
    viols = []
    with dask.config.set(scheduler="synchronous"):
        ld = SubtomogramLoader(tomo, mole, order=0, output_shape=(4, 4, 4))
        try:
            if via == "loader":
                out = ld.align_multi_templates(templates, alignment_model=Stub, **kw)
            elif via == "align_stack":
                out = ld.align(np.stack(templates, axis=0), alignment_model=Stub, **kw)
            elif via == "group_list":
                out = list(ld.groupby("g").align_multi_templates(templates, alignment_model=Stub, **kw))[0][1]
            else:
                out = list(ld.groupby("g").align_multi_templates({0: templates}, alignment_model=Stub, **kw))[0][1]
        except Exception as e:  # noqa: BLE001
            return [{"clause": "no-error", "desc": f"{via} raised {type(e).__name__}: {str(e)[:100]}", "input": dict(inp)}]
    f = out.molecules.features
    j, k = best % T, best // T
    lab = int(f["labels"][0])
    if lab != j:
        viols.append({"clause": "label", "input": dict(inp),
                      "desc": f"stored label {lab}, expected template {j} of best candidate {best} (T={T}, K={K}, via={via})"})
    if rots is not None:
        rv = np.array([f["align-dzrot"][0], f["align-dyrot"][0], f["align-dxrot"][0]], dtype=float)
        m = Stub(templates, rotations=rots)
        want = __import__("scipy.spatial.transform", fromlist=["Rotation"]).Rotation.from_quat(
            np.asarray(m.quaternions[k], dtype=np.float64)).as_rotvec()
        if np.abs(rv - want).max() > 1e-3 and not np.isclose(np.linalg.norm(want), np.pi, atol=1e-3):
            viols.append({"clause": "rotation", "input": dict(inp),
                          "desc": f"stored rotation vector {rv.tolist()} != rotation {k} of best candidate {best}"})
    return viols


def oracle(rng, thorough, deep=False, hints=None):
    cases = []
    big = [(3, 90), (5, 53), (7, 40), (6, 50)]
    for i in range(8 if (thorough or deep) else 3):
        T, K = big[i % len(big)]
        cases.append(dict(kind="stub", T=T, K=K, best=int(rng.integers(256, T * K)),
                          via=["loader", "align_stack", "group_list", "group_map"][int(rng.integers(0, 4))]))
    Ts = (1, 2, 3)
    Ks = (1, 3, 4) if (thorough or deep) else (1, 3)
    for T in Ts:
        for K in Ks:
            if T * K == 1:
                continue
            pairs = [(j, k) for j in range(T) for k in range(K)]
            if not (thorough or deep):
                idx = rng.permutation(len(pairs))[:3]
                pairs = [pairs[i] for i in idx]
            for (j, k) in pairs:
                vias = ["model", "loader", "group_list", "group_map", "align_stack"]
                if not (thorough or deep):
                    vias = [vias[int(rng.integers(0, 5))], "loader"]
                for via in dict.fromkeys(vias):
                    mdl = ["ZNCC", "NCC"][int(rng.integers(0, 2))] if via == "model" else "ZNCC"
                    sh = [int(x) for x in rng.integers(-1, 2, size=3)]
                    cases.append(dict(T=T, K=K, j=j, k=k, n=int(rng.choice([10, 11])), shift=sh,
                                      model=mdl, via=via, mask="slab" if (len(cases) % 2 == 0 and T > 1 and K > 1) else None))
    for i, (T, via) in enumerate([(1, "model"), (2, "loader"), (1, "align_stack"), (3, "model"), (2, "group_list")][: 5 if (thorough or deep) else 3]):
        cases.append(dict(T=T, K=1, j=int(rng.integers(0, T)), k=0, n=int(rng.choice([10, 11])), shift=[int(x) for x in rng.integers(-1, 2, size=3)],
                          model="ZNCC", via=via, mask=None, single_rot=[["z", 90], ["y", 90], ["x", -90]][i % 3]))
    # displacements with components exactly at the end of the search range (max_shifts = 2 px), several candidates
    for i, (T, K, via) in enumerate([(2, 3, "model"), (3, 4, "loader"), (1, 3, "align_stack"), (2, 1, "model"), (3, 3, "group_list")][: 5 if (thorough or deep) else 3]):
        sh = [[2, -1, 0], [0, 2, -2], [-2, 2, 1], [2, 2, 2], [-2, 0, 2]][i]
        cases.append(dict(T=T, K=K, j=int(rng.integers(0, T)), k=int(rng.integers(0, K)), n=int(rng.choice([12, 13])), shift=sh,
                          model="ZNCC", via=via, mask=None))
    # (max, step) range forms, also with max not a multiple of step and with one or two axes switched off
    rsets = [[(20, 15), (0, 0), (0, 0)], [(0, 0), (25, 10), (0, 0)], [(10, 5), (4, 2), (8, 4)], [(0, 0), (0, 0), (35, 20)],
             [(15, 15), (20, 15), (0, 0)], [(30, 12.5), (0, 0), (7.5, 7.5)]]
    for i, rs in enumerate(rsets if (thorough or deep) else rsets[:3]):
        cases.append(dict(kind="range", via="range", ranges=[list(x) for x in rs], n=int(rng.choice([10, 11])),
                          k=int(rng.integers(0, 1000)), seed=int(rng.integers(0, 10 ** 6))))
    # finely spaced candidates around the identity, sharp template, un-rotated and slightly rotated sub-volumes
    for i in range(4 if (thorough or deep) else 2):
        cases.append(dict(kind="range", via="range", ranges=[[[6, 3], [0, 0], [0, 0]], [[0, 0], [4, 2], [0, 0]], [[0, 0], [0, 0], [5, 2.5]],
                                                             [[3, 3], [3, 3], [0, 0]]][i % 4],
                          n=int([14, 15][i % 2]), k=int(rng.integers(0, 1000)), seed=int(rng.integers(0, 10 ** 6)), sharp=True,
                          plant_identity=bool(i % 2 == 0)))
    viols = []
    stats = {"by_via": {}, "samples": [{"oracle_case": c} for c in cases[:2]]}
    for inp in cases:
        stats["by_via"][inp["via"]] = stats["by_via"].get(inp["via"], 0) + 1
        viols += {"stub": run_stub_case, "range": run_range_case}.get(inp.get("kind"), run_case)(inp)
    return len(cases), viols, stats


def replay(payload):
    inp = dict(payload["input"])
    v = {"stub": run_stub_case, "range": run_range_case}.get(inp.get("kind"), run_case)(inp)
    return {"violated": bool(v), "violations": v}
