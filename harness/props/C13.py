"""C13 — Saved molecules reload unchanged."""
from __future__ import annotations

import os
import tempfile

import numpy as np

import common as C

PROP = "C13"
LEAN_MODULES = ["AcryoVerif.Props.C13"]
LEAN_SUPPORT = ["AcryoVerif.Model.Frame"]
KERNELS = ["writersPassThrough", "columnLayout", "fromDataFrameSelectsByName", "dupColumnsRejected", "toFileIsParquet",
           "fromFileIsParquet"]
TRUSTED = [
    "Lean 4.33 kernel; axioms propext / Classical.choice / Quot.sound only",
    "layout of to_dataframe / from_dataframe read from the AST (specs.py patterns); suffix dispatch "
    "translated by py2lean",
    "polars CSV / Parquet writers and readers, float formatting, scipy Rotation.as_rotvec / "
    "from_rotvec (float32 rotation vectors) - modelled as column containers, tested by the oracle",
]
ASSUMPTIONS = ["orientation agreement is checked to 1e-6 rad (float32 rotation vectors) for Parquet and data "
               "frames and to the CSV precision for CSV",
               "suffix strings do not pass through the numeric line protocol: the dispatch kernels are "
               "proved about all strings and sampled by the oracle with real files"]
EXPLANATION = (
    "Theorems: to_file / from_file choose the same format for every suffix (Parquet iff .pq/.parquet); "
    "written columns are z,y,x,zvec,yvec,xvec followed by the features; colliding feature names are "
    "rejected; from_dataframe(to_dataframe(t)) returns the same coordinate and feature columns for any "
    "row count. K2: column names written/read by the real class for feature-name lists incl. collisions. "
    "Oracle: real CSV / Parquet / data-frame round trips (angles near 0 and pi, all dtypes, nulls, "
    "precisions, 1..40 rows, operation histories before saving).")
SAMPLE_OBLIGATIONS = [
    {"theorem": "C13.df_roundtrip", "statement": "fromFrame (toFrame coords feats) = (coords, feats) when no name collides"},
    {"theorem": "C13.dispatch", "statement": "toFileIsParquet s = fromFileIsParquet s, true iff s in {.pq,.parquet}"},
]
_CSV = ["z", "y", "x", "zvec", "yvec", "xvec"]


def k1_grids(rng, thorough):
    from translator import specs as S
    idx = [[i] for i in range(len(S.STR_TABLE))]
    return {"toFileIsParquet": idx, "fromFileIsParquet": idx}


def correspondence(rng, thorough):
    from acryo import Molecules
    lines, impl, stats = [], [], {"collisions": 0, "no_features": 0, "cases": 0}
    for it in range(60 if thorough else 24):
        k = int(rng.integers(0, 5))
        codes = []
        while len(codes) < k:
            c = int(rng.integers(0, 6)) if rng.integers(0, 6) == 0 else int(rng.integers(6, 14))
            if c not in codes:
                codes.append(c)
        names = [_CSV[c] if c < 6 else f"f{c}" for c in codes]
        stats["collisions"] += any(c < 6 for c in codes)
        stats["no_features"] += k == 0
        stats["cases"] += 1
        m = Molecules(np.array([[0.0, 1.0, 2.0]]), features={n: [c] for n, c in zip(names, codes)} if names else None)
        try:
            df = m.to_dataframe()
            back = Molecules.from_dataframe(df)
            out = ",".join(df.columns) + " | " + ",".join(back.features.columns)
        except Exception as e:  # noqa: BLE001
            out = C.exc_kind(e)
        lines.append("m:frame " + " ".join(map(str, codes)) if codes else "m:frame")
        impl.append(out)
    return lines, impl, stats


# ------------------------------------------------------------------------------------------
def _table(inp):
    import polars as pl
    from scipy.spatial.transform import Rotation
    from acryo import Molecules
    r = np.random.default_rng(inp["seed"])
    n = inp["n"]
    pos = (r.uniform(-1, 1, size=(n, 3)) * inp["pos_scale"]).astype(np.float32)
    kind = inp["angles"]
    axis = r.normal(size=(n, 3))
    axis /= np.linalg.norm(axis, axis=1, keepdims=True)
    if inp.get("neg_axis"):
        axis = -np.abs(axis)
    if kind == "generic":
        ang = r.uniform(0.2, 2.9, size=n)
    elif kind == "near0":
        ang = r.choice([0.0, 1e-7, 1e-5, 1e-3], size=n)
    else:
        ang = np.pi - r.choice([0.0, 1e-6, 5e-5, 1e-4, 1e-3], size=n)
    rot = Rotation.from_rotvec(axis * ang[:, None])
    feats = {}
    if inp["features"]:
        feats = {"i": pl.Series(r.integers(-5, 5, size=n), dtype=pl.Int64),
                 "f": pl.Series(r.normal(size=n), dtype=pl.Float64),
                 "s": pl.Series([f"a{j}" if j % 3 else None for j in range(n)], dtype=pl.Utf8),
                 # special values: float NaN next to genuine nulls, strings that look like missing-value markers
                 "g": pl.Series([float("nan") if j % 4 == 1 else (None if j % 4 == 3 else 0.5 * j) for j in range(n)],
                                dtype=pl.Float64),
                 "t": pl.Series([["NA", "nan", "null", "NaN", "x y", "N/A"][j % 6] if j % 5 else None for j in range(n)],
                                dtype=pl.Utf8),
                 "b": pl.Series([bool(j % 2) for j in range(n)], dtype=pl.Boolean)}
    m = Molecules(pos, rot, features=pl.DataFrame(feats) if feats else None)
    for step in inp.get("history", []):
        if step == "materialise":
            m.to_dataframe()
        elif step == "rotate_inplace":
            m.rotate_by_rotvec(np.array([0.3, -0.2, 0.1]), copy=False)
        elif step == "translate_inplace":
            m.translate([1.0, 2.0, 3.0], copy=False)
        elif step == "head":
            m.head(max(1, n // 2))
        elif step == "append":
            m.append(Molecules(pos[:1] + 5, rot[:1], features=pl.DataFrame({k: v[:1] for k, v in feats.items()}) if feats else None))
    return m


def _angle_between(r1, r2):
    return (r1 * r2.inv()).magnitude()


def is_parquet_fmt(fmt, seen):
    return bool(seen) if seen is not None else fmt in (".pq", ".parquet")


def run_case(inp):
    from acryo import Molecules
    viols = []

    def V(clause, desc):
        viols.append({"clause": clause, "desc": desc, "input": dict(inp)})

    m = _table(inp)
    n = len(m)
    if inp.get("forder"):
        # positions held as a Fortran-ordered (transposed-in-memory) array: same values, other memory layout
        m = Molecules(np.asfortranarray(m.pos), m.rotator, features=m.features)
    src = m
    for _cycle in range(int(inp.get("cycles", 1)) - 1):
        # earlier save / load cycles: what is saved next is a table that was itself read from a file / frame
        with tempfile.TemporaryDirectory(dir=C.RUN_ROOT if os.path.isdir(C.RUN_ROOT) else None) as d0:
            try:
                if inp["format"] == "df":
                    m = Molecules.from_dataframe(m.to_dataframe())
                else:
                    p0 = os.path.join(d0, "cycle" + inp["format"])
                    if inp.get("precision") is not None and inp["format"].lower() not in (".pq", ".parquet"):
                        m.to_csv(p0, float_precision=inp["precision"])
                    else:
                        m.to_file(p0)
                    m = Molecules.from_file(p0)
            except Exception as e:  # noqa: BLE001
                V("no-error", f"save/load cycle: {type(e).__name__}: {str(e)[:150]}")
                return viols
    with tempfile.TemporaryDirectory(dir=C.RUN_ROOT if os.path.isdir(C.RUN_ROOT) else None) as d:
        fmt = inp["format"]
        try:
            if fmt == "df":
                df = m.to_dataframe()
                back = Molecules.from_dataframe(df)
                cols = df.columns
            else:
                path = os.path.join(d, "mole" + fmt)
                if inp.get("precision") is not None and fmt not in (".pq", ".parquet"):
                    m.to_csv(path, float_precision=inp["precision"])
                else:
                    m.to_file(path)
                with open(path, "rb") as fh:
                    head = fh.read(4)
                is_parquet = head == b"PAR1"
                if fmt == fmt.lower() and is_parquet != (fmt in (".pq", ".parquet")):
                    V("dispatch", f"suffix {fmt!r} written as {'Parquet' if is_parquet else 'CSV'}")
                back = Molecules.from_file(path)
                import polars as pl
                cols = (pl.read_parquet(path) if is_parquet else pl.read_csv(path)).columns
        except Exception as e:  # noqa: BLE001
            V("no-error", f"{type(e).__name__}: {str(e)[:150]}")
            return viols
    m = src            # compare with the table that was first written
    want_cols = _CSV + list(m.features.columns)
    if list(cols) != want_cols:
        V("layout", f"columns {list(cols)} != {want_cols}")
    if len(back) != n:
        V("count", f"{len(back)} molecules read back, {n} written")
        return viols
    csv = not (fmt == "df" or is_parquet_fmt(fmt, locals().get("is_parquet")))
    prec = inp.get("precision") if inp.get("precision") is not None else 4
    # CSV: half a unit of the last requested decimal plus half a float32 ulp of the largest coordinate
    ulp = float(np.spacing(np.float32(np.abs(m.pos).max(initial=1.0))))
    ptol = 0.5 * 10.0 ** (-prec) * 1.001 + 0.51 * ulp if csv else 0.0
    dp = np.abs(back.pos.astype(np.float64) - m.pos.astype(np.float64)).max(initial=0)
    if dp > ptol:
        V("positions", f"positions differ by {dp:.3g} (allowed {ptol:.3g}, format {fmt})")
    ang = _angle_between(back.rotator, m.rotator) if n else np.zeros(0)
    # orientations are stored as float32 rotation vectors in every format (2e-6 rad), CSV rounds them further
    atol = (2.0 * 10.0 ** (-prec) + 2e-6) if csv else 2e-6
    if np.max(ang, initial=0) > atol:
        V("orientations", f"orientations differ by {np.max(ang):.3g} rad (allowed {atol:.3g}, format {fmt}, "
                          f"angles {inp['angles']})")
    fa, fb = m.features, back.features
    if fa.columns != fb.columns:
        V("features", f"feature columns {fb.columns} != {fa.columns}")
    else:
        for c in fa.columns:
            a, b = fa[c].to_list(), fb[c].to_list()
            if fa[c].dtype.is_float():
                # CSV: rounded to the requested number of decimals (float64 features are not limited by the
                # single precision of the coordinates)
                ftol = (0.5 * 10.0 ** (-prec) * 1.001) if csv else 0.0
                ok = all((x is None and y is None) or (x is not None and y is not None
                                                        and ((x != x and y != y) or abs(x - y) <= ftol + 4e-16 * max(1.0, abs(x))))
                         for x, y in zip(a, b))
            else:
                ok = a == b
            if not ok:
                V("features", f"feature column {c!r} changed")
    return viols


def oracle(rng, thorough, deep=False, hints=None):
    big = thorough or deep
    cases = []
    fmts = ["df", ".pq", ".parquet", ".csv", ".txt", ".csv"]
    for it in range(60 if big else 24):
        fmt = fmts[it % len(fmts)]
        cases.append(dict(n=int(rng.choice([1, 2, 5, 17, 40])), seed=int(rng.integers(0, 10 ** 6)), format=fmt,
                          angles=["generic", "near0", "nearpi"][it % 3], neg_axis=bool(it % 4 == 1),
                          pos_scale=float(rng.choice([1.0, 100.0, 3000.0])), features=bool(it % 5 != 4),
                          precision=[None, 2, 5, 7, 9, 12][(it // 2) % 6] if fmt in (".csv", ".txt") else None,
                          history=[[], ["materialise", "rotate_inplace"], ["head", "translate_inplace"],
                                   ["materialise", "append"], ["materialise", "rotate_inplace", "translate_inplace"]][it % 5]))
    # suffixes in other spellings (writer and reader must still agree), repeated save/load cycles, three
    # molecules (a square position array), Fortran-ordered positions
    odd = [".PQ", ".Parquet", ".CSV", ".TXT", ".dat", ""]
    for it in range(12 if big else 6):
        fmt = odd[it % len(odd)]
        cases.append(dict(n=int([3, 1, 4, 3, 25, 3][it % 6]), seed=int(rng.integers(0, 10 ** 6)), format=fmt, angles="generic",
                          neg_axis=False, pos_scale=100.0, features=bool(it % 2), precision=None, history=[], cycles=1 + it % 2))
    for it in range(10 if big else 5):
        fmt = fmts[it % len(fmts)]
        cases.append(dict(n=int([3, 3, 2, 3, 7][it % 5]), seed=int(rng.integers(0, 10 ** 6)), format=fmt, angles="generic",
                          neg_axis=False, pos_scale=100.0, features=bool(it % 3), history=[["head"], [], ["materialise"]][it % 3],
                          precision=9 if fmt in (".csv", ".txt") else None, cycles=[2, 3][it % 2], forder=bool(it % 2)))
    viols, stats = [], {"by_format": {}, "samples": [{"oracle_case": c} for c in cases[:2]]}
    for c in cases:
        stats["by_format"][c["format"]] = stats["by_format"].get(c["format"], 0) + 1
        viols += run_case(c)
    return len(cases), viols, stats


def replay(payload):
    v = run_case(dict(payload["input"]))
    return {"violated": bool(v), "violations": v}
