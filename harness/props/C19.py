"""C19 — Image pipelines compose like functions and are parameterised in physical units."""
from __future__ import annotations

import warnings
from fractions import Fraction

import numpy as np

import common as C

PROP = "C19"
LEAN_MODULES = ["AcryoVerif.Props.C19"]
LEAN_SUPPORT = ["AcryoVerif.Model.Pipe", "AcryoVerif.Lemmas.PyLemmas"]
_OPN = ["add", "sub", "mul", "div", "eq", "ne", "lt", "le", "gt", "ge"]
KERNELS = ([f"{k}_{o}" for o in _OPN for k in ("pP", "pS", "cC", "cP", "cS")]
           + ["pR_sub", "pR_div", "cR_sub", "cR_div", "pNeg", "cNeg", "pipeBranchOrder", "pipeReflectedCommutative",
              "pipeCompareHelpers", "pipeCompose", "pipeCurry", "getRadiusPx", "structureHas", "structureSize",
              "pipeMorphStructure", "closingErodesWithTrueBorder", "smoothExponent", "pipeSmoothStructure",
              "filterSigmaPx", "shiftPx", "pipeShiftUsesPx", "gaussSigmaPx", "gaussShapePx", "gaussCenter", "gaussTerm",
              "gaussIsSumOfSquares", "fromArrayRatio", "fromArrayKeeps", "fromFileRatio", "fromFileKeeps",
              "pipeRescaleStructure"])
TRUSTED = [
    "Lean 4.33 kernel; axioms propext / Classical.choice / Quot.sound only",
    "translator/py2lean.py + Py.lean, self-checked each run; which lambda belongs to which isinstance branch, "
    "the compose / currying wrappers and the morphology call structure are read from the AST",
    "Python's binary-operator protocol (reflected methods, mirrored comparisons) as modelled by buildP/buildC, "
    "checked against real pipeline objects on random expression trees",
    "numpy broadcasting (voxel-wise ufuncs), scipy.ndimage binary_dilation / binary_erosion / "
    "distance_transform_edt / zoom / gaussian_filter / shift (modelled as parameters; sampled)",
]
ASSUMPTIONS = ["images combined by an operator have equal shapes (numpy raises otherwise)",
               "a provider combined with a converter in that order (`provider + converter`) is not a pipeline "
               "expression of the modelled grammar",
               "voxel division by zero follows numpy (inf/nan), not the model's total division: not compared"]
EXPLANATION = (
    "Theorems: each lambda body of the operator methods is the voxel operation it stands for (incl. reflected "
    "s - p, s / p and mirrored comparisons); for EVERY pipeline expression of any depth the object built through "
    "the operator methods evaluates to nested application with voxel-wise operators (mutual induction); @ is "
    "composition and associative; curried functions are the underlying function; every nm parameter enters only "
    "through parameter/scale (radius, sigma, shift, shape, original_scale) so common rescaling changes nothing; "
    "rescaling providers keep the image iff |orig/scale-1| < tol; the Gaussian exponent is centred at "
    "(n-1)/2+shift/scale, symmetric and decreasing; the ball contains its centre; dilation/closing extensive, "
    "erosion/opening anti-extensive (closing via erosion with border_value=True); smoothed masks in (0,1] and "
    "1 on the mask. K2: random expression trees on real ImageProvider/ImageConverter objects vs the model. "
    "Oracle: the laws on the real converters/providers.")
SAMPLE_OBLIGATIONS = [
    {"theorem": "C19.build_den_P", "statement": "forall e sigma, (buildP e).f sigma = den e sigma (any depth)"},
    {"theorem": "C19.pR_spec", "statement": "scalar on the left: op.pR a s = op.spec s a for all ten operators"},
    {"theorem": "C19.closing_extensive", "statement": "A p -> closing(A) p for objects touching the border"},
]


def k1_grids(rng, thorough):
    vals = [Fraction(k, 4) for k in (-9, -4, -1, 0, 1, 2, 4, 6, 8, 13)]
    nz = [v for v in vals if v != 0]
    g = {}
    for o in _OPN:
        for k in ("pP", "pS", "cC", "cP", "cS"):
            g[f"{k}_{o}"] = [[a, b] for a in vals for b in (nz if o == "div" else vals)]
    for k in ("pR_sub", "cR_sub"):
        g[k] = [[a, b] for a in vals for b in vals]
    for k in ("pR_div", "cR_div"):
        g[k] = [[a, b] for a in nz for b in vals]
    g["pNeg"] = [[a] for a in vals]
    g["cNeg"] = [[a] for a in vals]
    sc = [Fraction(1, 4), Fraction(1, 2), Fraction(1), Fraction(2), Fraction(13, 8)]
    g["getRadiusPx"] = [[r, s] for r in [Fraction(k, 8) for k in range(-40, 41, 3)] for s in sc]
    g["structureHas"] = [[r, z, y, x] for r in (0, 1, 2, 3) for z in range(0, 2 * r + 1) for y in (0, r, 2 * r) for x in range(0, 2 * r + 1)]
    g["structureSize"] = [[r] for r in range(0, 6)]
    g["smoothExponent"] = [[d, sg, s] for d in (Fraction(0), Fraction(1), Fraction(3, 2), Fraction(5)) for sg in (Fraction(1, 2), Fraction(2)) for s in sc]
    for k in ("filterSigmaPx", "shiftPx", "gaussSigmaPx", "fromArrayRatio", "fromFileRatio"):
        g[k] = [[a, s] for a in vals for s in sc]
    g["gaussShapePx"] = [[a, s] for a in [Fraction(k, 4) for k in range(1, 60, 3)] for s in sc]
    g["gaussCenter"] = [[n, a, s] for n in (1, 4, 9, 18) for a in vals for s in sc]
    g["gaussTerm"] = [[x, c, sg] for x in vals for c in (Fraction(0), Fraction(7, 2)) for sg in (Fraction(1, 2), Fraction(3))]
    g["fromArrayKeeps"] = [[r, t] for r in [Fraction(k, 128) for k in (100, 126, 127, 128, 129, 130, 160)] for t in (Fraction(1, 64), Fraction(1, 128), Fraction(0))]
    g["fromFileKeeps"] = g["fromArrayKeeps"]
    return g


# ------------------------------------------------------------------------------------------
# primitive providers / converters shared with Model/Dispatch.lean (primP / primC)
# ------------------------------------------------------------------------------------------
def _prims():
    from acryo.pipe import provider_function, converter_function
    i = np.arange(8, dtype=np.float64).reshape(2, 2, 2)

    @provider_function
    def p0(scale):
        return i + 1

    @provider_function
    def p1(scale):
        return ((np.arange(8) % 3).reshape(2, 2, 2) + 1.0) * scale

    @provider_function
    def p2(scale):
        return (2.0 ** (np.arange(8) % 4)).reshape(2, 2, 2)

    @provider_function
    def p3(scale):
        return 4.0 - i

    @converter_function
    def c0(img, scale):
        return 2 * img + scale

    @converter_function
    def c1(img, scale):
        return img.reshape(-1)[::-1].reshape(img.shape).copy()

    @converter_function
    def c2(img, scale):
        return img * img

    @converter_function
    def c3(img, scale):
        return np.roll(img.reshape(-1), -1).reshape(img.shape)

    return [p0(), p1(), p2(), p3()], [c0(), c1(), c2(), c3()]


_PYOP = {
    0: lambda a, b: a + b, 1: lambda a, b: a - b, 2: lambda a, b: a * b, 3: lambda a, b: a / b,
    4: lambda a, b: a == b, 5: lambda a, b: a != b, 6: lambda a, b: a < b, 7: lambda a, b: a <= b,
    8: lambda a, b: a > b, 9: lambda a, b: a >= b,
}
_SCAL = [Fraction(2), Fraction(-2), Fraction(1, 2), Fraction(4), Fraction(3), Fraction(-1), Fraction(5, 2)]
_DIVSCAL = [Fraction(2), Fraction(-2), Fraction(1, 2), Fraction(4)]


def _gen_p(rng, depth, arith_only=True):
    """Random provider expression: (tokens, builder(P, Cs) -> object). Comparisons only at the root;
    divisors are powers of two (exact in binary floating point, never zero)."""
    if depth <= 0 or rng.random() < 0.2:
        k = int(rng.integers(0, 4))
        return [0, k], (lambda P, Cs, k=k: P[k])
    kind = int(rng.choice([1, 1, 2, 3, 4, 5, 5]))
    ops = [0, 1, 2, 3]
    if kind == 1:
        op = int(rng.choice(ops))
        ta, fa = _gen_p(rng, depth - 1)
        if op == 3:
            tb, fb = [0, 2], (lambda P, Cs: P[2])
        else:
            tb, fb = _gen_p(rng, depth - 1)
        return [1, op] + ta + tb, (lambda P, Cs: _PYOP[op](fa(P, Cs), fb(P, Cs)))
    if kind == 2:
        op = int(rng.choice(ops))
        s = _DIVSCAL[int(rng.integers(0, 4))] if op == 3 else _SCAL[int(rng.integers(0, len(_SCAL)))]
        ta, fa = _gen_p(rng, depth - 1)
        return [2, op] + ta + [s], (lambda P, Cs: _PYOP[op](fa(P, Cs), float(s)))
    if kind == 3:
        op = int(rng.choice(ops))
        s = _SCAL[int(rng.integers(0, len(_SCAL)))]
        if op == 3:
            ta, fa = [0, 2], (lambda P, Cs: P[2])
        else:
            ta, fa = _gen_p(rng, depth - 1)
        return [3, op, s] + ta, (lambda P, Cs: _PYOP[op](float(s), fa(P, Cs)))
    if kind == 4:
        ta, fa = _gen_p(rng, depth - 1)
        return [4] + ta, (lambda P, Cs: -fa(P, Cs))
    tc, fc = _gen_c(rng, depth - 1)
    ta, fa = _gen_p(rng, depth - 1)
    return [5] + tc + ta, (lambda P, Cs: fc(P, Cs) @ fa(P, Cs))


def _gen_c(rng, depth):
    if depth <= 0 or rng.random() < 0.25:
        k = int(rng.integers(0, 4))
        return [0, k], (lambda P, Cs, k=k: Cs[k])
    kind = int(rng.choice([1, 2, 3, 4, 5, 6, 6]))
    ops = [0, 1, 2]          # no division inside converters: their values may be zero
    if kind == 1:
        op = int(rng.choice(ops))
        ta, fa = _gen_c(rng, depth - 1)
        tb, fb = _gen_c(rng, depth - 1)
        return [1, op] + ta + tb, (lambda P, Cs: _PYOP[op](fa(P, Cs), fb(P, Cs)))
    if kind == 2:
        op = int(rng.choice(ops + [3]))
        ta, fa = _gen_c(rng, depth - 1)
        if op == 3:
            tb, fb = [0, 2], (lambda P, Cs: P[2])
        else:
            tb, fb = _gen_p(rng, depth - 1)
        return [2, op] + ta + tb, (lambda P, Cs: _PYOP[op](fa(P, Cs), fb(P, Cs)))
    if kind == 3:
        op = int(rng.choice(ops + [3]))
        s = _DIVSCAL[int(rng.integers(0, 4))] if op == 3 else _SCAL[int(rng.integers(0, len(_SCAL)))]
        ta, fa = _gen_c(rng, depth - 1)
        return [3, op] + ta + [s], (lambda P, Cs: _PYOP[op](fa(P, Cs), float(s)))
    if kind == 4:
        op = int(rng.choice(ops))
        s = _SCAL[int(rng.integers(0, len(_SCAL)))]
        ta, fa = _gen_c(rng, depth - 1)
        return [4, op, s] + ta, (lambda P, Cs: _PYOP[op](float(s), fa(P, Cs)))
    if kind == 5:
        ta, fa = _gen_c(rng, depth - 1)
        return [5] + ta, (lambda P, Cs: -fa(P, Cs))
    ta, fa = _gen_c(rng, depth - 1)
    tb, fb = _gen_c(rng, depth - 1)
    return [6] + ta + tb, (lambda P, Cs: fa(P, Cs) @ fb(P, Cs))


def _root_cmp(rng, gen, depth, is_conv):
    """A comparison at the root: expr cmp expr | expr cmp scalar | scalar cmp expr."""
    op = int(rng.integers(4, 10))
    form = int(rng.integers(0, 3 if not is_conv else 4))
    ta, fa = gen(rng, depth)
    if form == 0:
        tb, fb = gen(rng, depth)
        return [1, op] + ta + tb, (lambda P, Cs: _PYOP[op](fa(P, Cs), fb(P, Cs)))
    s = _SCAL[int(rng.integers(0, len(_SCAL)))]
    if form == 1:
        tag = 2 if not is_conv else 3
        return [tag, op] + ta + [s], (lambda P, Cs: _PYOP[op](fa(P, Cs), float(s)))
    if form == 2:
        tag = 3 if not is_conv else 4
        return [tag, op, s] + ta, (lambda P, Cs: _PYOP[op](float(s), fa(P, Cs)))
    tb, fb = _gen_p(rng, depth)
    return [2, op] + ta + tb, (lambda P, Cs: _PYOP[op](fa(P, Cs), fb(P, Cs)))


def _tok(t):
    return " ".join(C.rat_str(x) if isinstance(x, Fraction) else str(int(x)) for x in t)


def _img(a):
    a = np.asarray(a)
    return C.canon([Fraction(float(v)) for v in a.astype(np.float64).reshape(-1)])


def correspondence(rng, thorough):
    P, Cs = _prims()
    lines, impl = [], []
    stats = {"provider_exprs": 0, "converter_exprs": 0, "root_comparisons": 0, "max_tokens": 0, "errors": 0,
             "by_root": {}}
    x0 = (np.arange(8, dtype=np.float64) - 3).reshape(2, 2, 2)
    n = 160 if thorough else 50
    for it in range(n):
        scale = Fraction([1, 2, 1, 1][it % 4], [1, 1, 2, 4][it % 4])
        depth = int(rng.integers(1, 5))
        conv = bool(it % 2)
        if it % 5 == 0:
            toks, f = _root_cmp(rng, _gen_c if conv else _gen_p, depth - 1, conv)
            stats["root_comparisons"] += 1
        else:
            toks, f = (_gen_c if conv else _gen_p)(rng, depth)
        stats["max_tokens"] = max(stats["max_tokens"], len(toks))
        stats["by_root"][str(toks[0])] = stats["by_root"].get(str(toks[0]), 0) + 1
        try:
            with warnings.catch_warnings():
                warnings.simplefilter("ignore")
                obj = f(P, Cs)
                out = obj(x0, float(scale)) if conv else obj(float(scale))
            res = _img(out)
        except Exception as e:  # noqa: BLE001
            res = C.exc_kind(e) + ":" + str(e)[:60]
            stats["errors"] += 1
        lines.append(f"m:{'pipeC' if conv else 'pipeP'} {C.rat_str(scale)} " + _tok(toks))
        impl.append(res)
        stats["converter_exprs" if conv else "provider_exprs"] += 1
    return lines, impl, stats


# ------------------------------------------------------------------------------------------
def _blob(seed, shape):
    from scipy import ndimage as ndi
    r = np.random.default_rng(seed)
    return ndi.gaussian_filter(r.normal(size=shape), 1.0).astype(np.float32)


def _real_converters(r):
    from acryo import pipe
    return [
        ("gaussian_filter", lambda: pipe.gaussian_filter(sigma=float(r.choice([0.5, 1.0, 1.5])))),
        ("shift", lambda: pipe.shift(tuple(float(v) for v in r.choice([-1.0, 0.5, 1.5], size=3)))),
        ("lowpass", lambda: pipe.lowpass_filter(float(r.choice([0.2, 0.35])))),
        ("highpass", lambda: pipe.highpass_filter(float(r.choice([0.1, 0.3])))),
        ("center_by_mass", lambda: pipe.center_by_mass(order=1)),
    ]


def k2_post(line, impl_out, model_out):
    """The model computes over the rationals, the implementation in float64: a deeply nested product can exceed 2^53
    in the numerator, where float64 rounds. Such entries agree when they agree to 1e-12 relative; everything else stays
    an exact comparison."""
    if impl_out == model_out or not line.startswith(("m:pipeC", "m:pipeP")):
        return impl_out, model_out
    try:
        a = [Fraction(t) for t in impl_out.strip("[]").split()]
        b = [Fraction(t) for t in model_out.strip("[]").split()]
        if len(a) != len(b):
            return impl_out, model_out
        for x, y in zip(a, b):
            if x == y:
                continue
            big = max(abs(x.numerator), abs(y.numerator)) > 2 ** 52
            if not (big and abs(x - y) <= Fraction(1, 10 ** 12) * max(abs(x), abs(y))):
                return impl_out, model_out
        return "agree-up-to-float64-rounding", "agree-up-to-float64-rounding"
    except Exception:  # noqa: BLE001
        return impl_out, model_out


def _same(x, y):
    """exact equality, NaNs in the same places counting as equal (a converter fed a zero-mass image yields NaNs)"""
    x, y = np.asarray(x), np.asarray(y)
    if x.shape != y.shape:
        return False
    if x.dtype.kind in "fc" or y.dtype.kind in "fc":
        return bool(np.array_equal(x, y, equal_nan=True))
    return bool(np.array_equal(x, y))


def run_case(inp):
    from acryo import pipe
    from acryo.pipe import provider_function, converter_function, ImageProvider, ImageConverter
    viols = []

    def V(clause, desc):
        viols.append({"clause": clause, "desc": desc, "input": dict(inp)})

    r = np.random.default_rng(inp["seed"])
    kind = inp["kind"]
    scale = float(inp.get("scale", 1.0))
    with warnings.catch_warnings():
        warnings.simplefilter("ignore")
        if kind == "algebra":
            shape = tuple(inp["shape"])
            img = _blob(inp["seed"], shape) + 0.5
            cs = _real_converters(r)
            pick = [cs[int(k)] for k in r.integers(0, len(cs), size=3)]
            (na, fa), (nb, fb), (nc, fc) = pick
            a, b, c = fa(), fb(), fc()
            p = pipe.from_array(img, original_scale=scale)
            q = pipe.from_array(_blob(inp["seed"] + 1, shape), original_scale=scale)
            try:
                ab = (a @ b)(img, scale)
                if not _same(ab, a(b(img, scale), scale)):
                    V("compose", f"({na} @ {nb})(img, s) != {na}({nb}(img, s), s)")
                if not _same(((a @ b) @ c)(img, scale), (a @ (b @ c))(img, scale)):
                    V("associative", f"(({na} @ {nb}) @ {nc}) != ({na} @ ({nb} @ {nc}))")
                ap = a @ p
                if not isinstance(ap, ImageProvider) or not _same(ap(scale), a(p(scale), scale)):
                    V("compose", f"({na} @ provider)(s) != {na}(provider(s), s)")
                if not _same(((a @ b) @ p)(scale), (a @ (b @ p))(scale)):
                    V("associative", "((a @ b) @ provider) != (a @ (b @ provider))")
            except Exception as e:  # noqa: BLE001
                V("no-error", f"composition raised {type(e).__name__}: {str(e)[:100]}")
            P, Q = p(scale), q(scale)
            A, B = a(img, scale), b(img, scale)
            # boolean-valued pipelines (comparisons with a scalar) under the identity scalars 0 and 1, then more arithmetic:
            # voxel-wise like numpy, i.e. `mask * 1.0 + mask * 1.0` counts (0 / 1 / 2), `sum([m1, m2])` too
            try:
                thr = float(np.median(np.asarray(P)))
                Pm, Qm = np.asarray(P) > thr, np.asarray(Q) > thr
                exprs = [("(p > t) * 1.0 + (q > t) * 1.0", (p > thr) * 1.0 + (q > thr) * 1.0, Pm * 1.0 + Qm * 1.0),
                         ("((p > t) + 0) + (q > t)", ((p > thr) + 0) + (q > thr), (Pm + 0) + Qm),
                         ("sum([p > t, q > t])", sum([p > thr, q > thr]), sum([Pm, Qm])),
                         ("1 * (p > t) - (q > t) / 1", 1 * (p > thr) - (q > thr) / 1, 1 * Pm - Qm / 1),
                         ("((p > t) - 0) * 2", ((p > thr) - 0) * 2, (Pm.astype(np.int8) - 0) * 2)]
                for label, pipe_e, want in exprs:
                    got = np.asarray(pipe_e(scale))
                    if got.shape != want.shape or not np.array_equal(got.astype(np.float64), np.asarray(want, dtype=np.float64)):
                        V("voxelwise", f"{label}: the pipeline gives values {np.unique(got.astype(np.float64)).tolist()[:4]}, voxel-wise "
                                       f"numpy arithmetic {np.unique(np.asarray(want, dtype=np.float64)).tolist()[:4]}")
            except Exception as e:  # noqa: BLE001
                V("no-error", f"arithmetic on boolean-valued pipelines raised {type(e).__name__}: {str(e)[:100]}")
            s = float(r.choice([2.0, -1.5, 0.25, 3.0]))
            import operator as O
            table = [("+", O.add), ("-", O.sub), ("*", O.mul), ("/", O.truediv), ("==", O.eq), ("!=", O.ne),
                     ("<", O.lt), ("<=", O.le), (">", O.gt), (">=", O.ge)]
            for sym, op in table:
                checks = [
                    (f"p {sym} q", lambda: op(p, q)(scale), lambda: op(P, Q)),
                    (f"p {sym} {s}", lambda: op(p, s)(scale), lambda: op(P, s)),
                    (f"{s} {sym} p", lambda: op(s, p)(scale), lambda: op(s, P)),
                    (f"a {sym} b", lambda: op(a, b)(img, scale), lambda: op(A, B)),
                    (f"a {sym} p", lambda: op(a, p)(img, scale), lambda: op(A, P)),
                    (f"a {sym} {s}", lambda: op(a, s)(img, scale), lambda: op(A, s)),
                    (f"{s} {sym} a", lambda: op(s, a)(img, scale), lambda: op(s, A)),
                ]
                for label, got, want in checks:
                    try:
                        g = np.asarray(got())
                    except Exception as e:  # noqa: BLE001
                        V("operator", f"`{label}` raised {type(e).__name__}: {str(e)[:80]}")
                        continue
                    w = np.asarray(want())
                    if g.shape != w.shape or not _same(g.astype(np.float64), w.astype(np.float64)):
                        V("operator", f"`{label}` is not the voxel-wise `{sym}` of the provided images "
                                      f"(max difference {np.nanmax(np.abs(g.astype(float) - w.astype(float))):.4g})")
            try:
                if not _same((-p)(scale), -P) or not _same((-a)(img, scale), -A):
                    V("operator", "negation is not voxel-wise")
            except Exception as e:  # noqa: BLE001
                V("operator", f"negation raised {type(e).__name__}")
            for obj, nm in ((p, "provider"), (a, "converter")):
                try:
                    obj / 0
                    V("zero-division", f"{nm} / 0 did not raise ZeroDivisionError")
                except ZeroDivisionError:
                    pass
        elif kind == "curry":
            @provider_function
            def prov2(scale_, shape, fill=1.0):
                return np.full(shape, fill * scale_, dtype=np.float32)

            @provider_function
            def prov0():
                return np.ones((2, 2, 2), dtype=np.float32)

            @converter_function
            def conv2(img, scale_, k, off=0.0):
                return img * k + off * scale_

            @converter_function
            def conv1(img):
                return img + 1

            @converter_function
            def conv0():
                return np.zeros((2, 2, 2), dtype=np.float32)

            k = float(r.choice([2.0, 0.5]))
            img = _blob(inp["seed"], (2, 3, 4))
            if not _same(prov2((2, 3, 4), fill=k)(scale), np.full((2, 3, 4), k * scale, dtype=np.float32)):
                V("curry", "provider_function(f)(args)(scale) != f(scale, *args)")
            if not _same(prov0()(scale), np.ones((2, 2, 2), dtype=np.float32)):
                V("curry", "zero-argument provider function")
            if not _same(conv2(k, off=3.0)(img, scale), img * k + 3.0 * scale):
                V("curry", "converter_function(f)(args)(img, scale) != f(img, scale, *args)")
            if not _same(conv1()(img, scale), img + 1):
                V("curry", "one-argument converter function")
            if not _same(conv0()(img, scale), np.zeros((2, 2, 2), dtype=np.float32)):
                V("curry", "zero-argument converter function")
            if not _same(conv2(k).with_scale(scale)(img), img * k):
                V("curry", "with_scale(scale)(img) != converter(img, scale)")
        elif kind == "covariance":
            lam = float(inp["lam"])
            shape = tuple(inp["shape"])
            img = _blob(inp["seed"], shape) + 0.3
            binary = _blob(inp["seed"] + 3, shape) > 0.05
            sg = float(r.choice([0.8, 1.3, 2.0]))
            rad = float(r.choice([-2.2, -1.0, 0.6, 1.0, 1.7, 2.5]))
            sh = tuple(float(v) for v in r.choice([-1.2, 0.0, 0.7, 1.5], size=3))
            cases = [
                ("gaussian_filter(sigma)", lambda m: pipe.gaussian_filter(sigma=sg * m)(img, scale * m)),
                ("shift(shift)", lambda m: pipe.shift(tuple(v * m for v in sh))(img, scale * m)),
                ("dilation(radius)", lambda m: pipe.dilation(rad * m)(binary, scale * m)),
                ("closing(radius)", lambda m: pipe.closing(rad * m)(binary, scale * m)),
                ("gaussian_smooth(sigma)", lambda m: pipe.gaussian_smooth(sg * m)(binary, scale * m)),
                ("soft_otsu(sigma, radius)", lambda m: pipe.soft_otsu(sg * m, abs(rad) * m)(img, scale * m)),
                ("from_gaussian(shape, sigma, shift)",
                 lambda m: pipe.from_gaussian(tuple(6.0 * scale * m for _ in range(3)), sg * m, tuple(v * m for v in sh))(scale * m)),
                ("from_array(original_scale)", lambda m: pipe.from_array(img, original_scale=0.75 * scale * m)(scale * m)),
            ]
            for name, f in cases:
                try:
                    x, y = np.asarray(f(1.0)), np.asarray(f(lam))
                except Exception as e:  # noqa: BLE001
                    V("no-error", f"{name} raised {type(e).__name__}: {str(e)[:80]}")
                    continue
                if x.shape != y.shape or not np.allclose(x.astype(float), y.astype(float), atol=1e-6):
                    V("scale-covariance", f"{name}: result changes when parameters and scale are both multiplied by {lam}")
        elif kind == "gaussian":
            n = [int(v) for v in inp["n"]]
            sg = [float(v) for v in inp["sigma"]]
            sh = [float(v) for v in inp["shift"]]
            # the box edge in nm need not be a whole number of voxels
            shape_nm = tuple((k + f) * scale for k, f in zip(n, inp.get("frac", [0.0, 0.0, 0.0])))
            g = np.asarray(pipe.from_gaussian(shape_nm, tuple(sg), tuple(sh))(scale))
            if g.shape != tuple(n):
                V("gaussian-shape", f"from_gaussian shape {g.shape} != {tuple(n)} px")
                return viols
            c = [(k - 1) / 2 + s / scale for k, s in zip(n, sh)]
            zz = np.indices(n, dtype=np.float64)
            want = np.exp(-0.5 * sum(((zz[d] - c[d]) / (sg[d] / scale)) ** 2 for d in range(3)))
            if not np.allclose(g, want, atol=2e-5):
                am = np.unravel_index(int(np.argmax(g)), g.shape)
                V("gaussian", f"from_gaussian is not exp(-1/2 sum((x-c)/sigma)^2) with c=(n-1)/2+shift/scale = {c}: "
                              f"maximum {float(g.max()):.3g} at voxel {tuple(int(v) for v in am)}")
            g1 = np.asarray(pipe.from_gaussian(shape_nm, sg[0])(scale))
            if not np.allclose(g1, g1[::-1, ::-1, ::-1], atol=1e-6) or not np.isclose(g1.max(), g1[tuple((k - 1) // 2 for k in n)]):
                V("gaussian", "without shift the Gaussian is not centred in the box")
        elif kind == "rescale":
            shape = tuple(inp["shape"])
            img = _blob(inp["seed"], shape)
            orig = float(inp["orig"])
            same = pipe.from_array(img, original_scale=orig)(orig)
            if same is not img and not _same(same, img):
                V("rescale-identity", "from_array at its own scale does not return the image unchanged")
            near = pipe.from_array(img, original_scale=orig, tol=0.02)(orig * 1.01)
            if not _same(near, img):
                V("rescale-identity", "from_array within tolerance resampled the image")
            # the tolerance is RELATIVE (|orig/scale - 1| < tol), whatever the voxel size
            # (offsets large enough to change the resampled shape: scipy's zoom is the identity otherwise)
            for o_ in (orig, 0.05 * orig, 4.0 * orig):
                inside = pipe.from_array(img, original_scale=o_, tol=0.2)(o_ * 1.15)
                outside = np.asarray(pipe.from_array(img, original_scale=o_, tol=0.01)(o_ * 1.1))
                if not _same(inside, img):
                    V("rescale-tolerance", f"from_array(original_scale={o_}, tol=0.2) resampled at a scale 15 % off")
                if outside.shape == img.shape and _same(outside, img):
                    V("rescale-tolerance", f"from_array(original_scale={o_}, tol=0.01) did not resample at a scale 10 % off")
                li = pipe.from_arrays([img], original_scale=o_, tol=0.2)(o_ * 1.15)
                lo = pipe.from_arrays([img], original_scale=o_, tol=0.01)(o_ * 1.1)
                if not _same(li[0], img) or (np.asarray(lo[0]).shape == img.shape and _same(lo[0], img)):
                    V("rescale-tolerance", f"from_arrays(original_scale={o_}): tolerance is not relative")
            ratio = float(inp["ratio"])
            out = np.asarray(pipe.from_array(img, original_scale=orig)(orig / ratio))
            want_shape = tuple(int(round(s * ratio)) for s in shape)
            if out.shape != want_shape:
                V("rescale", f"from_array zoom {ratio}: shape {out.shape} != {want_shape}")
            else:
                # a blob keeps its physical position
                from scipy import ndimage as ndi
                bl = np.zeros(shape, dtype=np.float32)
                cpos = [s // 2 - 1 for s in shape]
                bl[tuple(cpos)] = 1
                bl = ndi.gaussian_filter(bl, 1.5)
                o2 = np.asarray(pipe.from_array(bl, original_scale=orig)(orig / ratio))
                com_in = np.array(ndi.center_of_mass(bl)) + 0.5
                com_out = (np.array(ndi.center_of_mass(np.clip(o2, 0, None))) + 0.5) / ratio
                # scipy zoom maps voxel centres end-to-end (grid_mode=False): allow one input voxel
                if not (np.abs(com_in - com_out).max() <= 1.0):
                    V("rescale", f"resampled blob moved by {np.abs(com_in - com_out).max():.2f} px")
            lst = pipe.from_arrays([img, img * 2], original_scale=orig)(orig)
            if len(lst) != 2 or not _same(lst[1], img * 2):
                V("rescale-identity", "from_arrays at its own scale")
            # a provider is a function of the scale alone: the SAME provider object evaluated again (same scale, another
            # scale, then the first scale again) gives what a fresh provider / the per-image providers give
            prov = pipe.from_arrays([img, img * 2, img + 1], original_scale=orig)
            for k_, sc_ in enumerate((orig, orig * 2, orig)):
                got_ = prov(sc_)
                want_ = [np.asarray(pipe.from_array(a_, original_scale=orig)(sc_)) for a_ in (img, img * 2, img + 1)]
                if len(got_) != 3 or any(np.asarray(g_).shape != w_.shape or not np.allclose(np.asarray(g_), w_, atol=1e-5, equal_nan=True)
                                         for g_, w_ in zip(got_, want_)):
                    V("provider-function", f"from_arrays provider evaluated for the {k_ + 1}. time (scale {sc_}) returned {len(got_)} images / "
                                           "values that differ from the per-image from_array providers")
                    break
        elif kind == "files":
            # providers that read files: every file is rescaled from ITS OWN pixel size (header) unless one is given
            import os
            import tempfile
            import mrcfile
            import common as C
            shapes = [tuple(int(v) for v in r.integers(6, 11, size=3)) for _ in range(3)]
            vox = [float(v) for v in inp["voxels"]]
            with tempfile.TemporaryDirectory(dir=C.RUN_ROOT if os.path.isdir(C.RUN_ROOT) else None) as d:
                paths, datas = [], []
                for i, (sh, v) in enumerate(zip(shapes, vox)):
                    a = _blob(inp["seed"] + i, sh)
                    pth = os.path.join(d, f"t{i}" + [".mrc", ".map", ".rec"][i % 3])
                    with mrcfile.new(pth, overwrite=True) as f:
                        f.set_data(a.astype(np.float32))
                        f.voxel_size = 10.0 * v          # angstrom
                    paths.append(pth)
                    datas.append(a.astype(np.float32))
                for given in (None, float(inp["given"])):
                    got = pipe.from_files(paths, original_scale=given)(scale)
                    if len(got) != len(paths):
                        V("files", f"from_files returned {len(got)} images for {len(paths)} paths")
                        continue
                    for i, pth in enumerate(paths):
                        one = np.asarray(pipe.from_file(pth, original_scale=given)(scale))
                        ref = np.asarray(pipe.from_array(datas[i], original_scale=given if given is not None else vox[i])(scale))
                        g = np.asarray(got[i])
                        if one.shape != ref.shape or not np.allclose(one, ref, atol=1e-4):
                            V("files", f"from_file (pixel size {vox[i]} nm in the header, original_scale={given}) at scale {scale}: "
                                       f"shape {one.shape}, from_array of the same data gives {ref.shape}")
                        if g.shape != ref.shape or not np.allclose(g, ref, atol=1e-4):
                            V("files", f"from_files image {i} (pixel size {vox[i]} nm in the header, original_scale={given}) at scale "
                                       f"{scale}: shape {g.shape}, expected {ref.shape}")
        elif kind == "morph":
            shape = tuple(inp["shape"])
            b = r.uniform(size=shape) > float(inp["density"])
            if inp.get("border"):
                b[0, :, :] |= r.uniform(size=shape[1:]) > 0.5
                b[:, :, -1] |= r.uniform(size=shape[:2]) > 0.5
            if inp.get("full"):
                b[:] = True
            rad = float(inp["radius"])
            d = np.asarray(pipe.dilation(rad)(b, scale))
            e = np.asarray(pipe.dilation(-rad)(b, scale))
            c = np.asarray(pipe.closing(rad)(b, scale))
            o = np.asarray(pipe.closing(-rad)(b, scale))
            if not np.all(d >= b):
                V("extensive", f"dilation({rad}) is not extensive")
            if not np.all(e <= b):
                V("anti-extensive", f"dilation(-{rad}) (erosion) is not anti-extensive")
            if not np.all(c >= b):
                V("extensive", f"closing({rad}) removed {int((b & ~c).sum())} voxels of the mask "
                               f"({'touching the border' if inp.get('border') or inp.get('full') else 'interior'})")
            if not np.all(o <= b):
                V("anti-extensive", f"closing(-{rad}) (opening) is not anti-extensive")
            if abs(rad / scale) < 1 and not (_same(d, b) and _same(c, b)):
                V("sub-voxel-radius", "a radius below one voxel must leave the mask unchanged")
            sm = np.asarray(pipe.gaussian_smooth(float(inp["sigma"]))(b, scale))
            if sm.min() < 0 or sm.max() > 1 + 1e-6:
                V("unit-interval", f"gaussian_smooth values in [{sm.min():.3g}, {sm.max():.3g}]")
            if not np.all(sm >= b.astype(np.float32) - 1e-6):
                V("extensive", "gaussian_smooth is below its binary input somewhere")
            so = np.asarray(pipe.soft_otsu(float(inp["sigma"]), rad)(_blob(inp["seed"], shape), scale))
            if so.min() < 0 or so.max() > 1 + 1e-6:
                V("unit-interval", f"soft_otsu values in [{so.min():.3g}, {so.max():.3g}]")
        elif kind == "loader":
            from acryo import SubtomogramLoader, Molecules
            img = _blob(inp["seed"], (6, 6, 6))
            ld = SubtomogramLoader(np.zeros((12, 12, 12), dtype=np.float32), Molecules(np.array([[6.0, 6, 6]])),
                                   scale=scale, output_shape=(6, 6, 6))
            p = pipe.from_array(img, original_scale=scale) * 2
            t = ld.normalize_template(p)
            if not _same(t, img * 2):
                V("loader", "normalize_template(provider) != provider(loader.scale)")
            conv = pipe.gaussian_filter(sigma=1.0 * scale) > 0.1
            t2, m2 = ld.normalize_input(p, conv)
            want = conv(img * 2, scale)
            if not _same(np.asarray(m2, dtype=np.float32), np.asarray(want, dtype=np.float32)):
                V("loader", "normalize_input(template, converter) != converter(template, loader.scale)")
            m3 = ld.normalize_mask(pipe.from_array((img > 0).astype(np.float32), original_scale=scale))
            if not _same(m3, (img > 0).astype(np.float32)):
                V("loader", "normalize_mask(provider) != provider(loader.scale)")
    return viols


def oracle(rng, thorough, deep=False, hints=None):
    big = thorough or deep
    cases = []
    for i in range(6 if big else 2):
        cases.append(dict(kind="algebra", shape=[[7, 7, 7], [6, 8, 5]][i % 2], scale=float(rng.choice([1.0, 0.5, 1.3])),
                          seed=int(rng.integers(0, 10 ** 6))))
    cases.append(dict(kind="curry", scale=float(rng.choice([1.0, 0.5])), seed=int(rng.integers(0, 10 ** 6))))
    for i in range(6 if big else 2):
        cases.append(dict(kind="covariance", shape=[9, 10, 11], scale=float(rng.choice([1.0, 0.5])),
                          lam=float([2.0, 0.5, 4.0][i % 3]), seed=int(rng.integers(0, 10 ** 6))))
    for i in range(6 if big else 3):
        cases.append(dict(kind="gaussian", n=[int(v) for v in rng.integers(5, 14, size=3)],
                          sigma=[float(v) for v in rng.choice([0.8, 1.5, 2.2], size=3)],
                          shift=[[0.0, 0.0, 0.0], [1.0, -0.5, 0.25], [0.0, 2.0, -1.5]][i % 3],
                          scale=float(rng.choice([1.0, 0.5, 2.0])), seed=i,
                          frac=[[0.0, 0.0, 0.0], [0.3, -0.4, 0.45], [-0.25, 0.0, 0.4]][(i + 1) % 3]))
    for i in range(4 if big else 2):
        cases.append(dict(kind="rescale", shape=[10, 12, 14], orig=float(rng.choice([1.0, 0.8])),
                          ratio=float([1.5, 0.5, 2.0, 0.75][i % 4]), seed=int(rng.integers(0, 10 ** 6))))
    for i in range(10 if big else 5):
        cases.append(dict(kind="morph", shape=[int(v) for v in rng.integers(5, 10, size=3)],
                          density=float(rng.choice([0.5, 0.8, 0.95])), border=bool(i % 2), full=bool(i == 4),
                          radius=float(rng.choice([0.6, 1.0, 1.7, 2.5])), sigma=float(rng.choice([0.7, 1.5])),
                          scale=float(rng.choice([1.0, 0.5])), seed=int(rng.integers(0, 10 ** 6))))
    for i in range(3 if big else 1):
        cases.append(dict(kind="files", scale=float([0.5, 1.0, 0.37][i % 3]), voxels=[[0.5, 1.0, 0.25], [1.0, 0.5, 2.0], [0.37, 0.74, 0.2]][i % 3],
                          given=[0.8, 0.6, 1.0][i % 3], seed=int(rng.integers(0, 10 ** 6))))
    cases.append(dict(kind="loader", scale=float(rng.choice([1.0, 0.5])), seed=int(rng.integers(0, 10 ** 6))))
    viols, stats = [], {"by_kind": {}, "samples": [{"oracle_case": c} for c in cases[:2]]}
    for c in cases:
        stats["by_kind"][c["kind"]] = stats["by_kind"].get(c["kind"], 0) + 1
        try:
            viols += run_case(c)
        except Exception as e:  # noqa: BLE001
            viols.append({"clause": "no-error", "desc": f"{c['kind']}: {type(e).__name__}: {str(e)[:120]}", "input": dict(c)})
    return len(cases), viols, stats


def replay(payload):
    v = run_case(dict(payload["input"]))
    return {"violated": bool(v), "violations": v}
