"""C18 — PCA classification matches exact PCA and labels stay attached to their molecules."""
from __future__ import annotations

import warnings
from fractions import Fraction

import numpy as np

import common as C

PROP = "C18"
LEAN_MODULES = ["AcryoVerif.Props.C18"]
LEAN_SUPPORT = ["AcryoVerif.Model.Pca", "AcryoVerif.Model.Frame", "AcryoVerif.Lemmas.PyLemmas", "AcryoVerif.Props.C03"]
KERNELS = ["getSolver", "pcaClassifierSolverArg", "pcaDefaultSolver", "pcaFitStructure", "pcaTransformStructure",
           "pcaClassifierStructure", "pcaFlatSingleColumnChunk", "classifyLabelWriteBack"]
TRUSTED = [
    "Lean 4.33 kernel; axioms propext / Classical.choice / Quot.sound only",
    "translator/py2lean.py + Py.lean (string comparisons, min of a 2-list), self-checked each run; the shape "
    "of DaskPCA._fit/transform, PcaClassifier and LoaderBase.classify read from the AST",
    "dask.array.linalg.svd (tsqr: per-chunk QR, QR/SVD of the stacked R) and LAPACK return an SVD of the matrix "
    "they are given to floating-point accuracy; numpy reshape is row-major; polars with_columns (modelled, sampled)",
    "scikit-learn KMeans (not modelled; sampled by the oracle on separated groups)",
]
ASSUMPTIONS = ["components are compared up to sign and only where the singular values are separated "
               "(a repeated singular value has no unique vector)"]
EXPLANATION = (
    "Theorems: for every (n_samples, n_features, n_components) the solver PcaClassifier configures is "
    "full/tsqr (never randomized) and is accepted iff 0 <= n_components <= min(shape); flattening is a "
    "bijection; row count, column sums and Gram matrix (hence mean, centred Gram, axes, singular values) "
    "are the same for every chunking / reduction order; stacked R factors of per-chunk QR have the data's "
    "Gram matrix (tsqr exact for every chunking); an SVD's Vt rows are eigenvectors of the Gram matrix with "
    "eigenvalues s^2, projections = U S, component signs are free; projections are row-wise in stack "
    "order; the label column holds labels[i] in row i and other columns are untouched. K2: the model's exact "
    "centred Gram matrix vs the fitted mean_/components_/singular_values_ of real PcaClassifier runs "
    "(eigen-equation), projections, flattening, polars write-back. Oracle: numpy exact SVD vs PcaClassifier "
    "over chunkings (row and spatial), >500 images/voxels, masks; planted clusters; loader.classify.")
SAMPLE_OBLIGATIONS = [
    {"theorem": "C18.classifier_solver_exact", "statement": "getSolver ns nf nc classifierSolver kn = ok s -> s in {full, tsqr}"},
    {"theorem": "C18.stats_chunk_free", "statement": "row count, column sums and Gram matrix agree for any two chunkings holding the same rows"},
    {"theorem": "C18.tsqr_gram", "statement": "Gram(stacked R) = Gram(stacked data) when A_i = Q_i R_i, Q_i^T Q_i = 1"},
]


def k1_grids(rng, thorough):
    ns_l = [1, 3, 10, 499, 500, 501, 600, 2000]
    nc_l = [-1, 0, 1, 2, 8, 399, 400, 401, 480, 500, 501]
    g = [[ns, nf, nc, sv, kn] for ns in ns_l for nf in ns_l for nc in nc_l for sv in range(7) for kn in (True, False)]
    if not thorough:
        idx = rng.permutation(len(g))[:1500]
        g = [g[i] for i in sorted(idx)]
    return {"getSolver": g}


# ------------------------------------------------------------------------------------------
def _chunks(rng, n, shape, spatial):
    c0 = int(rng.integers(1, n + 1))
    if not spatial:
        return (c0,) + tuple(shape)
    return (c0,) + tuple(int(rng.integers(1, s + 1)) for s in shape)


def _fit(stack, mask, k, chunks):
    import dask
    import dask.array as da
    from acryo.classification import PcaClassifier
    with warnings.catch_warnings():
        warnings.simplefilter("ignore")
        with dask.config.set(scheduler="synchronous"):
            clf = PcaClassifier(da.from_array(stack, chunks=chunks), mask, n_components=k, n_clusters=2, seed=0)
            clf.run()
    return clf


def correspondence(rng, thorough):
    import dask
    import dask.array as da
    import polars as pl
    lines, impl = [], []
    stats = {"stats": 0, "transform": 0, "spatial_chunks": 0, "mask_none": 0, "ravel": 0, "withLabel": 0}
    shapes = [(2, 2, 2), (1, 2, 3), (2, 3, 2), (3, 1, 2)]
    for it in range(24 if thorough else 8):
        shape = shapes[it % len(shapes)]
        nf = int(np.prod(shape))
        n = int(rng.integers(4, 9))
        k = int(rng.integers(1, 3))
        stack = rng.integers(-4, 5, size=(n,) + shape).astype(np.float32)
        mkind = it % 3
        if mkind == 0:
            mask, mvals = None, np.ones(shape, dtype=np.float32)
            stats["mask_none"] += 1
        elif mkind == 1:
            mvals = (rng.uniform(size=shape) > 0.3).astype(np.float32)
            mask = mvals
        else:
            mvals = rng.integers(0, 5, size=shape).astype(np.float32) / 4
            mask = mvals
        spatial = bool(it % 2)
        stats["spatial_chunks"] += spatial
        chunks = _chunks(rng, n, shape, spatial)
        clf = _fit(stack, mask, k, chunks)
        p = clf.pca
        lines.append(f"m:pcaStats {n} {nf} " + " ".join(C.rat_str(Fraction(float(x))) for x in mvals.reshape(-1))
                     + " " + " ".join(str(int(x)) for x in stack.reshape(-1)))
        impl.append(f"{n} {nf} {k} | " + " ".join(repr(float(x)) for x in np.asarray(p.mean_).reshape(-1)) + " | "
                    + " ".join(repr(float(x)) for x in p.singular_values_) + " | "
                    + " ".join(repr(float(x)) for x in np.asarray(p.components_).reshape(-1)))
        stats["stats"] += 1
        # projection of new images with the fitted (float) mean and components, taken as exact rationals
        n2 = int(rng.integers(1, 5))
        new = rng.integers(-4, 5, size=(n2,) + shape).astype(np.float32)
        with warnings.catch_warnings():
            warnings.simplefilter("ignore")
            with dask.config.set(scheduler="synchronous"):
                tr = np.asarray(clf.transform(da.from_array(new, chunks=_chunks(rng, n2, shape, spatial))))
        lines.append(f"m:pcaTransform {n2} {nf} {k} " + " ".join(C.rat_str(Fraction(float(x))) for x in mvals.reshape(-1)) + " "
                     + " ".join(C.rat_str(Fraction(float(x))) for x in np.asarray(p.mean_).reshape(-1)) + " "
                     + " ".join(C.rat_str(Fraction(float(x))) for x in np.asarray(p.components_).reshape(-1)) + " "
                     + " ".join(str(int(x)) for x in new.reshape(-1)))
        impl.append("T " + " ".join(repr(float(x)) for x in tr.reshape(-1)))
        stats["transform"] += 1
    for it in range(40 if thorough else 15):
        Z, Y, X = (int(v) for v in rng.integers(1, 6, size=3))
        z, y, x = int(rng.integers(0, Z)), int(rng.integers(0, Y)), int(rng.integers(0, X))
        lines.append(f"m:ravel {Y} {X} {z} {y} {x}")
        impl.append(C.canon(int(np.arange(Z * Y * X).reshape(Z, Y, X)[z, y, x])))
        idx = int(rng.integers(0, Z * Y * X))
        lines.append(f"m:unravel {Y} {X} {idx}")
        impl.append(C.canon(tuple(int(v) for v in np.unravel_index(idx, (Z, Y, X)))))
        stats["ravel"] += 2
    for it in range(30 if thorough else 12):
        ncols, nrows = int(rng.integers(0, 4)), int(rng.integers(2, 5))
        lc = int(rng.integers(0, ncols + 2))
        nl = nrows if it % 4 else int(rng.choice([nrows + 1, nrows + 2, nrows - 1 if nrows > 2 else nrows + 1]))
        labels = [int(v) for v in rng.integers(0, 3, size=nl)]
        df = pl.DataFrame({f"c{c}": [100 * c + r for r in range(nrows)] for c in range(ncols)})
        try:
            out = df.with_columns(pl.Series(f"c{lc}", labels))
            res = " ".join(f"{c}=" + ",".join(str(int(v)) for v in out[c].to_list()) for c in out.columns)
        except Exception:  # noqa: BLE001   (polars ShapeError is not a ValueError subclass everywhere)
            res = "err:value"
        lines.append(f"m:withLabel {ncols} {nrows} {lc} {nl} " + " ".join(map(str, labels)))
        impl.append(res)
        stats["withLabel"] += 1
    return lines, impl, stats


def k2_post(line, impl_out, model_out):
    try:
        if line.startswith("m:pcaStats"):
            head, mean, sv, comps = [p.strip() for p in impl_out.split("|")]
            n, nf, k = (int(v) for v in head.split())
            mean = np.array([float(v) for v in mean.split()])
            sv = np.array([float(v) for v in sv.split()])
            V = np.array([float(v) for v in comps.split()]).reshape(k, nf)
            toks = model_out.replace("[", " ").replace("]", " ").split()
            vals = np.array([float(Fraction(t)) for t in toks])
            colsum, G = vals[:nf], vals[nf:].reshape(nf, nf)
            msgs = []
            if not (np.abs(mean - colsum / n).max() <= 1e-5):
                msgs.append(f"mean_ differs from column sums / n by {np.abs(mean - colsum / n).max():.3g}")
            ev = np.sort(np.linalg.eigvalsh(G))[::-1]
            scale = max(1.0, float(ev[0]))
            if not (np.abs(sv ** 2 - ev[:k]).max() <= 1e-4 * scale):
                msgs.append(f"singular_values_^2 {sv ** 2} != top eigenvalues {ev[:k]} of the exact centred Gram matrix")
            for j in range(k):
                if abs(V[j] @ V[j] - 1) > 1e-4:
                    msgs.append(f"component {j} is not a unit vector")
                if not (np.abs(G @ V[j] - sv[j] ** 2 * V[j]).max() <= 2e-4 * scale):
                    msgs.append(f"component {j} is not an eigenvector of the exact centred Gram matrix "
                                f"(residual {np.abs(G @ V[j] - sv[j] ** 2 * V[j]).max():.3g})")
            return ("pca-consistent" if not msgs else "pca-mismatch: " + "; ".join(msgs)), "pca-consistent"
        if line.startswith("m:pcaTransform"):
            a = np.array([float(v) for v in impl_out.split()[1:]])
            toks = model_out.replace("[", " ").replace("]", " ").split()
            b = np.array([float(Fraction(t)) for t in toks])
            if a.shape == b.shape and np.abs(a - b).max() <= 1e-4 * max(1.0, np.abs(b).max()):
                return "transform-agree", "transform-agree"
            return f"transform {a.tolist()}", f"transform {b.tolist()}"
    except Exception as e:  # noqa: BLE001
        return impl_out + f" (post: {type(e).__name__}: {e})", model_out
    return impl_out, model_out


# ------------------------------------------------------------------------------------------
def _planted(seed, n, shape, rank, noise, contrast=1.0):
    """Stack with a planted, well separated spectrum: sum_k a_k u_k v_k^T + noise."""
    r = np.random.default_rng(seed)
    nf = int(np.prod(shape))
    X = noise * r.normal(size=(n, nf))
    for k in range(rank):
        u = r.normal(size=n)
        v = r.normal(size=nf)
        X += (contrast if k == 0 else 1.0) * (rank - k + 1) * 3.0 * np.outer(u / np.linalg.norm(u), v / np.linalg.norm(v)) * np.sqrt(n)
    X += r.normal(size=nf)[None, :]          # a non-zero mean image
    return X.reshape((n,) + tuple(shape)).astype(np.float32)


def _exact(stack, mask, k):
    X = (stack.astype(np.float64) * (1.0 if mask is None else mask.astype(np.float64))).reshape(stack.shape[0], -1)
    mu = X.mean(axis=0)
    U, S, Vt = np.linalg.svd(X - mu, full_matrices=False)
    return mu, S[:k], Vt[:k], (X - mu) @ Vt[:k].T, S


def run_case(inp):
    import dask
    import dask.array as da
    from acryo.classification import PcaClassifier
    viols = []

    def V(clause, desc):
        viols.append({"clause": clause, "desc": desc, "input": dict(inp)})

    kind = inp["kind"]
    r = np.random.default_rng(inp["seed"])
    if kind in ("exact", "chunks"):
        shape, n, k = tuple(inp["shape"]), int(inp["n"]), int(inp["k"])
        stack = _planted(inp["seed"], n, shape, k + 1, float(inp.get("noise", 0.3)), float(inp.get("contrast", 1.0)))
        if inp.get("offset"):           # raw, un-normalised sub-volumes: a common density offset far above the variation
            stack = (stack / np.abs(stack).max() + np.float32(inp["offset"])).astype(np.float32)
        if inp.get("dtype"):            # raw-count stacks (integer dtypes) are legal input
            stack = np.round((stack - stack.min()) / (stack.max() - stack.min()) * (200 if inp["dtype"] == "uint8" else 3000)).astype(inp["dtype"])
        m = inp["mask"]
        mask = None if m == "none" else ((r.uniform(size=shape) > 0.3).astype(np.float32) if m == "binary"
                                         else r.uniform(0.2, 1.0, size=shape).astype(np.float32))
        mu, S, Vt, P, Sall = _exact(stack, mask, k)
        results = []
        for chunks in inp["chunkings"]:
            try:
                with warnings.catch_warnings():
                    warnings.simplefilter("ignore")
                    with dask.config.set(scheduler=inp.get("scheduler", "synchronous")):
                        clf = PcaClassifier(da.from_array(stack, chunks=tuple(chunks)), mask, n_components=k,
                                            n_clusters=2, seed=0).run()
                        proj = np.asarray(clf.get_transform())
            except Exception as e:  # noqa: BLE001
                V("no-error", f"PcaClassifier raised {type(e).__name__} for chunks {chunks}: {str(e)[:100]}")
                continue
            p = clf.pca
            sv = np.asarray(p.singular_values_, dtype=np.float64)
            comp = np.asarray(p.components_, dtype=np.float64)
            if not (np.abs(sv - S).max() <= 2e-4 * S.max()):
                V("singular-values", f"singular values {sv.tolist()} differ from the exact SVD {S.tolist()} "
                                     f"(n={n}, voxels={int(np.prod(shape))}, chunks {chunks})")
                continue
            if not (np.abs(np.asarray(p.mean_) - mu).max() <= 1e-4 * (1 + np.abs(mu).max())):
                V("mean", "mean_ differs from the column means of the masked stack")
            sign = np.sign(np.sum(comp * Vt, axis=1))
            sign[sign == 0] = 1
            if not (np.abs(comp * sign[:, None] - Vt).max() <= 2e-3):
                V("components", f"components differ from the exact principal axes by "
                                f"{np.abs(comp * sign[:, None] - Vt).max():.3g} (up to sign; chunks {chunks})")
            if not (np.abs(proj * sign[None, :] - P).max() <= 2e-3 * np.abs(P).max()):
                V("projections", f"get_transform() differs from the exact projections by "
                                 f"{np.abs(proj * sign[None, :] - P).max():.3g} (chunks {chunks})")
            # projections of a selection of images: row j belongs to image sel[j], in the requested order (unsorted,
            # cyclic, repeated and single-image selections)
            rs = np.random.default_rng(inp["seed"] + 17)
            sels = [[int(x) for x in rs.permutation(n)[: min(n, 4)]], [int(x) for x in np.roll(np.arange(min(n, 5)), 2)],
                    [n - 1], [0, n - 1, 0] if n > 1 else [0]]
            for sel in sels:
                try:
                    with warnings.catch_warnings():
                        warnings.simplefilter("ignore")
                        with dask.config.set(scheduler=inp.get("scheduler", "synchronous")):
                            got = np.asarray(clf.get_transform(sel))
                except Exception as e:  # noqa: BLE001
                    V("no-error", f"get_transform({sel}) raised {type(e).__name__}: {str(e)[:100]}")
                    continue
                if got.shape != (len(sel), proj.shape[1]) or \
                        not (np.abs(got - proj[sel]).max() <= 1e-4 * (1 + np.abs(proj).max())):
                    V("projections", f"get_transform({sel}) is not get_transform()[{sel}]: rows attributed to other images "
                                     f"(chunks {chunks})")
                    break
            bases = clf.get_bases()
            if tuple(bases.shape) != (k,) + shape or np.abs(bases.reshape(k, -1) - comp).max() > 0:
                V("bases", "get_bases() is not the components reshaped to images")
            results.append((sv, comp * sign[:, None], proj * sign[None, :]))
        for a, b in zip(results, results[1:]):
            if np.abs(a[0] - b[0]).max() > 2e-4 * S.max() or np.abs(a[1] - b[1]).max() > 2e-3 \
                    or np.abs(a[2] - b[2]).max() > 2e-3 * np.abs(P).max():
                V("chunk-independent", "two chunkings of the same stack give different PCA results")
    elif kind == "clusters":
        shape, g, per = tuple(inp["shape"]), int(inp["groups"]), int(inp["per"])
        centres = [r.normal(size=shape) * 4.0 for _ in range(g)]
        order = r.permutation(g * per)
        truth = (np.arange(g * per) % g)[order]
        if inp.get("sizes"):
            # unbalanced groups, clearly separated in a clean 2-D structure: an abundant kind spread over a disk of
            # radius 1, two rare tight kinds 6.5 apart (more than three disk diameters) at distance 40; noise 0.02.
            # (the correct partition is the global k-means optimum by a factor of two; a single k-means++ start misses
            # it in roughly one case out of ten, ten starts practically never)
            sizes = [int(v) for v in inp["sizes"]]
            q, _ = np.linalg.qr(r.normal(size=(int(np.prod(shape)), 2)))
            e1, e2 = q[:, 0].reshape(shape), q[:, 1].reshape(shape)
            truth = r.permutation(np.repeat(np.arange(g), sizes))
            rad = np.sqrt(r.uniform(0, 1, size=len(truth)))
            ang = r.uniform(0, 2 * np.pi, size=len(truth))
            imgs = []
            for t, rr_, aa in zip(truth, rad, ang):
                if t == g - 1:
                    base = rr_ * np.cos(aa) * e1 + rr_ * np.sin(aa) * e2
                else:
                    base = 40.0 * e1 + (t - (g - 2) / 2.0) * 6.5 * e2
                imgs.append(base + 0.02 * r.normal(size=shape))
            stack = np.stack(imgs).astype(np.float32)
            centres = None
        if centres is not None:
            stack = np.stack([centres[t] + 0.3 * r.normal(size=shape) for t in truth]).astype(np.float32)
        try:
            with warnings.catch_warnings():
                warnings.simplefilter("ignore")
                with dask.config.set(scheduler="synchronous"):
                    clf = PcaClassifier(da.from_array(stack, chunks=tuple(inp["chunks"])), None,
                                        n_components=max(2, g - 1), n_clusters=g, seed=int(inp["kseed"])).run()
                    pred = np.asarray(clf.predict(da.from_array(stack, chunks=tuple(inp["chunks"]))))
                    tr = np.asarray(clf.transform(da.from_array(stack, chunks=tuple(inp["chunks"]))))
        except Exception as e:  # noqa: BLE001
            V("no-error", f"{type(e).__name__}: {str(e)[:100]}")
            return viols
        lab = np.asarray(clf.labels)
        if len(lab) != len(truth):
            V("labels", "one label per image expected")
            return viols
        pairs = {(int(t), int(l)) for t, l in zip(truth, lab)}
        if len({l for _, l in pairs}) != g or len(pairs) != g:
            V("clusters", f"{g} clearly separated groups are not assigned to {g} distinct clusters: "
                          f"(group, label) pairs {sorted(pairs)}")
        if not np.array_equal(pred, lab):
            V("predict", "predict() on the training stack differs from labels")
        if not (np.abs(tr - np.asarray(clf.get_transform())).max() <= 1e-4 * (1 + np.abs(tr).max())):
            V("projections", "transform(stack) differs from get_transform()")
        parts = clf.split_clusters()
        if sorted(int(p.shape[0]) for p in parts) != sorted(int((lab == c).sum()) for c in range(g)):
            V("labels", "split_clusters sizes differ from the label counts")
    elif kind == "classify":
        viols += _classify_case(inp)
    return viols


def _classify_case(inp):
    import dask
    import polars as pl
    from scipy.spatial.transform import Rotation
    from acryo import SubtomogramLoader, Molecules
    viols = []

    def V(clause, desc):
        viols.append({"clause": clause, "desc": desc, "input": dict(inp)})

    r = np.random.default_rng(inp["seed"])
    n = int(inp["n"])
    box = 7
    N = 16 + 10 * n
    tomo = 0.05 * r.normal(size=(20, 20, N)).astype(np.float32)
    cls = r.integers(0, 2, size=n)
    cls[0], cls[1] = 0, 1
    zz, yy, xx = np.indices((box, box, box)) - (box - 1) / 2
    A = np.exp(-(zz ** 2 + yy ** 2 + xx ** 2) / 4.0)
    B = np.exp(-((zz - 1.5) ** 2 + yy ** 2 + xx ** 2) / 3.0) + np.exp(-((zz + 1.5) ** 2 + yy ** 2 + xx ** 2) / 3.0)
    order = r.permutation(n)                      # molecule i sits at slot order[i]: table order != spatial order
    pos = np.array([[10.0, 10.0, 8 + 10 * order[i] + 3] for i in range(n)])
    for i in range(n):
        c = pos[i].astype(int)
        sl = tuple(slice(int(c[d]) - 3, int(c[d]) + 4) for d in range(3))
        tomo[sl] += (A if cls[i] == 0 else B).astype(np.float32)
    scale = float(inp["scale"])
    feats = {"tag": np.arange(n), "w": r.normal(size=n)}
    if inp.get("existing"):
        feats[inp["label_name"]] = np.full(n, 7)
    mole = Molecules(pos * scale, Rotation.identity(n), features=feats)
    with warnings.catch_warnings():
        warnings.simplefilter("ignore")
        with dask.config.set(scheduler=inp.get("scheduler", "synchronous")):
            ld = SubtomogramLoader(tomo, mole, order=1, scale=scale, output_shape=(box, box, box))
            before = ld.molecules.to_dataframe()
            try:
                res = ld.classify(mask=None, n_components=2, n_clusters=2, seed=0, label_name=inp["label_name"])
            except Exception as e:  # noqa: BLE001
                V("no-error", f"classify raised {type(e).__name__}: {str(e)[:100]}")
                return viols
    out = res.loader.molecules
    if not before.equals(ld.molecules.to_dataframe()):
        V("source-unchanged", "classify modified the molecules of the loader it was called on")
    if len(out) != n or not np.array_equal(out.pos, mole.pos) or not np.allclose(out.rotator.as_quat(), mole.rotator.as_quat()):
        V("molecules-unchanged", "classify changed positions / rotations / the number of molecules")
        return viols
    f = out.features
    name = inp["label_name"]
    want_cols = list(mole.features.columns) + ([] if inp.get("existing") else [name])
    if list(f.columns) != want_cols:
        V("features-unchanged", f"feature columns {list(f.columns)} != {want_cols}")
        return viols
    for c in mole.features.columns:
        if c != name and not f[c].equals(mole.features[c]):
            V("features-unchanged", f"feature column {c} changed")
    lab = f[name].to_list()
    if len(lab) != n or not all(isinstance(v, int) for v in lab):
        V("labels", "one integer label per molecule expected")
        return viols
    pairs = {(int(c), int(l)) for c, l in zip(cls, lab)}
    if len(pairs) != 2 or len({l for _, l in pairs}) != 2:
        V("label-order", f"labels do not follow the molecules: planted classes {cls.tolist()} (table order), "
                         f"labels {lab}")
    return viols


def oracle(rng, thorough, deep=False, hints=None):
    big = thorough or deep
    cases = []
    confs = [((4, 4, 4), 30, 2), ((9, 9, 9), 40, 3), ((4, 4, 4), 620, 2), ((8, 9, 8), 510, 2), ((5, 4, 3), 12, 4),
             ((3, 3, 3), 28, 1)]
    if big:
        confs += [((10, 10, 10), 700, 3), ((2, 3, 4), 1200, 2), ((6, 6, 6), 217, 5)]
    for i, (shape, n, k) in enumerate(confs):
        chunkings = [[int(rng.integers(1, n + 1))] + list(shape),
                     [int(rng.integers(1, n + 1))] + [int(rng.integers(1, s + 1)) for s in shape],
                     [n] + list(shape)]
        cases.append(dict(kind="exact", shape=list(shape), n=n, k=k, mask=["none", "binary", "soft"][i % 3],
                          chunkings=chunkings, seed=int(rng.integers(0, 10 ** 6)),
                          scheduler=["synchronous", "threads"][i % 2]))
    for i, (dt, m) in enumerate([("int16", "soft"), ("uint8", "soft"), ("float64", "soft"), ("int16", "binary"), ("int16", "positive")][:5 if big else 3]):
        shape, n, k = (5, 4, 6), 24, 2
        cases.append(dict(kind="exact", shape=list(shape), n=n, k=k, mask=m, dtype=dt,
                          chunkings=[[int(rng.integers(1, n + 1))] + list(shape), [n] + list(shape)],
                          seed=int(rng.integers(0, 10 ** 6)), scheduler="synchronous"))
    for i in range(6 if big else 3):
        g = [2, 3, 2, 4][i % 4]
        per = int(rng.integers(4, 9))
        cases.append(dict(kind="clusters", shape=[4, 5, 4], groups=g, per=per, seed=int(rng.integers(0, 10 ** 6)),
                          kseed=int(rng.integers(0, 100)), chunks=[int(rng.integers(1, g * per + 1)), 4, 5, int(rng.integers(1, 5))]))
    for i in range(3 if big else 2):
        shape, n, k = [(6, 7, 8), (5, 5, 6), (4, 6, 5)][i % 3], [30, 24, 40][i % 3], 3
        cases.append(dict(kind="exact", shape=list(shape), n=n, k=k, mask=["soft", "none", "binary"][i % 3], offset=[1000.0, 300.0, 2000.0][i % 3],
                          chunkings=[[int(rng.integers(5, n + 1))] + list(shape), [n] + list(shape)],
                          seed=int(rng.integers(0, 10 ** 6)), scheduler="synchronous"))
    # tiny boxes, many images, one dominating component (first singular value a thousand times the second), float32 data
    for i in range(4 if big else 2):
        shape, n, k = [(2, 3, 2), (2, 2, 3), (3, 2, 2), (2, 3, 3)][i % 4], [150, 200, 240, 300][i % 4], 2
        cases.append(dict(kind="exact", shape=list(shape), n=n, k=k, mask="none", contrast=[1000.0, 3000.0][i % 2], noise=0.05,
                          chunkings=[[int(rng.integers(20, n + 1))] + list(shape), [n] + list(shape)],
                          seed=int(rng.integers(0, 10 ** 6)), scheduler="synchronous"))
    for i in range(40 if big else 8):
        cases.append(dict(kind="clusters", shape=[4, 5, 4], groups=3, per=0, sizes=[4, 4, [110, 60][i % 2]], seed=int(rng.integers(0, 10 ** 6)),
                          kseed=int(rng.integers(0, 1000)) if i else 0, chunks=[int(rng.integers(20, 119)), 4, 5, 4]))
    for i in range(4 if big else 2):
        cases.append(dict(kind="classify", n=int(rng.integers(6, 11)), scale=float(rng.choice([1.0, 0.5])),
                          seed=int(rng.integers(0, 10 ** 6)), label_name=["cluster", "my-class"][i % 2],
                          existing=bool(i == 3), scheduler=["synchronous", "threads"][i % 2]))
    viols, stats = [], {"by_kind": {}, "samples": [{"oracle_case": c} for c in cases[:2]]}
    for c in cases:
        stats["by_kind"][c["kind"]] = stats["by_kind"].get(c["kind"], 0) + 1
        viols += run_case(c)
    return len(cases), viols, stats


def replay(payload):
    v = run_case(dict(payload["input"]))
    return {"violated": bool(v), "violations": v}
