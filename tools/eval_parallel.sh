#!/bin/bash
# eval_parallel.sh <lanes> [ids...] : evaluate kept seeds in <lanes> parallel lanes. Each lane owns a copy of /verif
# (with its own Lean build directory) and a scratch worktree of /repo HEAD; the checks of a lane run with
# ACRYO_REPO / PYTHONPATH pointing at the lane's worktree, so /repo itself is never touched. Results
# (seeded/<id>/meta.json -> detection) are copied back. Lanes live under /tmp and are removed afterwards.
L=$1; shift
IDS=("$@"); [ ${#IDS[@]} -eq 0 ] && IDS=($(ls /verif/seeded | sort))
for k in $(seq 1 $L); do
  rm -rf /tmp/vlane_$k; mkdir -p /tmp/vlane_$k
  rsync -a --exclude .git --exclude replays --exclude .run /verif/ /tmp/vlane_$k/
  git -C /repo worktree remove --force /tmp/rlane_$k 2>/dev/null
  git -C /repo worktree add -q --detach /tmp/rlane_$k HEAD || exit 2
done
i=0
for k in $(seq 1 $L); do : > /tmp/lane_$k.ids; done
for id in "${IDS[@]}"; do k=$(( i % L + 1 )); echo $id >> /tmp/lane_$k.ids; i=$((i+1)); done
for k in $(seq 1 $L); do
  ( cd /tmp/vlane_$k && ACRYO_REPO=/tmp/rlane_$k PYTHONPATH=/tmp/rlane_$k EVAL_REPO=/tmp/rlane_$k EVAL_VERIF=/tmp/vlane_$k \
      /venv/bin/python tools/eval_seeds.py $(cat /tmp/lane_$k.ids) > /tmp/lane_$k.log 2>&1 ) &
done
wait
for k in $(seq 1 $L); do
  for id in $(cat /tmp/lane_$k.ids); do cp /tmp/vlane_$k/seeded/$id/meta.json /verif/seeded/$id/meta.json; done
  cat /tmp/lane_$k.log
  git -C /repo worktree remove --force /tmp/rlane_$k; rm -rf /tmp/vlane_$k
done
