#!/bin/bash
# collect_seed7.sh <prop> : round-7 deliverable of /tmp/wt7_<prop> -> /tmp/seeds/<prop>/{patch,demo,meta}_13; confirm in background
P=$1
mkdir -p /tmp/seeds/$P
cp /tmp/wt7_$P/patch_1.diff /tmp/seeds/$P/patch_13.diff; cp /tmp/wt7_$P/demo_1.py /tmp/seeds/$P/demo_13.py; cp /tmp/wt7_$P/meta_1.json /tmp/seeds/$P/meta_13.json
git -C /repo worktree remove --force /tmp/wt7_$P
(bash /verif/tools/confirm_seed.sh $P 13 > /tmp/confirm_${P}_13.log 2>&1 &)
