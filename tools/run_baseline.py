#!/venv/bin/python
"""Run the repository's pinned test suite (guard off) and compare with /root/.vp/BASELINE.json."""
import json, os, subprocess, sys, tempfile, xml.etree.ElementTree as ET
env = dict(os.environ)
env.pop("ACRYO_VERIF", None)
base = json.load(open("/root/.vp/BASELINE.json"))
with tempfile.TemporaryDirectory() as d:
    x = os.path.join(d, "j.xml")
    subprocess.run(["/venv/bin/python", "-m", "pytest", "-ra", "-q", "-p", "no:cacheprovider",
                    "--timeout=900", "--continue-on-collection-errors", f"--junitxml={x}"] + sys.argv[1:],
                   cwd="/repo", env=env, stdout=subprocess.DEVNULL, stderr=subprocess.DEVNULL)
    passed = set()
    for tc in ET.parse(x).getroot().iter("testcase"):
        if not any(ch.tag in ("failure", "error", "skipped") for ch in tc):
            passed.add(f"{tc.get('classname')}::{tc.get('name')}")
missing = [t for t in base["stable_pass"] if t not in passed]
print(f"baseline: {len(base['stable_pass']) - len(missing)}/{len(base['stable_pass'])} stable tests pass; "
      f"extra passing: {sorted(passed - set(base['stable_pass']))}")
for m in missing:
    print("  MISSING", m)
sys.exit(1 if missing else 0)
