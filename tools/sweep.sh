#!/bin/bash
# sweep.sh <tier> <seed>... : run every registered check with the given seeds; print non-passing runs
tier=$1; shift
for sd in "$@"; do
  for p in C01 C02 C03 C04 C05 C06 C07 C08 C09 C10 C11 C12 C13 C14 C15 C16 C17 C18 C19 C20; do
    out=$(VERIF_SEED=$sd /verif/check $p --tier $tier 2>&1); rc=$?
    if [ $rc -ne 0 ]; then echo "== $p seed=$sd tier=$tier rc=$rc"; echo "$out" | tail -6 | cut -c1-300; fi
  done
  echo "seed $sd done"
done
