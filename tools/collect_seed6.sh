#!/bin/bash
# collect_seed3.sh <prop> : round-6 deliverables of /tmp/wt6_<prop> -> /tmp/seeds/<prop>/{patch,demo,meta}_{11,12}; confirm in background
P=$1
mkdir -p /tmp/seeds/$P
for i in 1 2; do j=$((i+10)); cp /tmp/wt6_$P/patch_$i.diff /tmp/seeds/$P/patch_$j.diff; cp /tmp/wt6_$P/demo_$i.py /tmp/seeds/$P/demo_$j.py; cp /tmp/wt6_$P/meta_$i.json /tmp/seeds/$P/meta_$j.json; done
git -C /repo worktree remove --force /tmp/wt6_$P
for j in 11 12; do (bash /verif/tools/confirm_seed.sh $P $j > /tmp/confirm_${P}_$j.log 2>&1 &); done
