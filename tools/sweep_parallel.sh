#!/bin/bash
# sweep_parallel.sh <tier> <seed>... : one lane (copy of /verif) per seed, all 20 checks on the unchanged /repo.
# With VERIF_FORCE_DEEP=1 the oracles run in their deep (tie-broken) mode: false failing inputs of the deep search
# would show here. Prints every run that does not exit 0.
tier=$1; shift
for sd in "$@"; do
  rm -rf /tmp/slane_$sd; mkdir -p /tmp/slane_$sd
  rsync -a --exclude .git --exclude replays --exclude .run /verif/ /tmp/slane_$sd/
  ( cd /tmp/slane_$sd
    for p in C01 C02 C03 C04 C05 C06 C07 C08 C09 C10 C11 C12 C13 C14 C15 C16 C17 C18 C19 C20; do
      out=$(VERIF_SEED=$sd ./check $p --tier $tier 2>&1); rc=$?
      if [ $rc -ne 0 ]; then echo "== $p seed=$sd tier=$tier rc=$rc"; echo "$out" | tail -6 | cut -c1-300; fi
    done; echo "seed $sd done" ) > /tmp/slane_$sd.log 2>&1 &
done
wait
for sd in "$@"; do cat /tmp/slane_$sd.log; rm -rf /tmp/slane_$sd; done
