#!/bin/bash
# confirm_seed.sh <prop> <i> : confirm a seeded change in a scratch worktree of /repo HEAD.
# Checks: patch applies; demo FAILS with the patch; demo PASSES without; test suite passes with the patch.
# Writes /tmp/seeds/<prop>/confirm_<i>.json
set -u
P=$1; I=$2
SD=/tmp/seeds/$P
WT=/tmp/confirm_${P}_${I}
git -C /repo worktree add -q --detach $WT HEAD || exit 2
cd $WT
cp $SD/demo_$I.py $WT/
res_apply=ok
git apply $SD/patch_$I.diff || res_apply=fail
PYTHONPATH=$WT timeout 900 /venv/bin/python demo_$I.py > $SD/demo_${I}_mut.log 2>&1; rc_mut=$?
PYTHONPATH=$WT timeout 3000 /venv/bin/python -m pytest -q -p no:cacheprovider --timeout=900 --deselect tests/test_molecules.py::test_axes_to_rotator_invert > $SD/tests_${I}.log 2>&1; rc_tests=$?
git checkout -q -- acryo
PYTHONPATH=$WT timeout 900 /venv/bin/python demo_$I.py > $SD/demo_${I}_clean.log 2>&1; rc_clean=$?
tsum=$(tail -1 $SD/tests_${I}.log)
echo "{\"prop\":\"$P\",\"i\":$I,\"apply\":\"$res_apply\",\"demo_with_patch_rc\":$rc_mut,\"demo_clean_rc\":$rc_clean,\"tests_rc\":$rc_tests,\"tests_summary\":\"$tsum\",\"head\":\"$(git -C /repo rev-parse --short HEAD)\"}" > $SD/confirm_$I.json
cd /
git -C /repo worktree remove --force $WT
cat $SD/confirm_$I.json
