#!/bin/bash
# try_seed.sh <prop> <patchfile> [tier]: apply a seeded change to /repo, run the check, undo it.
P=$1; PATCH=$2; TIER=${3:-quick}
cd /repo || exit 2
if ! git diff --quiet; then echo "repo dirty"; exit 2; fi
git apply "$PATCH" || { echo "patch does not apply"; exit 2; }
cd /verif && ./check $P --tier $TIER 2>&1 | tail -8
cd /repo && git checkout -- . && git status --short | head -3
# the generated kernels were re-translated from the mutated source: restore the committed (clean-tree) text
git -C /verif checkout -- lean/AcryoVerif/Gen evidence
