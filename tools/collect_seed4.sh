#!/bin/bash
# collect_seed3.sh <prop> : round-4 deliverables of /tmp/wt4_<prop> -> /tmp/seeds/<prop>/{patch,demo,meta}_{7,8}; confirm in background
P=$1
mkdir -p /tmp/seeds/$P
for i in 1 2; do j=$((i+6)); cp /tmp/wt4_$P/patch_$i.diff /tmp/seeds/$P/patch_$j.diff; cp /tmp/wt4_$P/demo_$i.py /tmp/seeds/$P/demo_$j.py; cp /tmp/wt4_$P/meta_$i.json /tmp/seeds/$P/meta_$j.json; done
git -C /repo worktree remove --force /tmp/wt4_$P
for j in 7 8; do (bash /verif/tools/confirm_seed.sh $P $j > /tmp/confirm_${P}_$j.log 2>&1 &); done
