#!/bin/bash
# collect_seed2.sh <prop> : move round-2 deliverables of /tmp/wt2_<prop> to /tmp/seeds/<prop>/{patch,demo,meta}_{3,4}, drop the worktree,
# and confirm both in scratch worktrees (background).
P=$1
mkdir -p /tmp/seeds/$P
for i in 1 2; do j=$((i+2)); cp /tmp/wt2_$P/patch_$i.diff /tmp/seeds/$P/patch_$j.diff; cp /tmp/wt2_$P/demo_$i.py /tmp/seeds/$P/demo_$j.py; cp /tmp/wt2_$P/meta_$i.json /tmp/seeds/$P/meta_$j.json; done
git -C /repo worktree remove --force /tmp/wt2_$P
for j in 3 4; do (bash /verif/tools/confirm_seed.sh $P $j > /tmp/confirm_${P}_$j.log 2>&1 &); done
