#!/venv/bin/python
"""Run the property's check against every kept seeded change (apply to /repo, check, undo) and
record the outcome in seeded/<id>/meta.json. Usage: eval_seeds.py [ids...]"""
import json, os, re, subprocess, sys
REPO = os.environ.get("EVAL_REPO", "/repo")
VERIF = os.environ.get("EVAL_VERIF", "/verif")
root = os.path.join(VERIF, "seeded")
ids = sys.argv[1:] or sorted(os.listdir(root))
for sid in ids:
    d = os.path.join(root, sid)
    meta = json.load(open(os.path.join(d, "meta.json")))
    prop = meta["property"]
    if subprocess.run(["git", "-C", REPO, "diff", "--quiet"]).returncode != 0:
        sys.exit("repo dirty")
    ap = subprocess.run(["git", "-C", REPO, "apply", os.path.join(d, "patch.diff")], capture_output=True, text=True)
    if ap.returncode != 0:
        meta["detection"] = {"error": "patch does not apply to current /repo HEAD: " + ap.stderr[:200]}
        json.dump(meta, open(os.path.join(d, "meta.json"), "w"), indent=1)
        print(sid, "PATCH DOES NOT APPLY")
        continue
    res = {}
    ev_path = os.path.join(VERIF, "evidence", prop + ".json")
    ev_saved = open(ev_path).read() if os.path.exists(ev_path) else None   # evidence belongs to the unchanged tree
    try:
        for tier in ("quick", "thorough"):
            p = subprocess.run(["./check", prop, "--tier", tier], cwd=VERIF, capture_output=True, text=True)
            out = p.stdout
            vl = [l for l in out.split("\n") if l.startswith("VIOLATION")]
            summ = [l for l in out.split("\n") if l.startswith(f"[{prop}]")]
            res[tier] = {"exit": p.returncode, "violation_line": vl[0] if vl else None,
                         "summary": summ[0] if summ else None,
                         "first_findings": [l.strip() for l in out.split("\n") if l.startswith("  ")][:4]}
            if p.returncode == 1:
                break
    finally:
        subprocess.run(["git", "-C", REPO, "checkout", "--", "."])
        if ev_saved is not None:
            open(ev_path, "w").write(ev_saved)
    det = any(v["exit"] == 1 for v in res.values())
    with_input = any(v["exit"] == 1 and v["violation_line"] and "no-failing-input-found" not in v["violation_line"] for v in res.values())
    meta["detection"] = {"check": f"./check {prop}", "detected": det, "with_failing_input": with_input, "runs": res,
                         "repo_head": subprocess.check_output(["git", "-C", REPO, "rev-parse", "--short", "HEAD"], text=True).strip()}
    json.dump(meta, open(os.path.join(d, "meta.json"), "w"), indent=1)
    print(sid, "detected" if det else "MISSED", "(failing input)" if with_input else "")
