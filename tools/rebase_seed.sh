#!/bin/bash
# rebase_seed.sh <prop>-<i> : re-create a kept seed's patch against /repo HEAD with a 3-way apply in a scratch
# worktree, then re-confirm it (demo fails with / passes without, suite passes). Conflicts are reported, not resolved.
ID=$1; P=${ID%-*}; I=${ID#*-}
WT=/tmp/rebase_$ID
git -C /repo worktree add -q --detach $WT HEAD || exit 2
cd $WT
if git apply --3way /verif/seeded/$ID/patch.diff > /tmp/rebase_$ID.log 2>&1 && ! git diff --name-only --diff-filter=U | grep -q .; then
  git diff HEAD -- acryo > /tmp/rebase_$ID.diff
  cd /; git -C /repo worktree remove --force $WT
  mkdir -p /tmp/seeds/$P
  cp /tmp/rebase_$ID.diff /tmp/seeds/$P/patch_$I.diff
  cp /verif/seeded/$ID/demo.py /tmp/seeds/$P/demo_$I.py
  [ -f /tmp/seeds/$P/meta_$I.json ] || cp /verif/seeded/$ID/meta.json /tmp/seeds/$P/meta_$I.json
  bash /verif/tools/confirm_seed.sh $P $I > /tmp/confirm_${P}_$I.log 2>&1
  tail -n 1 /tmp/confirm_${P}_$I.log
else
  echo "CONFLICT $ID"; cat /tmp/rebase_$ID.log | tail -5
  cd /; git -C /repo worktree remove --force $WT
fi
