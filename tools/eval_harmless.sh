#!/bin/bash
# eval_harmless.sh <lanes> <patch.diff>... : apply each behaviour-preserving patch in a lane (copy of /verif + scratch
# worktree of /repo HEAD), run the quick tier of all 20 checks, record exit codes / VIOLATION lines in
# /tmp/harmless_results/<name>.txt. Measures false alarms; nothing in /repo or /verif is modified.
L=$1; shift
PATCHES=("$@")
mkdir -p /tmp/harmless_results
for k in $(seq 1 $L); do
  rm -rf /tmp/hlane_$k; mkdir -p /tmp/hlane_$k
  rsync -a --exclude .git --exclude replays --exclude .run /verif/ /tmp/hlane_$k/
  git -C /repo worktree remove --force /tmp/hrlane_$k 2>/dev/null
  git -C /repo worktree add -q --detach /tmp/hrlane_$k HEAD || exit 2
  : > /tmp/hlane_$k.list
done
i=0
for p in "${PATCHES[@]}"; do k=$(( i % L + 1 )); echo $p >> /tmp/hlane_$k.list; i=$((i+1)); done
for k in $(seq 1 $L); do
  ( cd /tmp/hlane_$k
    for p in $(cat /tmp/hlane_$k.list); do
      name=$(basename $p .diff); out=/tmp/harmless_results/$name.txt; : > $out
      if ! git -C /tmp/hrlane_$k apply $p; then echo "PATCH-DOES-NOT-APPLY" > $out; continue; fi
      for c in C01 C02 C03 C04 C05 C06 C07 C08 C09 C10 C11 C12 C13 C14 C15 C16 C17 C18 C19 C20; do
        o=$(ACRYO_REPO=/tmp/hrlane_$k PYTHONPATH=/tmp/hrlane_$k VERIF_SEED=1 ./check $c 2>&1); rc=$?
        echo "$c rc=$rc $(echo "$o" | grep -E '^VIOLATION|proof side broken|K2 disagreement|K1 disagreement|  violation' | head -3 | tr '\n' ' ' | cut -c1-400)" >> $out
      done
      git -C /tmp/hrlane_$k checkout -- .
    done ) &
done
wait
for k in $(seq 1 $L); do git -C /repo worktree remove --force /tmp/hrlane_$k; rm -rf /tmp/hlane_$k; done
grep -H -v "rc=0" /tmp/harmless_results/*.txt
