#!/venv/bin/python
"""Write /verif/MANIFEST.json from the table below (kept valid at all times)."""
import json
import os

VERIF = os.path.dirname(os.path.dirname(os.path.abspath(__file__)))

NOTE = ("Trusted base: Lean 4.33 kernel (+ leanchecker in the thorough tier); axioms limited to "
        "propext / Classical.choice / Quot.sound, audited per theorem on every run; no sorry, "
        "native_decide, bv_decide or own axioms. Tie to /repo: scalar kernels are regenerated from "
        "the source by translator/py2lean.py on every run (K1, self-checked against CPython), "
        "array/state-level models are hand-written and compared with the real implementation on "
        "seeded structured inputs through the line-protocol driver (K2). numpy/scipy/dask/polars "
        "primitives, floating point and interpolation are modelled, not verified.")

CHECKS = {
    "C02": dict(
        text="Machine-checked theorems (all inputs) about the regenerated kernels of "
             "make_slice_and_pad / prepare_affine / prepare_affine_cornersafe: slice inside [0,N), "
             "non-empty, length preserved, out-of-bound error iff no overlap, coordinate rule "
             "c + R(k-(n-1)/2) independent of the window origin, window margins that cover the "
             "interpolation support (order>=1; order 0 partial). scipy interpolation is a parameter; "
             "loader.load is replayed against whole-tomogram interpolation.",
        design="5 C02", technique="Lean 4 proof over generated kernels + differential correspondence"),
}

CHECKS["C06"] = dict(
    text="Theorems for all T,K>=1, j<T, k<K: np.argmax model returns a global maximiser; the flat "
         "candidate index (loop order read from the source) decodes to rotation k and label j through "
         "Model.align, loader.align_multi_templates and LoaderGroup.align_multi_templates; uint8 label "
         "range; (max, step) rotation ranges contain the identity. The per-candidate optimiser is a "
         "parameter; a stub model with prescribed scores drives the real entry points.",
    design="5 C06", technique="Lean 4 proof over generated decode kernels + stub-model correspondence")
CHECKS["C08"] = dict(
    text="Theorems for every box shape (odd/even/non-cubic), every matrix R and every pair of plane "
         "normals: the three index grids equal fftfreq(n)*n; each mask entry point keeps bin i iff "
         "(n0.R f_i)(n1.R f_i) <= 0; DC kept; k -> -k symmetry off Nyquist; tilt-model selection and "
         "range validation. cos/sin of the tilt angles are inputs (trusted).",
    design="5 C08", technique="Lean 4 proof over generated grid/scaling kernels + bin-wise mask correspondence")
CHECKS["C16"] = dict(
    text="Theorems for every axis length d>=1: Butterworth grid = (fftfreq/cutoff)^2, gain formula, "
         "weight(0)=1, Hermitian symmetry at all bins, weight in (0,1], half-spectrum limit, output "
         "shape = input shape, exact identity guard, both copies identical; the lru_cached weight is never "
         "written to and a memo table answers every call history with the weight itself. FFTs are parameters.",
    design="5 C16", technique="Lean 4 proof over generated Butterworth kernels + weight/shape correspondence")

CHECKS["C05"] = dict(
    text="Theorems for every max_shifts m >= 0 (on or off the 1/20 grid), every box and peak: pad width "
         ">= 2 and cropped side 2*int(m)+1; refinement mesh non-empty; every node s+j/20 in [-m,m]; "
         "returned shift is a node; nodes inside the un-cropped response; FSC landscape geometry; PCC "
         "first crop and refinement slice non-empty, in bounds, refined shift in [-m,m]. "
         "Finite-score clause for degenerate FSC input is a recorded finding.",
    design="5 C05", technique="Lean 4 proof over generated mesh/crop kernels + differential correspondence")
CHECKS["C04"] = dict(
    text="PARTIAL proof: index<->displacement bookkeeping, cumulative-sum window sums, integer "
         "displacement = global maximum with response 1 (Cauchy-Schwarz over Mathlib Finset sums), mesh "
         "resolution < 1/20 px, PCC grid spacing 1/u are theorems for all inputs; the 0.1 px / 0.5 px "
         "accuracy for fractional displacements depends on scipy's spline/matrix-DFT numerics and is "
         "only tested on the real code (labelled a test).",
    design="5 C04", technique="Lean 4 proof (partial) + exact rational landscape model vs real landscape")

CHECKS["C07"] = dict(
    text="Theorems over arbitrary voxel sets (Mathlib Finset sums): ZNCC/NCC num^2 <= den^2, self score "
         "1, gain/offset invariance (gain only under a mask), ZNCC = Pearson, landscape centre = zncc, "
         "zero-range alignment samples that entry, PCC landscape/alignment lag agreement. Structure of "
         "ncc/zncc/_score/fsc and of the mask -> pre-transform -> wedge chain is read from the AST. FFTs "
         "and sqrt are parameters; real scores compared with the exact (num, den2) model.",
    design="5 C07", technique="Lean 4 proof (Cauchy-Schwarz) + structural AST facts + score correspondence")

CHECKS["C09"] = dict(
    text="Theorems: mean of a concatenation = count-weighted mean (any number of parts); for every "
         "n >= 2 and every draw list (with repetition) the two split masks are disjoint, exhaustive and "
         "both non-empty; count-weighted mean of half averages = full average; determinism in the draw "
         "stream; squeeze rule. Array level (C09Array): Model.averageSplit (one generator, n_set consecutive "
         "splits, set-major pairs of half maps) pairs the complementary halves of the SAME split in every entry "
         "and the halves recombine to the full average voxel by voxel, for every stack, n_set and draw stream. "
         "The random generator and dask are parameters; the splitter's structure is read from the AST and driven "
         "with a stub generator; the real average_split of a real loader is run with a prescribed draw stream "
         "and compared with the model (K2 m:avgsplit).",
    design="5 C09", technique="Lean 4 proof over list and stack models of the split + stub-generator correspondence through the real average_split")

CHECKS["C17"] = dict(
    text="Theorems (any shell, any spectra; Mathlib Finset sums): num^2 <= sum|F1|^2 sum|F2|^2, symmetry, "
         "invariance under positive rescaling, self correlation 1, label <-> half-open shell of the "
         "requested width, shell mid-point frequencies, default width, loader halves disjoint / "
         "exhaustive / non-empty (via C09). FFT and sum_labels are parameters: the model's exact shell "
         "labels are used to recompute the FSC and compared with the real function.",
    design="5 C17", technique="Lean 4 proof (Cauchy-Schwarz per shell) + exact shell-label model correspondence")

CHECKS["C15"] = dict(
    text="Theorems for every b >= 1 and axis length: block structure of bin_image (s//b outputs, "
         "remainder < b dropped), scale * b, translated molecule read at the new scale maps back to the "
         "same original pixel coordinate, voxel k of a binned box = b-block K = b*k+j of the b-times larger "
         "original box; single and batch loaders use identical arithmetic; binning by a then b = binning by a*b "
         "(voxels, lengths, translations, scales) and mass is conserved over the kept voxels. Array level: the "
         "executable list model of one axis (Model.binList) meets the block-sum specification for every list, "
         "and every history of binnings equals one binning by the product (binHist_eq), every length. Block-sum "
         "model compared voxel by voxel with bin_image (numpy, dask incl. irregular chunks, mixed batches); "
         "binning histories of one axis are run through the real bin_image (K2 m:binaxis).",
    design="5 C15", technique="Lean 4 proof over generated binning kernels and an executable list model of bin_image + block-sum / binning-history correspondence")

CHECKS["C12"] = dict(
    text="Theorems over generic row types: zip/unzip round trip; every data-frame operation yields f(rows) "
         "with equal container lengths; head/tail/filter sublists, sort a permutation; slice / mask / int / "
         "index-list subset of the three parallel containers selects whole rows and rejects bad indices; "
         "concat appends rows; group_by partitions (distinct keys, homogeneous groups, permutation); length "
         "invariant over every finite history. numpy/polars row primitives are parameters; histories on "
         "real Molecules compared with the model.",
    design="5 C12", technique="Lean 4 proof (invariant by induction over histories) + history correspondence")

CHECKS["C13"] = dict(
    text="Theorems: to_file / from_file choose the same format for every suffix string (Parquet iff "
         ".pq/.parquet); written columns are z,y,x,zvec,yvec,xvec then the features; colliding names are "
         "rejected; from_dataframe(to_dataframe(t)) returns the same coordinate and feature columns for any "
         "row count. polars readers/writers and float32 rotation vectors are parameters, exercised by real "
         "file round trips.",
    design="5 C13", technique="Lean 4 proof over a named-column frame model + real file round-trip correspondence")

CHECKS["C01"] = dict(
    text="Theorems over Mathlib matrices (every position, shift, scale, orthogonal R, every Q): "
         "sampling-map composition; the true pose of an alignment result (d,Q) is (p + sigma R d, R Q); "
         "linear_transform as written in the source and _post_align produce exactly that pose; displacement "
         "in the molecule frame = sigma d; pixel/nm conversion. That the optimiser returns the right (d,Q) is "
         "C04/C06. scipy Rotation composition rules are parameters, sampled with rational rotations.",
    design="5 C01", technique="Lean 4 proof (matrix algebra) + executable pose model correspondence")

CHECKS["C11"] = dict(
    text="Theorems for every proper rotation over Q (Mathlib matrices, 3x3 adjugate): axes are the columns "
         "of R, orthonormal and right-handed in z,y,x order; world rotations compose on the left, internal "
         "ones on the right, translations add (world) / add R d (internal); from_axes from (z,y), (y,x), (z,x) "
         "reads back the same axes for every orthonormal pair with no case distinction; translate_euler is an "
         "involution; affine_matrix maps src to dst; local_coordinates = p/sigma + R(k-(shape-1)/2). scipy's "
         "representation conversions are parameters (sampled incl. degenerate/mixed batches).",
    design="5 C11", technique="Lean 4 proof (matrix algebra, adjugate) + executable rigid-motion model correspondence")

CHECKS["C03"] = dict(
    text="Theorems: scattering each image group's tasks back to flatnonzero(ids == key) puts the task of "
         "molecule i at slot i for EVERY arrangement of image ids (interleaved or not), while plain per-image "
         "concatenation is only a permutation; zip pairs task i with keyword row i; replace keeps exactly the "
         "referenced images; auto-allocated image ids are fresh; derived loaders / groups are the table "
         "operations of C12. Image table as a state machine (Model.Batch): after EVERY history of add_tomogram "
         "(automatic or new explicit id) / filter / add_loader(batch or self-copy) the ids are unique and the "
         "image found under each molecule's id is the tomogram it was registered with (history_lookup_own, "
         "induction over the operation list; fresh-id search proved total by pigeonhole); a merge neither loses nor "
         "duplicates a molecule and a filter keeps a sublist. polars/numpy/dask "
         "primitives are parameters; histories on a real BatchLoader with source-identifying tomograms are "
         "compared with both models (K2 m:batch, m:imgtab).",
    design="5 C03", technique="Lean 4 proof (scatter correctness for all key sequences; image-table invariant by induction over operation histories) + history correspondence")

CHECKS["C14"] = dict(
    text="Theorems (every template size, position incl. negative, scale): fragment origin + output centre = "
         "pos/scale, so the template centre lands on the molecule position for odd AND even sizes; "
         "grid-coincident poses reduce to an exact paste at pos-(n-1)/2; clipped source/destination slices "
         "have equal length inside the volume and non-overlapping fragments are skipped; the summed volume is "
         "independent of the order and partition of fragments; simulate_2d's temporary volume is tall enough "
         "and every molecule is projected. scipy affine_transform and numpy slicing are parameters; real "
         "simulations are compared with exact pastes / projections / loader round trips.",
    design="5 C14", technique="Lean 4 proof over the translated index arithmetic + _prep_iterators correspondence")

CHECKS["C18"] = dict(
    text="Theorems: for every (n_samples, n_features, n_components) the solver PcaClassifier configures is "
         "full/tsqr, never randomized, accepted iff 0 <= n_components <= min(shape); flattening is a bijection; "
         "row count, column sums and Gram matrix (hence mean, centred Gram, axes, singular values) agree for "
         "every chunking and reduction order; the stacked R factors of per-chunk QR have the data's Gram matrix "
         "(tall-skinny QR exact for every chunking, Mathlib matrices); Vt rows of an SVD are eigenvectors of the "
         "Gram matrix with eigenvalues s^2, projections are U S, signs are free; projections are row-wise in "
         "stack order; the label column holds labels[i] in row i, every other column untouched. LAPACK/dask SVD "
         "accuracy and scikit-learn k-means are parameters, sampled against numpy's exact SVD and planted "
         "clusters.",
    design="5 C18", technique="Lean 4 proof (solver decision logic, chunk-free statistics, tsqr/SVD matrix algebra) + exact-Gram correspondence")

CHECKS["C19"] = dict(
    text="Theorems: every lambda body of the operator methods (translated from _classes.py) is the voxel "
         "operation it stands for, incl. reflected s-p, s/p and mirrored comparisons; for EVERY pipeline "
         "expression of any depth the object built through the operator methods evaluates to nested function "
         "application with voxel-wise operators (mutual induction over expressions); @ is composition and "
         "associative; curried functions equal the underlying function; every nm parameter enters only as "
         "parameter/scale so common rescaling changes nothing; rescaling providers keep the image iff "
         "|orig/scale-1| < tol; Gaussian exponent centred at (n-1)/2+shift/scale, symmetric, decreasing; "
         "ball contains its centre; dilation/closing extensive, erosion/opening anti-extensive; smoothed masks "
         "in (0,1]. scipy.ndimage resampling / morphology primitives are parameters, sampled on real converters.",
    design="5 C19", technique="Lean 4 proof (refinement of the operator methods to a denotational semantics by induction over expressions) + expression-tree correspondence")

CHECKS["C20"] = dict(
    text="Theorems: for EVERY chunking (any number and sizes of chunks, also smaller than the depth or empty) "
         "and depth, each position inside the image is kept by exactly one block of the overlapped block-wise "
         "picking and positions in the outside padding by none; the kept local position is reported at the "
         "original pixel position times scale; with a detector that is right inside block cores the concatenated "
         "result lists every particle exactly once and nothing else; a numpy image is the one-chunk case; the "
         "overlap depths cover the pickers' exclusion radii (LoG/DoG, template matching with odd and even "
         "templates); the max-filter footprint contains its centre and stays within the radius; rotation lookup "
         "by argmax index. Filter responses of planted particles being local maxima is a parameter, sampled with "
         "the three real pickers over chunkings, scales and dtypes.",
    design="5 C20", technique="Lean 4 proof (chunk-core partition for all chunk lists, exactly-once theorem) + stub-detector correspondence through the real pick_molecules")

CHECKS["C10"] = dict(
    text="Theorems: for every number of threads and EVERY schedule of TemplateMaskCache.get (statement "
         "granularity; Backend keys compared by wrapped module, cache filled at construction) no thread "
         "raises, the dict never changes and every get returns the stored value (invariant by induction over "
         "the schedule); pure tasks stored by index are order-free; batch tasks in molecule order; up-sampled "
         "landscape mesh size and containment. Model schedules are replayed on the real class with a "
         "deterministic sys.monitoring bytecode scheduler. Preemption inside C extensions and dask's own "
         "scheduler internals cannot be exhibited by the model (partial).",
    design="5 C10", technique="Lean 4 proof (invariant over all schedules) + deterministic schedule replay")

NOT_YET = {}


def main():
    props = [json.loads(l) for l in open(os.path.join(VERIF, "properties.jsonl"))]
    checks = []
    for p in props:
        pid = p["id"]
        if pid not in CHECKS:
            continue
        c = CHECKS[pid]
        checks.append({
            "property_id": pid,
            "quick_cmd": f"./check {pid} --tier quick",
            "thorough_cmd": f"./check {pid} --tier thorough",
            "evidence_file": f"evidence/{pid}.json",
            "replay_cmd_template": f"./check {pid} --replay {{path}}",
            "engine": "lean-acryoverif",
            "level_claimed": {"category": "proof", "text": c["text"], "design_ref": c["design"]},
            "level_note": c.get("note", NOTE),
            "technique": c["technique"],
        })
    na = [{"property_id": p["id"],
           "reason": NOT_YET.get(p["id"], "check not built yet in this round (planned: DESIGN.md section 5)")}
          for p in props if p["id"] not in CHECKS]
    man = {
        "version": 1,
        "setup_cmd": "./setup.sh",
        "hooks": {
            "guard": "ACRYO_VERIF",
            "enable": "no source hooks are needed; checks import acryo from /repo's working tree "
                      "(editable install) and set ACRYO_VERIF=1 only as a marker",
            "baseline_off_cmd": "cd /repo && /venv/bin/python -m pytest -ra -q -p no:cacheprovider "
                                "--timeout=900 --continue-on-collection-errors",
            "source_commits": [],
            "add_only": True,
        },
        "engines": [
            {"name": "lean-acryoverif", "path": "lean/", "serves_properties": sorted(CHECKS),
             "kind_free_text": "Lean 4 library: Python-semantics prelude, generated kernels (Gen/), "
                               "hand-written models (Model/), property theorems (Props/)"},
            {"name": "py2lean", "path": "translator/", "serves_properties": sorted(CHECKS),
             "kind_free_text": "AST translator from a whitelisted Python subset to Lean definitions"},
            {"name": "corr-harness", "path": "harness/", "serves_properties": sorted(CHECKS),
             "kind_free_text": "differential correspondence (line protocol), real-code oracles, "
                               "known-finding replay, evidence writer"},
        ],
        "checks": checks,
        "not_applicable": na,
        "notes": "See DESIGN.md. ./check <id> is the single entry point; exit 2 = infrastructure "
                 "failure (never a violation).",
    }
    with open(os.path.join(VERIF, "MANIFEST.json"), "w") as f:
        json.dump(man, f, indent=1)
    print(f"MANIFEST.json: {len(checks)} checks, {len(na)} not claimed")


if __name__ == "__main__":
    main()
