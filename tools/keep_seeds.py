#!/venv/bin/python
"""Copy confirmed seeded changes from /tmp/seeds/<prop>/ into /verif/seeded/<prop>-<i>/ ."""
import json, os, shutil, sys
src = "/tmp/seeds"
for prop in sorted(os.listdir(src)):
    for i in (1, 2, 3, 4, 5, 6, 7, 8, 9, 10, 11, 12, 13):
        cf = os.path.join(src, prop, f"confirm_{i}.json")
        if not os.path.exists(cf):
            continue
        c = json.load(open(cf))
        ok = c["apply"] == "ok" and c["demo_with_patch_rc"] == 1 and c["demo_clean_rc"] == 0 and c["tests_rc"] == 0
        if not ok:
            print("NOT CONFIRMED", prop, i, c)
            continue
        dst = os.path.join("/verif/seeded", f"{prop}-{i}")
        os.makedirs(dst, exist_ok=True)
        shutil.copy(os.path.join(src, prop, f"patch_{i}.diff"), os.path.join(dst, "patch.diff"))
        shutil.copy(os.path.join(src, prop, f"demo_{i}.py"), os.path.join(dst, "demo.py"))
        m = json.load(open(os.path.join(src, prop, f"meta_{i}.json")))
        meta_path = os.path.join(dst, "meta.json")
        old = json.load(open(meta_path)) if os.path.exists(meta_path) else {}
        meta = {
            "property": prop, "summary": m.get("summary"), "needs_to_manifest": m.get("needs_to_manifest"),
            "files_touched": m.get("files_touched"),
            "confirmed": {
                "repo_head": c["head"],
                "ran": [f"git apply patch.diff (scratch worktree of /repo @ {c['head']})",
                        "PYTHONPATH=<worktree> /venv/bin/python demo.py  -> exit %d (FAIL expected)" % c["demo_with_patch_rc"],
                        "PYTHONPATH=<worktree> /venv/bin/python -m pytest -q -p no:cacheprovider --timeout=900 "
                        "--deselect tests/test_molecules.py::test_axes_to_rotator_invert -> " + c["tests_summary"],
                        "git checkout -- acryo; demo.py -> exit %d (PASS expected)" % c["demo_clean_rc"]],
            },
            "detection": old.get("detection"),
        }
        if m.get("commit_message"):
            meta["commit_message"] = m["commit_message"]
        if old.get("rebased"):
            meta["rebased"] = old["rebased"]
        old_head = (old.get("confirmed") or {}).get("repo_head")
        if old_head and old_head != c["head"] and not meta.get("rebased"):
            meta["rebased"] = (f"patch re-created against /repo {c['head']} (first confirmed at {old_head}; 3-way apply, "
                               "conflicts with later fix: commits resolved by hand keeping the seeded change) and re-confirmed")
        json.dump(meta, open(meta_path, "w"), indent=1)
        print("kept", dst)
