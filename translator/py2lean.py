"""py2lean -- translate a whitelisted subset of Python (scalar arithmetic and small decision
functions found inside acryo) into Lean 4 definitions over Int / Rat / Bool.

The subset (see DESIGN.md 2.2, K1):
  literals, names, + - * / // % **, unary minus, comparisons (chained), and/or/not,
  int() float() round() abs() max() min() len(), math.ceil/floor, np.ceil/np.floor/np.fix,
  x.astype(np.int32), np.asarray(x), conditional expressions, tuples, slice(a, b),
  assignment / augmented assignment, if/elif/else, return, raise <Error>(...).

Anything else raises Untranslatable; the caller then marks the kernel `translated: false`.
"""
from __future__ import annotations

import ast
import re
from fractions import Fraction


class Untranslatable(Exception):
    pass


EXC_MAP = {
    "SubvolumeOutOfBoundError": "oob",
    "ValueError": "value",
    "TypeError": "type",
    "IndexError": "index",
    "RuntimeError": "runtime",
    "NotImplementedError": "notimpl",
    "ZeroDivisionError": "zerodiv",
    "KeyError": "key",
}

LEAN_KEYWORDS = {"from", "at", "end", "in", "fun", "let", "do", "then", "else", "if", "open",
                 "show", "have", "by", "with", "match", "where", "def", "type", "sort", "mask"}


def lname(name: str) -> str:
    stripped = name.lstrip("_") or "u"
    if stripped != name:
        stripped = stripped + "'"        # `_x` and `x` are different Python names
    if stripped in LEAN_KEYWORDS:
        stripped = stripped + "'"
    return stripped


def rat_lit(fr: Fraction) -> str:
    if fr.denominator == 1:
        return f"({fr.numerator} : Rat)"
    return f"(({fr.numerator} : Rat) / {fr.denominator})"


def int_lit(v: int) -> str:
    return f"({v} : Int)" if v >= 0 else f"(-{-v} : Int)"


class ExprTr:
    """Translate expressions. `types` maps variable -> 'Int' | 'Rat' | 'Bool' | 'Str';
    `subst` maps ast.unparse(subexpr) -> variable name; `consts` maps names to Python constants."""

    def __init__(self, types: dict[str, str], subst: dict[str, str] | None = None,
                 consts: dict[str, object] | None = None):
        self.types = dict(types)
        self.subst = dict(subst or {})
        self.consts = dict(consts or {})

    # -- helpers -------------------------------------------------------------------------
    def to_rat(self, s: str, t: str) -> str:
        if t == "Rat":
            return s
        if t == "Int":
            m = re.fullmatch(r"\((-?\d+) : Int\)", s)
            if m:
                return f"({m.group(1)} : Rat)"
            return f"(({s} : Int) : Rat)"
        raise Untranslatable(f"cannot coerce {t} to Rat: {s}")

    def num(self, node) -> tuple[str, str]:
        s, t = self.tr(node)
        if t not in ("Int", "Rat"):
            raise Untranslatable(f"numeric expected, got {t}: {ast.unparse(node)}")
        return s, t

    def prop(self, node) -> str:
        """Translate as a (decidable) proposition."""
        s, t = self.tr(node)
        if t == "Prop":
            return s
        if t == "Bool":
            return f"({s} = true)"
        raise Untranslatable(f"condition expected, got {t}: {ast.unparse(node)}")

    def boolean(self, node) -> str:
        s, t = self.tr(node)
        if t == "Bool":
            return s
        if t == "Prop":
            return f"(decide {s})"
        raise Untranslatable(f"bool expected, got {t}")

    # -- main ----------------------------------------------------------------------------
    def tr(self, node) -> tuple[str, str]:
        key = ast.unparse(node)
        if key in self.subst:
            v = self.subst[key]
            return lname(v), self.types[v]
        m = getattr(self, "tr_" + type(node).__name__, None)
        if m is None:
            raise Untranslatable(f"unsupported syntax {type(node).__name__}: {key}")
        return m(node)

    def tr_Constant(self, node):
        v = node.value
        if isinstance(v, bool):
            return ("true" if v else "false"), "Bool"
        if isinstance(v, int):
            return int_lit(v), "Int"
        if isinstance(v, float):
            return rat_lit(Fraction(repr(v))), "Rat"
        if isinstance(v, str):
            return '"' + v.replace('"', '\\"') + '"', "Str"
        raise Untranslatable(f"constant {v!r}")

    def tr_Name(self, node):
        n = node.id
        if n in self.types:
            return lname(n), self.types[n]
        if n in self.consts:
            return self.tr_Constant(ast.Constant(self.consts[n]))
        raise Untranslatable(f"unknown name {n}")

    def tr_UnaryOp(self, node):
        if isinstance(node.op, ast.USub):
            if isinstance(node.operand, ast.Constant) and isinstance(node.operand.value, (int, float)) \
                    and not isinstance(node.operand.value, bool):
                return self.tr_Constant(ast.Constant(-node.operand.value))
            s, t = self.num(node.operand)
            return f"(-{s})", t
        if isinstance(node.op, ast.UAdd):
            return self.num(node.operand)
        if isinstance(node.op, ast.Not):
            return f"(¬ {self.prop(node.operand)})", "Prop"
        raise Untranslatable("unary op")

    def tr_BinOp(self, node):
        a, ta = self.num(node.left)
        b, tb = self.num(node.right)
        op = node.op
        both_int = ta == "Int" and tb == "Int"
        if isinstance(op, (ast.Add, ast.Sub, ast.Mult)):
            sym = {ast.Add: "+", ast.Sub: "-", ast.Mult: "*"}[type(op)]
            if both_int:
                return f"({a} {sym} {b})", "Int"
            return f"({self.to_rat(a, ta)} {sym} {self.to_rat(b, tb)})", "Rat"
        if isinstance(op, ast.Div):
            return f"({self.to_rat(a, ta)} / {self.to_rat(b, tb)})", "Rat"
        if isinstance(op, ast.FloorDiv):
            if both_int:
                if _pos_int_literal(node.right):
                    return f"({a} / {b})", "Int"      # Int./ is floor division for positive divisors
                return f"(Py.ifloordiv {a} {b})", "Int"
            return f"(Py.rfloordiv {self.to_rat(a, ta)} {self.to_rat(b, tb)})", "Int"
        if isinstance(op, ast.Mod):
            if both_int:
                if _pos_int_literal(node.right):
                    return f"({a} % {b})", "Int"
                return f"(Py.imod {a} {b})", "Int"
            return f"(Py.rmod {self.to_rat(a, ta)} {self.to_rat(b, tb)})", "Rat"
        if isinstance(op, ast.Pow):
            if isinstance(node.right, ast.Constant) and isinstance(node.right.value, int) \
                    and node.right.value >= 0:
                return f"({a} ^ {node.right.value})", ta
            if tb == "Int":
                return f"({a} ^ (Int.toNat {b}))", ta
            raise Untranslatable("non-literal exponent")
        raise Untranslatable(f"binop {type(op).__name__}")

    def tr_Compare(self, node):
        parts = []
        left = node.left
        for op, right in zip(node.ops, node.comparators):
            if isinstance(op, (ast.In, ast.NotIn)):
                lt = rt = None
            else:
                ls, lt = self.tr(left)
                rs, rt = self.tr(right)
            if isinstance(op, (ast.In, ast.NotIn)):
                pass
            elif lt == "Str" and rt == "Str":
                pass
            elif lt in ("Int", "Rat") and rt in ("Int", "Rat"):
                if lt != rt:
                    ls, rs = self.to_rat(ls, lt), self.to_rat(rs, rt)
            else:
                raise Untranslatable(f"compare {lt} with {rt}: {ast.unparse(node)}")
            if isinstance(op, (ast.In, ast.NotIn)) and isinstance(right, (ast.Tuple, ast.List, ast.Set)):
                ls, lt = self.tr(left)
                alts = []
                for e in right.elts:
                    es, et = self.tr(e)
                    if et != lt:
                        raise Untranslatable("membership test with mixed types")
                    alts.append(f"({ls} = {es})")
                body = "(" + " ∨ ".join(alts) + ")" if alts else "False"
                parts.append(body if isinstance(op, ast.In) else f"(¬ {body})")
                left = right
                continue
            sym = {ast.Lt: "<", ast.LtE: "≤", ast.Gt: ">", ast.GtE: "≥", ast.Eq: "=",
                   ast.NotEq: "≠"}.get(type(op))
            if sym is None:
                raise Untranslatable(f"comparison {type(op).__name__}")
            parts.append(f"({ls} {sym} {rs})")
            left = right
        return ("(" + " ∧ ".join(parts) + ")" if len(parts) > 1 else parts[0]), "Prop"

    def tr_BoolOp(self, node):
        sym = " ∧ " if isinstance(node.op, ast.And) else " ∨ "
        return "(" + sym.join(self.prop(v) for v in node.values) + ")", "Prop"

    def tr_IfExp(self, node):
        c = self.prop(node.test)
        a, ta = self.tr(node.body)
        b, tb = self.tr(node.orelse)
        if ta != tb:
            if {ta, tb} == {"Int", "Rat"}:
                a, b, ta = self.to_rat(a, ta), self.to_rat(b, tb), "Rat"
            else:
                raise Untranslatable("if-expression branch types differ")
        return f"(if {c} then {a} else {b})", ta

    def tr_Tuple(self, node):
        parts = [self.tr(e) for e in node.elts]
        return "(" + ", ".join(p[0] for p in parts) + ")", "(" + " × ".join(p[1] for p in parts) + ")"

    def tr_Call(self, node):
        fn = ast.unparse(node.func)
        args = node.args
        if fn == "int" and len(args) == 1:
            s, t = self.num(args[0])
            return (s, "Int") if t == "Int" else (f"(Py.trunc {s})", "Int")
        if fn == "float" and len(args) == 1:
            s, t = self.num(args[0])
            return self.to_rat(s, t), "Rat"
        if fn in ("round", "np.round", "np.rint") and len(args) == 1:
            s, t = self.num(args[0])
            return (s, "Int") if t == "Int" else (f"(Py.round {s})", "Int")
        if fn in ("math.ceil", "np.ceil") and len(args) == 1:
            s, t = self.num(args[0])
            return (s, "Int") if t == "Int" else (f"(Py.ceil {s})", "Int")
        if fn in ("math.floor", "np.floor") and len(args) == 1:
            s, t = self.num(args[0])
            return (s, "Int") if t == "Int" else (f"(Py.floor {s})", "Int")
        if fn in ("np.fix", "math.trunc") and len(args) == 1:
            s, t = self.num(args[0])
            return (s, "Int") if t == "Int" else (f"(Py.trunc {s})", "Int")
        if fn == "abs" and len(args) == 1:
            s, t = self.num(args[0])
            return (f"(Py.iabs {s})", "Int") if t == "Int" else (f"(Py.rabs {s})", "Rat")
        if fn in ("np.nanmin", "np.min", "min", "np.nanmax", "np.max", "max") and len(args) == 1 \
                and isinstance(args[0], (ast.List, ast.Tuple)) and len(args[0].elts) == 2:
            # min([a, b]) of two finite numbers
            fn = "min" if fn.endswith("min") else "max"
            args = args[0].elts
        if fn in ("max", "min") and len(args) == 2:
            a, ta = self.num(args[0])
            b, tb = self.num(args[1])
            if ta == tb == "Int":
                return f"(Py.i{fn} {a} {b})", "Int"
            return f"(Py.r{fn} {self.to_rat(a, ta)} {self.to_rat(b, tb)})", "Rat"
        if fn in ("np.asarray", "np.array", "tuple") and len(args) >= 1:
            return self.tr(args[0])
        if fn == "slice" and len(args) >= 2:
            a, ta = self.num(args[0])
            b, tb = self.num(args[1])
            return f"({a}, {b})", f"({ta} × {tb})"
        if fn == "divmod" and len(args) == 2:
            a, ta = self.num(args[0])
            b, tb = self.num(args[1])
            if ta == tb == "Int":
                return f"(Py.ifloordiv {a} {b}, Py.imod {a} {b})", "(Int × Int)"
            raise Untranslatable("divmod on floats")
        # x.astype(np.int32) etc.
        if isinstance(node.func, ast.Attribute) and node.func.attr == "astype" and len(args) == 1:
            target = ast.unparse(args[0])
            s, t = self.num(node.func.value)
            if "int" in target:
                v = s if t == "Int" else f"(Py.trunc {s})"
                # unsigned narrow types wrap around (numpy semantics for integer input)
                for w, m in (("uint8", 256), ("uint16", 65536)):
                    if target.endswith(w):
                        return f"(Py.imod {v} {m})", "Int"
                return v, "Int"
            if "float" in target:
                return self.to_rat(s, t), "Rat"
        raise Untranslatable(f"unsupported call {fn}(...)")


def _pos_int_literal(node) -> bool:
    return isinstance(node, ast.Constant) and isinstance(node.value, int) \
        and not isinstance(node.value, bool) and node.value > 0


# ------------------------------------------------------------------------------------------
# statement translation (whole small functions) into `Py.PyM` do-blocks
# ------------------------------------------------------------------------------------------
class FuncTr:
    def __init__(self, etr: ExprTr, params: list[str]):
        self.e = etr
        self.declared: set[str] = set()
        self.params = set(params)

    def block(self, stmts, ind: int) -> list[str]:
        out: list[str] = []
        pad = "  " * ind
        for st in stmts:
            if isinstance(st, ast.Expr) and isinstance(st.value, ast.Constant):
                continue  # docstring
            if isinstance(st, ast.Expr) and isinstance(st.value, ast.Call) \
                    and ast.unparse(st.value.func) in ("warnings.warn", "warn"):
                continue  # warnings have no effect on the value computed
            if isinstance(st, ast.Assign):
                tgt = st.targets
                # chained assignment  a = b = 0
                names = []
                for t in tgt:
                    if isinstance(t, ast.Name):
                        names.append(t.id)
                    else:
                        raise Untranslatable("assignment target " + ast.unparse(t))
                s, ty = self.e.tr(st.value)
                if ty == "Prop":
                    s, ty = f"(decide {s})", "Bool"
                for n in names:
                    out.append(pad + self.assign(n, s, ty))
            elif isinstance(st, ast.AugAssign):
                if not isinstance(st.target, ast.Name):
                    raise Untranslatable("augassign target")
                s, ty = self.e.tr(ast.BinOp(st.target, st.op, st.value))
                out.append(pad + self.assign(st.target.id, s, ty))
            elif isinstance(st, ast.AnnAssign) and isinstance(st.target, ast.Name) and st.value:
                s, ty = self.e.tr(st.value)
                out.append(pad + self.assign(st.target.id, s, ty))
            elif isinstance(st, ast.If):
                out += self.if_(st, ind)
            elif isinstance(st, ast.Return):
                if st.value is None:
                    raise Untranslatable("bare return")
                s, _ = self.e.tr(st.value)
                out.append(pad + f"return {s}")
            elif isinstance(st, ast.Raise):
                out.append(pad + f"throw Py.PyErr.{exc_of(st)}")
            elif isinstance(st, ast.Pass):
                out.append(pad + "pure ()")
            else:
                raise Untranslatable(f"statement {type(st).__name__}: {ast.unparse(st)[:60]}")
        return out

    def assign(self, n: str, s: str, ty: str) -> str:
        prev = self.e.types.get(n)
        if prev is not None and prev != ty:
            if prev == "Rat" and ty == "Int":
                s, ty = self.e.to_rat(s, ty), "Rat"
            else:
                raise Untranslatable(f"variable {n} changes type {prev} -> {ty}")
        self.e.types[n] = ty
        if n in self.declared:
            return f"{lname(n)} := {s}"
        self.declared.add(n)
        return f"let mut {lname(n)} : {leantype(ty)} := {s}"

    def if_(self, st: ast.If, ind: int) -> list[str]:
        pad = "  " * ind
        # variables first assigned inside a branch must be declared before the `if`
        pre: list[str] = []
        for n, ty in sorted(_assigned_types(self, st).items()):
            if n not in self.declared:
                # first assigned inside a branch: allowed when EVERY branch assigns it (so no path
                # reads the placeholder); declared before the `if` with the type of its first value
                if not _assigned_on_all_paths(st, n):
                    raise Untranslatable(f"variable {n} first assigned inside only some branches")
                val = _first_assigned_value(st, n)
                _, vty = self.e.tr(val)
                if vty == "Prop":
                    vty = "Bool"
                self.e.types[n] = vty
                self.declared.add(n)
                pre.append(pad + f"let mut {lname(n)} : {leantype(vty)} := default")
        out = pre + [pad + f"if {self.e.prop(st.test)} then"]
        out += self.block(st.body, ind + 1)
        if st.orelse:
            if len(st.orelse) == 1 and isinstance(st.orelse[0], ast.If):
                sub = self.if_(st.orelse[0], ind)
                sub[0] = pad + "else " + sub[0].strip()
                out += sub
            else:
                out.append(pad + "else")
                out += self.block(st.orelse, ind + 1)
        return out


def _assigns(stmts, n) -> bool:
    """Does every path through `stmts` assign variable n (or raise/return)?"""
    for st in stmts:
        if isinstance(st, (ast.Raise, ast.Return)):
            return True
        if isinstance(st, ast.Assign) and any(isinstance(t, ast.Name) and t.id == n for t in st.targets):
            return True
        if isinstance(st, ast.AnnAssign) and isinstance(st.target, ast.Name) and st.target.id == n and st.value:
            return True
        if isinstance(st, ast.If) and _assigned_on_all_paths(st, n):
            return True
    return False


def _assigned_on_all_paths(st: ast.If, n: str) -> bool:
    return bool(st.orelse) and _assigns(st.body, n) and _assigns(st.orelse, n)


def _first_assigned_value(st, n):
    for node in sorted((x for x in ast.walk(st) if isinstance(x, (ast.Assign, ast.AnnAssign))),
                       key=lambda x: (x.lineno, x.col_offset)):
        tg = node.targets if isinstance(node, ast.Assign) else [node.target]
        if any(isinstance(t, ast.Name) and t.id == n for t in tg) and node.value is not None:
            return node.value
    raise Untranslatable(f"no assignment to {n}")


def _assigned_types(ftr: FuncTr, st) -> dict[str, str]:
    res = {}
    for node in ast.walk(st):
        if isinstance(node, (ast.Assign, ast.AugAssign, ast.AnnAssign)):
            tgts = node.targets if isinstance(node, ast.Assign) else [node.target]
            for t in tgts:
                if isinstance(t, ast.Name):
                    res[t.id] = None
    return res


def exc_of(st: ast.Raise) -> str:
    e = st.exc
    name = None
    if isinstance(e, ast.Call):
        name = ast.unparse(e.func).split(".")[-1]
    elif e is not None:
        name = ast.unparse(e).split(".")[-1]
    if name not in EXC_MAP:
        raise Untranslatable(f"raise {name}")
    return EXC_MAP[name]


def leantype(t: str) -> str:
    return re.sub(r"\bStr\b", "String", t)


def translate_function(fn: ast.FunctionDef, name: str, params: list[tuple[str, str]], ret: str,
                       subst=None, consts=None) -> str:
    """Whole function -> `def name (params) : Py.PyM ret := do ...`."""
    etr = ExprTr(dict(params), subst, consts)
    ftr = FuncTr(etr, [p for p, _ in params])
    assigned = _assigned_types(ftr, fn)
    lines = []
    for p, ty in params:
        if p in assigned:
            lines.append(f"  let mut {lname(p)} : {ty} := {lname(p)}")
            ftr.declared.add(p)
    lines += ftr.block(fn.body, 1)
    sig = " ".join(f"({lname(p)} : {leantype(ty)})" for p, ty in params)
    return f"def {name} {sig} : Py.PyM {leantype(ret)} := do\n" + "\n".join(lines) + "\n"


def translate_expr(node: ast.AST, name: str, params: list[tuple[str, str]], subst=None,
                   consts=None, want: str | None = None) -> tuple[str, str]:
    etr = ExprTr(dict(params), subst, consts)
    s, ty = etr.tr(node)
    if ty == "Prop":
        s, ty = f"(decide {s})", "Bool"
    if want == "Rat" and ty == "Int":
        s, ty = etr.to_rat(s, ty), "Rat"
    sig = " ".join(f"({lname(p)} : {leantype(t)})" for p, t in params)
    return f"def {name} {sig} : {leantype(ty)} :=\n  {s}\n", ty


def translate_lets(items: list[tuple[str, ast.AST]], outputs: list[str], name: str,
                   params: list[tuple[str, str]], subst=None, consts=None) -> tuple[str, str]:
    """A chain of local definitions `x0 = e0; x1 = e1(x0); ...` returning a tuple of `outputs`."""
    etr = ExprTr(dict(params), subst, consts)
    lines = []
    for var, node in items:
        s, ty = etr.tr(node)
        if ty == "Prop":
            s, ty = f"(decide {s})", "Bool"
        etr.types[var] = ty
        lines.append(f"  let {lname(var)} : {leantype(ty)} := {s}")
    outs = [(lname(o), etr.types[o]) for o in outputs]
    ret = " × ".join(t for _, t in outs)
    sig = " ".join(f"({lname(p)} : {leantype(t)})" for p, t in params)
    body = "(" + ", ".join(o for o, _ in outs) + ")" if len(outs) > 1 else outs[0][0]
    return f"def {name} {sig} : {leantype(ret)} :=\n" + "\n".join(lines) + f"\n  {body}\n", ret
