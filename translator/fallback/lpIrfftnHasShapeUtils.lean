def lpIrfftnHasShapeUtils : Bool := true
