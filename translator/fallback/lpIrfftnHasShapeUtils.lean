def lpIrfftnHasShapeUtils : Bool := false
