def splitSqueeze (squeeze : Bool) (n_set : Int) : Bool :=
  (decide ((squeeze = true) ∧ (n_set = (1 : Int))))
