def columnLayout : Bool := true
