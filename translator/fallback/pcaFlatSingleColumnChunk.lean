def pcaFlatSingleColumnChunk : Bool := true
