def smoothExponent (dist : Rat) (sigma : Rat) (scale : Rat) : Rat :=
  (((-(dist ^ 2)) / (2 : Rat)) / ((sigma / scale) ^ 2))
