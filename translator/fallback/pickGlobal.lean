def pickGlobal (loc : Rat) (start : Int) (depth : Int) (scale : Rat) : Rat :=
  let shifted : Rat := (loc + ((start : Int) : Rat))
  let out : Rat := ((shifted - ((depth : Int) : Rat)) * scale)
  out
