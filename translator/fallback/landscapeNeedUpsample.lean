def landscapeNeedUpsample (upsample : Int) : Bool :=
  (decide (upsample > (1 : Int)))
