def subsetIntIndex (spec : Int) (n : Int) : Py.PyM (Int × Int) := do
  if (spec < (0 : Int)) then
    throw Py.PyErr.index
  if (spec ≥ n) then
    throw Py.PyErr.index
  let mut spec' : (Int × Int) := (spec, (spec + (1 : Int)))
  return spec'
