def axesAreImagesOfUnitVectors : Bool := true
