def pccCropBounds (shiftl : Int) (shiftr : Int) (s : Int) : Int × Int × Int :=
  let c : Int := (s / (2 : Int))
  let lo : Int := (Py.imax (c - shiftl) (0 : Int))
  let hi : Int := (Py.imin ((c + shiftr) + (1 : Int)) s)
  (c, lo, hi)
