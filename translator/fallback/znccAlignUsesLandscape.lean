def znccAlignUsesLandscape : Bool := true
