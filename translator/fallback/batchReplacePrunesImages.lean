def batchReplacePrunesImages : Bool := true
