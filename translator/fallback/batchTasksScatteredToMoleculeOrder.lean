def batchTasksScatteredToMoleculeOrder : Bool := true
