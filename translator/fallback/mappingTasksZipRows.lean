def mappingTasksZipRows : Bool := true
