def znccScoreChain : Bool := true
