def bwUsesIfftshiftUtils : Bool := true
