def cNeg (a : Rat) : Rat :=
  (-a)
