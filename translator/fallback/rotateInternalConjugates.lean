def rotateInternalConjugates : Bool := true
