def buildMeshAxis (max_shifts : Rat) (upsample : Int) (shape : Int) : Int × Rat × Rat × Int :=
  let width : Int := (Py.trunc (max_shifts * ((upsample : Int) : Rat)))
  let c : Rat := ((((shape : Int) : Rat) / (2 : Rat)) - ((1 : Rat) / 2))
  let lo : Rat := (c - (((width : Int) : Rat) / ((upsample : Int) : Rat)))
  let hi : Rat := (c + (((width : Int) : Rat) / ((upsample : Int) : Rat)))
  let cnt : Int := (((2 : Int) * width) + (1 : Int))
  (width, lo, hi, cnt)
