def binTrLoader (binsize : Int) (scale : Rat) : Rat :=
  (((((-(binsize - (1 : Int))) : Int) : Rat) / (2 : Rat)) * scale)
