def cS_div (a : Rat) (s : Rat) : Rat :=
  (a / s)
