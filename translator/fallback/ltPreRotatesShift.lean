def ltPreRotatesShift : Bool := false
