def fscLabel (r : Rat) (dfreq : Rat) : Int :=
  (Py.imod (Py.trunc (r / dfreq)) 65536)
