def fscLabel (r : Rat) (dfreq : Rat) : Int :=
  (Py.trunc (r / dfreq))
