def nccScoreChain : Bool := true
