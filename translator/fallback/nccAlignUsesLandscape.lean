def nccAlignUsesLandscape : Bool := true
