def bwWeightUtils (q2 : Rat) (order : Int) : Rat :=
  ((1 : Rat) / ((1 : Rat) + (q2 ^ (Int.toNat order))))
