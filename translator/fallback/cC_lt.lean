def cC_lt (a : Rat) (b : Rat) : Bool :=
  (decide (a < b))
