def indicesOffsetBackend (s : Int) : Int :=
  (s / (2 : Int))
