def indicesOffsetBackend (s : Int) : Int :=
  (Py.ceil (((s : Int) : Rat) / (2 : Rat)))
