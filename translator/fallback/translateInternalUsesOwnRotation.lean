def translateInternalUsesOwnRotation : Bool := true
