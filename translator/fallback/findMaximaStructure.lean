def findMaximaStructure : Bool := true
