def pR_div (a : Rat) (s : Rat) : Rat :=
  (s / a)
