def wedgeScaleBeforeRotTiltNorms : Bool := false
