def wedgeScaleBeforeRotTiltNorms : Bool := true
