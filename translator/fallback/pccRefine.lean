def pccRefine (shifts : Rat) (max_shifts' : Rat) (upsample_factor : Int) (size : Int) : Int × Rat × Int × Int :=
  let upsampled_region_size : Int := (Py.ceil (((upsample_factor : Int) : Rat) * ((3 : Rat) / 2)))
  let dftshift : Rat := (((Py.trunc (((upsampled_region_size : Int) : Rat) / (2 : Rat))) : Int) : Rat)
  let lsh : Rat := ((shifts + max_shifts') * ((upsample_factor : Int) : Rat))
  let rsh : Rat := ((max_shifts' - shifts) * ((upsample_factor : Int) : Rat))
  let center : Int := (Py.trunc dftshift)
  let start : Int := (Py.imax (center - (Py.trunc lsh)) (0 : Int))
  let stop : Int := (Py.imin ((center + (Py.trunc rsh)) + (1 : Int)) size)
  (upsampled_region_size, dftshift, start, stop)
