def pccRefine (shifts : Rat) (max_shifts : Rat) (upsample_factor : Int) : Int × Rat × Int × Int :=
  let upsampled_region_size : Int := (Py.ceil (((upsample_factor : Int) : Rat) * ((3 : Rat) / 2)))
  let dftshift : Rat := (((Py.trunc (((upsampled_region_size : Int) : Rat) / (2 : Rat))) : Int) : Rat)
  let lshift : Rat := ((shifts + max_shifts) * ((upsample_factor : Int) : Rat))
  let rshift : Rat := ((max_shifts - shifts) * ((upsample_factor : Int) : Rat))
  let lcrop : Int := (Py.trunc lshift)
  let rcrop : Int := (Py.trunc rshift)
  (upsampled_region_size, dftshift, lcrop, rcrop)
