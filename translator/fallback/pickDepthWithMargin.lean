def pickDepthWithMargin (d : Int) (margin : Int) : Int :=
  (d + margin)
