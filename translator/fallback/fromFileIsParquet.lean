def fromFileIsParquet (suffix : String) : Bool :=
  (decide ((suffix = ".pq") ∨ (suffix = ".parquet")))
