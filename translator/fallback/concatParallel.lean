def concatParallel : Bool := true
