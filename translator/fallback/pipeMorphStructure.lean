def pipeMorphStructure : Bool := true
