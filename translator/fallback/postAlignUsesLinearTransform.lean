def postAlignUsesLinearTransform : Bool := true
