def cS_add (a : Rat) (s : Rat) : Rat :=
  (a + s)
