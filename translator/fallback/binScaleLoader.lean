def binScaleLoader (binsize : Int) (scale : Rat) : Rat :=
  (scale * ((binsize : Int) : Rat))
