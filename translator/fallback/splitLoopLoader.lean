def splitLoopLoader : Bool := true
