def cS_sub (a : Rat) (s : Rat) : Rat :=
  (a - s)
