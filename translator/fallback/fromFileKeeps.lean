def fromFileKeeps (ratio : Rat) (tol : Rat) : Bool :=
  (decide ((Py.rabs (ratio - (1 : Rat))) < tol))
