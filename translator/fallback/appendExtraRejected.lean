def appendExtraRejected : Bool := true
