def lpIrfftnHasShapeBackend : Bool := true
