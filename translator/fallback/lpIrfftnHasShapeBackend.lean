def lpIrfftnHasShapeBackend : Bool := false
