def decodeRotation (iopt : Int) (K : Int) (T : Int) : Int :=
  (Py.ifloordiv iopt T)
