def filterSigmaPx (sigma : Rat) (scale : Rat) : Rat :=
  (sigma / scale)
