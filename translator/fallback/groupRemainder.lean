def groupRemainder (has_rotation : Bool) (T : Int) : Int :=
  (if (has_rotation = true) then T else (-1 : Int))
