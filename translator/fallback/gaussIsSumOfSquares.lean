def gaussIsSumOfSquares : Bool := true
