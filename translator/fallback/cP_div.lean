def cP_div (a : Rat) (b : Rat) : Rat :=
  (a / b)
