def splitLoopGroup : Bool := true
