def ltRotvecFromRotator : Bool := true
