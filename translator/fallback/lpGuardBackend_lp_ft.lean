def lpGuardBackend_lp_ft (cutoff : Rat) (sqrtNdim : Rat) : Bool :=
  (decide ((cutoff ≥ (((1 : Rat) / 2) * sqrtNdim)) ∨ (cutoff ≤ (0 : Rat))))
