def butterworthCacheNotMutated : Bool := true
