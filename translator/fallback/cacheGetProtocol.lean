def cacheGetProtocol : Bool := true
