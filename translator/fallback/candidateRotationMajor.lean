def candidateRotationMajor : Bool := true
