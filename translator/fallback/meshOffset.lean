def meshOffset (s0 : Int) : Rat :=
  (((s0 : Int) : Rat) / (20 : Rat))
