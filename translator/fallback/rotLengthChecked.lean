def rotLengthChecked : Bool := true
