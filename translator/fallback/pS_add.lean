def pS_add (a : Rat) (s : Rat) : Rat :=
  (a + s)
