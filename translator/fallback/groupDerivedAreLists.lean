def groupDerivedAreLists : Bool := true
