def tiltModelsDoNotStore : Bool := true
