def classifyLabelWriteBack : Bool := true
