def pipeRescaleStructure : Bool := true
