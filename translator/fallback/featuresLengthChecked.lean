def featuresLengthChecked : Bool := true
