def tmDepth (n : Int) : Int :=
  (Py.imod (Py.ceil (((n : Int) : Rat) / (2 : Rat))) 65536)
