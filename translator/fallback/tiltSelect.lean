def tiltSelect (hasRange : Bool) (tiltNone : Bool) (isModel : Bool) (tilt_model : Int) : Py.PyM Int := do
  let mut tilt_model : Int := tilt_model
  if (hasRange = true) then
    tilt_model := (1 : Int)
  else if (tiltNone = true) then
    tilt_model := (0 : Int)
  else if (isModel = true) then
    tilt_model := (2 : Int)
  else
    tilt_model := (3 : Int)
  return tilt_model
