def indicesUsesFftshiftTilt : Bool := true
