def indicesUsesFftshiftTilt : Bool := false
