def modelMethodsDoNotStoreConcrete : Bool := true
