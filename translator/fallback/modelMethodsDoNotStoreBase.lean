def modelMethodsDoNotStoreBase : Bool := true
