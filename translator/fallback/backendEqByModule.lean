def backendEqByModule : Bool := true
