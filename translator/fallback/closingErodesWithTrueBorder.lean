def closingErodesWithTrueBorder : Bool := true
