def gaussTerm (xx : Rat) (c : Rat) (sg : Rat) : Rat :=
  (((xx - c) / sg) ^ 2)
