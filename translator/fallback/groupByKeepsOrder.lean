def groupByKeepsOrder : Bool := true
