def fromAxesCompletesTriad : Bool := true
