def pccRefineShift (shifts : Rat) (local_maxima : Int) (starts : Int) (dftshift : Rat) (upsample_factor : Int) : Rat :=
  let maxima : Rat := ((((local_maxima : Int) : Rat) + ((starts : Int) : Rat)) - dftshift)
  let shifts : Rat := (shifts + (maxima / ((upsample_factor : Int) : Rat)))
  shifts
