def wedgeScaleIsDivUtils : Bool := false
