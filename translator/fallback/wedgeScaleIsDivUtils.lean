def wedgeScaleIsDivUtils : Bool := true
