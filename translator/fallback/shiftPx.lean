def shiftPx (shift : Rat) (scale : Rat) : Rat :=
  (shift / scale)
