def wedgeScaleIsDivBackend : Bool := true
