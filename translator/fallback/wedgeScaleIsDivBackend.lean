def wedgeScaleIsDivBackend : Bool := false
