def fromDataFrameSelectsByName : Bool := true
