def pipeShiftUsesPx : Bool := true
