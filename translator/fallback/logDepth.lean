def logDepth (sigma : Rat) (scale : Rat) : Rat × Int :=
  let sigma_px : Rat := (sigma / scale)
  let depth : Int := (((Py.ceil (sigma_px * (4 : Rat))) + (Py.ceil sigma_px)) + (1 : Int))
  (sigma_px, depth)
