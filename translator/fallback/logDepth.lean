def logDepth (sigma : Rat) (scale : Rat) : Rat × Int :=
  let sigma_px : Rat := (sigma / scale)
  let depth : Int := (Py.ceil (sigma_px * (2 : Rat)))
  (sigma_px, depth)
