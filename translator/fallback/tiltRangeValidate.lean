def tiltRangeValidate (min' : Rat) (max' : Rat) : Py.PyM Unit := do
  if (min' ≥ max') then
    throw Py.PyErr.value
  if ((min' < (-90 : Rat)) ∨ (max' > (90 : Rat))) then
    throw Py.PyErr.value
  return ()
