def meshNode (j : Int) (m : Int) (w : Int) : Rat :=
  (((((j : Int) : Rat) / (20 : Rat)) + ((m : Int) : Rat)) + ((w : Int) : Rat))
