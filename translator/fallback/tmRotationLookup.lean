def tmRotationLookup : Bool := true
