def cS_mul (a : Rat) (s : Rat) : Rat :=
  (a * s)
