def pP_ge (a : Rat) (b : Rat) : Bool :=
  (decide (a ≥ b))
