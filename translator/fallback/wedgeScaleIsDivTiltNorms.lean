def wedgeScaleIsDivTiltNorms : Bool := false
