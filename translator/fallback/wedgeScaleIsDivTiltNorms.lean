def wedgeScaleIsDivTiltNorms : Bool := true
