def fscShellFreq (i : Int) (dfreq : Rat) : Rat :=
  ((((i : Int) : Rat) + ((1 : Rat) / 2)) * dfreq)
