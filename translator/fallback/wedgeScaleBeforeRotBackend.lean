def wedgeScaleBeforeRotBackend : Bool := true
