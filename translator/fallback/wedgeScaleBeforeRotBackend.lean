def wedgeScaleBeforeRotBackend : Bool := false
