def pipeCompareHelpers : Bool := true
