def sim2dZSize (zmax : Rat) (scale : Rat) (sumshape : Int) : Rat :=
  ((zmax / scale) + ((sumshape : Int) : Rat))
