def structureSize (r : Int) : Int :=
  (((2 : Int) * r) + (1 : Int))
