def upsampleFactor : Int := 20
