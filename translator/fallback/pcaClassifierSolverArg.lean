def pcaClassifierSolverArg : String := "full"
