def simMatrixStructure : Bool := true
