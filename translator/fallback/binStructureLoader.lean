def binStructureLoader : Bool := true
