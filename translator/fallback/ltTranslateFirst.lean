def ltTranslateFirst : Bool := true
