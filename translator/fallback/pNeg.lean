def pNeg (a : Rat) : Rat :=
  (-a)
