def derivedLoadersDelegate : Bool := true
