def fscIsNormalisedCrossSpectrum : Bool := true
