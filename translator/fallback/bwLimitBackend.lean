def bwLimitBackend (dlast : Int) : Int :=
  ((dlast / (2 : Int)) + (1 : Int))
