def pS_eq (a : Rat) (s : Rat) : Bool :=
  (decide (a = s))
