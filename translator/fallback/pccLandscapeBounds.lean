def pccLandscapeBounds (shiftl : Rat) (shiftr : Rat) (s : Int) : Int × Int × Int :=
  let c : Int := (s / (2 : Int))
  let lo : Int := (Py.imax (c - (Py.trunc shiftl)) (0 : Int))
  let hi : Int := (Py.imin ((c + (Py.trunc shiftr)) + (1 : Int)) s)
  (c, lo, hi)
