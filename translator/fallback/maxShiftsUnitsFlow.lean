def maxShiftsUnitsFlow : Bool := true
