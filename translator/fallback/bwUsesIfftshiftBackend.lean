def bwUsesIfftshiftBackend : Bool := true
