def cornerSafeAxis (c : Rat) (max_len : Rat) (order : Int) : Int × Int × Rat :=
  let half_len : Rat := (max_len / (2 : Rat))
  let margin : Int := (if (order = (0 : Int)) then (1 : Int) else (0 : Int))
  let x0 : Int := (Py.trunc ((c - half_len) - ((order : Int) : Rat)))
  let x1 : Int := ((Py.trunc (((((x0 : Int) : Rat) + max_len) + ((((2 : Int) * order) : Int) : Rat)) + (1 : Rat))) + margin)
  let newc : Rat := (c - ((x0 : Int) : Rat))
  (x0, x1, newc)
