def reduceLabel (labels : Int) (remainder : Int) : Py.PyM Int := do
  let mut labels : Int := labels
  if (remainder ≥ (1 : Int)) then
    labels := (Py.imod labels remainder)
  labels := (Py.imod labels 256)
  return labels
