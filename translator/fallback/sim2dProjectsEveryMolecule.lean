def sim2dProjectsEveryMolecule : Bool := true
