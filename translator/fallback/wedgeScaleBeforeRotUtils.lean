def wedgeScaleBeforeRotUtils : Bool := false
