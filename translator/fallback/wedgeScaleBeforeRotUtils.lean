def wedgeScaleBeforeRotUtils : Bool := true
