def cS_ne (a : Rat) (s : Rat) : Bool :=
  (decide (a ≠ s))
