def meshBounds (maxima : Int) (midpoints : Int) (max_shifts' : Rat) : Int × Int :=
  let shifts : Int := (maxima - midpoints)
  let shiftl : Rat := ((((-shifts) : Int) : Rat) - max_shifts')
  let shiftr : Rat := ((((-shifts) : Int) : Rat) + max_shifts')
  let lo : Int := (Py.ceil ((Py.rmax shiftl (-1 : Rat)) * (20 : Rat)))
  let hi : Int := (Py.floor ((Py.rmin shiftr (1 : Rat)) * (20 : Rat)))
  (lo, hi)
