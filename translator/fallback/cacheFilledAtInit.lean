def cacheFilledAtInit : Bool := true
