def fscPhaseRange (size : Int) : Int × Int :=
  let s : Int := (size / (2 : Int))
  let lo : Int := (-s)
  let hi : Int := (s + (1 : Int))
  (lo, hi)
