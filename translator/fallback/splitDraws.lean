def splitDraws (nmole : Int) : Int :=
  (nmole / (2 : Int))
