def eulerTranslation : Bool := true
