def dupColumnsRejected : Bool := true
