def pccWrapCond (shifts : Rat) (midpoints : Rat) : Bool :=
  (decide (shifts > midpoints))
