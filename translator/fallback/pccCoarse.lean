def pccCoarse (shifts : Rat) (upsample_factor : Int) : Rat :=
  ((((Py.trunc (shifts * ((upsample_factor : Int) : Rat))) : Int) : Rat) / ((upsample_factor : Int) : Rat))
