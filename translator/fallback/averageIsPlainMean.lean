def averageIsPlainMean : Bool := true
