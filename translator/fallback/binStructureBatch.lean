def binStructureBatch : Bool := true
