def subsetSameSpecForAll : Bool := true
