def wedgePredicateBackend (dot0 : Rat) (dot1 : Rat) : Bool :=
  (decide ((dot0 * dot1) ≤ (0 : Rat)))
