def cC_sub (a : Rat) (b : Rat) : Rat :=
  (a - b)
