def crossIsNegatedNumpyCross : Bool := true
