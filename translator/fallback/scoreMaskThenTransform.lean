def scoreMaskThenTransform : Bool := true
