def pS_sub (a : Rat) (s : Rat) : Rat :=
  (a - s)
