def fscOutShape (m : Rat) : Int :=
  (((Py.ceil m) * (2 : Int)) + (1 : Int))
