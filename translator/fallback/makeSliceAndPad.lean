def makeSliceAndPad (z0 : Int) (z1 : Int) (size : Int) : Py.PyM ((Int × Int) × (Int × Int) × Bool) := do
  let mut z0 : Int := z0
  let mut z1 : Int := z1
  let mut z0_pad : Int := (0 : Int)
  let mut z1_pad : Int := (0 : Int)
  if (z0 < (0 : Int)) then
    z0_pad := (-z0)
    z0 := (0 : Int)
  else if (size ≤ z0) then
    throw Py.PyErr.oob
  if (size < z1) then
    z1_pad := (z1 - size)
    z1 := size
  else if (z1 ≤ (0 : Int)) then
    throw Py.PyErr.oob
  let mut out_of_bound : Bool := (decide ((z0_pad ≠ (0 : Int)) ∨ (z1_pad ≠ (0 : Int))))
  return ((z0, z1), (z0_pad, z1_pad), out_of_bound)
