def pipeCompose : Bool := true
