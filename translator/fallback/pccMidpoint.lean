def pccMidpoint (axis_size : Int) : Int :=
  (Py.trunc (((axis_size : Int) : Rat) / (2 : Rat)))
