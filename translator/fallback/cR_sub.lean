def cR_sub (a : Rat) (s : Rat) : Rat :=
  (s - a)
