def prepareAffineAxis (c : Rat) (s : Int) (order : Int) : Int × Int × Rat :=
  let margin : Int := (if (order = (0 : Int)) then (1 : Int) else (0 : Int))
  let x0 : Int := (Py.trunc ((c - (((s : Int) : Rat) / (2 : Rat))) - ((order : Int) : Rat)))
  let x1 : Int := ((((x0 + s) + ((2 : Int) * order)) + (1 : Int)) + margin)
  let newc : Rat := (c - ((x0 : Int) : Rat))
  (x0, x1, newc)
