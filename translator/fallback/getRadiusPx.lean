def getRadiusPx (radius : Rat) (scale : Rat) : Py.PyM Int := do
  let mut radius_px : Rat := (Py.rabs (radius / scale))
  if (radius_px < (1 : Rat)) then
    return (0 : Int)
  return (Py.ceil radius_px)
