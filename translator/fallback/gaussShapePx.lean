def gaussShapePx (shape : Rat) (scale : Rat) : Int :=
  let shape_subpix : Rat := (shape / scale)
  let shape_px : Int := (Py.round shape_subpix)
  shape_px
