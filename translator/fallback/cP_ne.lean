def cP_ne (a : Rat) (b : Rat) : Bool :=
  (decide (a ≠ b))
