def cP_gt (a : Rat) (b : Rat) : Bool :=
  (decide (a > b))
