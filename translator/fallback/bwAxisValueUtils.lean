def bwAxisValueUtils (k : Int) (d : Int) (cutoff : Rat) : Rat :=
  (((k : Int) : Rat) / (((d : Int) : Rat) * cutoff))
