def pickDepthClamp (s : Int) (d : Int) : Int :=
  (Py.imin s d)
