def writersPassThrough : Bool := true
