def gaussCenter (shape_px : Int) (shift : Rat) (scale : Rat) : Rat :=
  (((((shape_px - (1 : Int)) : Int) : Rat) / (2 : Rat)) + (shift / scale))
