def wedgeScaleIsDivTilt : Bool := true
