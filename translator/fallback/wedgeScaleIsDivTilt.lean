def wedgeScaleIsDivTilt : Bool := false
