def alignPosPx (pos : Rat) (scale : Rat) : Rat :=
  (pos / scale)
