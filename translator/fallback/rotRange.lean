def rotRange (max_rot : Rat) (step : Rat) : Int × Rat × Rat × Int :=
  let n : Int := (Py.trunc (max_rot / step))
  let lo : Rat := ((((-n) : Int) : Rat) * step)
  let hi : Rat := (((n : Int) : Rat) * step)
  let cnt : Int := (((2 : Int) * n) + (1 : Int))
  (n, lo, hi, cnt)
