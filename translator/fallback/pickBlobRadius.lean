def pickBlobRadius : Bool := true
