def pR_sub (a : Rat) (s : Rat) : Rat :=
  (s - a)
