def cR_div (a : Rat) (s : Rat) : Rat :=
  (s / a)
