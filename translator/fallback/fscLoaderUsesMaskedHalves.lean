def fscLoaderUsesMaskedHalves : Bool := true
