def landscapeMaskThenTransform : Bool := true
