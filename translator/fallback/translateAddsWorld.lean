def translateAddsWorld : Bool := true
