def maxFilterIdentity (radius : Rat) : Bool :=
  (decide (radius < (1 : Rat)))
