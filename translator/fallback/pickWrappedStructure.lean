def pickWrappedStructure : Bool := true
