def gaussSigmaPx (sigma : Rat) (scale : Rat) : Rat :=
  (sigma / scale)
