def pS_ne (a : Rat) (s : Rat) : Bool :=
  (decide (a ≠ s))
