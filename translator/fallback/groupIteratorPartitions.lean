def groupIteratorPartitions : Bool := true
