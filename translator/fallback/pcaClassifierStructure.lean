def pcaClassifierStructure : Bool := true
