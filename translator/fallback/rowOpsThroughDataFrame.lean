def rowOpsThroughDataFrame : Bool := true
