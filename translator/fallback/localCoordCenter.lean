def localCoordCenter (s : Int) : Rat :=
  ((((s : Int) : Rat) / (2 : Rat)) - ((1 : Rat) / 2))
