def addTomogramFreshId : Bool := true
