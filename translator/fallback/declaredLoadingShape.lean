def declaredLoadingShape : Bool := true
