def optimizeMaskThenTransform : Bool := true
