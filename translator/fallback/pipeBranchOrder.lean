def pipeBranchOrder : Bool := true
