def dogDepth (sigma_low : Rat) (scale : Rat) : Rat × Int :=
  let sigma1_px : Rat := (sigma_low / scale)
  let depth : Int := (Py.ceil (sigma1_px * (2 : Rat)))
  (sigma1_px, depth)
