def dogDepth (sigma_low : Rat) (sigma_high : Rat) (scale : Rat) : Rat × Rat × Int :=
  let sigma1_px : Rat := (sigma_low / scale)
  let sigma2_px : Rat := (sigma_high / scale)
  let depth : Int := (((Py.ceil (sigma2_px * (4 : Rat))) + (Py.ceil sigma1_px)) + (1 : Int))
  (sigma1_px, sigma2_px, depth)
