def binAxis (s : Int) (binsize : Int) : Int × Int × Int :=
  let npix : Int := (Py.ifloordiv s binsize)
  let res : Int := (Py.imod s binsize)
  let stop : Int := (s - res)
  (npix, res, stop)
