def cS_gt (a : Rat) (s : Rat) : Bool :=
  (decide (a > s))
