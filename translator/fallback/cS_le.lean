def cS_le (a : Rat) (s : Rat) : Bool :=
  (decide (a ≤ s))
