def declaredLandscapeShapeFromModel : Bool := true
