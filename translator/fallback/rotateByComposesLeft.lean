def rotateByComposesLeft : Bool := true
