def padWidthEff1 (m : Rat) (s : Int) : Int :=
  (((s - ((Py.trunc m) * (2 : Int))) - (1 : Int)) / (2 : Int))
