def fscDefaultDfreq (minshape : Int) : Rat :=
  (((3 : Rat) / 2) / ((minshape : Int) : Rat))
