def pipeCurry : Bool := true
