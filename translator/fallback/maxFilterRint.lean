def maxFilterRint (radius : Rat) : Int :=
  (Py.ceil radius)
