def bwRangeBackend (d : Int) : Int × Int :=
  let lo : Int := ((-(d - (1 : Int))) / (2 : Int))
  let hi : Int := (((d - (1 : Int)) / (2 : Int)) + (1 : Int))
  (lo, hi)
