def pickInChunk (pos : Rat) (depth : Int) (blocklen : Int) : Bool :=
  let lower : Rat := (((depth : Int) : Rat) - ((1 : Rat) / 2))
  let upper : Rat := ((((blocklen - depth) : Int) : Rat) - ((1 : Rat) / 2))
  let in_chunk : Bool := (decide ((lower ≤ pos) ∧ (pos < upper)))
  in_chunk
