def splitterComplementary : Bool := true
