def paddingWidth (w : Rat) : Int :=
  (Py.ceil (w + (3 : Rat)))
