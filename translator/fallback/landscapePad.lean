def landscapePad (need_upsample' : Bool) : Int :=
  (if (need_upsample' = true) then (2 : Int) else (0 : Int))
