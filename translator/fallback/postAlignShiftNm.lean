def postAlignShiftNm (loc_shift : Rat) (scale : Rat) : Rat :=
  (loc_shift * scale)
