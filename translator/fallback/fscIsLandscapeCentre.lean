def fscIsLandscapeCentre : Bool := true
