def cP_add (a : Rat) (b : Rat) : Rat :=
  (a + b)
