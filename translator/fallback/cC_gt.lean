def cC_gt (a : Rat) (b : Rat) : Bool :=
  (decide (a > b))
