def cS_ge (a : Rat) (s : Rat) : Bool :=
  (decide (a ≥ s))
