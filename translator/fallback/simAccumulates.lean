def simAccumulates : Bool := true
