def axesToRotatorBuildsColumns : Bool := true
