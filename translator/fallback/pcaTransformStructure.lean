def pcaTransformStructure : Bool := true
