def eulerAngleReverses : Bool := true
