def simClipUsesSlicePad : Bool := true
