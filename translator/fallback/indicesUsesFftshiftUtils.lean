def indicesUsesFftshiftUtils : Bool := false
