def indicesUsesFftshiftUtils : Bool := true
