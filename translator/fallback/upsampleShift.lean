def upsampleShift (maxima : Int) (n : Int) (local_maxima : Int) (local_offset : Rat) : Rat :=
  let midpoints : Int := (n / (2 : Int))
  let loc_shift : Rat := ((((local_maxima : Int) : Rat) / (20 : Rat)) + local_offset)
  let shifts : Rat := ((((maxima - midpoints) : Int) : Rat) + loc_shift)
  shifts
