def indicesOffsetTilt (s : Int) : Int :=
  (Py.ceil (((s : Int) : Rat) / (2 : Rat)))
