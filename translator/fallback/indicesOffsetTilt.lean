def indicesOffsetTilt (s : Int) : Int :=
  (s / (2 : Int))
