def pP_gt (a : Rat) (b : Rat) : Bool :=
  (decide (a > b))
