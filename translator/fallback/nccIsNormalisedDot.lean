def nccIsNormalisedDot : Bool := true
