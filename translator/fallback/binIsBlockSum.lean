def binIsBlockSum : Bool := true
