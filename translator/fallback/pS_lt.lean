def pS_lt (a : Rat) (s : Rat) : Bool :=
  (decide (a < s))
