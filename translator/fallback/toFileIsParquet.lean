def toFileIsParquet (suffix : String) : Bool :=
  (decide ((suffix = ".pq") ∨ (suffix = ".parquet")))
