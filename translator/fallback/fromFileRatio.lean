def fromFileRatio (original_scale : Rat) (scale : Rat) : Rat :=
  (original_scale / scale)
