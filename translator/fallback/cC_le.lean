def cC_le (a : Rat) (b : Rat) : Bool :=
  (decide (a ≤ b))
