def pickMoleculesStructure : Bool := true
