def pP_mul (a : Rat) (b : Rat) : Rat :=
  (a * b)
