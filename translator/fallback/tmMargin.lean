def tmMargin (min_distance : Rat) : Int :=
  ((Py.ceil min_distance) + (1 : Int))
