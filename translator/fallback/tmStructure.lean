def tmStructure : Bool := true
