def alignMaxShiftsPx (max_shifts : Rat) (scale : Rat) : Rat :=
  (max_shifts / scale)
