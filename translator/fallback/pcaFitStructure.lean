def pcaFitStructure : Bool := true
