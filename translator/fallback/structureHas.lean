def structureHas (r : Int) (zz : Int) (yy : Int) (xx : Int) : Bool :=
  (decide (((((xx - r) ^ 2) + ((yy - r) ^ 2)) + ((zz - r) ^ 2)) ≤ (r ^ 2)))
