def cC_eq (a : Rat) (b : Rat) : Bool :=
  (decide (a = b))
