def featureRounding : Bool := true
