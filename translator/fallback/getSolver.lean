def getSolver (n_samples : Int) (n_features : Int) (n_components : Int) (svd_solver : String) (known_shape : Bool) : Py.PyM String := do
  let mut solver : String := svd_solver
  if (¬ ((solver = "full") ∨ (solver = "auto") ∨ (solver = "tsqr") ∨ (solver = "randomized"))) then
    throw Py.PyErr.value
  if (solver = "auto") then
    if (¬ (known_shape = true)) then
      throw Py.PyErr.value
    if ((Py.imax n_samples n_features) ≤ (500 : Int)) then
      solver := "full"
    else if ((n_components ≥ (1 : Int)) ∧ (((n_components : Int) : Rat) < (((4 : Rat) / 5) * (((Py.imin n_samples n_features) : Int) : Rat)))) then
      solver := "randomized"
    else
      solver := "full"
  let mut lower_limit : Int := default
  if (solver = "randomized") then
    lower_limit := (1 : Int)
  else
    lower_limit := (0 : Int)
  if (¬ (((Py.imin n_samples n_features) ≥ n_components) ∧ (n_components ≥ lower_limit))) then
    pure ()
    throw Py.PyErr.value
  return solver
