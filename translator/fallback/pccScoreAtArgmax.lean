def pccScoreAtArgmax : Bool := true
