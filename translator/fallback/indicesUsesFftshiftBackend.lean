def indicesUsesFftshiftBackend : Bool := false
