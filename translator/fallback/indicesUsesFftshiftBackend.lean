def indicesUsesFftshiftBackend : Bool := true
