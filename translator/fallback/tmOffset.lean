def tmOffset (n : Int) : Rat :=
  ((((n + (1 : Int)) : Int) : Rat) / (2 : Rat))
