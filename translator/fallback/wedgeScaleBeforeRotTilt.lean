def wedgeScaleBeforeRotTilt : Bool := true
