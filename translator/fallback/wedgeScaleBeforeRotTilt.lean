def wedgeScaleBeforeRotTilt : Bool := false
