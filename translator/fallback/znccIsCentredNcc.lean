def znccIsCentredNcc : Bool := true
