def pcaDefaultSolver : String := "auto"
