def maxFilterFoot (radius : Rat) (r_int : Int) (zz : Int) (yy : Int) (xx : Int) : Bool :=
  (decide (((((((zz - r_int) ^ 2) + ((yy - r_int) ^ 2)) + ((xx - r_int) ^ 2)) : Int) : Rat) ≤ (radius ^ 2)))
