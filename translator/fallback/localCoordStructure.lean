def localCoordStructure : Bool := true
