def dictIterrowsRowwise : Bool := true
