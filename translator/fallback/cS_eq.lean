def cS_eq (a : Rat) (s : Rat) : Bool :=
  (decide (a = s))
