def cP_le (a : Rat) (b : Rat) : Bool :=
  (decide (a ≤ b))
