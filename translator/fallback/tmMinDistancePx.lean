def tmMinDistancePx (min_distance : Rat) (scale : Rat) : Rat :=
  (min_distance / scale)
