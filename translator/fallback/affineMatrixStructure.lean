def affineMatrixStructure : Bool := true
