def pipeSmoothStructure : Bool := true
