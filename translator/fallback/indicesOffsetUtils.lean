def indicesOffsetUtils (s : Int) : Int :=
  (s / (2 : Int))
