def loaderRemainder (isRot : Bool) (K : Int) (T : Int) (remainder : Int) : Py.PyM Int := do
  let mut remainder : Int := remainder
  if ((isRot = true) ∧ (K > (1 : Int))) then
    remainder := T
  else
    remainder := (-1 : Int)
  return remainder
