def pipeReflectedCommutative : Bool := true
