"""Kernel specifications: which pieces of /repo are translated to Lean (K1).

Each `K` names a source file, a selector that navigates the file's AST to the piece of code the
kernel stands for, the parameter list with types, and the kind of translation:

  expr  - one expression                       -> `def name params : T := e`
  lets  - a chain of local assignments         -> `def name params : T1 × T2.. := let ..; (..)`
  func  - a whole function / list of statements-> `def name params : Py.PyM T := do ...`
  const - a structural fact read off the AST   -> `def name : T := literal`

Selectors raise SelectorMiss when the code no longer has the expected shape.
"""
from __future__ import annotations

import ast
import re
import copy
from dataclasses import dataclass, field
from typing import Callable

import py2lean


class SelectorMiss(Exception):
    pass


# ------------------------------------------------------------------------------------------
# AST navigation helpers
# ------------------------------------------------------------------------------------------
def func(tree: ast.AST, qualname: str) -> ast.FunctionDef:
    node = tree
    for part in qualname.split("."):
        found = None
        for ch in ast.iter_child_nodes(node):
            if isinstance(ch, (ast.FunctionDef, ast.ClassDef)) and ch.name == part:
                found = ch      # keep the last one: @overload stubs precede the implementation
        if found is None:
            raise SelectorMiss(f"no definition {qualname}")
        node = found
    return node


def ordered(node: ast.AST):
    """All descendant nodes in source order."""
    nodes = [n for n in ast.walk(node) if hasattr(n, "lineno")]
    nodes.sort(key=lambda n: (n.lineno, n.col_offset, -(getattr(n, "end_lineno", 0) or 0),
                              -(getattr(n, "end_col_offset", 0) or 0)))
    return nodes


def assign_rhs(node: ast.AST, name: str, nth: int = 0) -> ast.AST:
    hits = []
    for n in ordered(node):
        if isinstance(n, ast.Assign) and any(ast.unparse(t) == name for t in n.targets):
            hits.append(n.value)
        elif isinstance(n, ast.AnnAssign) and ast.unparse(n.target) == name and n.value is not None:
            hits.append(n.value)
    if len(hits) <= nth:
        raise SelectorMiss(f"assignment #{nth} to {name} not found")
    return hits[nth]


def augassign(node: ast.AST, name: str, nth: int = 0) -> ast.AugAssign:
    hits = [n for n in ordered(node) if isinstance(n, ast.AugAssign) and ast.unparse(n.target) == name]
    if len(hits) <= nth:
        raise SelectorMiss(f"augmented assignment #{nth} to {name} not found")
    return hits[nth]


def calls(node: ast.AST, fname: str) -> list[ast.Call]:
    return [n for n in ordered(node) if isinstance(n, ast.Call) and ast.unparse(n.func) == fname]


def call(node: ast.AST, fname: str, nth: int = 0) -> ast.Call:
    hits = calls(node, fname)
    if len(hits) <= nth:
        raise SelectorMiss(f"call #{nth} of {fname} not found")
    return hits[nth]


def call_suffix(node: ast.AST, suffix: str, nth: int = 0) -> ast.Call:
    """Call whose function text ends with `suffix` (e.g. '.fftshift')."""
    hits = [n for n in ordered(node) if isinstance(n, ast.Call) and ast.unparse(n.func).endswith(suffix)]
    if len(hits) <= nth:
        raise SelectorMiss(f"call #{nth} of *{suffix} not found")
    return hits[nth]


def first(node: ast.AST, typ, pred=lambda n: True, nth: int = 0):
    hits = [n for n in ordered(node) if isinstance(n, typ) and pred(n)]
    if len(hits) <= nth:
        raise SelectorMiss(f"node {typ} #{nth} not found")
    return hits[nth]


def ret(node: ast.AST, nth: int = 0) -> ast.AST:
    r = first(node, ast.Return, nth=nth)
    if r.value is None:
        raise SelectorMiss("bare return")
    return r.value


def kwarg(c: ast.Call, name: str) -> ast.AST:
    for k in c.keywords:
        if k.arg == name:
            return k.value
    raise SelectorMiss(f"keyword {name} not found")


class _StripRaiseArgs(ast.NodeTransformer):
    """`raise ValueError(f"... {names} ...")` -> `raise ValueError()` (messages are not modelled
    and may mention names that are not parameters of the kernel)."""

    def visit_Raise(self, node):
        if isinstance(node.exc, ast.Call) and ast.unparse(node.exc.func) in py2lean.EXC_MAP \
                and ast.unparse(node.exc.func) != "SubvolumeOutOfBoundError":
            node.exc = ast.Call(node.exc.func, [], [])
        return node


class _Subst(ast.NodeTransformer):
    def __init__(self, subst):
        self.subst = subst

    def visit(self, node):
        if isinstance(node, ast.expr):
            key = ast.unparse(node)
            if key in self.subst:
                return ast.copy_location(ast.Name(self.subst[key], ast.Load()), node)
        return super().visit(node)


def py_src(node: ast.AST, subst: dict[str, str]) -> str:
    n = _Subst(subst).visit(copy.deepcopy(node))
    ast.fix_missing_locations(n)
    return ast.unparse(n)


# ------------------------------------------------------------------------------------------
@dataclass
class K:
    name: str                       # Lean name (in namespace Gen)
    group: str                      # Gen/<group>.lean
    props: list[str]                # properties that depend on this kernel
    file: str
    kind: str                       # expr | lets | func | const
    params: list[tuple[str, str]]
    select: Callable[[ast.AST], object]
    subst: dict[str, str] = field(default_factory=dict)
    consts: dict[str, object] = field(default_factory=dict)
    ret: str | None = None          # for func kind: Lean return type
    want: str | None = None
    fallback_ret: str | None = None
    pyname: str | None = None       # for func kind on whole functions: dotted import path

    def translate(self, sel):
        if self.kind == "expr":
            text, ty = py2lean.translate_expr(sel, self.name, self.params, self.subst, self.consts,
                                              self.want)
            return text, {"expr": py_src(sel, self.subst)}, ty
        if self.kind == "lets":
            items, outputs = sel
            text, ty = py2lean.translate_lets(items, outputs, self.name, self.params, self.subst,
                                              self.consts)
            return text, {"items": [(v, py_src(n, self.subst)) for v, n in items],
                          "outputs": outputs}, ty
        if self.kind == "func":
            if isinstance(sel, ast.FunctionDef):
                fn = sel
                src = {"funcsrc": ast.unparse(_strip_decorators(fn)), "fname": fn.name}
            else:
                stmts, returns = sel
                fn = ast.FunctionDef(
                    name="kernel", args=ast.arguments(
                        posonlyargs=[], args=[ast.arg(p) for p, _ in self.params], kwonlyargs=[],
                        kw_defaults=[], defaults=[]),
                    body=[_StripRaiseArgs().visit(_Subst(self.subst).visit(copy.deepcopy(s)))
                          for s in stmts] + [ast.Return(
                        ast.Tuple([ast.Name(r, ast.Load()) for r in returns], ast.Load())
                        if len(returns) != 1 else ast.Name(returns[0], ast.Load()))],
                    decorator_list=[], lineno=1, col_offset=0)
                ast.fix_missing_locations(fn)
                src = {"funcsrc": ast.unparse(fn), "fname": "kernel"}
            text = py2lean.translate_function(fn, self.name, self.params, self.ret, self.subst,
                                              self.consts)
            return text, src, self.ret
        if self.kind == "const":
            v = sel
            if isinstance(v, bool):
                return f"def {self.name} : Bool := {'true' if v else 'false'}\n", {"value": v}, "Bool"
            if isinstance(v, int):
                return f"def {self.name} : Int := {v}\n", {"value": v}, "Int"
            if isinstance(v, str):
                return f'def {self.name} : String := "{v}"\n', {"value": v}, "String"
            raise py2lean.Untranslatable(f"const {v!r}")
        raise ValueError(self.kind)


def _strip_decorators(fn: ast.FunctionDef) -> ast.FunctionDef:
    fn = copy.deepcopy(fn)
    fn.decorator_list = []
    fn.returns = None
    for a in fn.args.args:
        a.annotation = None
    return fn


GROUP_DEPS: dict[str, list[str]] = {}
KERNELS: list[K] = []


def add(*a, **kw):
    KERNELS.append(K(*a, **kw))


I, R, B, S = "Int", "Rat", "Bool", "Str"
# string-typed kernel arguments travel through the line protocol as indices into this table
STR_TABLE = ["auto", "full", "tsqr", "randomized", "arpack", "covariance_eigh", "bogus",
             ".pq", ".parquet", ".csv", ".txt", ".PQ", ".Parquet", "", ".pq.csv", "pq", ".parquet "]

# ==========================================================================================
# C02  crop window / slice arithmetic          acryo/_utils.py
# ==========================================================================================
add("makeSliceAndPad", "Crop", ["C02", "C14"], "acryo/_utils.py", "func",
    [("z0", I), ("z1", I), ("size", I)],
    lambda t: func(t, "make_slice_and_pad"), ret="((Int × Int) × (Int × Int) × Bool)")


def _prep_affine_loop(t, fname):
    fn = func(t, fname)
    loop = first(fn, ast.For)
    items = [("x0", assign_rhs(loop, "x0")), ("x1", assign_rhs(loop, "x1")),
             ("newc", call(loop, "new_center.append").args[0])]
    try:
        # extra voxels for nearest-neighbour sampling, computed once before the loop
        items.insert(0, ("margin", assign_rhs(fn, "margin")))
    except SelectorMiss:
        pass
    return items, ["x0", "x1", "newc"]


add("prepareAffineAxis", "Crop", ["C02"], "acryo/_utils.py", "lets",
    [("c", R), ("s", I), ("order", I)],
    lambda t: _prep_affine_loop(t, "prepare_affine"))
add("prepareAffineOutputCenter", "Crop", ["C02"], "acryo/_utils.py", "expr",
    [("s", I)],
    lambda t: assign_rhs(func(t, "prepare_affine"), "output_center"),
    subst={"np.array(output_shape)": "s"})
add("cornerSafeAxis", "Crop", ["C02"], "acryo/_utils.py", "lets",
    [("c", R), ("max_len", R), ("order", I)],
    lambda t: (lambda fn: ([("half_len", assign_rhs(fn, "half_len"))]
                           + _prep_affine_loop(t, "prepare_affine_cornersafe")[0],
                           ["x0", "x1", "newc"]))(func(t, "prepare_affine_cornersafe")))
add("cornerSafeOutputCenter", "Crop", ["C02"], "acryo/_utils.py", "expr",
    [("s", I)],
    lambda t: assign_rhs(func(t, "prepare_affine_cornersafe"), "output_center"),
    subst={"np.array(output_shape)": "s"})

# ==========================================================================================
# C04 / C05  landscape cropping and refinement mesh    acryo/backend/_zncc.py, _upsample.py, ...
# ==========================================================================================
_UPS = {"UPSAMPLE": 20}


def _upsample_const(t):
    v = assign_rhs(t, "UPSAMPLE")
    if not (isinstance(v, ast.Constant) and isinstance(v.value, int)):
        raise SelectorMiss("UPSAMPLE is not an int literal")
    return v.value


add("upsampleFactor", "Align", ["C04", "C05"], "acryo/backend/_upsample.py", "const", [],
    _upsample_const)
add("paddingWidth", "Align", ["C04", "C05"], "acryo/backend/_zncc.py", "expr", [("w", R)],
    lambda t: assign_rhs(func(t, "_get_padding_width"), "w_int"))
for _i, _f in enumerate(["ncc_landscape_with_crop", "zncc_landscape_with_crop", "subpixel_ncc",
                         "subpixel_zncc"]):
    add(f"padWidthEff{_i}", "Align", ["C04", "C05", "C07"], "acryo/backend/_zncc.py", "expr",
        [("m", R), ("s", I)],
        (lambda f: lambda t: first(assign_rhs(func(t, f), "pad_width_eff"), ast.GeneratorExp).elt)(_f))


def _mesh_local_shifts(t):
    fn = func(t, "_create_mesh")
    lc = assign_rhs(fn, "local_shifts")
    if not isinstance(lc, ast.ListComp) or not isinstance(lc.elt, ast.List) or len(lc.elt.elts) != 2:
        raise SelectorMiss("local_shifts shape")
    items = [("shifts", assign_rhs(fn, "shifts")),
             ("shiftl", assign_rhs(fn, "left")),
             ("shiftr", assign_rhs(fn, "right")),
             ("lo", lc.elt.elts[0]), ("hi", lc.elt.elts[1])]
    return items, ["lo", "hi"]


add("meshBounds", "Align", ["C04", "C05"], "acryo/backend/_upsample.py", "lets",
    [("maxima", I), ("midpoints", I), ("_max_shifts", R)], _mesh_local_shifts,
    subst={"np.asarray(maxima, dtype=np.float32)": "maxima"}, consts=_UPS)


def _mesh_node(t):
    fn = func(t, "_create_mesh")
    lc = first(call_suffix(fn, ".meshgrid"), ast.ListComp)
    return lc.elt


add("meshNode", "Align", ["C04", "C05"], "acryo/backend/_upsample.py", "expr",
    [("j", I), ("m", I), ("w", I)], _mesh_node,
    subst={"backend.arange(s0, s1 + 1)": "j"}, consts=_UPS, want="Rat")


def _upsample_shift(t):
    fn = func(t, "upsample")
    return ([("midpoints", assign_rhs(fn, "midpoints")),
             ("loc_shift", assign_rhs(fn, "loc_shift")),
             ("shifts", assign_rhs(fn, "shifts"))], ["shifts"])


add("upsampleShift", "Align", ["C04", "C05"], "acryo/backend/_upsample.py", "lets",
    [("maxima", I), ("n", I), ("local_maxima", I), ("local_offset", R)], _upsample_shift,
    subst={"np.asarray(res.shape, dtype=np.int32)": "n"}, consts=_UPS)
add("meshOffset", "Align", ["C04", "C05"], "acryo/backend/_upsample.py", "expr",
    [("s0", I)],
    lambda t: assign_rhs(func(t, "_create_mesh"), "offset"),
    subst={"backend.array([s0 for s0, s1 in local_shifts], dtype=np.float32)": "s0"}, consts=_UPS)


def _crop_bounds(fname):
    def sel(t):
        fn = func(t, fname)
        sl = call(assign_rhs(fn, "slices"), "slice")
        c = first(assign_rhs(fn, "centers"), ast.GeneratorExp).elt
        return [("c", c), ("lo", sl.args[0]), ("hi", sl.args[1])], ["c", "lo", "hi"]
    return sel


add("pccCropBounds", "Align", ["C04", "C05"], "acryo/backend/_pcc.py", "lets",
    [("shiftl", I), ("shiftr", I), ("s", I)], _crop_bounds("crop_by_max_shifts"))
add("pccLandscapeBounds", "Align", ["C04", "C05", "C07"], "acryo/backend/_pcc.py", "lets",
    [("shiftl", R), ("shiftr", R), ("s", I)], _crop_bounds("pcc_landscape"))
add("fscOutShape", "Align", ["C04", "C05", "C10"], "acryo/backend/_fsc.py", "expr", [("m", R)],
    lambda t: first(assign_rhs(func(t, "fsc_landscape"), "out_shape"), ast.GeneratorExp).elt)


def _fsc_phase_range(t):
    fn = func(t, "_get_phase_1d")
    r = assign_rhs(fn, "rng")
    if not (isinstance(r, ast.Call) and ast.unparse(r.func) == "range" and len(r.args) == 2):
        raise SelectorMiss("rng = range(a, b)")
    return [("s", assign_rhs(fn, "s")), ("lo", r.args[0]), ("hi", r.args[1])], ["lo", "hi"]


add("fscPhaseRange", "Align", ["C04", "C05"], "acryo/backend/_fsc.py", "lets", [("size", I)],
    _fsc_phase_range)


def _pcc_refine(t):
    fn = func(t, "subpixel_pcc")
    st = first(assign_rhs(fn, "starts"), ast.ListComp).elt
    sp = first(assign_rhs(fn, "stops"), ast.ListComp).elt
    return ([("upsampled_region_size", assign_rhs(fn, "upsampled_region_size")),
             ("dftshift", assign_rhs(fn, "dftshift")),
             ("lsh", assign_rhs(fn, "_lshift")),
             ("rsh", assign_rhs(fn, "_rshift")),
             ("center", assign_rhs(fn, "center")),
             ("start", st), ("stop", sp)],
            ["upsampled_region_size", "dftshift", "start", "stop"])


add("pccRefine", "Align", ["C04", "C05"], "acryo/backend/_pcc.py", "lets",
    [("shifts", R), ("_max_shifts", R), ("upsample_factor", I), ("size", I)], _pcc_refine)


def _pcc_refine_shift(t):
    fn = func(t, "subpixel_pcc")
    return ([("maxima", assign_rhs(fn, "maxima", 1)), ("shifts", assign_rhs(fn, "shifts", 2))],
            ["shifts"])


add("pccRefineShift", "Align", ["C04", "C05"], "acryo/backend/_pcc.py", "lets",
    [("shifts", R), ("local_maxima", I), ("starts", I), ("dftshift", R), ("upsample_factor", I)],
    _pcc_refine_shift)
add("pccCoarse", "Align", ["C04", "C05"], "acryo/backend/_pcc.py", "expr",
    [("shifts", R), ("upsample_factor", I)],
    lambda t: assign_rhs(func(t, "subpixel_pcc"), "shifts", 1))


def _pcc_score_index(t):
    """The score must be read at the arg-max position of the array it was searched in."""
    fn = func(t, "subpixel_pcc")
    rhs = ast.unparse(assign_rhs(fn, "pcc", 0))
    return "local_maxima" in rhs and "maxima" not in rhs.replace("local_maxima", "")


add("pccScoreAtArgmax", "Align", ["C04", "C05", "C07"], "acryo/backend/_pcc.py", "const", [],
    _pcc_score_index)


# ==========================================================================================
# C06  candidate ordering / decode
# ==========================================================================================
add("decodeRotation", "Decode", ["C06"], "acryo/alignment/_base.py", "expr",
    [("iopt", I), ("K", I), ("T", I)],
    lambda t: assign_rhs(func(t, "RotationImplemented.align"), "quat").slice,
    subst={"self._n_rotations": "K", "self._n_templates": "T"})


def _post_align_label(t):
    fn = func(t, "LoaderBase._post_align_multi_templates")
    # the reduction modulo the number of templates and the narrowing cast, in source order
    stmts = [st for st in fn.body
             if (isinstance(st, ast.If) and "remainder" in ast.unparse(st.test))
             or (isinstance(st, ast.Assign) and ast.unparse(st.targets[0]) == "labels" and ".astype(" in ast.unparse(st.value))]
    if not any(isinstance(st, ast.If) for st in stmts):
        raise SelectorMiss("label reduction not found")
    return stmts, ["labels"]


add("reduceLabel", "Decode", ["C06"], "acryo/loader/_base.py", "func",
    [("labels", I), ("remainder", I)], _post_align_label, ret="Int")


def _remainder_sel(qual):
    def sel(t):
        fn = func(t, qual)
        node = first(fn, ast.If, lambda n: "_n_rotations" in ast.unparse(n.test))
        return [node], ["remainder"]
    return sel


add("loaderRemainder", "Decode", ["C06"], "acryo/loader/_base.py", "func",
    [("isRot", B), ("K", I), ("T", I), ("remainder", I)],
    _remainder_sel("LoaderBase.align_multi_templates"), ret="Int",
    subst={"isinstance(model, RotationImplemented)": "isRot", "model._n_rotations": "K",
           "len(_templates)": "T"})

# ==========================================================================================
# C08  FFT index grid of the wedge masks (three copies)
# ==========================================================================================
def _indices_offset(fname):
    def sel(t):
        fn = func(t, fname)
        return augassign(fn, "ind").value
    return sel


def _indices_shift(fname):
    def sel(t):
        r = ret(func(t, fname))
        f = ast.unparse(r.func).split(".")[-1]
        if f not in ("fftshift", "ifftshift"):
            raise SelectorMiss(f"unexpected shift function {f}")
        return f == "fftshift"
    return sel


for _nm, _file, _fn in [("Tilt", "acryo/tilt/_utils.py", "get_indices"),
                        ("Backend", "acryo/backend/_missing_wedge.py", "_get_indices"),
                        ("Utils", "acryo/_utils.py", "_get_indices")]:
    add(f"indicesOffset{_nm}", "Wedge", ["C08"], _file, "expr", [("s", I)], _indices_offset(_fn))
    add(f"indicesUsesFftshift{_nm}", "Wedge", ["C08"], _file, "const", [], _indices_shift(_fn))

# ==========================================================================================
# C16  Butterworth grid (two copies)
# ==========================================================================================
def _bw_range(fname, arange):
    def sel(t):
        fn = func(t, fname)
        c = call(fn, arange)
        return [("lo", c.args[0]), ("hi", c.args[1])], ["lo", "hi"]
    return sel


def _bw_shift(fname):
    def sel(t):
        fn = func(t, fname)
        c = call(fn, "ranges.append").args[0]
        f = ast.unparse(c.func).split(".")[-1]
        if f not in ("fftshift", "ifftshift"):
            raise SelectorMiss(f"unexpected shift function {f}")
        if ast.unparse(c.args[0]) != "axis ** 2":
            raise SelectorMiss("ranges.append(shift(axis ** 2)) expected")
        return f == "ifftshift"
    return sel


def _bw_axis_scale(fname, arange):
    def sel(t):
        fn = func(t, fname)
        return assign_rhs(fn, "axis")
    return sel


def _lp_guard(fname):
    def sel(t):
        return first(func(t, fname), ast.If).test
    return sel


for _nm, _file, _ar in [("Utils", "acryo/_utils.py", "np.arange"),
                        ("Backend", "acryo/backend/_bandpass.py", "backend.arange")]:
    add(f"bwRange{_nm}", "Lowpass", ["C16"], _file, "lets", [("d", I)],
        _bw_range("nd_butterworth_weight", _ar))
    add(f"bwUsesIfftshift{_nm}", "Lowpass", ["C16"], _file, "const", [],
        _bw_shift("nd_butterworth_weight"))
    add(f"bwAxisValue{_nm}", "Lowpass", ["C16"], _file, "expr", [("k", I), ("d", I), ("cutoff", R)],
        _bw_axis_scale("nd_butterworth_weight", _ar),
        subst={f"{_ar}(-(d - 1) // 2, (d - 1) // 2 + 1, dtype=np.float32)": "k"}, want="Rat")
    add(f"bwLimit{_nm}", "Lowpass", ["C16"], _file, "expr", [("dlast", I)],
        lambda t: assign_rhs(func(t, "nd_butterworth_weight"), "limit"),
        subst={"shape[-1]": "dlast"})
    add(f"bwWeight{_nm}", "Lowpass", ["C16"], _file, "expr", [("q2", R), ("order", I)],
        lambda t: assign_rhs(func(t, "nd_butterworth_weight"), "wfilt"))
    for _fn2 in ["lowpass_filter", "lowpass_filter_ft"]:
        add(f"lpGuard{_nm}_{_fn2.replace('lowpass_filter', 'lp')}", "Lowpass", ["C16"], _file, "expr",
            [("cutoff", R), ("sqrtNdim", R)], _lp_guard(_fn2),
            subst={"np.sqrt(img.ndim)": "sqrtNdim"})


def _irfftn_has_s(fname, irf):
    def sel(t):
        fn = func(t, fname)
        c = call(fn, irf)
        return len(c.args) >= 2 or any(k.arg == "s" for k in c.keywords)
    return sel


add("lpIrfftnHasShapeUtils", "Lowpass", ["C16"], "acryo/_utils.py", "const", [],
    _irfftn_has_s("lowpass_filter", "irfftn"))
add("lpIrfftnHasShapeBackend", "Lowpass", ["C16"], "acryo/backend/_bandpass.py", "const", [],
    _irfftn_has_s("lowpass_filter", "backend.irfftn"))


def _cand_order(t):
    fn = func(t, "RotationImplemented._get_template_and_mask_input")
    for n in ordered(fn):
        if isinstance(n, ast.For):
            inner = [m for m in n.body if isinstance(m, ast.For)]
            if inner:
                o, i = ast.unparse(n.iter), ast.unparse(inner[0].iter)
                if o == "matrices" and i == "inputs_templates":
                    return True
                if o == "inputs_templates" and i == "matrices":
                    return False
                raise SelectorMiss(f"unexpected candidate loops {o}/{i}")
    raise SelectorMiss("nested candidate loops not found")


add("candidateRotationMajor", "Decode", ["C06"], "acryo/alignment/_base.py", "const", [], _cand_order)


def _group_remainder(t):
    fn = func(t, "LoaderGroup.align_multi_templates")
    c = call(fn, "remainders.append")
    return c.args[0]


add("groupRemainder", "Decode", ["C06"], "acryo/loader/_group.py", "expr",
    [("has_rotation", B), ("T", I)], _group_remainder,
    subst={"model.has_rotation": "has_rotation", "len(_tmps)": "T"})


def _rot_range(t):
    fn = func(t, "_seq_of_max_and_step_to_quat")
    c = call(fn, "np.linspace")
    return [("n", assign_rhs(fn, "n")), ("lo", c.args[0]), ("hi", c.args[1]), ("cnt", c.args[2])], \
        ["n", "lo", "hi", "cnt"]


add("rotRange", "Decode", ["C06"], "acryo/_rotation.py", "lets", [("max_rot", R), ("step", R)],
    _rot_range)


# ---- C08 continued: normal scaling, tilt-model selection, tilt-range validation ----------
def _normal_scaling(qual, which):
    """How the wedge normals are combined with the box shape and the inverse rotation.
    Returns (scale_before_rotation, scale_is_division) as one of two consts."""
    def sel(t):
        fn = func(t, qual)
        rhs = assign_rhs(fn, "normal0")
        src = ast.unparse(rhs)
        pats = {
            "rotator_inv.apply(normal0 * shape_vector)": (True, False),
            "rotator_inv.apply(normal0 / shape_vector)": (True, True),
            "rotator_inv.apply(normal0) * shape_vector": (False, False),
            "rotator_inv.apply(normal0) / shape_vector": (False, True),
        }
        if src not in pats:
            raise SelectorMiss(f"unexpected normal expression {src}")
        # the second normal must be treated the same way
        rhs1 = ast.unparse(assign_rhs(fn, "normal1"))
        if rhs1 != src.replace("normal0", "normal1"):
            raise SelectorMiss("normal0 / normal1 are scaled differently")
        return pats[src][which]
    return sel


for _nm, _file, _q in [("Tilt", "acryo/tilt/_single.py", "SingleAxis.create_mask"),
                       ("TiltNorms", "acryo/tilt/_single.py", "SingleAxis._mask_from_norms"),
                       ("Backend", "acryo/backend/_missing_wedge.py", "missing_wedge_mask"),
                       ("Utils", "acryo/_utils.py", "missing_wedge_mask")]:
    add(f"wedgeScaleBeforeRot{_nm}", "Wedge", ["C08"], _file, "const", [], _normal_scaling(_q, 0))
    add(f"wedgeScaleIsDiv{_nm}", "Wedge", ["C08"], _file, "const", [], _normal_scaling(_q, 1))


def _wedge_pred(qual):
    def sel(t):
        return assign_rhs(func(t, qual), "missing")
    return sel


for _nm, _file, _q in [("Tilt", "acryo/tilt/_single.py", "SingleAxis.create_mask"),
                       ("Backend", "acryo/backend/_missing_wedge.py", "missing_wedge_mask"),
                       ("Utils", "acryo/_utils.py", "missing_wedge_mask")]:
    add(f"wedgePredicate{_nm}", "Wedge", ["C08"], _file, "expr", [("dot0", R), ("dot1", R)],
        _wedge_pred(_q))


def _tilt_select(t):
    fn = func(t, "TomographyInput.__init__")
    stmts = [n for n in fn.body if isinstance(n, ast.If) and "tilt" in ast.unparse(n.test)]
    if not stmts:
        raise SelectorMiss("tilt selection statements")
    return stmts, ["tilt_model"]


add("tiltSelect", "Wedge", ["C08"], "acryo/alignment/_base.py", "func",
    [("hasRange", B), ("tiltNone", B), ("isModel", B), ("tilt_model", I)], _tilt_select, ret="Int",
    subst={"tilt_range is not None": "hasRange", "tilt is None": "tiltNone",
           "isinstance(tilt, TiltSeriesModel)": "isModel",
           "single_axis(tilt_range)": "selRange", "no_wedge()": "selNone", "tilt": "selModel",
           "single_axis(tilt)": "selTuple"},
    consts={"selRange": 1, "selNone": 0, "selModel": 2, "selTuple": 3})


def _tilt_validate(t):
    fn = func(t, "SingleAxis.__init__")
    return [n for n in fn.body if isinstance(n, ast.If)], []


add("tiltRangeValidate", "Wedge", ["C08"], "acryo/tilt/_single.py", "func",
    [("_min", R), ("_max", R)], _tilt_validate, ret="Unit")


# ==========================================================================================
# C07  score formulas and pre-processing chain (structural facts + PCC wrap rule)
# ==========================================================================================
def pattern(sel):
    """A structural fact: True when the source has the expected shape, False otherwise (the
    theorem `... = true` then no longer checks and the failing-input search takes over)."""
    def wrapped(t):
        try:
            return bool(sel(t))
        except (SelectorMiss, AttributeError, IndexError):
            return False
    return wrapped


def _unparse_norm(n):
    return ast.unparse(n).replace(" ", "")


def _ncc_form(t):
    r = ret(func(t, "ncc"))
    want = "backend.sum(img0*img1)/backend.sqrt(backend.sum(img0**2)*backend.sum(img1**2))"
    if _unparse_norm(r) != want:
        raise SelectorMiss("ncc is not sum(a*b)/sqrt(sum(a**2)*sum(b**2))")
    return True


def _zncc_form(t):
    r = ret(func(t, "zncc"))
    want = "ncc(img0-img0.mean(),img1-img1.mean(),backend=backend)"
    if _unparse_norm(r) != want:
        raise SelectorMiss("zncc is not ncc(a - a.mean(), b - b.mean())")
    return True


add("nccIsNormalisedDot", "Score", ["C07"], "acryo/backend/_zncc.py", "const", [], pattern(_ncc_form))
add("znccIsCentredNcc", "Score", ["C07"], "acryo/backend/_zncc.py", "const", [], pattern(_zncc_form))


def _score_chain(cls, real_fn):
    """`_score` of a concrete model applies the wedge mask to both spectra out of place, goes back
    to real space and calls the score function: fn(ifftn(subvolume * mw).real, ifftn(template * mw).real)."""
    def sel(t):
        fn = func(t, f"{cls}._score")
        r = ret(fn)
        if not isinstance(r, ast.Call) or ast.unparse(r.func) != real_fn:
            raise SelectorMiss(f"{cls}._score does not return {real_fn}(...)")
        a0, a1 = _unparse_norm(r.args[0]), _unparse_norm(r.args[1])
        if a0 != "backend.ifftn(subvolume*mw).real" or a1 != "backend.ifftn(template*mw).real":
            raise SelectorMiss(f"unexpected score arguments {a0}, {a1}")
        body = [s for s in fn.body if not (isinstance(s, ast.Expr) and isinstance(s.value, ast.Constant))]
        if len(body) != 2 or _unparse_norm(body[0]) != "mw=self._get_missing_wedge_mask(quaternion,backend)":
            raise SelectorMiss("extra statements in _score")
        return True
    return sel


add("znccScoreChain", "Score", ["C07"], "acryo/alignment/_concrete.py", "const", [],
    pattern(_score_chain("ZNCCAlignment", "zncc")))
add("nccScoreChain", "Score", ["C07"], "acryo/alignment/_concrete.py", "const", [],
    pattern(_score_chain("NCCAlignment", "ncc")))


def _pre_chain(qual, call_name):
    """mask is applied before pre_transform: self.pre_transform(<img> * <mask>, backend)."""
    def sel(t):
        fn = func(t, qual)
        c = call(fn, "self.pre_transform")
        a = _unparse_norm(c.args[0])
        if a not in ("xp.asarray(img)*_mask", "subvolume*mask"):
            raise SelectorMiss(f"pre_transform argument {a}")
        return True
    return sel


add("scoreMaskThenTransform", "Score", ["C07"], "acryo/alignment/_base.py", "const", [],
    pattern(_pre_chain("BaseAlignmentModel.score", "score")))
add("optimizeMaskThenTransform", "Score", ["C07"], "acryo/alignment/_base.py", "const", [],
    pattern(_pre_chain("BaseAlignmentModel._optimize_single", "opt")))
add("landscapeMaskThenTransform", "Score", ["C07"], "acryo/alignment/_base.py", "const", [],
    pattern(_pre_chain("BaseAlignmentModel._landscape_single", "lds")))


def _fsc_is_landscape_centre(t):
    fn = func(t, "fsc")
    c = assign_rhs(fn, "out")
    if _unparse_norm(c) != "fsc_landscape(ft0,ft1,(0,0,0),backend=backend)":
        raise SelectorMiss("fsc() is not fsc_landscape(..., (0,0,0))")
    if _unparse_norm(ret(fn)) != "out[0,0,0]":
        raise SelectorMiss("fsc() does not return out[0,0,0]")
    return True


add("fscIsLandscapeCentre", "Score", ["C07"], "acryo/backend/_fsc.py", "const", [],
    _fsc_is_landscape_centre)


def _same_landscape_call(f_align, f_lds):
    """The alignment and the landscape function build the response with the same call."""
    def sel(t):
        fa = func(t, f_align)
        a = _unparse_norm(assign_rhs(fa, "response"))
        b = _unparse_norm(assign_rhs(func(t, f_lds), "response"))
        # the alignment function may centre its inputs in separate statements first
        try:
            if _unparse_norm(assign_rhs(fa, "img0")) == "img0-img0.mean()" and \
                    _unparse_norm(assign_rhs(fa, "img1")) == "img1-img1.mean()":
                a = a.replace("(img0,img1,", "(img0-img0.mean(),img1-img1.mean(),")
        except SelectorMiss:
            pass
        if a != b:
            raise SelectorMiss(f"{f_align} and {f_lds} compute different responses")
        pa = _unparse_norm(assign_rhs(func(t, f_align), "pad_width_eff"))
        pb = _unparse_norm(assign_rhs(func(t, f_lds), "pad_width_eff"))
        if pa != pb:
            raise SelectorMiss("different crop widths")
        return True
    return sel


add("znccAlignUsesLandscape", "Score", ["C07"], "acryo/backend/_zncc.py", "const", [],
    pattern(_same_landscape_call("subpixel_zncc", "zncc_landscape_with_crop")))
add("nccAlignUsesLandscape", "Score", ["C07"], "acryo/backend/_zncc.py", "const", [],
    pattern(_same_landscape_call("subpixel_ncc", "ncc_landscape_with_crop")))
add("pccMidpoint", "Score", ["C07", "C04"], "acryo/backend/_pcc.py", "expr", [("axis_size", I)],
    lambda t: first(assign_rhs(func(t, "subpixel_pcc"), "midpoints"), ast.ListComp).elt)
add("pccWrapCond", "Score", ["C07", "C04"], "acryo/backend/_pcc.py", "expr",
    [("shifts", R), ("midpoints", R)],
    lambda t: assign_rhs(func(t, "subpixel_pcc"), "sl"))


# ==========================================================================================
# C09  random half split
# ==========================================================================================
add("splitDraws", "Split", ["C09", "C17"], "acryo/loader/_misc.py", "expr", [("nmole", I)],
    lambda t: call(func(t, "random_splitter"), "rng.choice").args[1])


def _splitter_structure(t):
    fn = func(t, "random_splitter")
    body = [_unparse_norm(s) for s in fn.body
            if not (isinstance(s, ast.Expr) and isinstance(s.value, ast.Constant))]
    want = ["sl=rng.choice(np.arange(nmole),nmole//2).tolist()",
            "indices0=np.zeros(nmole,dtype=np.bool_)", "indices0[sl]=True",
            "indices1=np.ones(nmole,dtype=np.bool_)", "indices1[sl]=False",
            "return(indices0,indices1)"]
    # the number of draws is a separate (translated) kernel; compare the rest literally
    body[0] = re.sub(r"rng\.choice\(np\.arange\(nmole\),.*\)\.tolist\(\)", "rng.choice(np.arange(nmole),K).tolist()", body[0])
    want[0] = "sl=rng.choice(np.arange(nmole),K).tolist()"
    if body != want:
        raise SelectorMiss("random_splitter body changed: " + " ; ".join(body))
    return True


add("splitterComplementary", "Split", ["C09", "C17"], "acryo/loader/_misc.py", "const", [],
    pattern(_splitter_structure))


def _split_loop(qual):
    def sel(t):
        fn = func(t, qual)
        loop = first(fn, ast.For, lambda n: "n_set" in ast.unparse(n.iter))
        if _unparse_norm(loop.iter) != "range(n_set)":
            raise SelectorMiss("loop over range(n_set)")
        c = call(loop, "_misc.random_splitter")
        if _unparse_norm(c) != "_misc.random_splitter(rng,nmole)":
            raise SelectorMiss("splitter call")
        # one random stream per call, created from the seed before any loop (never re-seeded per group / set,
        # never derived from hash(), id() or the clock)
        seeds = [n for n in ordered(fn) if isinstance(n, ast.Call) and ast.unparse(n.func).endswith("default_rng")]
        if len(seeds) != 1 or _unparse_norm(seeds[0]) != "np.random.default_rng(seed=seed)":
            raise SelectorMiss("random stream is not default_rng(seed=seed), created once")
        for anc in ast.walk(fn):
            if isinstance(anc, (ast.For, ast.While)) and any(x is seeds[0] for x in ast.walk(anc)):
                raise SelectorMiss("random stream created inside a loop")
        # both halves are means of the masked stack
        src = _unparse_norm(loop)
        if not (("dsk[ind0].rechunk(chunksize).mean(axis=0)" in src and "dsk[ind1].rechunk(chunksize).mean(axis=0)" in src)
                or ("da.mean(dask_array[ind0],axis=0)" in src and "da.mean(dask_array[ind1],axis=0)" in src)):
            raise SelectorMiss("half averages are not means of stack[ind0] / stack[ind1]")
        return True
    return sel


add("splitLoopLoader", "Split", ["C09", "C17"], "acryo/loader/_base.py", "const", [],
    pattern(_split_loop("LoaderBase.average_split")))
add("splitLoopGroup", "Split", ["C09", "C17"], "acryo/loader/_group.py", "const", [],
    pattern(_split_loop("LoaderGroup.average_split")))
add("splitSqueeze", "Split", ["C09"], "acryo/loader/_base.py", "expr", [("squeeze", B), ("n_set", I)],
    lambda t: first(func(t, "LoaderBase.average_split"), ast.If, lambda n: "squeeze" in ast.unparse(n.test)).test)


# ==========================================================================================
# C17  Fourier shell correlation
# ==========================================================================================
add("fscLabel", "Fsc", ["C17"], "acryo/_utils.py", "expr", [("r", R), ("dfreq", R)],
    lambda t: assign_rhs(func(t, "fourier_shell_correlation"), "labels"))
add("fscShellFreq", "Fsc", ["C17"], "acryo/_utils.py", "expr", [("i", I), ("dfreq", R)],
    lambda t: assign_rhs(func(t, "fourier_shell_correlation"), "freq"),
    subst={"np.arange(len(out))": "i"})


def _fsc_structure(t):
    fn = func(t, "fourier_shell_correlation")
    chk = {
        "freqs": "np.meshgrid(*[np.fft.fftshift(np.fft.fftfreq(s,d=1.0))forsinshape],indexing='ij')",
        "r": "np.sqrt(sum((f**2forfinfreqs)))",
        "nlabels": "labels.max()",
        "f0": "np.fft.fftshift(fftn(img0))",
        "f1": "np.fft.fftshift(fftn(img1))",
        "cov": "f0.real*f1.real+f0.imag*f1.imag",
        "pw0": "f0.real**2+f0.imag**2",
        "pw1": "f1.real**2+f1.imag**2",
    }
    for name, want in chk.items():
        got = _unparse_norm(assign_rhs(fn, name))
        if got != want:
            raise SelectorMiss(f"{name} = {got}")
    out = _unparse_norm(assign_rhs(fn, "out", 1))
    if out != "radial_sum(cov)/np.sqrt(radial_sum(pw0)*radial_sum(pw1))":
        raise SelectorMiss("out = " + out)
    rs = func(fn, "radial_sum")
    if _unparse_norm(ret(rs)) != "sum_labels(arr,labels=labels,index=np.arange(0,nlabels))":
        raise SelectorMiss("radial_sum")
    return True


add("fscIsNormalisedCrossSpectrum", "Fsc", ["C17"], "acryo/_utils.py", "const", [],
    pattern(_fsc_structure))
add("fscDefaultDfreq", "Fsc", ["C17"], "acryo/loader/_base.py", "expr", [("minshape", I)],
    lambda t: assign_rhs(func(t, "LoaderBase.fsc_with_halfmaps"), "dfq").body,
    subst={"min(output_shape)": "minshape"})


def _fsc_loader_structure(t):
    fn = func(t, "LoaderBase.fsc_with_halfmaps")
    src = _unparse_norm(fn)
    need = ["halves=self.average_split(n_set=n_set,seed=seed,squeeze=False,output_shape=output_shape)",
            "ifzero_norm:halves[:]-=halves.mean()",
            "img0,img1=halves[i]",
            "_utils.fourier_shell_correlation(img0*_mask,img1*_mask,dfreq=dfq)",
            "ifn_set<=0:raiseValueError"]
    for n in need:
        if n not in src.replace("\n", "").replace("    ", ""):
            raise SelectorMiss("missing: " + n)
    return True


add("fscLoaderUsesMaskedHalves", "Fsc", ["C17"], "acryo/loader/_base.py", "const", [],
    pattern(_fsc_loader_structure))


# ==========================================================================================
# C15  binning
# ==========================================================================================
def _bin_axis(t):
    fn = func(t, "bin_image")
    loop = first(fn, ast.For)
    asg = first(loop, ast.Assign)
    if _unparse_norm(asg) != "npix,res=divmod(s,binsize)":
        raise SelectorMiss("npix, res = divmod(s, binsize)")
    s_, b_ = asg.value.args
    sl = call(loop, "slice")
    if _unparse_norm(sl.args[0]) != "None":
        raise SelectorMiss("slice(None, ...)")
    ext = call(loop, "_shapes.extend").args[0]
    if _unparse_norm(ext) != "[npix,binsize]":
        raise SelectorMiss("_shapes.extend([npix, binsize])")
    return ([("npix", ast.BinOp(s_, ast.FloorDiv(), b_)), ("res", ast.BinOp(s_, ast.Mod(), b_)),
             ("stop", sl.args[1])], ["npix", "res", "stop"])


add("binAxis", "Bin", ["C15"], "acryo/_utils.py", "lets", [("s", I), ("binsize", I)], _bin_axis)


def _bin_sum_axes(t):
    fn = func(t, "bin_image")
    if _unparse_norm(assign_rhs(fn, "axis")) != "tuple((i*2+1foriinrange(img.ndim)))":
        raise SelectorMiss("axis")
    if _unparse_norm(ret(fn)) != "img_reshaped.sum(axis=axis)":
        raise SelectorMiss("return")
    if _unparse_norm(assign_rhs(fn, "img_reshaped")) != "img[slices].reshape(shapes)":
        raise SelectorMiss("reshape")
    return True


add("binIsBlockSum", "Bin", ["C15"], "acryo/_utils.py", "const", [], pattern(_bin_sum_axes))
for _nm, _file, _q in [("Loader", "acryo/loader/_loader.py", "SubtomogramLoader.binning"),
                       ("Batch", "acryo/loader/_batch.py", "BatchLoader.binning")]:
    add(f"binTr{_nm}", "Bin", ["C15"], _file, "expr", [("binsize", I), ("scale", R)],
        (lambda q: lambda t: assign_rhs(func(t, q), "tr"))(_q), subst={"self.scale": "scale"})
    add(f"binScale{_nm}", "Bin", ["C15"], _file, "expr", [("binsize", I), ("scale", R)],
        (lambda q: lambda t: kwarg(call(func(t, q), "self.replace"), "scale"))(_q),
        subst={"self.scale": "scale"})

    def _bin_struct(q):
        def sel(t):
            fn = func(t, q)
            src = _unparse_norm(fn)
            for need in ["ifbinsize==1:returnself.copy()", "molecules=self.molecules.translate([tr,tr,tr])",
                         "_utils.bin_image("]:
                if need not in src.replace("\n", "").replace("    ", ""):
                    raise SelectorMiss("missing " + need)
            return True
        return sel
    add(f"binStructure{_nm}", "Bin", ["C15"], _file, "const", [], pattern(_bin_struct(_q)))


# ==========================================================================================
# C12 / C13  molecule tables
# ==========================================================================================
_CORE = "acryo/molecules/core.py"


def _subset_int(t):
    fn = func(t, "Molecules.subset")
    node = first(fn, ast.If, lambda n: _unparse_norm(n.test) == "isinstance(spec,int)")
    return list(node.body), ["_spec"]


add("subsetIntIndex", "Table", ["C12"], _CORE, "func", [("spec", I), ("n", I)], _subset_int,
    ret="(Int × Int)", subst={"len(self)": "n"})




def _strip_brackets(text):
    """text with everything inside (), [], {} removed (to look for a top-level `=`)"""
    out, depth = [], 0
    for ch in text:
        if ch in "([{":
            depth += 1
        elif ch in ")]}":
            depth = max(0, depth - 1)
        elif depth == 0:
            out.append(ch)
    return "".join(out)


def _has(src, *needles):
    """Every needle occurs in the (unparsed) source, ignoring whitespace. A needle that reads like a
    complete statement must also END where a source line ends (otherwise `x = f(a)` would still be
    "found" in `x = f(a).astype(np.uint8)` or `x = f(a) + 1`); needles that end in an opening token
    (`,` `(` `[` `.` `=`) or are written as fragments (leading `.`) are substring matches."""
    lines = [ln.strip().replace(" ", "") for ln in src.splitlines()]
    flat = "".join(lines)
    ends, k = set(), 0
    for ln in lines:
        k += len(ln)
        ends.add(k)
    for n in needles:
        nn = n.replace(" ", "").replace("\n", "")
        if not nn:
            continue
        # statement-like needles (assignment, or starting with a statement keyword) are strict; "~" forces
        # a fragment (sub-expression) match
        forced = n.lstrip().startswith("~")
        if forced:
            nn = nn[1:]
        stmt_like = bool(re.match(r"^(return|if|elif|else|for|while|raise|with|assert|del|yield)\b", n.lstrip())) \
            or bool(re.search(r"(?<![=!<>+\-*/%&|^:])=(?!=)", _strip_brackets(n)))
        fragment = forced or not stmt_like or nn[-1] in ",([.=" or nn[0] == "."
        pos, ok = flat.find(nn), False
        while pos >= 0:
            if fragment or (pos + len(nn)) in ends:
                ok = True
                break
            pos = flat.find(nn, pos + 1)
        if not ok:
            raise SelectorMiss("missing: " + n)
    return True


def _setter(t):
    cls = func(t, "Molecules")
    setters = [n for n in cls.body if isinstance(n, ast.FunctionDef) and n.name == "features"
               and any("setter" in ast.unparse(d) for d in n.decorator_list)]
    if not setters:
        raise SelectorMiss("features.setter")
    return _has(ast.unparse(setters[0]),
                "if len(df) != self.pos.shape[0]:", "raise ValueError(")


add("featuresLengthChecked", "Table", ["C12"], _CORE, "const", [], pattern(_setter))
add("rotLengthChecked", "Table", ["C12"], _CORE, "const", [],
    pattern(lambda t: _has(ast.unparse(func(t, "Molecules.__init__")),
                           "elif nmol > 0 and nmol != len(rot):", "raise ValueError(",
                           "if _pos.shape[1] != 3:")))
add("dupColumnsRejected", "Table", ["C12", "C13"], _CORE, "const", [],
    pattern(lambda t: _has(ast.unparse(func(t, "Molecules.to_dataframe")),
                           "if (dup := set(self.features.columns).intersection(_CSV_COLUMNS)):",
                           "raise ValueError(")))
add("appendExtraRejected", "Table", ["C12"], _CORE, "const", [],
    pattern(lambda t: _has(ast.unparse(func(t, "Molecules.append")),
                           "other_feat = other.features", "if other_feat.width == 0:",
                           "~for name, dtype in self.features.schema.items()",
                           "~pl.Series(name, [None] * other.count(), dtype=dtype)",
                           "feat = pl.concat([self.features, other_feat], how='diagonal')",
                           "if len(feat.columns) != len(self.features.columns):", "raise ValueError(",
                           "pos = np.concatenate([self.pos, other.pos], axis=0)",
                           "rot = np.concatenate([self.quaternion(), other.quaternion()], axis=0)",
                           "self._pos = pos", "self._rotator = Rotation.from_quat(rot)", "self._features = feat")))


def _subset_parallel(t):
    return _has(ast.unparse(func(t, "Molecules.subset")),
                "pos = self.pos[_spec]", "quat = self.quaternion(canonical=False)[_spec]",
                "self._features.filter(_spec)", "self._features[_spec]")


add("subsetSameSpecForAll", "Table", ["C12"], _CORE, "const", [], pattern(_subset_parallel))


def _df_ops(t):
    cls = func(t, "Molecules")
    want = {"filter": "df.filter(predicate)", "head": "df.head(n)", "tail": "df.tail(n)",
            "sample": "df.sample(n, seed=seed)", "sort": "df.sort(by, *more_by, descending=descending)"}
    for name, op in want.items():
        src = ast.unparse(func(cls, name))
        _has(src, "df = self.to_dataframe()", "from_dataframe(", op)
    _has(ast.unparse(func(cls, "group_by")), "df = self.to_dataframe()", "~maintain_order=True")
    _has(ast.unparse(func(cls, "cutby")), "self.to_dataframe().with_columns(cat)", "~maintain_order=True")
    return True


add("rowOpsThroughDataFrame", "Table", ["C12"], _CORE, "const", [], pattern(_df_ops))


def _concat_parallel(t):
    cls = func(t, "Molecules")
    _has(ast.unparse(func(cls, "concat_with")),
         "pos = np.concatenate([self.pos, other.pos], axis=0)",
         "rot = np.concatenate([self.quaternion(), other.quaternion()], axis=0)",
         "feat = pl.concat([self.features, other.features], how=how)")
    _has(ast.unparse(func(cls, "concat")), "pos.append(mol.pos)", "quat.append(mol.quaternion())",
         "features.append(mol.features)", "all_pos = np.concatenate(pos, axis=0)",
         "all_quat = np.concatenate(quat, axis=0)", "all_features = pl.concat(features, how=how)")
    return True


add("concatParallel", "Table", ["C12"], _CORE, "const", [], pattern(_concat_parallel))


def _csv_columns(t):
    v = assign_rhs(t, "_CSV_COLUMNS")
    if [e.value for e in v.elts] != ["z", "y", "x", "zvec", "yvec", "xvec"]:
        raise SelectorMiss("_CSV_COLUMNS")
    src = ast.unparse(func(t, "Molecules.to_dataframe"))
    _has(src, "{'z': self.pos[:, 0], 'y': self.pos[:, 1], 'x': self.pos[:, 2], 'zvec': rotvec[:, 0], "
              "'yvec': rotvec[:, 1], 'xvec': rotvec[:, 2]}", "df = df.with_columns(list(self._features))",
         "rotvec = self.rotvec().astype(np.float32)")
    return True


add("columnLayout", "Table", ["C13"], _CORE, "const", [], pattern(_csv_columns))


def _from_df(t):
    return _has(ast.unparse(func(t, "Molecules.from_dataframe")),
                "pos = df.select(pos_cols)", "rotvec = df.select(rot_cols)",
                "feature_columns = [c for c in df.columns if c not in cols]",
                "features = df.select(feature_columns)", "rot = Rotation.from_rotvec(rotvec.to_numpy())",
                "return cls(pos.to_numpy(), rot, features=features)")


add("fromDataFrameSelectsByName", "Table", ["C13"], _CORE, "const", [], pattern(_from_df))
add("toFileIsParquet", "Table", ["C13"], _CORE, "expr", [("suffix", "Str")],
    lambda t: first(func(t, "Molecules.to_file"), ast.If).test, subst={"save_path.suffix": "suffix"})
add("fromFileIsParquet", "Table", ["C13"], _CORE, "expr", [("suffix", "Str")],
    lambda t: first(func(t, "Molecules.from_file"), ast.If).test, subst={"path.suffix": "suffix"})


# ==========================================================================================
# C01  pose update after alignment
# ==========================================================================================
def _lt_branch(t):
    fn = func(t, "Molecules.linear_transform")
    node = first(fn, ast.If, lambda n: _unparse_norm(n.test) == "inv")
    return node.orelse


def _lt_prerotates(t):
    body = _lt_branch(t)
    src = [_unparse_norm(s) for s in body]
    joined = ";".join(src)
    if "shift_corrected=rotator.apply(shift)" in joined:
        return True
    if "rotator.apply" in joined:
        raise SelectorMiss("unexpected use of rotator.apply: " + joined)
    return False


def _lt_order(t):
    body = _lt_branch(t)
    r = _unparse_norm(body[-1])
    for arg in ("shift_corrected", "shift"):
        if r == f"returnself.translate_internal({arg}).rotate_by_rotvec_internal(rotvec)":
            return True
        if r == f"returnself.rotate_by_rotvec_internal(rotvec).translate_internal({arg})":
            return False
    raise SelectorMiss("linear_transform return: " + r)


add("ltPreRotatesShift", "Pose", ["C01"], _CORE, "const", [], _lt_prerotates)
add("ltTranslateFirst", "Pose", ["C01"], _CORE, "const", [], _lt_order)
add("ltRotvecFromRotator", "Pose", ["C01"], _CORE, "const", [],
    pattern(lambda t: _has(ast.unparse(func(t, "Molecules.linear_transform")), "rotvec = rotator.as_rotvec()")))
add("translateInternalUsesOwnRotation", "Pose", ["C01", "C11"], _CORE, "const", [],
    pattern(lambda t: _has(ast.unparse(func(t, "Molecules.translate_internal")),
                           "world_shifts = self._rotator.apply(shifts)",
                           "return self.translate(world_shifts, copy=copy)")))
add("rotateInternalConjugates", "Pose", ["C01", "C11"], _CORE, "const", [],
    pattern(lambda t: _has(ast.unparse(func(t, "Molecules.rotate_by_rotvec_internal")),
                           "vec_z = cross(vec_x, vec_y, axis=1)",
                           "world_rotvec = vec_z * vector[:, 0][:, np.newaxis] + vec_y * vector[:, 1][:, np.newaxis] "
                           "+ vec_x * vector[:, 2][:, np.newaxis]",
                           "return self.rotate_by_rotvec(world_rotvec, copy=copy)")))
add("rotateByComposesLeft", "Pose", ["C01", "C11"], _CORE, "const", [],
    pattern(lambda t: _has(ast.unparse(func(t, "Molecules.rotate_by")), "rot = rotator * self._rotator")))
add("postAlignShiftNm", "Pose", ["C01", "C05"], "acryo/loader/_base.py", "expr",
    [("loc_shift", R), ("scale", R)],
    lambda t: assign_rhs(func(t, "LoaderBase._post_align"), "local_shifts[i]"), subst={"self.scale": "scale"})
add("postAlignMultiShiftNm", "Pose", ["C01", "C05"], "acryo/loader/_base.py", "expr",
    [("loc_shift", R), ("scale", R)],
    lambda t: assign_rhs(func(t, "LoaderBase._post_align_multi_templates"), "local_shifts[i]"),
    subst={"self.scale": "scale"})
add("alignMaxShiftsPx", "Pose", ["C01", "C05"], "acryo/loader/_base.py", "expr",
    [("max_shifts", R), ("scale", R)],
    lambda t: assign_rhs(func(t, "LoaderBase.align"), "_max_shifts_px").args[0],
    subst={"np.asarray(max_shifts)": "max_shifts", "self.scale": "scale"})
add("alignPosPx", "Pose", ["C01"], "acryo/loader/_base.py", "expr", [("pos", R), ("scale", R)],
    lambda t: kwarg(kwarg(call(func(t, "LoaderBase.align"), "self.construct_mapping_tasks"), "var_kwarg"), "pos"),
    subst={"self.molecules.pos": "pos", "self.scale": "scale"})


def _post_align_structure(t):
    for q in ("LoaderBase._post_align", "LoaderBase._post_align_multi_templates"):
        _has(ast.unparse(func(t, q)), "rotator = Rotation.from_quat(local_rot)",
             "mole_aligned = self.molecules.linear_transform(local_shifts, rotator)",
             "rotator.as_rotvec()")
    return True


add("postAlignUsesLinearTransform", "Pose", ["C01"], "acryo/loader/_base.py", "const", [],
    pattern(_post_align_structure))
add("featureRounding", "Pose", ["C01"], "acryo/loader/_misc.py", "const", [],
    pattern(lambda t: _has(ast.unparse(func(t, "get_feature_list")),
                           "pl.Series('score', corr_max)", "pl.Series('align-dz', np.round(local_shifts[:, 0], 2))",
                           "pl.Series('align-dy', np.round(local_shifts[:, 1], 2))",
                           "pl.Series('align-dx', np.round(local_shifts[:, 2], 2))",
                           "pl.Series('align-dzrot', np.round(rotvec[:, 0], 5))")))


# ==========================================================================================
# C11  rigid-motion algebra of molecule poses
# ==========================================================================================
_ROTF = "acryo/molecules/_rotation.py"
add("axesAreImagesOfUnitVectors", "Rigid", ["C11"], _CORE, "const", [],
    pattern(lambda t: (_has(ast.unparse(func(t, "Molecules.x")), "self._rotator.apply(np.array([0.0, 0.0, 1.0]))")
                       and _has(ast.unparse(func(t, "Molecules.y")), "self._rotator.apply(np.array([0.0, 1.0, 0.0]))")
                       and _has(ast.unparse(func(t, "Molecules.z")), "self._rotator.apply(np.array([1.0, 0.0, 0.0]))"))))
add("crossIsNegatedNumpyCross", "Rigid", ["C11"], _CORE, "const", [],
    pattern(lambda t: _has(ast.unparse(func(t, "cross")), "return -np.cross(x, y, axis=axis)")))
add("axesToRotatorBuildsColumns", "Rigid", ["C11"], _ROTF, "const", [],
    pattern(lambda t: _has(ast.unparse(func(t, "axes_to_rotator")),
                           "y0 = _normalize(np.atleast_2d(y))",
                           "z0 = _extract_orthogonal(y0, _normalize(np.atleast_2d(z)))",
                           "z0 = _normalize(z0)", "x0 = -np.cross(y0, z0, axis=1)",
                           "return Rotation.from_matrix(np.stack([z0, y0, x0], axis=2))")))
add("fromAxesCompletesTriad", "Rigid", ["C11"], _CORE, "const", [],
    pattern(lambda t: _has(ast.unparse(func(t, "Molecules.from_axes")),
                           "z = cross(x, y, axis=1)", "y = cross(z, x, axis=1)",
                           "rotator = axes_to_rotator(z, y)")))


def _euler_table(t):
    fn = func(t, "translate_euler")
    _has(ast.unparse(fn), "table = str.maketrans({'x': 'z', 'z': 'x', 'X': 'Z', 'Z': 'X'})",
         "return seq[::-1].translate(table)")
    _has(ast.unparse(func(t, "from_euler_xyz_coords")), "seq = translate_euler(seq)",
         "return Rotation.from_euler(seq, angles[..., ::-1], degrees)")
    return True


add("eulerTranslation", "Rigid", ["C11"], _ROTF, "const", [], pattern(_euler_table))
add("eulerAngleReverses", "Rigid", ["C11"], _CORE, "const", [],
    pattern(lambda t: _has(ast.unparse(func(t, "Molecules.euler_angle")), "seq = translate_euler(seq)",
                           "return self._rotator.as_euler(seq, degrees=degrees)[..., ::-1]")))
add("localCoordCenter", "Rigid", ["C11", "C02"], _CORE, "expr", [("s", I)],
    lambda t: first(assign_rhs(func(t, "Molecules.local_coordinates"), "center"), ast.ListComp).elt)
add("localCoordStructure", "Rigid", ["C11"], _CORE, "const", [],
    pattern(lambda t: _has(ast.unparse(func(t, "Molecules.local_coordinates")),
                           "vec_z = cross(vec_x, vec_y)",
                           "(np.arange(s, dtype=np.float32) - c for s, c in zip(shape, center))",
                           "x_ax: NDArray[np.float32] = vec_x[:, np.newaxis] * ind_x",
                           "y_ax: NDArray[np.float32] = vec_y[:, np.newaxis] * ind_y",
                           "z_ax: NDArray[np.float32] = vec_z[:, np.newaxis] * ind_z",
                           "shifts = self.pos[index] / scale")))
add("affineMatrixStructure", "Rigid", ["C11"], _CORE, "const", [],
    pattern(lambda t: _has(ast.unparse(func(t, "Molecules.affine_matrix")),
                           "mat = self._rotator.inv().as_matrix()", "mat = self.matrix()",
                           "translation_0[:, :3, 3] = dst", "translation_1[:, :3, 3] = -src",
                           "np.einsum('nij,njk,nkl->nil', translation_0, rot_mat, translation_1)")))
add("translateAddsWorld", "Rigid", ["C11"], _CORE, "const", [],
    pattern(lambda t: _has(ast.unparse(func(t, "Molecules.translate")),
                           "coords = self._pos + np.asarray(shifts, dtype=np.float32)")))


# ==========================================================================================
# C03  row i <-> molecule i
# ==========================================================================================
_BATCH = "acryo/loader/_batch.py"
_LBASE = "acryo/loader/_base.py"
_LGROUP = "acryo/loader/_group.py"


def _batch_scatter(t):
    return _has(ast.unparse(func(t, "BatchLoader.construct_loading_tasks")),
                "image_ids = self.molecules.features[IMAGE_ID_LABEL].to_numpy()",
                "tasks: list[da.Array | None] = [None] * len(image_ids)",
                "for key, group in self.molecules.groupby(IMAGE_ID_LABEL):",
                "loader = SubtomogramLoader(self._images[key], group,",
                "indices = np.flatnonzero(image_ids == key)",
                "for i, task in zip(indices, sub_tasks):", "tasks[i] = task",
                "return DaskArrayList(tasks)")


add("batchTasksScatteredToMoleculeOrder", "Loader", ["C03", "C10"], _BATCH, "const", [], pattern(_batch_scatter))
add("groupByKeepsOrder", "Loader", ["C03", "C12"], _CORE, "const", [],
    pattern(lambda t: _has(ast.unparse(func(t, "Molecules.group_by")), "~maintain_order=True")))
add("mappingTasksZipRows", "Loader", ["C03"], _LBASE, "const", [],
    pattern(lambda t: (_has(ast.unparse(func(t, "LoaderBase.iter_mapping_tasks")),
                            "dask_array = self.construct_loading_tasks(output_shape=output_shape)",
                            "~for ar, kw in zip(dask_array, _misc.dict_iterrows(var_kwarg))",
                            "(delayed_f(ar, *const_args, **const_kwargs) for ar in dask_array)")
                       and _has(ast.unparse(func(t, "LoaderBase._post_align")),
                                "for i, result in enumerate(results):", "local_shifts[i] = loc_shift * self.scale")
                       and _has(ast.unparse(func(t, "LoaderBase._post_align_multi_templates")),
                                "for i, result in enumerate(results):"))))
add("dictIterrowsRowwise", "Loader", ["C03"], "acryo/loader/_misc.py", "const", [],
    pattern(lambda t: _has(ast.unparse(func(t, "dict_iterrows")), "value_iters = [iter(v) for v in d.values()]",
                           "for k, viter in zip(keys, value_iters):", "dict_out[k] = next(viter)", "yield dict_out")))
add("derivedLoadersDelegate", "Loader", ["C03"], _LBASE, "const", [],
    pattern(lambda t: (_has(ast.unparse(func(t, "LoaderBase.head")), "return self.replace(molecules=self.molecules.head(n))")
                       and _has(ast.unparse(func(t, "LoaderBase.tail")), "return self.replace(molecules=self.molecules.tail(n))")
                       and _has(ast.unparse(func(t, "LoaderBase.sample")), "return self.replace(molecules=self.molecules.sample(n, seed))")
                       and _has(ast.unparse(func(t, "LoaderBase.filter")), "return self.replace(molecules=self.molecules.filter(predicate))"))))
add("batchReplacePrunesImages", "Loader", ["C03"], _BATCH, "const", [],
    pattern(lambda t: _has(ast.unparse(func(t, "BatchLoader.replace")), "out._images = self._images.copy()",
                           "_id_exists = set(molecules.features[IMAGE_ID_LABEL].unique())",
                           "for k in list(out._images.keys()):", "if k not in _id_exists:", "out._images.pop(k)")))
add("addTomogramFreshId", "Loader", ["C03"], _BATCH, "const", [],
    pattern(lambda t: _has(ast.unparse(func(t, "BatchLoader.add_tomogram")), "image_id = len(self._images)",
                           "while image_id in self._images:", "image_id += 1", "molecules = molecules.copy()",
                           "_molecules_new = self._molecules.concat_with(molecules)")))
add("groupDerivedAreLists", "Loader", ["C03", "C09"], _LGROUP, "const", [],
    pattern(lambda t: all(_has(ast.unparse(func(t, f"LoaderGroup.{n}")), f"return self.__class__([(key, loader.{c}) for key, loader in self])")
                          for n, c in (("filter", "filter(predicate)"), ("head", "head(n)"), ("tail", "tail(n)"),
                                       ("sample", "sample(n, seed)")))))
add("groupIteratorPartitions", "Loader", ["C03"], _LGROUP, "const", [],
    pattern(lambda t: _has(ast.unparse(func(t, "LoaderGroupByIterator.__iter__")),
                           "for key, mole in loader.molecules.with_features(index).groupby(self._by):",
                           "~molecules=mole.drop_features(index_col_name)")))


# ==========================================================================================
# C10  scheduling independence: shared cache, declared shapes
# ==========================================================================================
_ABASE = "acryo/alignment/_base.py"
add("backendEqByModule", "Sched", ["C10"], "acryo/backend/_api.py", "const", [],
    pattern(lambda t: (_has(ast.unparse(func(t, "Backend.__eq__")), "if not isinstance(other, Backend):",
                            "return NotImplemented", "return self._xp_ is other._xp_")
                       and _has(ast.unparse(func(t, "Backend.__hash__")), "return hash(self._xp_)"))))
add("cacheGetProtocol", "Sched", ["C10"], _ABASE, "const", [],
    pattern(lambda t: (_has(ast.unparse(func(t, "TemplateMaskCache.get")),
                            "if (out := self._dict.get(backend)):", "return out",
                            "if (val := next(iter(self._dict.values()), None)):",
                            "self._dict[backend] = out = (backend.asarray(val[0]), backend.asarray(val[1]))",
                            "return None")
                       and _has(ast.unparse(func(t, "TemplateMaskCache.set")), "self._dict[backend] = (template, mask)"))))
add("cacheFilledAtInit", "Sched", ["C10"], _ABASE, "const", [],
    pattern(lambda t: _has(ast.unparse(func(t, "BaseAlignmentModel.__init__")),
                           "self._template_mask_cache = TemplateMaskCache()",
                           "self._get_template_and_mask_input(Backend())")))
add("declaredLandscapeShapeFromModel", "Sched", ["C10"], _LBASE, "const", [],
    pattern(lambda t: _has(ast.unparse(func(t, "LoaderBase.construct_landscape")),
                           "task_shape = model.landscape(np.zeros(model.input_shape, dtype=np.float32), "
                           "_max_shifts_px, upsample=upsample).shape",
                           ".asarrays(shape=task_shape, dtype=np.float32)")))
add("declaredLoadingShape", "Sched", ["C10"], "acryo/loader/_loader.py", "const", [],
    pattern(lambda t: _has(ast.unparse(func(t, "SubtomogramLoader.construct_loading_tasks")),
                           "pool.add_task(subvol, mtx, shape=output_shape, order=self.order, cval=xp.mean)",
                           "return pool.asarrays(shape=output_shape, dtype=np.float32)")))
add("landscapePad", "Sched", ["C10", "C07"], _ABASE, "expr", [("_need_upsample", B)],
    lambda t: assign_rhs(func(t, "BaseAlignmentModel.landscape"), "pad"))
add("landscapeNeedUpsample", "Sched", ["C10", "C07"], _ABASE, "expr", [("upsample", I)],
    lambda t: assign_rhs(func(t, "BaseAlignmentModel.landscape"), "_need_upsample"))


def _mesh_axis(t):
    fn = func(t, "_build_mesh")
    ls = call(fn, "backend.linspace")
    return ([("width", assign_rhs(fn, "upsampled_max_shifts")),
             ("c", assign_rhs(fn, "center")),
             ("lo", ls.args[0]), ("hi", ls.args[1]), ("cnt", ls.args[2])], ["width", "lo", "hi", "cnt"])


add("buildMeshAxis", "Sched", ["C10", "C07"], "acryo/backend/_mesh.py", "lets",
    [("max_shifts", R), ("upsample", I), ("shape", I)], _mesh_axis,
    subst={"np.asarray(max_shifts)": "max_shifts", "np.array(shape)": "shape"})


# ==========================================================================================
# C14  tomogram simulation
# ==========================================================================================
_SIM = "acryo/simulator.py"


def _prep_iter(t):
    fn = func(t, "_prep_iterators")
    oc = kwarg(call(fn, "_compose_affine_matrices"), "output_center")
    return ([("pos", assign_rhs(fn, "pos")), ("intpos", assign_rhs(fn, "intpos")),
             ("residue", assign_rhs(fn, "residue")), ("center", assign_rhs(fn, "center")),
             ("int_center", assign_rhs(fn, "int_center")), ("starts", assign_rhs(fn, "starts")),
             ("stops", assign_rhs(fn, "stops")), ("output_center", oc)],
            ["starts", "stops", "center", "output_center"])


add("simPrep", "Sim", ["C14"], _SIM, "lets", [("p", R), ("scale", R), ("shape", I)], _prep_iter,
    subst={"mol.pos": "p", "np.array(shape)": "shape"})
add("simMatrixStructure", "Sim", ["C14"], _SIM, "const", [],
    pattern(lambda t: (_has(ast.unparse(func(t, "_prep_iterators")),
                            "mtxs = _compose_affine_matrices(center, mol.rotator.inv(), output_center=")
                       and _has(ast.unparse(func(t, "_compose_affine_matrices")),
                                "translation_1[:, :3, 3] = -output_center", "rot_mtx[:, :3, :3] = rotator.as_matrix()",
                                "np.einsum('ij,njk,nkl->nil', translation_0, rot_mtx, translation_1)"))))
add("simAccumulates", "Sim", ["C14"], _SIM, "const", [],
    pattern(lambda t: (_has(ast.unparse(func(t, "TomogramSimulator._simulate")),
                            "tomogram = np.zeros(shape, dtype=np.float32)",
                            "for mol, image in self._components.values():",
                            "starts, stops, mtxs = _prep_iterators(mol, img.shape, self._scale)",
                            "for start, stop, mtx in zip(starts, stops, mtxs):",
                            "pool.add_task(img, start, stop, mtx, shape, self.order)",
                            "tomogram[sl] += img_fragment")
                       and _has(ast.unparse(func(t, "_simulate_one")),
                                "sl_src, sl_dst = _prep_slices(start, stop, shape, img.shape)",
                                "return ((slice(None),), None)", "return (sl_dst, transformed[sl_src])"))))


def _sim2d(t):
    src = ast.unparse(func(t, "TomogramSimulator.simulate_2d"))
    if "[1:]" in src:
        raise SelectorMiss("simulate_2d slices its per-molecule iterators")
    _has(src, "starts, stops, mtxs = _prep_iterators(mol, img.shape, self._scale)",
         "for start, stop, mtx in zip(starts, stops, mtxs):", "pool.add_task(img, start, stop, mtx, shape3d, self.order)",
         "projection[sl] += img_fragment")
    _has(ast.unparse(func(t, "_simulate_2d_one")), "projected = np.sum(transformed[sl_src], axis=0)",
         "return (sl_dst[1:], projected)")
    return True


add("sim2dProjectsEveryMolecule", "Sim", ["C14"], _SIM, "const", [], pattern(_sim2d))
add("sim2dZSize", "Sim", ["C14"], _SIM, "expr", [("zmax", R), ("scale", R), ("sumshape", I)],
    lambda t: assign_rhs(func(t, "TomogramSimulator.simulate_2d"), "zsize"),
    subst={"mol.pos[:, 0].max()": "zmax", "self.scale": "scale", "np.sum(img.shape)": "sumshape"})


def _prep_slices_axis(t):
    fn = func(t, "_prep_slices")
    _has(ast.unparse(fn), "_sl, _pads, _out_of_bound = _utils.make_slice_and_pad(s, e, size)",
         "except ValueError:", "return ((slice(None),), None)", "sl_dst_list.append(_sl)",
         "s0, s1 = _pads", "sl_src_list.append(slice(s0, tsize - s1))", "sl_src_list.append(slice(None))")
    return True


add("simClipUsesSlicePad", "Sim", ["C14"], _SIM, "const", [], pattern(_prep_slices_axis))


# ==========================================================================================
# C05  units of max_shifts along the loader entry points
# ==========================================================================================
def _max_shift_units(t):
    """Each loader entry normalises max_shifts once (nm), converts it to pixels exactly once into
    `_max_shifts_px`, hands the pixel value to the alignment model and the nm value to other loader
    methods (which convert themselves)."""
    for q in ("LoaderBase.align", "LoaderBase.align_multi_templates", "LoaderBase.construct_landscape"):
        fn = func(t, q)
        asg = [n for n in ordered(fn) if isinstance(n, ast.Assign) and ast.unparse(n.targets[0]) == "max_shifts"]
        if len(asg) != 1 or _unparse_norm(asg[0].value) != "_normalize_max_shifts(max_shifts)":
            raise SelectorMiss(q + ": max_shifts is not normalised exactly once")
        px = [n for n in ordered(fn) if isinstance(n, ast.Assign) and ast.unparse(n.targets[0]) == "_max_shifts_px"]
        if len(px) != 1 or _unparse_norm(px[0].value) not in ("tuple(np.asarray(max_shifts)/self.scale)",
                                                              "np.asarray(max_shifts)/self.scale"):
            raise SelectorMiss(q + ": pixel conversion changed")
        for c in ordered(fn):
            if not isinstance(c, ast.Call):
                continue
            f = ast.unparse(c.func)
            for k in c.keywords:
                if k.arg == "max_shifts":
                    v = ast.unparse(k.value)
                    if f.endswith("align_multi_templates") and v != "max_shifts":
                        raise SelectorMiss(q + ": nm value expected by align_multi_templates")
                    if (f.endswith("construct_mapping_tasks") or f.endswith("iter_mapping_tasks")) and v != "_max_shifts_px":
                        raise SelectorMiss(q + ": pixel value expected by the model")
    return True


add("maxShiftsUnitsFlow", "Pose", ["C05"], "acryo/loader/_base.py", "const", [], pattern(_max_shift_units))


# ==========================================================================================
# C16  the cached Butterworth weight is never modified in place
# ==========================================================================================
def _weight_cache_pure(t):
    for fn in [n for n in ast.walk(t) if isinstance(n, ast.FunctionDef)]:
        src = ast.unparse(fn)
        if "nd_butterworth_weight(" not in src or fn.name == "nd_butterworth_weight":
            continue
        names = {ast.unparse(n.targets[0]) for n in ast.walk(fn) if isinstance(n, ast.Assign)
                 and "nd_butterworth_weight(" in ast.unparse(n.value) and not isinstance(n.value, ast.BinOp)}
        for n in ast.walk(fn):
            if isinstance(n, ast.AugAssign) and ast.unparse(n.target).split("[")[0] in names:
                raise SelectorMiss(fn.name + ": cached weight modified in place")
            if isinstance(n, ast.Call):
                for k in n.keywords:
                    if k.arg == "out" and ast.unparse(k.value).split("[")[0] in names:
                        raise SelectorMiss(fn.name + ": cached weight used as out=")
            if isinstance(n, ast.Assign) and isinstance(n.targets[0], ast.Subscript) \
                    and ast.unparse(n.targets[0].value) in names:
                raise SelectorMiss(fn.name + ": cached weight written through an index")
    return True


add("butterworthCacheNotMutated", "Lowpass", ["C16"], "acryo/_utils.py", "const", [], pattern(_weight_cache_pure))


# ==========================================================================================
# C18  PCA: solver choice, flattening / masking order, projection, label write-back
# ==========================================================================================
_PCA = "acryo/classification/_dask_pca.py"
_CLF = "acryo/classification/pca.py"


def _get_solver_sel(t):
    fn = func(t, "DaskPCA._get_solver")
    stmts, solvers = [], None
    for st in fn.body:
        if isinstance(st, ast.Assign) and ast.unparse(st.targets[0]) == "(n_samples, n_features)" \
                and ast.unparse(st.value) == "X.shape":
            continue
        if isinstance(st, ast.Assign) and ast.unparse(st.targets[0]) == "solvers" \
                and isinstance(st.value, (ast.Set, ast.Tuple, ast.List)):
            solvers = st.value
            continue
        if isinstance(st, ast.Return):
            if ast.unparse(st.value) != "solver":
                raise SelectorMiss("_get_solver no longer returns `solver`")
            continue
        stmts.append(copy.deepcopy(st))
    if solvers is None:
        raise SelectorMiss("solver set not found")

    class Inl(ast.NodeTransformer):
        def visit_Name(self, node):
            return copy.deepcopy(solvers) if node.id == "solvers" else node

        def visit_Assign(self, node):
            # error-message strings are not modelled
            if ast.unparse(node.targets[0]) == "msg":
                return ast.Pass()
            return self.generic_visit(node)

    stmts = [Inl().visit(st) for st in stmts]
    return stmts, ["solver"]


add("getSolver", "Pca", ["C18"], _PCA, "func",
    [("n_samples", I), ("n_features", I), ("n_components", I), ("svd_solver", S), ("known_shape", B)],
    _get_solver_sel, ret="String",
    subst={"self.svd_solver": "svd_solver", "_known_shape(X.shape)": "known_shape"})


def _clf_solver(t):
    c = call(func(t, "PcaClassifier.__init__"), "PCA")
    try:
        v = kwarg(c, "svd_solver")
    except SelectorMiss:
        # not passed: the default of DaskPCA.__init__ applies
        return "auto"
    if not (isinstance(v, ast.Constant) and isinstance(v.value, str)):
        raise SelectorMiss("svd_solver is not a literal")
    return v.value


def _default_solver(t):
    fn = func(t, "DaskPCA.__init__")
    names = [a.arg for a in fn.args.args]
    d = fn.args.defaults[names.index("svd_solver") - (len(names) - len(fn.args.defaults))]
    return d.value


add("pcaClassifierSolverArg", "Pca", ["C18"], _CLF, "const", [], _clf_solver)
add("pcaDefaultSolver", "Pca", ["C18"], _PCA, "const", [], _default_solver)
add("pcaFitStructure", "Pca", ["C18"], _PCA, "const", [],
    pattern(lambda t: _has(ast.unparse(func(t, "DaskPCA._fit")),
                           "solver = self._get_solver(X, n_components)",
                           "self.mean_ = X.mean(0)", "X -= self.mean_",
                           "if solver in {'full', 'tsqr'}:", "U, S, V = da.linalg.svd(X)",
                           "components, singular_values = (V, S)",
                           "self.components_ = self.components_[:n_components]",
                           "self.singular_values_ = self.singular_values_[:n_components]")))
add("pcaTransformStructure", "Pca", ["C18"], _PCA, "const", [],
    pattern(lambda t: _has(ast.unparse(func(t, "DaskPCA.transform")),
                           "X = X - self.mean_", "X_transformed = da.dot(X, self.components_.T)",
                           "if self.whiten:", "return X_transformed")))


def _clf_structure(t):
    init = ast.unparse(func(t, "PcaClassifier.__init__"))
    _has(init, "if mask_image is None: self._mask = 1", "self._mask = mask_image",
         "self._n_image = image_stack.shape[0]", "self._shape = image_stack.shape[1:]")
    flat = ast.unparse(func(t, "PcaClassifier._image_flat"))
    _has(flat, "_input = self._image * self._mask", "_flat_images = _input.reshape(self._n_image, -1)")
    run = ast.unparse(func(t, "PcaClassifier.run"))
    _has(run, "_flat_image = self._image_flat(mask=True)", "self._pca.fit(_flat_image)",
         "self._labels = self._kmeans.fit_predict(self.get_transform())")
    gt = ast.unparse(func(t, "PcaClassifier.get_transform"))
    _has(gt, "flat = self._image_flat(mask=True)", "return self._pca.transform(flat).compute()")
    tr = ast.unparse(func(t, "PcaClassifier.transform"))
    _has(tr, "input = input * self._mask", "flat = input.reshape(input.shape[0], -1)",
         "return self._pca.transform(flat).compute()")
    return True


add("pcaClassifierStructure", "Pca", ["C18"], _CLF, "const", [], pattern(_clf_structure))
add("pcaFlatSingleColumnChunk", "Pca", ["C18"], _CLF, "const", [],
    pattern(lambda t: _has(ast.unparse(func(t, "PcaClassifier._image_flat")), "rechunk({1: -1})")))
add("classifyLabelWriteBack", "Pca", ["C18"], "acryo/loader/_base.py", "const", [],
    pattern(lambda t: _has(ast.unparse(func(t, "LoaderBase.classify")),
                           "self.iter_mapping_tasks(model.masked_difference, output_shape=shape, "
                           "var_kwarg=dict(quaternion=self.molecules.quaternion()))",
                           ".tolist().tostack(shape=shape, dtype=np.float32)",
                           "clf = PcaClassifier(stack, model.mask, n_components=n_components, "
                           "n_clusters=n_clusters, seed=seed)", "clf.run()",
                           "mole = self.molecules.copy()",
                           "mole.features = mole.features.with_columns(pl.Series(label_name, clf._labels))",
                           "new = self.replace(molecules=mole)", "return ClassificationResult(new, clf)")))


# ==========================================================================================
# C19  image pipelines: operator semantics, composition, currying, nm -> px conversions
# ==========================================================================================
_CLS = "acryo/pipe/_classes.py"
_CUR = "acryo/pipe/_curry.py"
_IMR = "acryo/pipe/_imread.py"
_MSK = "acryo/pipe/_masking.py"
_TRF = "acryo/pipe/_transform.py"

_CMP_HELPERS = {"_lt": ast.Lt, "_le": ast.LtE, "_gt": ast.Gt, "_ge": ast.GtE}
_CMP_UFUNC = {"_lt": "less", "_le": "less_equal", "_gt": "greater", "_ge": "greater_equal"}


class _InlineCmp(ast.NodeTransformer):
    """`_lt(A, B)` -> `A < B` (the helper bodies are checked by `pipeCompareHelpers`)."""

    def visit_Call(self, node):
        self.generic_visit(node)
        fn = ast.unparse(node.func)
        if fn in _CMP_HELPERS and len(node.args) == 2:
            return ast.Compare(node.args[0], [_CMP_HELPERS[fn]()], [node.args[1]])
        return node


def _op_lambda(cls, dunder, nth):
    def sel(t):
        fn = func(t, f"{cls}.{dunder}")
        lams = [n for n in ordered(fn) if isinstance(n, ast.Lambda)]
        if len(lams) <= nth:
            raise SelectorMiss(f"{cls}.{dunder}: lambda #{nth} not found")
        # which branch does lambda #nth sit in?  branches are in the order
        # (same class, [provider,] anything else)
        body = _InlineCmp().visit(copy.deepcopy(lams[nth].body))
        ast.fix_missing_locations(body)
        return body
    return sel


def _branch_order(t):
    """isinstance tests guard the lambdas in the expected order in every operator method."""
    for cls, kinds in (("ImageProvider", ["ImageProvider"]), ("ImageConverter", ["ImageConverter", "ImageProvider"])):
        for d in ("__add__", "__sub__", "__mul__", "__truediv__", "__eq__", "__ne__", "__lt__", "__le__", "__gt__", "__ge__"):
            fn = func(t, f"{cls}.{d}")
            tests = [ast.unparse(n.test) for n in ordered(fn) if isinstance(n, ast.If)
                     and "isinstance" in ast.unparse(n.test)]
            if tests != [f"isinstance(other, {k})" for k in kinds]:
                raise SelectorMiss(f"{cls}.{d}: branches {tests}")
            lams = [n for n in ordered(fn) if isinstance(n, ast.Lambda)]
            if len(lams) != len(kinds) + 1:
                raise SelectorMiss(f"{cls}.{d}: {len(lams)} lambdas")
            want_args = ["scale"] if cls == "ImageProvider" else ["x", "scale"]
            for lam in lams:
                if [a.arg for a in lam.args.args] != want_args:
                    raise SelectorMiss(f"{cls}.{d}: lambda arguments")
            src = ast.unparse(fn)
            if src.count("self.__class__(") != len(kinds) + 1:
                raise SelectorMiss(f"{cls}.{d}: result class")
            if d == "__truediv__" and "if np.isscalar(other) and other == 0: raise ZeroDivisionError" not in \
                    src.replace("\n", " ").replace("    ", "").replace("('Cannot divide by zero.')", ""):
                raise SelectorMiss(f"{cls}.{d}: zero check")
    return True


add("pipeBranchOrder", "Pipe", ["C19"], _CLS, "const", [], pattern(_branch_order))

_OPS = [("add", "__add__"), ("sub", "__sub__"), ("mul", "__mul__"), ("div", "__truediv__"),
        ("eq", "__eq__"), ("ne", "__ne__"), ("lt", "__lt__"), ("le", "__le__"), ("gt", "__gt__"), ("ge", "__ge__")]
for _nm, _d in _OPS:
    # provider op provider / provider op scalar
    add(f"pP_{_nm}", "Pipe", ["C19"], _CLS, "expr", [("a", R), ("b", R)], _op_lambda("ImageProvider", _d, 0),
        subst={"self(scale)": "a", "other(scale)": "b"}, want="Rat")
    add(f"pS_{_nm}", "Pipe", ["C19"], _CLS, "expr", [("a", R), ("s", R)], _op_lambda("ImageProvider", _d, 1),
        subst={"self(scale)": "a", "other": "s"}, want="Rat")
    # converter op converter / converter op provider / converter op scalar
    add(f"cC_{_nm}", "Pipe", ["C19"], _CLS, "expr", [("a", R), ("b", R)], _op_lambda("ImageConverter", _d, 0),
        subst={"self(x, scale)": "a", "other(x, scale)": "b"}, want="Rat")
    add(f"cP_{_nm}", "Pipe", ["C19"], _CLS, "expr", [("a", R), ("b", R)], _op_lambda("ImageConverter", _d, 1),
        subst={"self(x, scale)": "a", "other(scale)": "b"}, want="Rat")
    add(f"cS_{_nm}", "Pipe", ["C19"], _CLS, "expr", [("a", R), ("s", R)], _op_lambda("ImageConverter", _d, 2),
        subst={"self(x, scale)": "a", "other": "s"}, want="Rat")
for _nm, _d in (("sub", "__rsub__"), ("div", "__rtruediv__")):
    add(f"pR_{_nm}", "Pipe", ["C19"], _CLS, "expr", [("a", R), ("s", R)], _op_lambda("ImageProvider", _d, 0),
        subst={"self(scale)": "a", "other": "s"}, want="Rat")
    add(f"cR_{_nm}", "Pipe", ["C19"], _CLS, "expr", [("a", R), ("s", R)], _op_lambda("ImageConverter", _d, 0),
        subst={"self(x, scale)": "a", "other": "s"}, want="Rat")
add("pNeg", "Pipe", ["C19"], _CLS, "expr", [("a", R)], _op_lambda("ImageProvider", "__neg__", 0),
    subst={"self(scale)": "a"}, want="Rat")
add("cNeg", "Pipe", ["C19"], _CLS, "expr", [("a", R)], _op_lambda("ImageConverter", "__neg__", 0),
    subst={"self(x, scale)": "a"}, want="Rat")


def _reflected_comm(t):
    for d, o in (("__radd__", "+"), ("__rmul__", "*")):
        if _unparse_norm(ret(func(t, f"_Pipeline.{d}"))) != f"self{o}other":
            raise SelectorMiss(d)
    for cls in ("ImageProvider", "ImageConverter"):
        for d in ("__rsub__", "__rtruediv__"):
            func(t, f"{cls}.{d}")
    # no reflected comparison methods: Python swaps the operands and uses the mirrored operator
    for n in ast.walk(t):
        if isinstance(n, ast.FunctionDef) and n.name in ("__rlt__", "__rgt__"):
            raise SelectorMiss("unexpected reflected comparison")
    return True


add("pipeReflectedCommutative", "Pipe", ["C19"], _CLS, "const", [], pattern(_reflected_comm))


def _cmp_helpers(t):
    for h, uf in _CMP_UFUNC.items():
        fn = func(t, h)
        if [a.arg for a in fn.args.args] != ["a", "b"] or \
                _unparse_norm(ret(fn)) != f"np.{uf}(a,b).astype(np.float32)":
            raise SelectorMiss(h)
    return True


add("pipeCompareHelpers", "Pipe", ["C19"], _CLS, "const", [], pattern(_cmp_helpers))


def _compose(t):
    fn = func(t, "ImageConverter.compose")
    src = ast.unparse(fn)
    _has(src, "if isinstance(other, ImageProvider): fn = lambda scale: self(other(scale), scale)",
         "elif isinstance(other, ImageConverter): fn = lambda x, scale: self(other(x, scale), scale)",
         "else: raise TypeError(", "return other.__class__(fn).with_name(")
    cls = func(t, "ImageConverter")
    if not any(isinstance(n, ast.Assign) and ast.unparse(n) == "__matmul__ = compose" for n in cls.body):
        raise SelectorMiss("__matmul__ is not compose")
    _has(ast.unparse(func(t, "ImageProvider.provide")), "out = self._func(scale)", "return out")
    _has(ast.unparse(func(t, "ImageConverter.convert")), "out = self._func(image, scale)", "return out")
    _has(ast.unparse(func(t, "ImageProvider.__call__")), "return self.provide(scale)")
    _has(ast.unparse(func(t, "ImageConverter.__call__")), "return self.convert(image, scale)")
    _has(ast.unparse(func(t, "ImageConverter.with_scale")), "return self(img, scale)")
    return True


add("pipeCompose", "Pipe", ["C19"], _CLS, "const", [], pattern(_compose))


def _curry(t):
    _has(ast.unparse(func(t, "provider_function")), "_fn = _assert_1_arg(fn)",
         "return ImageProvider(lambda scale: _fn(scale, *args, **kwargs)).with_name(")
    _has(ast.unparse(func(t, "converter_function")), "_fn = _assert_2_args(fn)",
         "return ImageConverter(lambda img, scale: _fn(img, scale, *args, **kwargs)).with_name(")
    _has(ast.unparse(func(t, "_assert_1_arg")), "if nargs == 0: out = lambda x: func()", "else: return func")
    _has(ast.unparse(func(t, "_assert_2_args")), "if nargs == 0: out = lambda x0, x1: func()",
         "elif nargs == 1: out = lambda x0, x1: func(x0)", "else: return func")
    return True


add("pipeCurry", "Pipe", ["C19"], _CUR, "const", [], pattern(_curry))


# ---- nm -> px conversions -------------------------------------------------------------------
def _radius_px(t):
    fn = copy.deepcopy(func(t, "_get_radius_px"))
    body = [st for st in fn.body if not isinstance(st, ast.Try)]
    tries = [st for st in fn.body if isinstance(st, ast.Try)]
    if len(tries) != 1 or _unparse_norm(tries[0].body[0]) != "radius=float(radius)":
        raise SelectorMiss("_get_radius_px: validation changed")
    fn.body = body
    return fn


add("getRadiusPx", "Pipe", ["C19"], _MSK, "func", [("radius", R), ("scale", R)], _radius_px, ret="Int")
add("structureHas", "Pipe", ["C19"], _MSK, "expr", [("r", I), ("zz", I), ("yy", I), ("xx", I)],
    lambda t: ret(func(t, "_get_structure")))
add("structureSize", "Pipe", ["C19"], _MSK, "expr", [("r", I)], lambda t: assign_rhs(func(t, "_get_structure"), "size"))


def _morph(t):
    d = ast.unparse(func(t, "dilation"))
    _has(d, "r = _get_radius_px(radius, scale)", "if r == 0: return img", "structure = _get_structure(r)",
         "if radius < 0: out = ndi.binary_erosion(img, structure=structure, border_value=False)",
         "elif radius > 0: out = ndi.binary_dilation(img, structure=structure, border_value=False)")
    c = ast.unparse(func(t, "closing"))
    _has(c, "r = _get_radius_px(radius, scale)", "if r == 0: return img", "structure = _get_structure(r)",
         "if radius < 0: out = ndi.binary_opening(img, structure=structure, border_value=False)",
         "elif radius > 0:")
    return True


add("pipeMorphStructure", "Pipe", ["C19"], _MSK, "const", [], pattern(_morph))


def _closing_border(t):
    """closing = erosion(border_value=True) of dilation(border_value=False)"""
    fn = func(t, "closing")
    er = [c for c in calls(fn, "ndi.binary_erosion")]
    if len(er) != 1:
        raise SelectorMiss("closing: erosion step")
    bv = kwarg(er[0], "border_value")
    inner = er[0].args[0]
    if not (isinstance(inner, ast.Call) and ast.unparse(inner.func) == "ndi.binary_dilation"
            and _unparse_norm(inner.args[0]) == "img" and ast.unparse(kwarg(inner, "border_value")) == "False"
            and ast.unparse(kwarg(inner, "structure")) == "structure" and ast.unparse(kwarg(er[0], "structure")) == "structure"):
        raise SelectorMiss("closing: dilation step")
    return ast.unparse(bv) == "True"


add("closingErodesWithTrueBorder", "Pipe", ["C19"], _MSK, "const", [], pattern(_closing_border))
add("smoothExponent", "Pipe", ["C19"], _MSK, "expr", [("dist", R), ("sigma", R), ("scale", R)],
    lambda t: call(func(t, "gaussian_smooth"), "np.exp").args[0])
add("pipeSmoothStructure", "Pipe", ["C19"], _MSK, "const", [],
    pattern(lambda t: _has(ast.unparse(func(t, "gaussian_smooth")), "if sigma == 0: return img.astype(np.float32)",
                           "if sigma < 0: raise ValueError(", "if img.all() or not img.any(): return img.astype(np.float32)",
                           "img = ~img", "dist: NDArray[np.float32] = ndi.distance_transform_edt(img)",
                           "blurred_mask = np.exp(-dist ** 2 / 2 / (sigma / scale) ** 2, dtype=np.float32)",
                           "return blurred_mask")))
add("filterSigmaPx", "Pipe", ["C19"], _TRF, "expr", [("sigma", R), ("scale", R)],
    lambda t: call(func(t, "gaussian_filter"), "ndi.gaussian_filter").args[1])
add("shiftPx", "Pipe", ["C19"], _TRF, "expr", [("shift", R), ("scale", R)],
    lambda t: assign_rhs(func(t, "shift"), "shift_px"), subst={"np.asarray(shift)": "shift"})
add("pipeShiftUsesPx", "Pipe", ["C19"], _TRF, "const", [],
    pattern(lambda t: _has(ast.unparse(func(t, "shift")), "return ndi_shift(img, shift_px,")))

# ---- providers ------------------------------------------------------------------------------
def _untuple(n):
    """per-axis view of `tuple(<array expression>)`"""
    if isinstance(n, ast.Call) and ast.unparse(n.func) == "tuple" and len(n.args) == 1:
        return n.args[0]
    raise SelectorMiss("expected tuple(...)")


add("gaussSigmaPx", "Pipe", ["C19"], _IMR, "expr", [("sigma", R), ("scale", R)],
    lambda t: assign_rhs(func(t, "from_gaussian"), "sigma_px"), subst={"_as_3_array(sigma)": "sigma"})
add("gaussShapePx", "Pipe", ["C19"], _IMR, "lets", [("shape", R), ("scale", R)],
    lambda t: ([("shape_subpix", assign_rhs(func(t, "from_gaussian"), "shape_subpix")),
                ("shape_px", _untuple(assign_rhs(func(t, "from_gaussian"), "shape_px")))], ["shape_px"]),
    subst={"_as_3_array(shape)": "shape"})
add("gaussCenter", "Pipe", ["C19"], _IMR, "expr", [("shape_px", I), ("shift", R), ("scale", R)],
    lambda t: assign_rhs(func(t, "from_gaussian"), "center_subpix"),
    subst={"np.array(shape_px)": "shape_px", "np.array(shift)": "shift"}, want="Rat")
add("gaussTerm", "Pipe", ["C19"], _IMR, "expr", [("xx", R), ("c", R), ("sg", R)],
    lambda t: first(ret(func(t, "from_gaussian")), ast.GeneratorExp).elt)
add("gaussIsSumOfSquares", "Pipe", ["C19"], _IMR, "const", [],
    pattern(lambda t: _unparse_norm(ret(func(t, "from_gaussian"))) ==
            "np.exp(-0.5*sum((((xx-c)/sg)**2forxx,c,sginzip(crds,center_subpix,sigma_px))))"
            and _has(ast.unparse(func(t, "from_gaussian")), "crds = np.indices(shape_px, dtype=np.float32)")))
add("fromArrayRatio", "Pipe", ["C19"], _IMR, "expr", [("original_scale", R), ("scale", R)],
    lambda t: assign_rhs(func(t, "from_array"), "ratio"))
add("fromArrayKeeps", "Pipe", ["C19"], _IMR, "expr", [("ratio", R), ("tol", R)],
    lambda t: first(func(t, "from_array"), ast.If, lambda n: "tol" in ast.unparse(n.test)).test)
add("fromFileRatio", "Pipe", ["C19"], _IMR, "expr", [("original_scale", R), ("scale", R)],
    lambda t: assign_rhs(func(t, "from_file"), "ratio"))
add("fromFileKeeps", "Pipe", ["C19"], _IMR, "expr", [("ratio", R), ("tol", R)],
    lambda t: first(func(t, "from_file"), ast.If, lambda n: "tol" in ast.unparse(n.test)).test)
add("pipeRescaleStructure", "Pipe", ["C19"], _IMR, "const", [],
    pattern(lambda t: _has(ast.unparse(func(t, "from_array")), "if original_scale is not None and original_scale <= 0: raise ValueError(",
                           "if img.ndim != 3: raise ValueError(", "if abs(ratio - 1) < tol: return img",
                           "out = zoom(img, ratio, order=3, prefilter=True, mode='reflect')")
            and _has(ast.unparse(func(t, "from_file")), "if abs(ratio - 1) < tol: return img",
                     "return zoom(img, ratio, order=3, prefilter=True, mode='reflect')")
            and _has(ast.unparse(func(t, "from_arrays")), "return [from_array(img, original_scale, tol).provide(scale) for img in imgs]")))


# ==========================================================================================
# C10  tasks share one alignment model and never write to it
# ==========================================================================================
def _no_self_stores(allowed):
    def sel(t):
        for cls in [n for n in ast.walk(t) if isinstance(n, ast.ClassDef)]:
            for fn in [n for n in cls.body if isinstance(n, ast.FunctionDef)]:
                if fn.name == "__init__" or (cls.name, fn.name) in allowed:
                    continue
                for n in ast.walk(fn):
                    tg = n.targets if isinstance(n, ast.Assign) else \
                        [n.target] if isinstance(n, (ast.AugAssign, ast.AnnAssign)) else []
                    if isinstance(n, ast.Delete):
                        tg = n.targets
                    for t_ in tg:
                        for e in ast.walk(t_):
                            if isinstance(e, (ast.Attribute, ast.Subscript)) and isinstance(e.ctx, (ast.Store, ast.Del)) \
                                    and ast.unparse(e).startswith("self."):
                                raise SelectorMiss(f"{cls.name}.{fn.name} stores into {ast.unparse(e)}")
                    if isinstance(n, ast.Call) and ast.unparse(n.func) in ("setattr", "object.__setattr__") \
                            and n.args and ast.unparse(n.args[0]) == "self":
                        raise SelectorMiss(f"{cls.name}.{fn.name} uses setattr(self, ...)")
                    if isinstance(n, ast.Call) and isinstance(n.func, ast.Attribute) \
                            and n.func.attr in ("append", "extend", "update", "setdefault", "pop", "clear", "insert", "remove") \
                            and ast.unparse(n.func.value).startswith("self."):
                        raise SelectorMiss(f"{cls.name}.{fn.name} mutates {ast.unparse(n.func.value)}")
                    if isinstance(n, (ast.Global, ast.Nonlocal)):
                        raise SelectorMiss(f"{cls.name}.{fn.name} declares global/nonlocal state")
        return True
    return sel


add("modelMethodsDoNotStoreBase", "Sched", ["C10"], _ABASE, "const", [],
    pattern(_no_self_stores({("TemplateMaskCache", "get"), ("TemplateMaskCache", "set")})))
add("modelMethodsDoNotStoreConcrete", "Sched", ["C10"], "acryo/alignment/_concrete.py", "const", [],
    pattern(_no_self_stores(set())))
add("tiltModelsDoNotStore", "Sched", ["C10"], "acryo/tilt/_base.py", "const", [],
    pattern(_no_self_stores(set())))


# ==========================================================================================
# C20  particle picking: chunk offsets, core filter, overlap depths, rotation lookup
# ==========================================================================================
_PKB = "acryo/pick/_base.py"
_PKC = "acryo/pick/_concrete.py"


def _in_chunk(t):
    fn = func(t, "BasePickerModel._pick_in_chunk_wrapped")
    test = assign_rhs(fn, "in_chunk")
    if not (isinstance(test, ast.Call) and ast.unparse(test.func) == "np.all" and isinstance(test.args[0], ast.BinOp)
            and isinstance(test.args[0].op, ast.BitAnd) and ast.unparse(kwarg(test, "axis")) == "1"):
        raise SelectorMiss("in_chunk is not np.all(a & b, axis=1)")
    both = ast.BoolOp(ast.And(), [test.args[0].left, test.args[0].right])
    ast.fix_missing_locations(both)
    return ([("lower", assign_rhs(fn, "lower")), ("upper", assign_rhs(fn, "upper")), ("in_chunk", both)], ["in_chunk"])


add("pickInChunk", "Pick", ["C20"], _PKB, "lets", [("pos", R), ("depth", I), ("blocklen", I)], _in_chunk,
    subst={"np.asarray(_depth)": "depth", "np.asarray(image.shape)": "blocklen"})


def _pick_global(t):
    fn = func(t, "BasePickerModel._pick_in_chunk_wrapped")
    aug = augassign(fn, "pos[:, i]")
    if not isinstance(aug.op, ast.Add):
        raise SelectorMiss("chunk offset is not added")
    step1 = ast.BinOp(aug.target, ast.Add(), aug.value)
    fn2 = func(t, "BasePickerModel.pick_molecules")
    step2 = assign_rhs(fn2, "mole._pos")
    ast.fix_missing_locations(step1)
    return ([("shifted", step1), ("out", step2)], ["out"])


add("pickGlobal", "Pick", ["C20"], _PKB, "lets", [("loc", R), ("start", I), ("depth", I), ("scale", R)], _pick_global,
    subst={"pos[:, i]": "loc", "mole._pos": "shifted", "_depth": "depth"})
add("pickDepthClamp", "Pick", ["C20"], _PKB, "expr", [("s", I), ("d", I)],
    lambda t: first(_untuple(assign_rhs(func(t, "BasePickerModel.pick_molecules"), "_depth")), ast.GeneratorExp).elt)
add("pickDepthWithMargin", "Pick", ["C20"], _PKB, "expr", [("d", I), ("margin", I)],
    lambda t: first(assign_rhs(func(t, "BasePickerModel.pick_molecules"), "depth", 1), ast.GeneratorExp).elt)
add("pickMoleculesStructure", "Pick", ["C20"], _PKB, "const", [],
    pattern(lambda t: _has(ast.unparse(func(t, "BasePickerModel.pick_molecules")),
                           "if isinstance(image, np.ndarray): image = da.asarray(image)",
                           "params, depth = self.get_params_and_depth(scale)",
                           "if isinstance(depth, (int, np.integer)): depth = (depth, depth, depth)",
                           "margin = self._get_search_margin(**kwargs)",
                           "_depth = tuple((min(s, d) for s, d in zip(image.shape, depth)))",
                           "image.map_overlap(self._pick_in_chunk_wrapped, **params, **kwargs, _depth=_depth, depth=_depth, "
                           "trim=False, boundary=boundary, dtype=object, meta=np.array([]))",
                           "boxes: Sequence[MoleculesBox] = task.compute().ravel()",
                           "mole = Molecules.concat([box.to_molecules() for box in boxes])", "return mole")))
add("pickWrappedStructure", "Pick", ["C20"], _PKB, "const", [],
    pattern(lambda t: _has(ast.unparse(func(t, "BasePickerModel._pick_in_chunk_wrapped")),
                           "pos, quats, features = self.pick_in_chunk(image, **kwargs)",
                           "pos = pos[in_chunk]", "quats = quats[in_chunk]",
                           "features = {k: v[in_chunk] for k, v in features.items()}",
                           "locs: list[tuple[int, int]] = block_info[None]['array-location']",
                           "for i, (start, _) in enumerate(locs): pos[:, i] += start",
                           "return np.array([[[MoleculesBox(pos, quats, features)]]], dtype=object)")
            and _has(ast.unparse(func(t, "BasePickerModel._get_search_margin")), "return 0")))
add("logDepth", "Pick", ["C20"], _PKC, "lets", [("sigma", R), ("scale", R)],
    lambda t: ([("sigma_px", assign_rhs(func(t, "LoGPicker.get_params_and_depth"), "sigma_px")),
                ("depth", assign_rhs(func(t, "LoGPicker.get_params_and_depth"), "depth"))], ["sigma_px", "depth"]),
    subst={"self._sigma": "sigma"})
add("dogDepth", "Pick", ["C20"], _PKC, "lets", [("sigma_low", R), ("sigma_high", R), ("scale", R)],
    lambda t: ([("sigma1_px", assign_rhs(func(t, "DoGPicker.get_params_and_depth"), "sigma1_px")),
                ("sigma2_px", assign_rhs(func(t, "DoGPicker.get_params_and_depth"), "sigma2_px")),
                ("depth", assign_rhs(func(t, "DoGPicker.get_params_and_depth"), "depth"))], ["sigma1_px", "sigma2_px", "depth"]),
    subst={"self._sigma_low": "sigma_low", "self._sigma_high": "sigma_high"})
add("pickBlobRadius", "Pick", ["C20"], _PKC, "const", [],
    pattern(lambda t: _has(ast.unparse(func(t, "LoGPicker.pick_in_chunk")), "img_filt = -ndi.gaussian_laplace(image, sigma)",
                           "pos = find_maxima(img_filt, sigma, 0.0)", "return simple_pick(img_filt, pos)")
            and _has(ast.unparse(func(t, "DoGPicker.pick_in_chunk")), "img_filt = _differece_of_gaussian(image, sigma_low, sigma_high)",
                     "pos = find_maxima(img_filt, sigma_low, 0.0)", "return simple_pick(img_filt, pos)")
            and _has(ast.unparse(func(t, "LoGPicker.get_params_and_depth")), "return ({'sigma': sigma_px}, depth)")
            and _has(ast.unparse(func(t, "DoGPicker.get_params_and_depth")),
                     "return ({'sigma_low': sigma1_px, 'sigma_high': sigma2_px}, depth)")))
add("tmDepth", "Pick", ["C20"], _PKB, "expr", [("n", I)],
    lambda t: _untuple(assign_rhs(func(t, "BaseTemplateMatcher.get_params_and_depth"), "depth")),
    subst={"np.array(templates[0].shape)": "n"})
add("tmMargin", "Pick", ["C20"], _PKC, "expr", [("min_distance", R)],
    lambda t: ret(func(t, "ZNCCTemplateMatcher._get_search_margin")))
add("tmOffset", "Pick", ["C20"], _PKC, "expr", [("n", I)],
    lambda t: assign_rhs(func(t, "ZNCCTemplateMatcher.pick_in_chunk"), "offset"),
    subst={"np.array(templates[0].shape)": "n"}, want="Rat")
add("tmMinDistancePx", "Pick", ["C20"], _PKC, "expr", [("min_distance", R), ("scale", R)],
    lambda t: kwarg(call(func(t, "ZNCCTemplateMatcher.pick_molecules"), "super().pick_molecules"), "min_distance"))
add("tmStructure", "Pick", ["C20"], _PKC, "const", [],
    pattern(lambda t: _has(ast.unparse(func(t, "ZNCCTemplateMatcher.pick_in_chunk")),
                           "ncc_landscape_no_pad(image - np.mean(image), template - np.mean(template), NUMPY_BACKEND) for template in templates",
                           "img_argmax = np.argmax(all_landscapes, axis=0)", "landscale_max = np.max(all_landscapes, axis=0)",
                           "pos = find_maxima(landscale_max, min_distance, min_score)",
                           "[img_argmax[tuple(np.round(p).astype(np.int32))] for p in pos]",
                           "quats = self._index_to_quaternions(argmax_indices)",
                           "return (pos + offset, quats, {'score': score})")))
add("tmRotationLookup", "Pick", ["C20"], _PKB, "const", [],
    pattern(lambda t: _has(ast.unparse(func(t, "BaseTemplateMatcher._index_to_quaternions")),
                           "return np.take_along_axis(self._quaternions, argmax_indices[:, np.newaxis], axis=0)")
            and _has(ast.unparse(func(t, "BaseTemplateMatcher.get_params_and_depth")),
                     "rotators = [Rotation.from_quat(r).inv() for r in self._quaternions]",
                     "_center = np.array(template.shape) / 2 - 0.5", "matrices = compose_matrices(_center, rotators)",
                     "for mtx in matrices: pool.add_task(template, mtx, order=self.order, prefilter=False)",
                     "out = pool.compute()", "templates = [o * mask for o in out]", "return ({'templates': templates}, depth)")))
add("maxFilterIdentity", "Pick", ["C20"], _PKC, "expr", [("radius", R)],
    lambda t: first(func(t, "maximum_filter"), ast.If).test)
add("maxFilterRint", "Pick", ["C20"], _PKC, "expr", [("radius", R)],
    lambda t: assign_rhs(func(t, "maximum_filter"), "r_int"))
add("maxFilterFoot", "Pick", ["C20"], _PKC, "expr", [("radius", R), ("r_int", I), ("zz", I), ("yy", I), ("xx", I)],
    lambda t: assign_rhs(func(t, "maximum_filter"), "foot"))
add("findMaximaStructure", "Pick", ["C20"], _PKC, "const", [],
    pattern(lambda t: _has(ast.unparse(func(t, "find_maxima")), "img_max_maxfilt = maximum_filter(img, min_distance)",
                           "is_maxima = (img_max_maxfilt == img) & (img > min_intensity)",
                           "label_img, nfeat = ndi.label(is_maxima, structure=structure)",
                           "centers = ndi.center_of_mass(img, label_img, range(1, nfeat + 1))",
                           "return np.array(centers, dtype=np.float32).reshape(-1, img.ndim)")
            and _has(ast.unparse(func(t, "maximum_filter")), "return ndi.maximum_filter(image, footprint=foot, mode='nearest')")))


# ==========================================================================================
# C09  the average is one plain mean over the molecule axis (any rechunking is only a layout change)
# ==========================================================================================
add("averageIsPlainMean", "Split", ["C09"], "acryo/loader/_base.py", "const", [],
    pattern(lambda t: _has(ast.unparse(func(t, "LoaderBase.average")),
                           "dsk = self.construct_dask(output_shape=output_shape, backend=xp)",
                           "dsk = dsk.rechunk(('auto',) + output_shape)",
                           "return xp.asnumpy(dsk.mean(axis=0).compute())")))


# ==========================================================================================
# C13  the writers hand the frame and the requested precision to polars unchanged
# ==========================================================================================
def _single_stmt_body(t, qual, want):
    fn = func(t, qual)
    body = [st for st in fn.body if not (isinstance(st, ast.Expr) and isinstance(st.value, ast.Constant))]
    if len(body) != 1 or _unparse_norm(body[0]) != want.replace(" ", ""):
        raise SelectorMiss(qual + ": body is not the single statement " + want)
    return True


add("writersPassThrough", "Table", ["C13"], _CORE, "const", [],
    pattern(lambda t: _single_stmt_body(t, "Molecules.to_csv",
                                        "return self.to_dataframe().write_csv(str(save_path), float_precision=float_precision)")
            and _single_stmt_body(t, "Molecules.to_parquet",
                                  "return self.to_dataframe().write_parquet(str(save_path), compression=compression, "
                                  "compression_level=compression_level)")))
