-- Root of the `AcryoVerif` library: everything that `lake build` must check.
import AcryoVerif.Py
import AcryoVerif.Gen.Dispatch
import AcryoVerif.Model.Dispatch
