/-
Python-semantics prelude (import-free).

Gives exact-number meaning to the Python/numpy scalar operations that the generated kernels
(`AcryoVerif/Gen/*.lean`, produced by `translator/py2lean.py` from `/repo` on every run) use.
Python `int` ↦ `Int`, Python/numpy `float` ↦ `Rat` (floating-point rounding is NOT modelled; the
correspondence check feeds dyadic rationals so that the implementation's arithmetic is exact).

This file is itself differentially tested against CPython on an exhaustive small grid in every
run (`harness/prelude_check.py`).
-/

namespace Py

/-- The exception classes the models distinguish. -/
inductive PyErr where
  | oob        -- acryo SubvolumeOutOfBoundError
  | value      -- ValueError
  | type       -- TypeError
  | index      -- IndexError
  | runtime    -- RuntimeError
  | notimpl    -- NotImplementedError
  | zerodiv    -- ZeroDivisionError
  | key        -- KeyError
  deriving DecidableEq, Repr, Inhabited

def PyErr.toString : PyErr → String
  | .oob => "oob" | .value => "value" | .type => "type" | .index => "index"
  | .runtime => "runtime" | .notimpl => "notimpl" | .zerodiv => "zerodiv" | .key => "key"

instance : ToString PyErr := ⟨PyErr.toString⟩

abbrev PyM := Except PyErr

/-- `int(x)` / `np.fix` / `astype(int)` for a float: truncation toward zero. -/
def trunc (q : Rat) : Int := if 0 ≤ q then q.floor else q.ceil

/-- `math.floor`, `np.floor`. -/
def floor (q : Rat) : Int := q.floor

/-- `math.ceil`, `np.ceil`. -/
def ceil (q : Rat) : Int := q.ceil

/-- Python 3 `round(x)` (and `np.round`): round half to even. -/
def round (q : Rat) : Int :=
  let f := (q + 1/2).floor
  if ((f : Rat) = q + 1/2) ∧ f % 2 ≠ 0 then f - 1 else f

/-- Python `a // b` on ints (floor division; Lean's `Int.fdiv`). -/
def ifloordiv (a b : Int) : Int := Int.fdiv a b

/-- Python `a % b` on ints (sign of the divisor; Lean's `Int.fmod`). -/
def imod (a b : Int) : Int := Int.fmod a b

/-- Python `a // b` on floats: `floor(a / b)` (integer valued). -/
def rfloordiv (a b : Rat) : Int := (a / b).floor

/-- Python `a % b` on floats. -/
def rmod (a b : Rat) : Rat := a - b * ((a / b).floor : Rat)

def rmax (a b : Rat) : Rat := if a ≤ b then b else a
def rmin (a b : Rat) : Rat := if a ≤ b then a else b
def imax (a b : Int) : Int := if a ≤ b then b else a
def imin (a b : Int) : Int := if a ≤ b then a else b
def rabs (a : Rat) : Rat := if 0 ≤ a then a else -a
def iabs (a : Int) : Int := if 0 ≤ a then a else -a

/-- Python slice `a[lo:hi]` bounds normalisation for a sequence of length `n`
(negative indices count from the end, then clamp). Returns `(start, stop)` with
`0 ≤ start`, `stop ≤ n`; the slice is empty when `stop ≤ start`. -/
def normIndex (i n : Int) : Int :=
  let j := if i < 0 then i + n else i
  if j < 0 then 0 else if n < j then n else j

def sliceBounds (lo hi n : Int) : Int × Int := (normIndex lo n, normIndex hi n)

def sliceLen (lo hi n : Int) : Int :=
  let (a, b) := sliceBounds lo hi n
  if a ≤ b then b - a else 0

end Py

/-! Canonical textual output shared by the driver and the Python harness. -/
class Canon (α : Type) where
  canon : α → String

def ratStr (q : Rat) : String :=
  if q.den = 1 then toString q.num else toString q.num ++ "/" ++ toString q.den

instance : Canon Int := ⟨fun i => toString i⟩
instance : Canon Nat := ⟨fun i => toString i⟩
instance : Canon Rat := ⟨ratStr⟩
instance : Canon Bool := ⟨fun b => if b then "true" else "false"⟩
instance : Canon String := ⟨fun s => s⟩
instance {α β} [Canon α] [Canon β] : Canon (α × β) :=
  ⟨fun p => Canon.canon p.1 ++ " " ++ Canon.canon p.2⟩
instance {α} [Canon α] : Canon (List α) :=
  ⟨fun l => "[" ++ " ".intercalate (l.map Canon.canon) ++ "]"⟩
instance {α} [Canon α] : Canon (Option α) :=
  ⟨fun o => match o with | none => "none" | some a => Canon.canon a⟩
instance {α} [Canon α] : Canon (Py.PyM α) :=
  ⟨fun r => match r with | .ok a => Canon.canon a | .error e => "err:" ++ toString e⟩
instance : Canon Unit := ⟨fun _ => "unit"⟩
