import AcryoVerif.Lemmas.PoseMat
import AcryoVerif.Lemmas.PyLemmas
import Mathlib.Tactic.FieldSimp
import Mathlib.Tactic.Linarith

/-!
# C01 — Alignment moves each molecule onto the true particle pose

Conventions (DESIGN.md §4): a sub-volume of box centre `c` at molecule `(p, R)` and scale `σ` samples
the tomogram at `S[o] = V(p/σ + R (o - c))`; an alignment result `(d, Q)` denotes the transform
`o ↦ c + Q (o - c) + d` with `S[c + Q (o - c) + d] = T[o]` (what `AlignmentResult.affine_matrix` /
`fit` implement, and what C04's sign convention gives for the shift).
-/
namespace C01
open Matrix Model Model.Pose

/-- Structure of the pose update, read from the source. -/
theorem source_structure :
    Gen.ltTranslateFirst = true ∧ Gen.ltPreRotatesShift = false ∧ Gen.ltRotvecFromRotator = true
    ∧ Gen.translateInternalUsesOwnRotation = true ∧ Gen.rotateInternalConjugates = true
    ∧ Gen.rotateByComposesLeft = true ∧ Gen.postAlignUsesLinearTransform = true
    ∧ Gen.featureRounding = true := by decide

variable {K : Type*} [CommRing K]

/-- **Sampling-map composition.** Substituting the aligned coordinate `c + Q (o - c) + d` into the
sampling map of molecule `(p, R)` gives the sampling map of the pose `(p + R d, R Q)`, for every
position, shift, box centre, output coordinate and every pair of matrices. -/
theorem sampling_compose (p d c o : Fin 3 → K) (R Q : Matrix (Fin 3) (Fin 3) K) :
    p + R.mulVec ((c + Q.mulVec (o - c) + d) - c) = (p + R.mulVec d) + (R * Q).mulVec (o - c) := by
  have : (c + Q.mulVec (o - c) + d) - c = Q.mulVec (o - c) + d := by abel
  rw [this, Matrix.mulVec_add, Matrix.mulVec_mulVec]
  abel

/-- **True pose from an alignment result.** If the sub-volume samples the tomogram `V` on the grid of
molecule `(p, R)` at scale `σ`, and transforming it by `(d, Q)` reproduces the template, then the
template is the tomogram sampled on the grid of the pose `p* = p + σ R d`, `R* = R Q`. -/
theorem true_pose_of_alignment {Val : Type*} (V : (Fin 3 → ℚ) → Val) (S T : (Fin 3 → ℚ) → Val)
    (p d c : Fin 3 → ℚ) (σ : ℚ) (hσ : σ ≠ 0) (R Q : Matrix (Fin 3) (Fin 3) ℚ)
    (hS : ∀ o, S o = V (σ⁻¹ • p + R.mulVec (o - c)))
    (hT : ∀ o, T o = S (c + Q.mulVec (o - c) + d)) :
    ∀ o, T o = V (σ⁻¹ • (p + σ • R.mulVec d) + (R * Q).mulVec (o - c)) := by
  intro o
  rw [hT, hS, sampling_compose]
  congr 1
  rw [smul_add, smul_smul, inv_mul_cancel₀ hσ, one_smul]

/-! ## what the code does -/

/-- `translate_internal d` adds `R d`; `rotate_by W` gives `W R` and keeps the position;
`rotate_by_rotvec_internal` for the rotation `Q` gives `R Q` when `Rᵀ R = 1` (then also `R Rᵀ = 1`). -/
theorem rotateInternal_spec (m : Pose) (Q : M3) (hR : m.R.toMat * m.R.toMatᵀ = 1) (hR' : m.R.toMatᵀ * m.R.toMat = 1) :
    (m.rotateInternal Q).p = m.p ∧ (m.rotateInternal Q).R.toMat = m.R.toMat * Q.toMat := by
  refine ⟨rfl, ?_⟩
  simp only [rotateInternal, rotateBy, toMat_mul, toMat_transpose]
  rw [Matrix.mul_assoc, Matrix.mul_assoc, hR', Matrix.mul_one]

theorem translateInternal_spec (m : Pose) (d : V3) :
    (m.translateInternal d).p.toVec = m.p.toVec + m.R.toMat.mulVec d.toVec ∧ (m.translateInternal d).R = m.R := by
  simp [translateInternal, translate]

/-- **Pose update.** `linear_transform(shift, Q)` as written in the source maps `(p, R)` to
`(p + R shift, R Q)` for every orthogonal `R`, every `Q` and every shift. -/
theorem linearTransform_spec (m : Pose) (shift : V3) (Q : M3)
    (hR : m.R.toMat * m.R.toMatᵀ = 1) (hR' : m.R.toMatᵀ * m.R.toMat = 1) :
    (m.linearTransform shift Q).p.toVec = m.p.toVec + m.R.toMat.mulVec shift.toVec
      ∧ (m.linearTransform shift Q).R.toMat = m.R.toMat * Q.toMat := by
  have hs := source_structure
  simp only [linearTransform, hs.1, hs.2.1, if_true, Bool.false_eq_true, if_false]
  have ht := translateInternal_spec m shift
  have hr := rotateInternal_spec (m.translateInternal shift) Q (by rw [ht.2]; exact hR) (by rw [ht.2]; exact hR')
  rw [hr.1, hr.2, ht.1, ht.2]
  exact ⟨rfl, rfl⟩

/-- **Alignment moves the molecule onto the true pose**: `_post_align` at scale `σ` with result
`(d, Q)` (pixels) gives position `p + σ R d` and orientation `R Q` — exactly the pose of
`true_pose_of_alignment`; this is the single funnel for single, batch, grouped, template-free and
multi-template alignment (`Gen.postAlignUsesLinearTransform`). -/
theorem post_align_pose (σ : ℚ) (m : Pose) (d : V3) (Q : M3)
    (hR : m.R.toMat * m.R.toMatᵀ = 1) (hR' : m.R.toMatᵀ * m.R.toMat = 1) :
    (postAlign σ m d Q).p.toVec = m.p.toVec + σ • m.R.toMat.mulVec d.toVec
      ∧ (postAlign σ m d Q).R.toMat = m.R.toMat * Q.toMat := by
  have h := linearTransform_spec m ⟨Gen.postAlignShiftNm d.z σ, Gen.postAlignShiftNm d.y σ,
    Gen.postAlignShiftNm d.x σ⟩ Q hR hR'
  refine ⟨?_, h.2⟩
  rw [postAlign, h.1]
  congr 1
  have : (⟨Gen.postAlignShiftNm d.z σ, Gen.postAlignShiftNm d.y σ, Gen.postAlignShiftNm d.x σ⟩ : V3).toVec
      = σ • d.toVec := by
    ext i; fin_cases i <;> simp [V3.toVec, Gen.postAlignShiftNm, mul_comm]
  rw [this, Matrix.mulVec_smul]

/-- **Displacement in the molecule's own frame** (bridge to C05): the output position minus the
input position, expressed along the input molecule's axes, is exactly `σ d`. -/
theorem internal_displacement (σ : ℚ) (m : Pose) (d : V3) (Q : M3)
    (hR : m.R.toMat * m.R.toMatᵀ = 1) (hR' : m.R.toMatᵀ * m.R.toMat = 1) :
    m.R.toMatᵀ.mulVec ((postAlign σ m d Q).p.toVec - m.p.toVec) = σ • d.toVec := by
  rw [(post_align_pose σ m d Q hR hR').1]
  have : m.p.toVec + σ • m.R.toMat.mulVec d.toVec - m.p.toVec = σ • m.R.toMat.mulVec d.toVec := by abel
  rw [this, Matrix.mulVec_smul, Matrix.mulVec_mulVec, hR', Matrix.one_mulVec]

/-- Pixel / nm conversions of `align`: the search range in pixels is `max_shifts / σ` and shifts are
written back as `σ · shift`, so `|shift_px| ≤ max_px ↔ |shift_nm| ≤ max_nm` for `σ > 0`. -/
theorem unit_conversion (mx s σ : ℚ) (hσ : 0 < σ) :
    (|s| ≤ Gen.alignMaxShiftsPx mx σ ↔ |Gen.postAlignShiftNm s σ| ≤ mx)
      ∧ Gen.postAlignMultiShiftNm s σ = Gen.postAlignShiftNm s σ := by
  refine ⟨?_, rfl⟩
  simp only [Gen.alignMaxShiftsPx, Gen.postAlignShiftNm]
  rw [abs_mul, abs_of_pos hσ, le_div_iff₀ hσ]

-- non-vacuity: a rotation by 90° about the first axis satisfies the orthogonality hypotheses
example : let R : M3 := ⟨⟨1, 0, 0⟩, ⟨0, 0, -1⟩, ⟨0, 1, 0⟩⟩
    R.toMat * R.toMatᵀ = 1 ∧ R.toMatᵀ * R.toMat = 1 := by
  constructor <;> (ext i j; fin_cases i <;> fin_cases j <;> simp [M3.toMat, Matrix.mul_apply, Fin.sum_univ_three])

end C01
