import AcryoVerif.Lemmas.Corr
import AcryoVerif.Lemmas.PyLemmas
import AcryoVerif.Model.Fsc
import AcryoVerif.Props.C09

/-!
# C17 — Fourier shell correlation is the normalised cross-spectrum per shell

A shell is a finite set `ι` of Fourier bins; `F₁ F₂ : ι → ℚ × ℚ` are the (real, imaginary) parts of
the two spectra on it. The FSC value of the shell is `num / sqrt den2`.
-/
namespace C17
open Finset BigOperators

variable {ι : Type*} [Fintype ι]

/-- `Σ (re₁ re₂ + im₁ im₂)` = `Re Σ F₁ conj F₂` (`cov` in the code). -/
def num (F₁ F₂ : ι → ℚ × ℚ) : ℚ := ∑ i, ((F₁ i).1 * (F₂ i).1 + (F₁ i).2 * (F₂ i).2)
/-- `Σ |F|²` (`pw`). -/
def pw (F : ι → ℚ × ℚ) : ℚ := ∑ i, ((F i).1 ^ 2 + (F i).2 ^ 2)
def den2 (F₁ F₂ : ι → ℚ × ℚ) : ℚ := pw F₁ * pw F₂

/-- The code computes exactly this (structure read from the source), and the loader-level FSC
applies it to the two masked half averages of `average_split` (C09). -/
theorem source_structure :
    Gen.fscIsNormalisedCrossSpectrum = true ∧ Gen.fscLoaderUsesMaskedHalves = true
      ∧ Gen.splitterComplementary = true ∧ Gen.splitLoopLoader = true ∧ Gen.splitLoopGroup = true := by
  decide

/-- **FSC ∈ [-1, 1]** on every shell: `num² ≤ Σ|F₁|² Σ|F₂|²` (Cauchy–Schwarz over the `2·|shell|`
real components). -/
theorem bounds (F₁ F₂ : ι → ℚ × ℚ) : num F₁ F₂ ^ 2 ≤ den2 F₁ F₂ := by
  -- regard a shell as the index set ι ⊕ ι of real components
  let a : ι ⊕ ι → ℚ := fun s => Sum.elim (fun i => (F₁ i).1) (fun i => (F₁ i).2) s
  let b : ι ⊕ ι → ℚ := fun s => Sum.elim (fun i => (F₂ i).1) (fun i => (F₂ i).2) s
  have h := Finset.sum_mul_sq_le_sq_mul_sq (Finset.univ : Finset (ι ⊕ ι)) a b
  simp only [Fintype.sum_sum_type, a, b, Sum.elim_inl, Sum.elim_inr] at h
  simp only [num, den2, pw, Finset.sum_add_distrib]
  exact h

/-- **Symmetric** in the two inputs. -/
theorem symmetric (F₁ F₂ : ι → ℚ × ℚ) : num F₁ F₂ = num F₂ F₁ ∧ den2 F₁ F₂ = den2 F₂ F₁ := by
  simp only [num, den2, mul_comm]; exact ⟨trivial, trivial⟩

/-- **Positive rescaling** of either input leaves `num / sqrt den2` unchanged: the numerator is
multiplied by `α β` and the squared denominator by `α² β²`. -/
theorem scale (F₁ F₂ : ι → ℚ × ℚ) (α β : ℚ) :
    num (fun i => (α * (F₁ i).1, α * (F₁ i).2)) (fun i => (β * (F₂ i).1, β * (F₂ i).2)) = α * β * num F₁ F₂
    ∧ den2 (fun i => (α * (F₁ i).1, α * (F₁ i).2)) (fun i => (β * (F₂ i).1, β * (F₂ i).2))
        = (α * β) ^ 2 * den2 F₁ F₂ := by
  simp only [num, den2, pw]
  constructor
  · rw [Finset.mul_sum]; congr 1; funext i; ring
  · have e1 : ∀ i, (α * (F₁ i).1) ^ 2 + (α * (F₁ i).2) ^ 2 = α ^ 2 * ((F₁ i).1 ^ 2 + (F₁ i).2 ^ 2) :=
      fun i => by ring
    have e2 : ∀ i, (β * (F₂ i).1) ^ 2 + (β * (F₂ i).2) ^ 2 = β ^ 2 * ((F₂ i).1 ^ 2 + (F₂ i).2 ^ 2) :=
      fun i => by ring
    simp only [e1, e2, ← Finset.mul_sum]; ring

/-- **Self correlation is 1** on every shell with non-zero power: `num = Σ|F|² = sqrt den2`. -/
theorem self_corr (F : ι → ℚ × ℚ) : num F F = pw F ∧ den2 F F = pw F ^ 2 ∧ 0 ≤ num F F := by
  have h : num F F = pw F := by
    simp only [num, pw]; congr 1; funext i; ring
  refine ⟨h, by simp only [den2]; ring, ?_⟩
  rw [h]; exact Finset.sum_nonneg fun i _ => by positivity

/-! ## shells -/

/-- **Shell membership**: a bin of radius `r` gets label `L = int(r / dfreq)`, i.e. it lies in the
half-open shell `[L·dfreq, (L+1)·dfreq)` of the requested width — every bin has exactly one label. -/
theorem shell_of_label (r dfreq : ℚ) (hr : 0 ≤ r) (hd : 0 < dfreq) (hsmall : r / dfreq < 65536) :
    ((Gen.fscLabel r dfreq : Int) : ℚ) * dfreq ≤ r ∧ r < (((Gen.fscLabel r dfreq : Int) : ℚ) + 1) * dfreq
      ∧ 0 ≤ Gen.fscLabel r dfreq := by
  simp only [Gen.fscLabel]
  have hq : 0 ≤ r / dfreq := div_nonneg hr hd.le
  have h1 := Py.trunc_le_of_nonneg (r / dfreq) hq
  have h2 := Py.trunc_gt (r / dfreq)
  have h3 := Py.trunc_nonneg_of_nonneg (r / dfreq) hq
  -- the labels are stored as uint16: fewer than 65536 shells (radius ≤ 0.87, dfreq ≥ 1/size)
  have hlt : Py.trunc (r / dfreq) < 65536 := by
    have : ((Py.trunc (r / dfreq) : Int) : ℚ) < ((65536 : Int) : ℚ) := by
      push_cast; linarith
    exact_mod_cast this
  rw [Py.imod_of_lt _ _ h3 hlt]
  refine ⟨?_, ?_, h3⟩
  · calc ((Py.trunc (r / dfreq) : Int) : ℚ) * dfreq ≤ (r / dfreq) * dfreq :=
        mul_le_mul_of_nonneg_right h1 hd.le
      _ = r := by field_simp
  · have : r / dfreq < ((Py.trunc (r / dfreq) : Int) : ℚ) + 1 := by linarith
    calc r = (r / dfreq) * dfreq := by field_simp
      _ < (((Py.trunc (r / dfreq) : Int) : ℚ) + 1) * dfreq := mul_lt_mul_of_pos_right this hd

/-- The reported frequency of shell `i` is its mid-point `(i + 1/2)·dfreq`. -/
theorem shell_freq (i : Int) (dfreq : ℚ) : Gen.fscShellFreq i dfreq = ((i : ℚ) + 1 / 2) * dfreq := by
  unfold Gen.fscShellFreq; ring

/-- Default shell width `1.5 / min(shape)` is at least `1 / min(shape)`. -/
theorem default_dfreq (n : Int) (hn : 1 ≤ n) :
    Gen.fscDefaultDfreq n = (3 / 2) / (n : ℚ) ∧ 1 / (n : ℚ) ≤ Gen.fscDefaultDfreq n := by
  have hpos : (0 : ℚ) < (n : ℚ) := by exact_mod_cast (by omega : (0 : Int) < n)
  simp only [Gen.fscDefaultDfreq]
  refine ⟨trivial, ?_⟩
  rw [div_le_div_iff_of_pos_right hpos]; norm_num

/-- Loader-level FSC uses two disjoint, jointly exhaustive, non-empty halves (C09). -/
theorem halves_disjoint (n : Nat) (stream : List Nat) (hn : 2 ≤ n)
    (hs : (Gen.splitDraws n).toNat ≤ stream.length) (hd : ∀ x ∈ stream, x < n) :
    0 < (Model.mask0 n (Model.usedDraws n stream)).count true
      ∧ 0 < (Model.mask1 n (Model.usedDraws n stream)).count true :=
  C09.split_nonempty n stream hn hs hd

end C17
