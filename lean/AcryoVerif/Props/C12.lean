import Mathlib.Data.List.Perm.Basic
import Mathlib.Data.List.Count
import Mathlib.Data.List.Zip
import Mathlib.Tactic.Linarith
import AcryoVerif.Model.Table

/-!
# C12 — Table operations keep a molecule's position, orientation and features together
-/
namespace C12
open Model Model.Tab Py

variable {α β γ : Type}

/-- Which path each method takes, as read from the source; inconsistent inputs are rejected. -/
theorem source_structure :
    Gen.subsetSameSpecForAll = true ∧ Gen.rowOpsThroughDataFrame = true ∧ Gen.concatParallel = true
    ∧ Gen.featuresLengthChecked = true ∧ Gen.rotLengthChecked = true ∧ Gen.dupColumnsRejected = true
    ∧ Gen.appendExtraRejected = true := by decide

/-! ## rows ↔ containers -/

theorem rows_ofRows (r : List (α × β × γ)) : (ofRows r).rows = r := by
  induction r with
  | nil => rfl
  | cons x r ih =>
    simp only [ofRows, rows, List.map_cons, List.zip_cons_cons] at ih ⊢
    rw [ih]

theorem wf_ofRows (r : List (α × β × γ)) : (ofRows r).WF := by
  simp [WF, ofRows]

theorem rows_length (t : Tab α β γ) (h : t.WF) : t.rows.length = t.pos.length := by
  simp [rows, List.length_zip, h.1, h.2]

/-! ## every row operation through the data frame acts on whole rows -/

/-- `filter / sort / head / tail / sample / group_by / cutby`: the result's rows are exactly the
row operation applied to the input's rows, and the three containers have equal length. -/
theorem rowOp_rows (f : List (α × β × γ) → List (α × β × γ)) (t : Tab α β γ) :
    (rowOp f t).rows = f t.rows ∧ (rowOp f t).WF :=
  ⟨rows_ofRows _, wf_ofRows _⟩

/-- Derived tables contain exactly selected rows: `head`/`tail`/`filter` give sublists, `sort` a
permutation. -/
theorem head_sublist (t : Tab α β γ) (k : Nat) : (t.head k).rows.Sublist t.rows := by
  rw [head, (rowOp_rows _ t).1]; exact List.take_sublist _ _

theorem tail_sublist (t : Tab α β γ) (k : Nat) : (t.tail k).rows.Sublist t.rows := by
  rw [tail, (rowOp_rows _ t).1]; exact List.drop_sublist _ _

theorem filter_sublist (t : Tab α β γ) (p : α × β × γ → Bool) :
    (t.filter p).rows.Sublist t.rows ∧ ∀ r ∈ (t.filter p).rows, p r = true := by
  rw [Tab.filter, (rowOp_rows _ t).1]
  exact ⟨List.filter_sublist, fun r hr => (List.mem_filter.mp hr).2⟩

theorem insertBy_perm {δ : Type} (key : δ → Int) (x : δ) (l : List δ) :
    (insertBy key x l).Perm (x :: l) := by
  induction l with
  | nil => exact List.Perm.refl _
  | cons y ys ih =>
    simp only [insertBy]
    split
    · exact List.Perm.refl _
    · exact (List.Perm.cons y ih).trans (List.Perm.swap x y ys)

theorem sortBy_perm {δ : Type} (key : δ → Int) (l : List δ) : (sortBy key l).Perm l := by
  induction l with
  | nil => exact List.Perm.refl _
  | cons x xs ih =>
    simp only [sortBy, List.foldr_cons] at ih ⊢
    exact (insertBy_perm key x _).trans (List.Perm.cons x ih)

theorem sort_perm (t : Tab α β γ) (key : α × β × γ → Int) (desc : Bool) :
    (t.sort key desc).rows.Perm t.rows := by
  rw [Tab.sort, (rowOp_rows _ t).1]
  cases desc <;> simp only [if_true, Bool.false_eq_true, if_false] <;> exact sortBy_perm _ _

/-! ## `subset`: indexing the three containers separately keeps rows together -/

theorem zip_drop {δ ε : Type} (n : Nat) (a : List δ) (b : List ε) :
    (a.zip b).drop n = (a.drop n).zip (b.drop n) := by
  induction n generalizing a b with
  | zero => rfl
  | succ n ih =>
    cases a with
    | nil => simp
    | cons x a =>
      cases b with
      | nil => simp
      | cons y b => simp [ih]

theorem zip_take {δ ε : Type} (n : Nat) (a : List δ) (b : List ε) :
    (a.zip b).take n = (a.take n).zip (b.take n) := by
  induction n generalizing a b with
  | zero => simp
  | succ n ih =>
    cases a with
    | nil => simp
    | cons x a =>
      cases b with
      | nil => simp
      | cons y b => simp [ih]

theorem sliceSel_zip {δ ε : Type} (lo hi : Int) (a : List δ) (b : List ε) (h : a.length = b.length) :
    sliceSel lo hi (a.zip b) = (sliceSel lo hi a).zip (sliceSel lo hi b) := by
  simp only [sliceSel, List.length_zip, h, Nat.min_self]
  rw [zip_drop, zip_take]

/-- **Slice / integer subset**: selecting each container with the same slice selects whole rows. -/
theorem subsetSlice_rows (t : Tab α β γ) (lo hi : Int) (h : t.WF) :
    (t.subsetSlice lo hi).rows = sliceSel lo hi t.rows ∧ (t.subsetSlice lo hi).WF := by
  constructor
  · simp only [subsetSlice, rows]
    rw [sliceSel_zip lo hi t.pos (t.rot.zip t.feat) (by simp [List.length_zip, h.1, h.2]),
      sliceSel_zip lo hi t.rot t.feat h.2]
  · have e1 : t.pos.length = t.feat.length := h.1.trans h.2
    simp only [WF, subsetSlice, sliceSel, List.length_take, List.length_drop, e1, h.2]
    exact ⟨trivial, trivial⟩

theorem maskSel_zip {δ ε : Type} (m : List Bool) (a : List δ) (b : List ε) (h : a.length = b.length) :
    maskSel m (a.zip b) = (maskSel m a).zip (maskSel m b) := by
  induction m generalizing a b with
  | nil => cases a <;> cases b <;> simp [maskSel]
  | cons c m ih =>
    cases a with
    | nil => cases b <;> simp_all [maskSel]
    | cons x a =>
      cases b with
      | nil => simp at h
      | cons y b =>
        have h' : a.length = b.length := by simpa using h
        cases c <;> simp [maskSel, ih a b h']

theorem maskSel_length {δ ε : Type} (m : List Bool) (a : List δ) (b : List ε) (h : a.length = b.length) :
    (maskSel m a).length = (maskSel m b).length := by
  induction m generalizing a b with
  | nil => cases a <;> cases b <;> simp [maskSel]
  | cons c m ih =>
    cases a with
    | nil => cases b <;> simp_all [maskSel]
    | cons x a =>
      cases b with
      | nil => simp at h
      | cons y b =>
        have h' : a.length = b.length := by simpa using h
        cases c <;> simp [maskSel, ih a b h']

/-- **Boolean-mask subset** selects whole rows; a mask of the wrong length is rejected. -/
theorem subsetMask_rows (t u : Tab α β γ) (m : List Bool) (h : t.WF) (hu : t.subsetMask m = .ok u) :
    u.rows = maskSel m t.rows ∧ u.WF ∧ m.length = t.pos.length := by
  unfold subsetMask at hu
  split at hu
  · exact absurd hu (by simp [throw, throwThe, MonadExceptOf.throw])
  · rename_i hl
    have hl' : m.length = t.pos.length := by simpa using hl
    simp only [pure, Except.pure, Except.ok.injEq] at hu
    subst hu
    refine ⟨?_, ⟨maskSel_length m _ _ h.1, maskSel_length m _ _ h.2⟩, hl'⟩
    simp only [rows]
    rw [maskSel_zip m t.pos (t.rot.zip t.feat) (by simp [List.length_zip, h.1, h.2]),
      maskSel_zip m t.rot t.feat h.2]

theorem subsetMask_reject (t : Tab α β γ) (m : List Bool) (hl : m.length ≠ t.pos.length) :
    t.subsetMask m = .error .index := by
  simp [subsetMask, hl, throw, throwThe, MonadExceptOf.throw]

/-- **Integer subset**: out-of-range and negative indices are rejected with `IndexError`,
otherwise exactly row `i` is returned. -/
theorem subsetInt_spec (t : Tab α β γ) (i : Int) (h : t.WF) :
    (0 ≤ i ∧ i < t.pos.length → ∃ u, t.subsetInt i = .ok u ∧ u.rows = sliceSel i (i + 1) t.rows ∧ u.WF)
    ∧ (¬ (0 ≤ i ∧ i < t.pos.length) → t.subsetInt i = .error .index) := by
  constructor
  · intro ⟨h0, h1⟩
    refine ⟨t.subsetSlice i (i + 1), ?_, subsetSlice_rows t i (i + 1) h⟩
    simp only [subsetInt, Gen.subsetIntIndex, bind, Except.bind, pure, Except.pure, throw, throwThe,
      MonadExceptOf.throw]
    have a : ¬ i < 0 := by omega
    have b : ¬ i ≥ (t.pos.length : Int) := by omega
    simp [a, b]
  · intro hn
    simp only [subsetInt, Gen.subsetIntIndex, bind, Except.bind, pure, Except.pure, throw, throwThe,
      MonadExceptOf.throw]
    by_cases a : i < 0
    · simp [a]
    · have b : i ≥ (t.pos.length : Int) := by omega
      simp [a, b]

/-! ## concatenation -/

theorem zip_append_eq {δ ε : Type} (a c : List δ) (b d : List ε) (h : a.length = b.length) :
    (a ++ c).zip (b ++ d) = a.zip b ++ c.zip d := List.zip_append h

/-- **`concat_with` / `append` / `concat`** put the rows of the second table after the rows of the
first: nothing is re-paired. -/
theorem concat_rows (t u : Tab α β γ) (ht : t.WF) (hu : u.WF) :
    (t.concatWith u).rows = t.rows ++ u.rows ∧ (t.concatWith u).WF := by
  constructor
  · simp only [concatWith, rows]
    rw [zip_append_eq t.rot u.rot t.feat u.feat ht.2]
    rw [zip_append_eq t.pos u.pos (t.rot.zip t.feat) (u.rot.zip u.feat)
      (by simp [List.length_zip, ht.1, ht.2])]
  · simp [WF, concatWith, ht.1, ht.2, hu.1, hu.2]

/-! ## integer-array subset -/

theorem idxSel_zip {δ ε : Type} (idx : List Nat) (a : List δ) (b : List ε) (h : a.length = b.length) :
    idxSel idx (a.zip b) = (idxSel idx a).zip (idxSel idx b) := by
  induction idx with
  | nil => simp [idxSel]
  | cons i idx ih =>
    simp only [idxSel, List.filterMap_cons] at ih ⊢
    by_cases hi : i < a.length
    · have hb : i < b.length := h ▸ hi
      have hz : i < (a.zip b).length := by simp [List.length_zip, hi, hb]
      rw [List.getElem?_eq_getElem hz, List.getElem?_eq_getElem hi, List.getElem?_eq_getElem hb]
      simp only [List.getElem_zip, List.zip_cons_cons]
      rw [ih]
    · have hb : ¬ i < b.length := h ▸ hi
      have hz : ¬ i < (a.zip b).length := by simp [List.length_zip]; omega
      rw [List.getElem?_eq_none (by omega), List.getElem?_eq_none (by omega),
        List.getElem?_eq_none (by omega)]
      exact ih

/-- **Index-list subset** selects whole rows, in the order of the index list; an out-of-range
index is rejected. -/
theorem subsetIdx_rows (t u : Tab α β γ) (idx : List Nat) (h : t.WF) (hu : t.subsetIdx idx = .ok u) :
    u.rows = idxSel idx t.rows := by
  unfold subsetIdx at hu
  split at hu
  · exact absurd hu (by simp [throw, throwThe, MonadExceptOf.throw])
  · simp only [pure, Except.pure, Except.ok.injEq] at hu
    subst hu
    simp only [rows]
    rw [idxSel_zip idx t.pos (t.rot.zip t.feat) (by simp [List.length_zip, h.1, h.2]),
      idxSel_zip idx t.rot t.feat h.2]

/-- **Stepped and reversed slices** (`mole[::-1]`, `mole[7:1:-2]`, …): the same index list is applied to
positions, orientations and features, so the result consists of whole rows of the input, in the order
the slice enumerates them — for every bound, sign and size of the step. -/
theorem subsetSliceStep_rows (t : Tab α β γ) (lo hi : Option Int) (step : Int) (h : t.WF) :
    (t.subsetSliceStep lo hi step).rows = idxSel (pySliceIndices lo hi step t.pos.length) t.rows
      ∧ (t.subsetSliceStep lo hi step).WF := by
  simp only [subsetSliceStep, rows]
  refine ⟨?_, ?_⟩
  · rw [idxSel_zip _ t.pos (t.rot.zip t.feat) (by simp [List.length_zip, h.1, h.2]),
      idxSel_zip _ t.rot t.feat h.2]
  · have hl : ∀ {δ ε : Type} (idx : List Nat) (a : List δ) (b : List ε), a.length = b.length →
        (idxSel idx a).length = (idxSel idx b).length := by
      intro δ ε idx a b hab
      induction idx with
      | nil => simp [idxSel]
      | cons i is ih =>
        simp only [idxSel, List.filterMap_cons] at ih ⊢
        by_cases hi' : i < a.length
        · have hb : i < b.length := by omega
          simp [List.getElem?_eq_getElem hi', List.getElem?_eq_getElem hb, ih]
        · have hb : ¬ i < b.length := by omega
          simp [List.getElem?_eq_none (by omega : a.length ≤ i), List.getElem?_eq_none (by omega : b.length ≤ i), ih]
    exact ⟨hl _ _ _ h.1, hl _ _ _ h.2⟩

/-! ## grouping partitions the rows -/

theorem mem_distinctKeys (l : List Int) (k : Int) : k ∈ distinctKeys l ↔ k ∈ l := by
  induction l with
  | nil => simp [distinctKeys]
  | cons x xs ih =>
    simp only [distinctKeys, List.mem_cons, List.mem_filter, ih, decide_eq_true_eq]
    constructor
    · rintro (h | ⟨h, _⟩)
      · exact Or.inl h
      · exact Or.inr h
    · rintro (h | h)
      · exact Or.inl h
      · by_cases e : k = x
        · exact Or.inl e
        · exact Or.inr ⟨h, e⟩

theorem nodup_distinctKeys (l : List Int) : (distinctKeys l).Nodup := by
  induction l with
  | nil => simp [distinctKeys]
  | cons x xs ih =>
    simp only [distinctKeys, List.nodup_cons, List.mem_filter, decide_eq_true_eq]
    exact ⟨fun h => h.2 rfl, ih.filter _⟩

theorem count_flatMap_filter {δ : Type} [DecidableEq δ] (key : δ → Int) (r : List δ) (x : δ)
    (ks : List Int) (hk : ks.Nodup) :
    ((ks.map fun k => r.filter fun y => key y == k).flatten).count x
      = if key x ∈ ks then r.count x else 0 := by
  induction ks with
  | nil => simp
  | cons k ks ih =>
    have hk' := (List.nodup_cons.mp hk)
    simp only [List.map_cons, List.flatten_cons, List.count_append, ih hk'.2, List.mem_cons]
    have hc : (r.filter fun y => key y == k).count x = if key x = k then r.count x else 0 := by
      by_cases e : key x = k
      · have hp : (fun y => key y == k) x = true := by simp [e]
        rw [List.count_filter (p := fun y => key y == k) hp]; simp [e]
      · have hn : x ∉ r.filter fun y => key y == k := by
          intro hm
          have := (List.mem_filter.mp hm).2
          simp at this; exact e this
        rw [List.count_eq_zero.mpr hn]; simp [e]
    rw [hc]
    by_cases e : key x = k
    · have hnot : key x ∉ ks := by rw [e]; exact hk'.1
      simp [e]
      intro hin; exact absurd hin hk'.1
    · have e' : ¬ k = key x := fun h => e h.symm
      simp [e, e']

/-- **`group_by` partitions the rows**: the groups are pairwise distinct in key, every row of a
group carries the group's key, and concatenating the groups gives a permutation of the input rows
(no row lost, none duplicated). -/
theorem groupRows_partition {δ : Type} [DecidableEq δ] (key : δ → Int) (r : List δ) :
    ((groupRows key r).map (·.1)).Nodup
    ∧ (∀ g ∈ groupRows key r, ∀ x ∈ g.2, key x = g.1)
    ∧ ((groupRows key r).map (·.2)).flatten.Perm r := by
  refine ⟨?_, ?_, ?_⟩
  · simp only [groupRows, List.map_map]
    have : ((fun g : Int × List δ => g.1) ∘ fun k => (k, r.filter fun x => key x == k)) = id := by
      funext k; rfl
    rw [this, List.map_id]; exact nodup_distinctKeys _
  · intro g hg x hx
    simp only [groupRows, List.mem_map] at hg
    obtain ⟨k, _, rfl⟩ := hg
    have := (List.mem_filter.mp hx).2
    simpa using this
  · rw [List.perm_iff_count]
    intro x
    have hm : ((groupRows key r).map (·.2)) = (distinctKeys (r.map key)).map fun k => r.filter fun y => key y == k := by
      simp only [groupRows, List.map_map]; rfl
    rw [hm, count_flatMap_filter key r x _ (nodup_distinctKeys _)]
    by_cases hx : x ∈ r
    · have : key x ∈ distinctKeys (r.map key) := (mem_distinctKeys _ _).mpr (List.mem_map_of_mem hx)
      simp [this]
    · have h0 : r.count x = 0 := List.count_eq_zero.mpr hx
      split <;> simp [h0]

/-- The groups of a table are tables whose rows are the groups of its rows. -/
theorem groupBy_rows (t : Tab α β γ) (key : α × β × γ → Int) :
    (t.groupBy key).map (fun g => (g.1, g.2.rows)) = groupRows key t.rows := by
  simp only [Tab.groupBy, List.map_map]
  conv_rhs => rw [← List.map_id (groupRows key t.rows)]
  apply List.map_congr_left
  intro g _
  simp [rows_ofRows]

/-- `cutby`: a value with label `i` lies in the half-open bin `(edge[i-1], edge[i]]` of sorted
edges: exactly `i` edges are strictly below it. -/
theorem cutLabel_spec (edges : List ℚ) (v : ℚ) :
    cutLabel edges v = ((edges.filter (· < v)).length : ℕ) := rfl

/-! ## any sequence of operations -/

inductive Op (α β γ : Type) where
  | slice (lo hi : Int)
  | mask (m : List Bool)
  | idx (i : List Nat)
  | int (i : Int)
  | head (k : Nat)
  | tail (k : Nat)
  | filter (p : α × β × γ → Bool)
  | sort (key : α × β × γ → Int) (desc : Bool)
  | concat (u : Tab α β γ)

/-- one operation; an operation that raises leaves the table unchanged -/
def step (t : Tab α β γ) : Op α β γ → Tab α β γ
  | .slice lo hi => t.subsetSlice lo hi
  | .mask m => match t.subsetMask m with | .ok u => u | .error _ => t
  | .idx i => match t.subsetIdx i with | .ok u => u | .error _ => t
  | .int i => match t.subsetInt i with | .ok u => u | .error _ => t
  | .head k => t.head k
  | .tail k => t.tail k
  | .filter p => t.filter p
  | .sort key d => t.sort key d
  | .concat u => if u.pos.length = u.rot.length ∧ u.rot.length = u.feat.length then t.concatWith u else t

theorem idxSel_length {δ ε : Type} (idx : List Nat) (a : List δ) (b : List ε) (h : a.length = b.length) :
    (idxSel idx a).length = (idxSel idx b).length := by
  induction idx with
  | nil => simp [idxSel]
  | cons i idx ih =>
    simp only [idxSel, List.filterMap_cons] at ih ⊢
    by_cases hi : i < a.length
    · have hb : i < b.length := h ▸ hi
      rw [List.getElem?_eq_getElem hi, List.getElem?_eq_getElem hb]
      simp [ih]
    · have hb : ¬ i < b.length := h ▸ hi
      rw [List.getElem?_eq_none (by omega), List.getElem?_eq_none (by omega)]
      exact ih

theorem step_wf (t : Tab α β γ) (op : Op α β γ) (h : t.WF) : (step t op).WF := by
  cases op with
  | slice lo hi => exact (subsetSlice_rows t lo hi h).2
  | mask m =>
    simp only [step]
    cases hm : t.subsetMask m with
    | error e => exact h
    | ok u => exact (subsetMask_rows t u m h hm).2.1
  | idx i =>
    simp only [step]
    cases hm : t.subsetIdx i with
    | error e => exact h
    | ok u =>
      unfold subsetIdx at hm
      split at hm
      · exact absurd hm (by simp [throw, throwThe, MonadExceptOf.throw])
      · simp only [pure, Except.pure, Except.ok.injEq] at hm
        subst hm
        exact ⟨idxSel_length i _ _ h.1, idxSel_length i _ _ h.2⟩
  | int i =>
    simp only [step]
    cases hm : t.subsetInt i with
    | error e => exact h
    | ok u =>
      by_cases hr : 0 ≤ i ∧ i < t.pos.length
      · obtain ⟨u', hu', _, hw⟩ := (subsetInt_spec t i h).1 hr
        rw [hu'] at hm; cases hm; exact hw
      · have := (subsetInt_spec t i h).2 hr
        rw [this] at hm; cases hm
  | head k => exact (rowOp_rows _ t).2
  | tail k => exact (rowOp_rows _ t).2
  | filter p => exact (rowOp_rows _ t).2
  | sort key d => exact (rowOp_rows _ t).2
  | concat u =>
    simp only [step]
    split
    · rename_i hu; exact (concat_rows t u h hu).2
    · exact h

/-- **Invariant over histories**: after any finite sequence of table operations the numbers of
positions, orientations and feature rows agree. -/
theorem history_wf (t : Tab α β γ) (ops : List (Op α β γ)) (h : t.WF) : (ops.foldl step t).WF := by
  induction ops generalizing t with
  | nil => exact h
  | cons op ops ih => exact ih _ (step_wf t op h)

-- non-vacuity: a concrete well-formed table and a history with every kind of operation
example : (⟨[1, 2, 3], ["a", "b", "c"], [10, 20, 30]⟩ : Tab Nat String Nat).WF := ⟨rfl, rfl⟩

end C12
