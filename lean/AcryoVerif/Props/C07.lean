import AcryoVerif.Lemmas.Corr
import AcryoVerif.Gen.Score
import AcryoVerif.Gen.Align
import AcryoVerif.Props.C05
import AcryoVerif.Gen.Sched

/-!
# C07 — Correlation scores mean what they say

Scores are kept in the square-root-free form `(num, den2)` with `score = num / sqrt den2`.
`x` is the (masked, low-pass filtered, wedge-masked) sub-volume and `y` the template processed the
same way, flattened over the voxel set `ι`.
-/
namespace C07
open Finset BigOperators Corr

variable {ι : Type*} [Fintype ι] [Nonempty ι]

/-! ## what the code computes (structure read from the source) -/

/-- `ncc(a, b) = Σ a b / sqrt(Σ a² Σ b²)`, `zncc(a, b) = ncc(a - ā, b - b̄)`; `_score` applies the
wedge mask to both spectra out of place and calls them on the real-space images; masking precedes
the pre-transform in `score`, `_optimize_single` and `_landscape_single`; `fsc()` is the centre of
`fsc_landscape(..., (0,0,0))`; alignment and landscape functions build the same response. -/
theorem source_structure :
    Gen.nccIsNormalisedDot = true ∧ Gen.znccIsCentredNcc = true
    ∧ Gen.znccScoreChain = true ∧ Gen.nccScoreChain = true
    ∧ Gen.scoreMaskThenTransform = true ∧ Gen.optimizeMaskThenTransform = true
    ∧ Gen.landscapeMaskThenTransform = true ∧ Gen.fscIsLandscapeCentre = true
    ∧ Gen.znccAlignUsesLandscape = true ∧ Gen.nccAlignUsesLandscape = true
    ∧ Gen.pccScoreAtArgmax = true := by
  decide

/-- numerator and squared denominator of `zncc` as the code computes it: centre, then normalised dot. -/
def znccNum (x y : ι → ℚ) : ℚ := ∑ i, (x i - mean x) * (y i - mean y)
def znccDen2 (x y : ι → ℚ) : ℚ := (∑ i, (x i - mean x) ^ 2) * (∑ i, (y i - mean y) ^ 2)
def nccNum (x y : ι → ℚ) : ℚ := ∑ i, x i * y i
def nccDen2 (x y : ι → ℚ) : ℚ := (∑ i, x i ^ 2) * (∑ i, y i ^ 2)

/-! ## bounds, self score, invariances, Pearson form -/

/-- **ZNCC ∈ [-1, 1]**: `num² ≤ den2`. -/
theorem zncc_bounds (x y : ι → ℚ) : znccNum x y ^ 2 ≤ znccDen2 x y :=
  Finset.sum_mul_sq_le_sq_mul_sq _ _ _

/-- **NCC ∈ [-1, 1]**. -/
theorem ncc_bounds (x y : ι → ℚ) : nccNum x y ^ 2 ≤ nccDen2 x y :=
  Finset.sum_mul_sq_le_sq_mul_sq _ _ _

/-- **Self score is 1**: `num = sqrt den2 ≥ 0` when both images are the same. -/
theorem zncc_self (x : ι → ℚ) : znccNum x x ^ 2 = znccDen2 x x ∧ 0 ≤ znccNum x x := by
  constructor
  · simp only [znccNum, znccDen2]
    have : ∀ i, (x i - mean x) * (x i - mean x) = (x i - mean x) ^ 2 := fun i => by ring
    simp only [this]; ring
  · exact Finset.sum_nonneg fun i _ => mul_self_nonneg _

theorem mean_affine (x : ι → ℚ) (a b : ℚ) : mean (fun i => a * x i + b) = a * mean x + b := by
  have hn : (Fintype.card ι : ℚ) ≠ 0 := by
    have : 0 < Fintype.card ι := Fintype.card_pos
    exact_mod_cast this.ne'
  simp only [mean, Finset.sum_add_distrib, ← Finset.mul_sum, Finset.sum_const, Finset.card_univ,
    nsmul_eq_mul]
  field_simp

/-- **Gain and offset invariance** (no mask): replacing `x` by `a x + b` multiplies the numerator
by `a` and the squared denominator by `a²`; for `a > 0` the score `num / sqrt den2` is unchanged. -/
theorem zncc_gain_offset (x y : ι → ℚ) (a b : ℚ) :
    znccNum (fun i => a * x i + b) y = a * znccNum x y
      ∧ znccDen2 (fun i => a * x i + b) y = a ^ 2 * znccDen2 x y := by
  simp only [znccNum, znccDen2, mean_affine]
  constructor
  · rw [Finset.mul_sum]; congr 1; funext i; ring
  · have : ∀ i, (a * x i + b - (a * mean x + b)) ^ 2 = a ^ 2 * (x i - mean x) ^ 2 := fun i => by ring
    simp only [this, ← Finset.mul_sum]; ring

/-- With a mask only the gain is free (the masked offset `b · mask` is not constant): stated for
the masked images `x' = mask · x`. -/
theorem zncc_gain_masked (x y msk : ι → ℚ) (a : ℚ) :
    znccNum (fun i => msk i * (a * x i)) y = a * znccNum (fun i => msk i * x i) y := by
  have h := (zncc_gain_offset (fun i => msk i * x i) y a 0).1
  have e : (fun i => a * (msk i * x i) + 0) = (fun i => msk i * (a * x i)) := by funext i; ring
  rw [e] at h; exact h

/-- NCC is invariant under positive gain of either input (not under offsets). -/
theorem ncc_gain (x y : ι → ℚ) (a : ℚ) :
    nccNum (fun i => a * x i) y = a * nccNum x y ∧ nccDen2 (fun i => a * x i) y = a ^ 2 * nccDen2 x y := by
  simp only [nccNum, nccDen2]
  constructor
  · rw [Finset.mul_sum]; congr 1; funext i; ring
  · have : ∀ i, (a * x i) ^ 2 = a ^ 2 * x i ^ 2 := fun i => by ring
    simp only [this, ← Finset.mul_sum]; ring

/-- **Pearson form**: the ZNCC numerator/denominator are the covariance and the product of the
variances (times `n²`), i.e. the score is the Pearson correlation of the two processed images. -/
theorem zncc_is_pearson (x y : ι → ℚ) :
    znccNum x y = num x y ∧ znccDen2 x y = varSum x * varSum y := by
  refine ⟨(num_eq_centered x y).symm, ?_⟩
  rw [varSum_eq_ssd, varSum_eq_ssd]; rfl

/-! ## score = landscape centre = zero-range alignment score -/

/-- The window-normalised response (`ncc_landscape_no_pad`) of the centred images at zero
displacement — the window is the whole sub-volume — has the same numerator and squared denominator
as `zncc`: the centre of the ZNCC landscape is the score. -/
theorem landscape_centre_is_zncc (x y : ι → ℚ) :
    num (fun i => x i - mean x) (fun i => y i - mean y) = znccNum x y
      ∧ varSum (fun i => x i - mean x) * ssd (fun i => y i - mean y) = znccDen2 x y := by
  have hn : (Fintype.card ι : ℚ) ≠ 0 := by
    have : 0 < Fintype.card ι := Fintype.card_pos
    exact_mod_cast this.ne'
  have h0 : ∀ z : ι → ℚ, ∑ i, (z i - mean z) = 0 := by
    intro z
    simp only [mean, Finset.sum_sub_distrib, Finset.sum_const, Finset.card_univ, nsmul_eq_mul]
    field_simp; ring
  have hm : ∀ z : ι → ℚ, mean (fun i => z i - mean z) = 0 := by
    intro z; simp only [mean] at *; rw [h0 z]; simp
  constructor
  · simp only [num, h0, znccNum]; simp
  · simp only [varSum, ssd, hm, h0, znccDen2]; simp

/-- With `max_shifts = 0` the cropped ZNCC landscape has a single entry, the refinement mesh is the
single node `j = 0`, and it is sampled at the centre of the response: the zero-range alignment score
is the landscape centre (up to the interpolating spline being exact at integer nodes). -/
theorem zero_range_single_node :
    (Gen.meshBounds 0 0 0) = (0, 0) ∧ 2 * Py.trunc 0 + 1 = 1
      ∧ Gen.meshNode 0 0 (Gen.padWidthEff0 0 (2 * Gen.paddingWidth 0 - 1)) = 2
      ∧ 2 * Gen.paddingWidth 0 - 1 = 5 := by
  decide +kernel

/-! ## PCC: landscape and alignment look at the same lags -/

/-- The landscape keeps `fftshift(power)[lo:hi]` (entry `k` ↔ lag `k + lo - c`); the alignment
keeps the same window, applies `ifftshift` (entry `i` ↔ window entry `(i + L/2) mod L`) and maps
the arg-max index to a lag with `i > fix(L/2) ↦ i - L`. Both give the same lag for every entry,
so the landscape's maximum lies at the integer displacement the alignment starts from. -/
theorem pcc_wrap_lag (l N i : Int) (hl : 0 ≤ l) (hN : 1 ≤ N)
    (hi0 : 0 ≤ i) (hi : i < (Gen.pccCropBounds l l N).2.2 - (Gen.pccCropBounds l l N).2.1) :
    let r := Gen.pccCropBounds l l N
    let L := r.2.2 - r.2.1
    let k := (i + L / 2) % L
    (k + r.2.1 - r.1) = (if Gen.pccWrapCond (i : Rat) (Gen.pccMidpoint L : Int) then i - L else i)
      ∨ (2 * i = L ∧ (k + r.2.1 - r.1) = i - L) := by
  have hc := C05.pcc_first_crop l N hl hN
  simp only at hc ⊢
  obtain ⟨h1, h2, h3, h4⟩ := hc
  generalize (Gen.pccCropBounds l l N).1 = c at *
  generalize (Gen.pccCropBounds l l N).2.1 = lo at *
  generalize (Gen.pccCropBounds l l N).2.2 = hi' at *
  generalize hL : hi' - lo = L at *
  have hLpos : 0 < L := by omega
  have hcond : Gen.pccWrapCond (i : Rat) ((Gen.pccMidpoint L : Int) : Rat) = decide (L / 2 < i) := by
    simp only [Gen.pccWrapCond, Gen.pccMidpoint, Py.trunc_half L hLpos.le]
    congr 1
    exact propext (by rw [gt_iff_lt]; exact Int.cast_lt)
  rw [hcond]
  by_cases hw : L / 2 < i
  · simp only [hw, decide_true, if_true]
    have : (i + L / 2) % L = i + L / 2 - L := by
      rw [← Int.sub_emod_right]; exact Int.emod_eq_of_lt (by omega) (by omega)
    left; omega
  · simp only [hw, decide_false, Bool.false_eq_true, if_false]
    by_cases he : i + L / 2 < L
    · have : (i + L / 2) % L = i + L / 2 := Int.emod_eq_of_lt (by omega) he
      left; omega
    · have : (i + L / 2) % L = i + L / 2 - L := by
        rw [← Int.sub_emod_right]; exact Int.emod_eq_of_lt (by omega) (by omega)
      right; omega


/-- Scores are functions of the sub-volume, the template and the orientation alone: no method of the
alignment or tilt models (outside `__init__` and the template cache) stores into `self`, so a score
cannot depend on which molecules were scored before with the same model. -/
theorem model_is_immutable :
    Gen.modelMethodsDoNotStoreBase = true ∧ Gen.modelMethodsDoNotStoreConcrete = true
    ∧ Gen.tiltModelsDoNotStore = true := by decide

end C07
