import AcryoVerif.Lemmas.PyLemmas
import AcryoVerif.Model.Search

/-!
# C06 — Rotation/template search returns the best candidate, correctly labelled
-/
namespace C06
open Py Gen Model

/-! ## argmax -/

theorem argmaxFrom_spec (xs : List Rat) (i best : Nat) (bv : Rat) (hb : best < i) :
    let r := argmaxFrom xs i best bv
    (r = best ∨ (i ≤ r ∧ r < i + xs.length)) := by
  induction xs generalizing i best bv with
  | nil => simp [argmaxFrom]
  | cons x xs ih =>
    simp only [argmaxFrom]
    split
    · have := ih (i + 1) i x (by omega)
      simp only [List.length_cons] at *
      rcases this with h | h
      · right; omega
      · right; omega
    · have := ih (i + 1) best bv (by omega)
      simp only [List.length_cons] at *
      rcases this with h | h
      · left; exact h
      · right; omega

/-- Value lookup used to state maximality. -/
def nth (l : List Rat) (i : Nat) : Rat := l.getD i 0

theorem argmaxFrom_max (pre xs : List Rat) (best : Nat) (bv : Rat)
    (hbest : best < pre.length) (hbv : nth (pre ++ xs) best = bv)
    (hpre : ∀ i, i < pre.length → nth (pre ++ xs) i ≤ bv) :
    let r := argmaxFrom xs pre.length best bv
    r < (pre ++ xs).length ∧ ∀ i, i < (pre ++ xs).length → nth (pre ++ xs) i ≤ nth (pre ++ xs) r := by
  induction xs generalizing pre best bv with
  | nil =>
    simp only [argmaxFrom, List.append_nil] at *
    exact ⟨hbest, fun i hi => by rw [hbv]; exact hpre i hi⟩
  | cons x xs ih =>
    simp only [argmaxFrom]
    have hsplit : pre ++ x :: xs = (pre ++ [x]) ++ xs := by simp
    have hx : nth (pre ++ x :: xs) pre.length = x := by
      simp [nth, List.getD_eq_getElem?_getD]
    split
    · rename_i hlt
      have := ih (pre ++ [x]) pre.length x (by simp) (by rw [← hsplit]; exact hx)
        (by
          intro i hi
          rw [← hsplit]
          simp only [List.length_append, List.length_cons, List.length_nil] at hi
          by_cases h : i < pre.length
          · have := hpre i h; grind
          · have : i = pre.length := by omega
            subst this; rw [hx]; exact Rat.le_refl)
      simp only [List.length_append, List.length_cons, List.length_nil] at this
      rw [hsplit]
      simp only [List.length_append, List.length_cons, List.length_nil]
      exact this
    · rename_i hlt
      have := ih (pre ++ [x]) best bv (by simp; omega) (by rw [← hsplit]; exact hbv)
        (by
          intro i hi
          rw [← hsplit]
          simp only [List.length_append, List.length_cons, List.length_nil] at hi
          by_cases h : i < pre.length
          · exact hpre i h
          · have : i = pre.length := by omega
            subst this; rw [hx]; grind)
      simp only [List.length_append, List.length_cons, List.length_nil] at this
      rw [hsplit]
      simp only [List.length_append, List.length_cons, List.length_nil]
      exact this

/-- **`np.argmax` returns a global maximiser**: for a non-empty score table the chosen index is in
range and its score is at least every other candidate's score. -/
theorem argmax_is_max (l : List Rat) (hl : l ≠ []) :
    argmaxFirst l < l.length ∧ ∀ i, i < l.length → nth l i ≤ nth l (argmaxFirst l) := by
  cases l with
  | nil => exact absurd rfl hl
  | cons x xs =>
    have := argmaxFrom_max [x] xs 0 x (by simp) (by simp [nth]) (by
      intro i hi
      have : i = 0 := by simpa using hi
      subst this; simp [nth])
    simpa [argmaxFirst] using this

/-! ## decoding the flat candidate index -/

theorem candIdx_range (T K j k : Int) (hT : 1 ≤ T) (hK : 1 ≤ K)
    (hj0 : 0 ≤ j) (hj : j < T) (hk0 : 0 ≤ k) (hk : k < K) :
    0 ≤ candIdx T K j k ∧ candIdx T K j k < T * K := by
  unfold candIdx
  split
  · constructor
    · have := Int.mul_nonneg hk0 (by omega : (0:Int) ≤ T); omega
    · have : k * T + j < (k + 1) * T := by rw [Int.add_mul]; omega
      have h2 : (k + 1) * T ≤ K * T := Int.mul_le_mul_of_nonneg_right (by omega) (by omega)
      rw [Int.mul_comm T K]; omega
  · constructor
    · have := Int.mul_nonneg hj0 (by omega : (0:Int) ≤ K); omega
    · have : j * K + k < (j + 1) * K := by rw [Int.add_mul]; omega
      have h2 : (j + 1) * K ≤ T * K := Int.mul_le_mul_of_nonneg_right (by omega) (by omega)
      omega

/-- **The reported rotation is the candidate's rotation**, for every number of templates and
rotations (including `T > 1` and `K > 1` together and `T ≠ K`). -/
theorem decode_rotation (T K j k : Int) (hT : 1 ≤ T) (hK : 1 ≤ K)
    (hj0 : 0 ≤ j) (hj : j < T) (hk0 : 0 ≤ k) (hk : k < K) :
    decodeRotation (candIdx T K j k) K T = k := by
  have hr := candIdx_range T K j k hT hK hj0 hj hk0 hk
  unfold decodeRotation candIdx at *
  simp only [candidateRotationMajor, if_true] at *
  unfold Py.ifloordiv
  rw [Int.fdiv_eq_ediv_of_nonneg _ (by omega)]
  rw [Int.add_comm, Int.add_mul_ediv_right _ _ (by omega)]
  rw [Int.ediv_eq_zero_of_lt hj0 hj]; omega

theorem imod_small (a m : Int) (h0 : 0 ≤ a) (h : a < m) : Py.imod a m = a := by
  unfold Py.imod
  rw [Int.fmod_eq_emod_of_nonneg _ (by omega)]
  exact Int.emod_eq_of_lt h0 h

theorem imod_candidate (T j k : Int) (hj0 : 0 ≤ j) (hj : j < T) : Py.imod (k * T + j) T = j := by
  unfold Py.imod
  rw [Int.fmod_eq_emod_of_nonneg _ (by omega)]
  rw [Int.add_comm, Int.add_mul_emod_self_right, Int.emod_eq_of_lt hj0 hj]

/-- **The stored label is the candidate's template**, through `loader.align_multi_templates`
(the reduction modulo `T` happens before the `uint8` narrowing; at most 256 templates). -/
theorem decode_label_loader (T K j k r0 : Int) (hT : 1 ≤ T) (hT256 : T ≤ 256) (hK : 1 ≤ K)
    (hj0 : 0 ≤ j) (hj : j < T) (hk0 : 0 ≤ k) (hk : k < K) :
    (do let rem ← loaderRemainder true K T r0; reduceLabel (candIdx T K j k) rem) = .ok j := by
  have h256 : Py.imod j 256 = j := imod_small j 256 hj0 (by omega)
  have hc := imod_candidate T j k hj0 hj
  unfold loaderRemainder reduceLabel candIdx
  simp only [candidateRotationMajor, if_true]
  simp only [bind, Except.bind, pure, Except.pure]
  by_cases hK1 : K > 1
  · simp only [hK1, and_true, if_true]
    have : T ≥ 1 := hT
    simp only [this, if_true, hc, h256]
  · have : K = 1 := by omega
    subst this
    have : k = 0 := by omega
    subst this
    simp [h256]

/-- The same through `LoaderGroup.align_multi_templates` (`has_rotation = (K > 1)`). -/
theorem decode_label_group (T K j k : Int) (hT : 1 ≤ T) (hT256 : T ≤ 256) (hK : 1 ≤ K)
    (hj0 : 0 ≤ j) (hj : j < T) (hk0 : 0 ≤ k) (hk : k < K) :
    reduceLabel (candIdx T K j k) (groupRemainder (decide (K > 1)) T) = .ok j := by
  have h256 : Py.imod j 256 = j := imod_small j 256 hj0 (by omega)
  have hc := imod_candidate T j k hj0 hj
  unfold groupRemainder reduceLabel candIdx
  simp only [candidateRotationMajor, if_true]
  simp only [bind, Except.bind, pure, Except.pure]
  by_cases hK1 : K > 1
  · simp only [hK1, decide_true, if_true]
    have : T ≥ 1 := hT
    simp only [this, if_true, hc, h256]
  · have : K = 1 := by omega
    subst this
    have : k = 0 := by omega
    subst this
    simp [h256]

/-- Labels below 256 survive the `uint8` cast (`astype(np.uint8)` wraps modulo 256). -/
theorem label_fits_uint8 (j T : Int) (hj0 : 0 ≤ j) (hj : j < T) (hT : T ≤ 256) : j % 256 = j := by
  omega

/-! ## rotation ranges `(max, step)` -/

/-- A `(max, step)` range with `step > 0`, `max ≥ 0` yields an odd number `2n+1 ≥ 1` of angles,
symmetric about zero, whose middle one (index `n`) is exactly `0`: the identity rotation is always
among the candidates. -/
theorem rot_range (mx step : Rat) (hs : 0 < step) (hm : 0 ≤ mx) :
    let r := rotRange mx step
    0 ≤ r.1 ∧ r.2.2.2 = 2 * r.1 + 1 ∧ r.2.1 = -r.2.2.1
      ∧ r.2.1 + (r.1 : Rat) * step = 0 ∧ r.2.2.1 ≤ mx := by
  simp only [rotRange]
  have hsne : step ≠ 0 := by grind
  have h2 : mx / step * step = mx := by
    rw [Rat.div_def, Rat.mul_assoc, Rat.inv_mul_cancel _ hsne, Rat.mul_one]
  have hq : 0 ≤ mx / step := by
    rcases (Rat.le_total (a := 0) (b := mx / step)) with h | h
    · exact h
    · have h5 : mx / step * step ≤ 0 * step := Rat.mul_le_mul_of_nonneg_right h (by grind)
      rw [h2, Rat.zero_mul] at h5
      have h6 : mx = 0 := by grind
      rw [h6, Rat.div_def, Rat.zero_mul]; exact Rat.le_refl
  have h0 := Py.trunc_nonneg_of_nonneg _ hq
  have h1 := Py.trunc_le_of_nonneg _ hq
  have h3 : (Py.trunc (mx / step) : Rat) * step ≤ (mx / step) * step :=
    Rat.mul_le_mul_of_nonneg_right h1 (by grind)
  refine ⟨h0, trivial, ?_, ?_, by grind⟩
  · simp [Rat.intCast_neg]; grind
  · simp [Rat.intCast_neg]; grind

end C06
