import Mathlib.Algebra.BigOperators.Group.List.Basic
import Mathlib.Tactic.FieldSimp
import Mathlib.Tactic.Ring
import Mathlib.Tactic.Linarith
import AcryoVerif.Model.Split

/-!
# C09 — Averages are plain arithmetic means of the loaded subtomograms
-/
namespace C09
open Model

/-- The splitter has the shape the model assumes, both in the single loader and in the group. -/
theorem source_structure :
    Gen.splitterComplementary = true ∧ Gen.splitLoopLoader = true ∧ Gen.splitLoopGroup = true
    ∧ Gen.averageIsPlainMean = true := by
  decide

/-! ## batch average = count-weighted mean -/

/-- The mean of a concatenation is the count-weighted mean of the parts (per voxel). -/
theorem batch_weighted (l₁ l₂ : List ℚ) (h₁ : l₁ ≠ []) (h₂ : l₂ ≠ []) :
    mean (l₁ ++ l₂) = ((l₁.length : ℚ) * mean l₁ + (l₂.length : ℚ) * mean l₂)
        / ((l₁.length : ℚ) + (l₂.length : ℚ)) := by
  have e₁ : (l₁.length : ℚ) ≠ 0 := by
    have : 0 < l₁.length := List.length_pos_of_ne_nil h₁
    exact_mod_cast this.ne'
  have e₂ : (l₂.length : ℚ) ≠ 0 := by
    have : 0 < l₂.length := List.length_pos_of_ne_nil h₂
    exact_mod_cast this.ne'
  have e₃ : (l₁.length : ℚ) + (l₂.length : ℚ) ≠ 0 := by
    have a : 0 < (l₁.length : ℚ) := by exact_mod_cast List.length_pos_of_ne_nil h₁
    have b : 0 < (l₂.length : ℚ) := by exact_mod_cast List.length_pos_of_ne_nil h₂
    linarith
  simp only [mean, List.sum_append, List.length_append, Nat.cast_add]
  field_simp

/-- The same for any number of tomograms, by induction: the mean of the flattened list is
`Σ (count_i · mean_i) / Σ count_i`. -/
theorem batch_weighted_many (ls : List (List ℚ)) (h : ∀ l ∈ ls, l ≠ []) :
    (ls.flatten).sum = (ls.map fun l => (l.length : ℚ) * mean l).sum := by
  induction ls with
  | nil => simp
  | cons l ls ih =>
    have hl : (l.length : ℚ) ≠ 0 := by
      have : 0 < l.length := List.length_pos_of_ne_nil (h l (by simp))
      exact_mod_cast this.ne'
    simp only [List.flatten_cons, List.sum_append, List.map_cons, List.sum_cons]
    rw [ih (fun l' hl' => h l' (by simp [hl']))]
    simp only [mean]; field_simp

/-! ## the random half split -/

theorem mask_lengths (n : Nat) (d : List Nat) : (mask0 n d).length = n ∧ (mask1 n d).length = n := by
  simp [mask0, mask1]

/-- **Disjoint and jointly exhaustive**: every molecule is in exactly one half, whatever was drawn
(with or without repetition). -/
theorem split_partition (n : Nat) (d : List Nat) (i : Nat) (hi : i < n) :
    ((mask0 n d)[i]'(by simp [mask0]; exact hi) = true ∧ (mask1 n d)[i]'(by simp [mask1]; exact hi) = false)
    ∨ ((mask0 n d)[i]'(by simp [mask0]; exact hi) = false ∧ (mask1 n d)[i]'(by simp [mask1]; exact hi) = true) := by
  simp only [mask0, mask1, List.getElem_map, List.getElem_range]
  by_cases h : i ∈ d <;> simp [h]

theorem count_map_true (l : List ℕ) (p : ℕ → Bool) : (l.map p).count true = (l.filter p).length := by
  induction l with
  | nil => simp
  | cons x l ih =>
    simp only [List.map_cons, List.filter_cons]
    cases h : p x <;> simp [ih]

theorem count_map_false (l : List ℕ) (p : ℕ → Bool) :
    (l.map fun i => !p i).count true + (l.map p).count true = l.length := by
  induction l with
  | nil => simp
  | cons x l ih =>
    simp only [List.map_cons, List.length_cons]
    cases h : p x <;> simp [h] <;> omega

theorem count_true_mask0_le (n : Nat) (d : List Nat) : (mask0 n d).count true ≤ d.length := by
  simp only [mask0]
  rw [count_map_true]
  have hnd : ((List.range n).filter fun i => decide (i ∈ d)).Nodup := (List.nodup_range).filter _
  have hsub : ((List.range n).filter fun i => decide (i ∈ d)) ⊆ d := by
    intro x hx; simp at hx; exact hx.2
  exact List.Nodup.length_le_of_subset hnd hsub

/-- **Both halves are non-empty** for two or more molecules: at least one index is drawn
(`n // 2 ≥ 1` draws) and at most `n // 2 < n` distinct indices can be drawn. For a single molecule
no index is drawn and the first half is empty (the property exempts that case). -/
theorem split_nonempty (n : Nat) (stream : List Nat) (hn : 2 ≤ n)
    (hs : (Gen.splitDraws n).toNat ≤ stream.length) (hd : ∀ x ∈ stream, x < n) :
    let d := usedDraws n stream
    0 < (mask0 n d).count true ∧ 0 < (mask1 n d).count true := by
  intro d
  have hk : (Gen.splitDraws n).toNat = n / 2 := by simp [Gen.splitDraws]; omega
  have hlen : d.length = n / 2 := by simp [d, usedDraws, hk]; omega
  constructor
  · have hpos : 0 < d.length := by omega
    obtain ⟨x, hx⟩ := List.exists_mem_of_length_pos hpos
    have hxs : x ∈ stream := List.mem_of_mem_take hx
    have hxn : x < n := hd x hxs
    apply List.count_pos_iff.mpr
    simp only [mask0, List.mem_map, List.mem_range, decide_eq_true_eq]
    exact ⟨x, hxn, hx⟩
  · have h0 := count_true_mask0_le n d
    have hsum := count_map_false (List.range n) (fun i => decide (i ∈ d))
    simp only [List.length_range] at hsum
    have e0 : (mask0 n d) = (List.range n).map (fun i => decide (i ∈ d)) := rfl
    have e1 : (mask1 n d) = (List.range n).map (fun i => !decide (i ∈ d)) := rfl
    rw [e0] at h0; rw [e1]
    omega

theorem split_single (stream : List Nat) : (mask0 1 (usedDraws 1 stream)).count true = 0 := by
  simp [usedDraws, Gen.splitDraws, mask0]

/-- Selecting by a mask and by its complement splits the sum. -/
theorem sum_select_add (m : List Bool) (xs : List ℚ) (h : m.length = xs.length) :
    (select m xs).sum + (select (m.map (!·)) xs).sum = xs.sum := by
  induction m generalizing xs with
  | nil => cases xs <;> simp_all [select]
  | cons b m ih =>
    cases xs with
    | nil => simp at h
    | cons x xs =>
      have h' : m.length = xs.length := by simpa using h
      have := ih xs h'
      cases b <;> simp only [select, List.map_cons, Bool.not_true, Bool.not_false, if_true,
        Bool.false_eq_true, if_false, List.sum_cons] <;> linarith

theorem length_select_add (m : List Bool) (xs : List ℚ) (h : m.length = xs.length) :
    (select m xs).length + (select (m.map (!·)) xs).length = xs.length := by
  induction m generalizing xs with
  | nil => cases xs <;> simp_all [select]
  | cons b m ih =>
    cases xs with
    | nil => simp at h
    | cons x xs =>
      have h' : m.length = xs.length := by simpa using h
      have := ih xs h'
      cases b <;> simp only [select, List.map_cons, Bool.not_true, Bool.not_false, if_true,
        Bool.false_eq_true, if_false, List.length_cons] <;> omega

/-- **The count-weighted mean of the two half-averages is the full average** (per voxel), for every
draw list, whenever both halves are non-empty. -/
theorem split_recombines (n : Nat) (d : List Nat) (xs : List ℚ) (hx : xs.length = n)
    (h0 : select (mask0 n d) xs ≠ []) (h1 : select (mask1 n d) xs ≠ []) :
    let a := select (mask0 n d) xs
    let b := select (mask1 n d) xs
    ((a.length : ℚ) * mean a + (b.length : ℚ) * mean b) / ((a.length : ℚ) + (b.length : ℚ)) = mean xs := by
  intro a b
  have hm : mask1 n d = (mask0 n d).map (!·) := by simp [mask0, mask1]
  have hl : (mask0 n d).length = xs.length := by simp [mask0, hx]
  have hs := sum_select_add (mask0 n d) xs hl
  have hc := length_select_add (mask0 n d) xs hl
  rw [← hm] at hs hc
  have ea : (a.length : ℚ) ≠ 0 := by
    have : 0 < a.length := List.length_pos_of_ne_nil h0
    exact_mod_cast this.ne'
  have eb : (b.length : ℚ) ≠ 0 := by
    have : 0 < b.length := List.length_pos_of_ne_nil h1
    exact_mod_cast this.ne'
  have hcq : (a.length : ℚ) + (b.length : ℚ) = (xs.length : ℚ) := by exact_mod_cast hc
  show (((select (mask0 n d) xs).length : ℚ) * mean (select (mask0 n d) xs)
      + ((select (mask1 n d) xs).length : ℚ) * mean (select (mask1 n d) xs))
      / (((select (mask0 n d) xs).length : ℚ) + ((select (mask1 n d) xs).length : ℚ)) = mean xs
  have ea' : ((select (mask0 n d) xs).length : ℚ) ≠ 0 := ea
  have eb' : ((select (mask1 n d) xs).length : ℚ) ≠ 0 := eb
  have hcq' : ((select (mask0 n d) xs).length : ℚ) + ((select (mask1 n d) xs).length : ℚ) = (xs.length : ℚ) := hcq
  simp only [mean]
  rw [hcq', ← hs]
  field_simp

/-- The split is a function of the draw stream, `n` and nothing else: the same seed (same stream)
gives the same masks. -/
theorem split_deterministic (n : Nat) (s₁ s₂ : List Nat) (h : s₁ = s₂) :
    mask0 n (usedDraws n s₁) = mask0 n (usedDraws n s₂) ∧ mask1 n (usedDraws n s₁) = mask1 n (usedDraws n s₂) := by
  subst h; exact ⟨rfl, rfl⟩

/-- `squeeze` drops the set axis exactly when `squeeze and n_set == 1`. -/
theorem squeeze_rule (sq : Bool) (k : Int) : Gen.splitSqueeze sq k = true ↔ (sq = true ∧ k = 1) := by
  simp [Gen.splitSqueeze]

end C09
