import Mathlib.Tactic.FieldSimp
import Mathlib.Tactic.Ring
import Mathlib.Tactic.Linarith
import AcryoVerif.Lemmas.PyLemmas
import AcryoVerif.Gen.Bin

/-!
# C15 — Binned loaders look at the same physical region
-/
namespace C15
open Gen

theorem source_structure :
    binIsBlockSum = true ∧ binStructureLoader = true ∧ binStructureBatch = true := by decide

/-- The single and the batch loader translate molecules and rescale identically. -/
theorem copies_agree : binTrLoader = binTrBatch ∧ binScaleLoader = binScaleBatch := ⟨rfl, rfl⟩

/-- **Block structure**: an axis of length `s` binned by `b ≥ 1` has `s // b` output voxels, the
first `b · (s // b)` input voxels are used and the incomplete remainder `s mod b < b` is dropped. -/
theorem bin_axis (s b : Int) (hs : 0 ≤ s) (hb : 1 ≤ b) :
    let r := binAxis s b
    r.1 = s / b ∧ r.2.2 = b * r.1 ∧ 0 ≤ r.2.1 ∧ r.2.1 < b ∧ r.2.2 ≤ s ∧ s < r.2.2 + b := by
  simp only [binAxis, Py.ifloordiv, Py.imod]
  have h1 : Int.fdiv s b = s / b := Int.fdiv_eq_ediv_of_nonneg _ (by omega)
  have h2 : Int.fmod s b = s % b := Int.fmod_eq_emod_of_nonneg _ (by omega)
  rw [h1, h2]
  have := Int.emod_nonneg s (by omega : b ≠ 0)
  have := Int.emod_lt_of_pos s (by omega : 0 < b)
  have := Int.mul_ediv_add_emod s b
  refine ⟨rfl, by omega, by omega, by omega, by omega, by omega⟩

/-- **Scale**: the binned loader's scale is `b` times the original. -/
theorem bin_scale (b : Int) (σ : ℚ) : binScaleLoader b σ = σ * (b : ℚ) := by
  simp only [binScaleLoader]

/-- **Same physical location.** Binned voxel `u` (in binned pixel coordinates) is centred at
original pixel coordinate `b·u + (b-1)/2`. A molecule at physical position `p` (pixel `p/σ` in the
original image) is translated by `tr` and read at scale `σ' = bσ`; its binned pixel coordinate maps
back to exactly `p/σ`. -/
theorem same_location (p σ : ℚ) (b : Int) (hσ : σ ≠ 0) (hb : 1 ≤ b) :
    (b : ℚ) * ((p + binTrLoader b σ) / binScaleLoader b σ) + ((b : ℚ) - 1) / 2 = p / σ := by
  have hb0 : (b : ℚ) ≠ 0 := by
    have : (0 : ℚ) < (b : ℚ) := by exact_mod_cast (by omega : (0 : Int) < b)
    exact ne_of_gt this
  simp only [binTrLoader, binScaleLoader]
  push_cast
  field_simp
  ring

/-- **Binned subtomogram = block sum of the `b`-times larger original subtomogram.** Voxel `k` of a
binned box of side `n` (identity orientation) sits at binned coordinate `u = p'/σ' + (k - (n-1)/2)`;
the `j`-th original voxel of its block, `b·u + j` for `j = 0..b-1` counted from the block start
`b·u - (b-1)/2 + (b-1)/2`, is voxel `K = b·k + j` of the box of side `b·n` sampled by the original
loader at the same molecule: `p/σ + (K - (b·n - 1)/2)`. -/
theorem block_correspondence (p σ : ℚ) (b n k j : Int) (hσ : σ ≠ 0) (hb : 1 ≤ b) :
    ((b : ℚ) * (((p + binTrLoader b σ) / binScaleLoader b σ) + ((k : ℚ) - ((n : ℚ) - 1) / 2))
        + ((b : ℚ) - 1) / 2) - ((b : ℚ) - 1) / 2 + (j : ℚ)
      = p / σ + (((b * k + j : Int) : ℚ) - (((b * n : Int) : ℚ) - 1) / 2) := by
  have h := same_location p σ b hσ hb
  have e : (b : ℚ) * (((p + binTrLoader b σ) / binScaleLoader b σ) + ((k : ℚ) - ((n : ℚ) - 1) / 2))
      = (b : ℚ) * ((p + binTrLoader b σ) / binScaleLoader b σ) + (b : ℚ) * ((k : ℚ) - ((n : ℚ) - 1) / 2) := by
    ring
  rw [e]
  have h' : (b : ℚ) * ((p + binTrLoader b σ) / binScaleLoader b σ) = p / σ - ((b : ℚ) - 1) / 2 := by
    linarith
  rw [h']
  push_cast
  ring

/-- `b = 1` is the identity: no translation, same scale (the code returns a copy). -/
theorem bin_one (σ : ℚ) : binTrLoader 1 σ = 0 ∧ binScaleLoader 1 σ = σ := by
  simp [binTrLoader, binScaleLoader]

end C15
