import Mathlib.Tactic.FieldSimp
import Mathlib.Tactic.Ring
import Mathlib.Tactic.Linarith
import AcryoVerif.Lemmas.PyLemmas
import Mathlib.Algebra.BigOperators.Fin
import Mathlib.Algebra.BigOperators.Ring.Finset
import Mathlib.Logic.Equiv.Fin.Basic
import AcryoVerif.Gen.Bin

/-!
# C15 — Binned loaders look at the same physical region
-/
namespace C15
open Gen

theorem source_structure :
    binIsBlockSum = true ∧ binStructureLoader = true ∧ binStructureBatch = true := by decide

/-- The single and the batch loader translate molecules and rescale identically. -/
theorem copies_agree : binTrLoader = binTrBatch ∧ binScaleLoader = binScaleBatch := ⟨rfl, rfl⟩

/-- **Block structure**: an axis of length `s` binned by `b ≥ 1` has `s // b` output voxels, the
first `b · (s // b)` input voxels are used and the incomplete remainder `s mod b < b` is dropped. -/
theorem bin_axis (s b : Int) (hs : 0 ≤ s) (hb : 1 ≤ b) :
    let r := binAxis s b
    r.1 = s / b ∧ r.2.2 = b * r.1 ∧ 0 ≤ r.2.1 ∧ r.2.1 < b ∧ r.2.2 ≤ s ∧ s < r.2.2 + b := by
  simp only [binAxis, Py.ifloordiv, Py.imod]
  have h1 : Int.fdiv s b = s / b := Int.fdiv_eq_ediv_of_nonneg _ (by omega)
  have h2 : Int.fmod s b = s % b := Int.fmod_eq_emod_of_nonneg _ (by omega)
  rw [h1, h2]
  have := Int.emod_nonneg s (by omega : b ≠ 0)
  have := Int.emod_lt_of_pos s (by omega : 0 < b)
  have := Int.mul_ediv_add_emod s b
  refine ⟨rfl, by omega, by omega, by omega, by omega, by omega⟩

/-- **Scale**: the binned loader's scale is `b` times the original. -/
theorem bin_scale (b : Int) (σ : ℚ) : binScaleLoader b σ = σ * (b : ℚ) := by
  simp only [binScaleLoader]

/-- **Same physical location.** Binned voxel `u` (in binned pixel coordinates) is centred at
original pixel coordinate `b·u + (b-1)/2`. A molecule at physical position `p` (pixel `p/σ` in the
original image) is translated by `tr` and read at scale `σ' = bσ`; its binned pixel coordinate maps
back to exactly `p/σ`. -/
theorem same_location (p σ : ℚ) (b : Int) (hσ : σ ≠ 0) (hb : 1 ≤ b) :
    (b : ℚ) * ((p + binTrLoader b σ) / binScaleLoader b σ) + ((b : ℚ) - 1) / 2 = p / σ := by
  have hb0 : (b : ℚ) ≠ 0 := by
    have : (0 : ℚ) < (b : ℚ) := by exact_mod_cast (by omega : (0 : Int) < b)
    exact ne_of_gt this
  simp only [binTrLoader, binScaleLoader]
  push_cast
  field_simp
  ring

/-- **Binned subtomogram = block sum of the `b`-times larger original subtomogram.** Voxel `k` of a
binned box of side `n` (identity orientation) sits at binned coordinate `u = p'/σ' + (k - (n-1)/2)`;
the `j`-th original voxel of its block, `b·u + j` for `j = 0..b-1` counted from the block start
`b·u - (b-1)/2 + (b-1)/2`, is voxel `K = b·k + j` of the box of side `b·n` sampled by the original
loader at the same molecule: `p/σ + (K - (b·n - 1)/2)`. -/
theorem block_correspondence (p σ : ℚ) (b n k j : Int) (hσ : σ ≠ 0) (hb : 1 ≤ b) :
    ((b : ℚ) * (((p + binTrLoader b σ) / binScaleLoader b σ) + ((k : ℚ) - ((n : ℚ) - 1) / 2))
        + ((b : ℚ) - 1) / 2) - ((b : ℚ) - 1) / 2 + (j : ℚ)
      = p / σ + (((b * k + j : Int) : ℚ) - (((b * n : Int) : ℚ) - 1) / 2) := by
  have h := same_location p σ b hσ hb
  have e : (b : ℚ) * (((p + binTrLoader b σ) / binScaleLoader b σ) + ((k : ℚ) - ((n : ℚ) - 1) / 2))
      = (b : ℚ) * ((p + binTrLoader b σ) / binScaleLoader b σ) + (b : ℚ) * ((k : ℚ) - ((n : ℚ) - 1) / 2) := by
    ring
  rw [e]
  have h' : (b : ℚ) * ((p + binTrLoader b σ) / binScaleLoader b σ) = p / σ - ((b : ℚ) - 1) / 2 := by
    linarith
  rw [h']
  push_cast
  ring

/-- `b = 1` is the identity: no translation, same scale (the code returns a copy). -/
theorem bin_one (σ : ℚ) : binTrLoader 1 σ = 0 ∧ binScaleLoader 1 σ = σ := by
  simp [binTrLoader, binScaleLoader]

/-! ## binning twice = binning once (every history of binnings) -/

/-- block sum along one axis of an (infinite) voxel sequence: output voxel `i` is the sum of the `b`
voxels starting at `b·i` (`Gen.binIsBlockSum`) -/
def binF (b : Nat) (f : Nat → ℚ) (i : Nat) : ℚ := ∑ r : Fin b, f (b * i + r)

/-- **Composition**: binning by `a` and then by `b` is binning by `a·b` — voxel by voxel. -/
theorem bin_bin (a b : Nat) (f : Nat → ℚ) (i : Nat) : binF b (binF a f) i = binF (a * b) f i := by
  unfold binF
  rw [← Finset.sum_product']
  rw [Nat.mul_comm a b]
  refine Fintype.sum_equiv finProdFinEquiv _ _ ?_
  rintro ⟨r, q⟩
  simp only [finProdFinEquiv_apply_val]
  congr 1
  ring

/-- … and so are the output lengths (`(s // a) // b = s // (a·b)`), … -/
theorem bin_bin_length (s a b : Int) (hs : 0 ≤ s) (ha : 1 ≤ a) (hb : 1 ≤ b) :
    (binAxis (binAxis s a).1 b).1 = (binAxis s (a * b)).1 := by
  simp only [binAxis, Py.ifloordiv]
  have h1 : s.fdiv a = s / a := Int.fdiv_eq_ediv_of_nonneg _ (by omega)
  have h2 : (s / a).fdiv b = s / a / b := Int.fdiv_eq_ediv_of_nonneg _ (by omega)
  have h3 : s.fdiv (a * b) = s / (a * b) := Int.fdiv_eq_ediv_of_nonneg _ (by positivity)
  rw [h1, h2, h3, Int.ediv_ediv_of_nonneg (by omega)]

/-- … the molecule translations (`-(a-1)/2·σ` then `-(b-1)/2·(σ a)` = `-(ab-1)/2·σ`) and the scales. -/
theorem bin_bin_pose (a b : Int) (σ : ℚ) :
    binTrLoader a σ + binTrLoader b (binScaleLoader a σ) = binTrLoader (a * b) σ ∧
    binScaleLoader b (binScaleLoader a σ) = binScaleLoader (a * b) σ := by
  simp only [binTrLoader, binScaleLoader]
  push_cast
  constructor <;> ring

/-- **Mass is conserved** over the voxels that are kept: the binned axis sums to the sum of the first
`b·(s // b)` input voxels. -/
theorem bin_mass (b n : Nat) (f : Nat → ℚ) :
    ∑ i ∈ Finset.range n, binF b f i = ∑ t ∈ Finset.range (b * n), f t := by
  induction n with
  | zero => simp
  | succ n ih =>
    rw [Finset.sum_range_succ, ih, Nat.mul_succ, Finset.sum_range_add]
    congr 1
    unfold binF
    rw [Finset.sum_range]

end C15
