import AcryoVerif.Model.Pipe
import AcryoVerif.Lemmas.PyLemmas
import Mathlib.Tactic.Ring
import Mathlib.Tactic.FieldSimp
import Mathlib.Tactic.Linarith
import Mathlib.Tactic.Positivity
import Mathlib.Algebra.Order.Field.Basic
import Mathlib.Algebra.Order.Ring.Abs

/-!
# C19 — Image pipelines compose like functions and are parameterised in physical units

* `source_structure`: shape of the operator methods, `compose`, the currying decorators, the
  morphological converters and the rescaling providers (read from the AST on every run).
* `pP_spec … cR_spec`: every lambda body translated from `_classes.py` is the voxel operation its operator
  stands for — including the reflected `s - p`, `s / p` and the mirrored comparisons `s < p`.
* `build_den_P`, `build_den_C`: **for every pipeline expression, of any depth**, the object Python builds
  through the operator methods evaluates to nested function application with voxel-wise operators.
* `compose_apply`, `compose_assoc`, `compose_apply_assoc`, `den_comp_assoc`: `@` is function composition
  and is associative.
* `curry_provider`, `curry_converter`: curried functions are the underlying function with scale (and image)
  supplied later.
* `radius_px_covariant`, `radius_sign_covariant`, `sigma_px_covariant`, `shift_px_covariant`,
  `smooth_covariant`, `gauss_*_covariant`, `rescale_ratio_covariant`: parameters in nm enter only through
  `parameter / scale`: multiplying parameters and scale by the same positive factor changes nothing.
* `rescale_same_scale`, `rescale_keeps_iff`: the rescaling providers return the image itself iff the
  relative scale difference is below the tolerance, otherwise they zoom by `original_scale / scale`.
* `gauss_center`, `gauss_term_nonneg`, `gauss_term_zero_iff`, `gauss_term_symmetric`, `gauss_term_mono`,
  `gauss_centered_in_box`: the Gaussian provider's exponent is `-½ Σ ((x-c)/σ)²` with
  `c = (n-1)/2 + shift/scale`: maximal exactly at `c`, symmetric about it, decreasing away from it.
* `ball_has_center`, `ball_symmetric`, `dilation_extensive`, `erosion_antiextensive`, `closing_extensive`,
  `opening_antiextensive`, `smooth_exponent_nonpos`, `smooth_in_unit_interval`, `smooth_dominates_mask`.

Not proved: accuracy of scipy's `zoom`, `gaussian_filter`, `shift` (spline resampling), Otsu's threshold.
-/

set_option linter.unusedTactic false
set_option linter.unreachableTactic false
set_option linter.unnecessarySeqFocus false

namespace C19
open Py Gen Model

theorem source_structure :
    pipeBranchOrder = true ∧ pipeReflectedCommutative = true ∧ pipeCompareHelpers = true ∧
    pipeCompose = true ∧ pipeCurry = true ∧ pipeMorphStructure = true ∧
    closingErodesWithTrueBorder = true ∧ pipeSmoothStructure = true ∧ pipeShiftUsesPx = true ∧
    gaussIsSumOfSquares = true ∧ pipeRescaleStructure = true := by decide

/-! ## the translated lambda bodies are the voxel operations -/

theorem pP_spec (op : BinOp) (a b : Rat) : op.pP a b = op.spec a b := by
  cases op <;> simp [BinOp.pP, BinOp.spec, pP_add, pP_sub, pP_mul, pP_div, pP_eq, pP_ne, pP_lt, pP_le, pP_gt, pP_ge]

theorem pS_spec (op : BinOp) (a s : Rat) : op.pS a s = op.spec a s := by
  cases op <;> simp [BinOp.pS, BinOp.spec, pS_add, pS_sub, pS_mul, pS_div, pS_eq, pS_ne, pS_lt, pS_le, pS_gt, pS_ge]

theorem cC_spec (op : BinOp) (a b : Rat) : op.cC a b = op.spec a b := by
  cases op <;> simp [BinOp.cC, BinOp.spec, cC_add, cC_sub, cC_mul, cC_div, cC_eq, cC_ne, cC_lt, cC_le, cC_gt, cC_ge]

theorem cP_spec (op : BinOp) (a b : Rat) : op.cP a b = op.spec a b := by
  cases op <;> simp [BinOp.cP, BinOp.spec, cP_add, cP_sub, cP_mul, cP_div, cP_eq, cP_ne, cP_lt, cP_le, cP_gt, cP_ge]

theorem cS_spec (op : BinOp) (a s : Rat) : op.cS a s = op.spec a s := by
  cases op <;> simp [BinOp.cS, BinOp.spec, cS_add, cS_sub, cS_mul, cS_div, cS_eq, cS_ne, cS_lt, cS_le, cS_gt, cS_ge]

/-- a scalar on the left: `s op voxel`, for all ten operators (reflected arithmetic, mirrored comparison) -/
theorem pR_spec (op : BinOp) (a s : Rat) : op.pR a s = op.spec s a := by
  cases op <;>
    simp [BinOp.pR, BinOp.mirror, BinOp.pS, BinOp.spec, pS_add, pS_mul, pR_sub, pR_div, pS_eq, pS_ne, pS_lt, pS_le,
      pS_gt, pS_ge, Rat.add_comm, Rat.mul_comm, eq_comm]

theorem cR_spec (op : BinOp) (a s : Rat) : op.cR a s = op.spec s a := by
  cases op <;>
    simp [BinOp.cR, BinOp.mirror, BinOp.cS, BinOp.spec, cS_add, cS_mul, cR_sub, cR_div, cS_eq, cS_ne, cS_lt, cS_le,
      cS_gt, cS_ge, Rat.add_comm, Rat.mul_comm, eq_comm]

theorem neg_spec (a : Rat) : pNeg a = -a ∧ cNeg a = -a := ⟨rfl, rfl⟩

/-! ## every expression: built object = meaning -/

mutual
  /-- **Refinement, providers**: for every pipeline expression `e` (any depth), every environment of
  primitive providers / converters and every scale, the provider object constructed by Python's operator
  methods yields `⟦e⟧`. -/
  theorem build_den_P (pe : Nat → Prov) (ce : Nat → Conv) :
      ∀ (e : PE) (σ : Rat), (buildP pe ce e).f σ = denP pe ce e σ
    | .base k, σ => rfl
    | .bin op a b, σ => by
      simp only [buildP, denP, Prov.bin, build_den_P pe ce a σ, build_den_P pe ce b σ]
      congr 1 <;> funext x y <;> exact pP_spec op x y
    | .binS op a s, σ => by
      simp only [buildP, denP, Prov.binS, build_den_P pe ce a σ]
      congr 1 <;> funext x <;> exact pS_spec op x s
    | .binR op s a, σ => by
      simp only [buildP, denP, Prov.binR, build_den_P pe ce a σ]
      congr 1 <;> funext x <;> exact pR_spec op x s
    | .neg a, σ => by
      simp only [buildP, denP, Prov.neg, build_den_P pe ce a σ]; try rfl
    | .app c a, σ => by
      simp only [buildP, denP, Conv.apply, build_den_P pe ce a σ, build_den_C pe ce c]
  /-- **Refinement, converters.** -/
  theorem build_den_C (pe : Nat → Prov) (ce : Nat → Conv) :
      ∀ (e : CE) (x : PImg) (σ : Rat), (buildC pe ce e).f x σ = denC pe ce e x σ
    | .base k, x, σ => rfl
    | .bin op a b, x, σ => by
      simp only [buildC, denC, Conv.bin, build_den_C pe ce a x σ, build_den_C pe ce b x σ]
      congr 1 <;> funext u v <;> exact cC_spec op u v
    | .binP op a p, x, σ => by
      simp only [buildC, denC, Conv.binP, build_den_C pe ce a x σ, build_den_P pe ce p σ]
      congr 1 <;> funext u v <;> exact cP_spec op u v
    | .binS op a s, x, σ => by
      simp only [buildC, denC, Conv.binS, build_den_C pe ce a x σ]
      congr 1 <;> funext u <;> exact cS_spec op u s
    | .binR op s a, x, σ => by
      simp only [buildC, denC, Conv.binR, build_den_C pe ce a x σ]
      congr 1 <;> funext u <;> exact cR_spec op u s
    | .neg a, x, σ => by
      simp only [buildC, denC, Conv.neg, build_den_C pe ce a x σ]; try rfl
    | .comp a b, x, σ => by
      simp only [buildC, denC, Conv.compose, build_den_C pe ce b x σ, build_den_C pe ce a]
end

/-! ## composition -/

theorem compose_apply (c d : Conv) (x : PImg) (σ : Rat) : (c.compose d).f x σ = c.f (d.f x σ) σ := rfl

theorem compose_provider (c : Conv) (p : Prov) (σ : Rat) : (c.apply p).f σ = c.f (p.f σ) σ := rfl

theorem compose_assoc (a b c : Conv) : (a.compose b).compose c = a.compose (b.compose c) := rfl

theorem compose_apply_assoc (a b : Conv) (p : Prov) : (a.compose b).apply p = a.apply (b.apply p) := rfl

/-- associativity at the level of expressions, through the objects Python builds -/
theorem den_comp_assoc (pe : Nat → Prov) (ce : Nat → Conv) (a b c : CE) (x : PImg) (σ : Rat) :
    (buildC pe ce (.comp (.comp a b) c)).f x σ = (buildC pe ce (.comp a (.comp b c))).f x σ := by
  simp only [build_den_C, denC]

theorem den_app_assoc (pe : Nat → Prov) (ce : Nat → Conv) (a b : CE) (p : PE) (σ : Rat) :
    (buildP pe ce (.app (.comp a b) p)).f σ = (buildP pe ce (.app a (.app b p))).f σ := by
  simp only [build_den_P, denP, denC]

/-! ## currying -/

theorem curry_provider {α : Type} (fn : Rat → α → PImg) (args : α) (σ : Rat) : (curryP fn args).f σ = fn σ args := rfl

theorem curry_converter {α : Type} (fn : PImg → Rat → α → PImg) (args : α) (x : PImg) (σ : Rat) :
    (curryC fn args).f x σ = fn x σ args := rfl

/-! ## physical units -/

theorem quot_covariant (a s l : Rat) (hl : l ≠ 0) : (l * a) / (l * s) = a / s :=
  mul_div_mul_left a s hl

theorem radius_px_covariant (r s l : Rat) (hl : 0 < l) : getRadiusPx (l * r) (l * s) = getRadiusPx r s := by
  unfold getRadiusPx
  rw [quot_covariant r s l (ne_of_gt hl)]

/-- the sign tests `radius < 0` / `radius > 0` that choose erosion or dilation are scale-free too -/
theorem radius_sign_covariant (r l : Rat) (hl : 0 < l) : (l * r < 0 ↔ r < 0) ∧ (l * r > 0 ↔ r > 0) := by
  constructor
  · constructor
    · intro h; by_contra hr; push Not at hr; nlinarith [mul_nonneg (le_of_lt hl) hr]
    · intro h; nlinarith [mul_pos hl (neg_pos.mpr h)]
  · constructor
    · intro h; by_contra hr; push Not at hr; nlinarith [mul_nonneg (le_of_lt hl) (neg_nonneg.mpr hr)]
    · intro h; exact mul_pos hl h

theorem rabs_eq_abs (x : Rat) : Py.rabs x = |x| := by
  unfold Py.rabs; split <;> rename_i hc
  · rw [abs_of_nonneg hc]
  · rw [abs_of_neg (not_le.mp hc)]

/-- radius below one voxel: the morphological converters return the image unchanged -/
theorem radius_px_zero (r s : Rat) (h : |r / s| < 1) : getRadiusPx r s = .ok 0 := by
  unfold getRadiusPx
  simp [pure, Except.pure, rabs_eq_abs, h]

theorem sigma_px_covariant (a s l : Rat) (hl : l ≠ 0) :
    filterSigmaPx (l * a) (l * s) = filterSigmaPx a s ∧ gaussSigmaPx (l * a) (l * s) = gaussSigmaPx a s := by
  simp only [filterSigmaPx, gaussSigmaPx, quot_covariant a s l hl, and_self]

theorem shift_px_covariant (a s l : Rat) (hl : l ≠ 0) : shiftPx (l * a) (l * s) = shiftPx a s := by
  simp only [shiftPx, quot_covariant a s l hl]

theorem smooth_covariant (d a s l : Rat) (hl : l ≠ 0) : smoothExponent d (l * a) (l * s) = smoothExponent d a s := by
  simp only [smoothExponent, quot_covariant a s l hl]

theorem gauss_shape_covariant (a s l : Rat) (hl : l ≠ 0) : gaussShapePx (l * a) (l * s) = gaussShapePx a s := by
  simp only [gaussShapePx, quot_covariant a s l hl]

theorem gauss_center_covariant (n : Int) (a s l : Rat) (hl : l ≠ 0) :
    gaussCenter n (l * a) (l * s) = gaussCenter n a s := by
  simp only [gaussCenter, quot_covariant a s l hl]

theorem rescale_ratio_covariant (a s l : Rat) (hl : l ≠ 0) :
    fromArrayRatio (l * a) (l * s) = fromArrayRatio a s ∧ fromFileRatio (l * a) (l * s) = fromFileRatio a s := by
  simp only [fromArrayRatio, fromFileRatio, quot_covariant a s l hl, and_self]

/-! ## rescaling providers -/

/-- the image is returned as it is exactly when the relative scale difference is below `tol` -/
theorem rescale_keeps_iff (orig s tol : Rat) :
    (fromArrayKeeps (fromArrayRatio orig s) tol = true ↔ |orig / s - 1| < tol) ∧
    (fromFileKeeps (fromFileRatio orig s) tol = true ↔ |orig / s - 1| < tol) := by
  simp [fromArrayKeeps, fromArrayRatio, fromFileKeeps, fromFileRatio, rabs_eq_abs]

/-- requesting the image's own scale never resamples -/
theorem rescale_same_scale (s tol : Rat) (hs : s ≠ 0) (ht : 0 < tol) :
    fromArrayKeeps (fromArrayRatio s s) tol = true ∧ fromFileKeeps (fromFileRatio s s) tol = true := by
  have := rescale_keeps_iff s s tol
  rw [this.1, this.2, div_self hs]
  simp [ht]

/-! ## the Gaussian provider -/

theorem gauss_center (n : Int) (shift s : Rat) : gaussCenter n shift s = ((n : Rat) - 1) / 2 + shift / s := by
  simp [gaussCenter]

/-- without shift the centre is the centre of the box: voxels `i` and `n-1-i` are mirror images -/
theorem gauss_centered_in_box (n i : Int) (s sg : Rat) :
    gaussTerm (i : Rat) (gaussCenter n 0 s) sg = gaussTerm ((n - 1 - i : Int) : Rat) (gaussCenter n 0 s) sg := by
  simp only [gaussTerm, gaussCenter]
  push_cast
  ring

theorem gauss_term_nonneg (x c sg : Rat) : 0 ≤ gaussTerm x c sg := by
  simp only [gaussTerm]; positivity

theorem gauss_term_zero_iff (x c sg : Rat) (hsg : sg ≠ 0) : gaussTerm x c sg = 0 ↔ x = c := by
  simp only [gaussTerm]
  constructor
  · intro h
    have h1 : (x - c) / sg = 0 := by exact pow_eq_zero_iff (n := 2) (by norm_num) |>.mp h
    have h2 : x - c = 0 := by
      rcases div_eq_zero_iff.mp h1 with h | h
      · exact h
      · exact absurd h hsg
    linarith
  · intro h; subst h; simp

theorem gauss_term_symmetric (c d sg : Rat) : gaussTerm (c + d) c sg = gaussTerm (c - d) c sg := by
  simp only [gaussTerm]; ring

/-- further from the centre ⇒ larger term ⇒ smaller density: the provided image is a blob whose maximum
is at the voxel nearest to `c` on every axis -/
theorem gauss_term_mono (x y c sg : Rat) (h : |x - c| ≤ |y - c|) : gaussTerm x c sg ≤ gaussTerm y c sg := by
  simp only [gaussTerm, div_pow]
  have h2 : (x - c) ^ 2 ≤ (y - c) ^ 2 := by
    have := sq_le_sq' (a := |x - c|) (b := |y - c|) (by linarith [abs_nonneg (x - c), abs_nonneg (y - c)]) h
    simpa [sq_abs] using this
  exact div_le_div_of_nonneg_right h2 (by positivity)

/-! ## morphology -/

theorem ball_has_center (r : Int) : structureHas r r r r = true := by
  simp only [structureHas, decide_eq_true_eq]
  have : 0 ≤ r ^ 2 := by positivity
  simpa using this

theorem ball_symmetric (r z y x : Int) :
    structureHas r z y x = structureHas r (2 * r - z) (2 * r - y) (2 * r - x) := by
  simp only [structureHas]
  congr 1
  apply propext
  constructor <;> intro h <;> nlinarith [h]

theorem ball_fits (r z y x : Int) (h : structureHas r z y x = true) (hr : 0 ≤ r) :
    0 ≤ z ∧ z < structureSize r ∧ 0 ≤ y ∧ y < structureSize r ∧ 0 ≤ x ∧ x < structureSize r := by
  simp only [structureHas, decide_eq_true_eq, structureSize] at *
  have hz : (z - r) ^ 2 ≤ r ^ 2 := by nlinarith [sq_nonneg (x - r), sq_nonneg (y - r)]
  have hy : (y - r) ^ 2 ≤ r ^ 2 := by nlinarith [sq_nonneg (x - r), sq_nonneg (z - r)]
  have hx : (x - r) ^ 2 ≤ r ^ 2 := by nlinarith [sq_nonneg (z - r), sq_nonneg (y - r)]
  have ab := fun (t : Int) (ht : (t - r) ^ 2 ≤ r ^ 2) => abs_le_of_sq_le_sq' (by simpa using ht) hr
  have az := ab z hz; have ay := ab y hy; have ax := ab x hx
  omega

/-- Voxel sets as predicates on `ℤ³`; `D` is the image domain, the input `A` lies inside it. `B` is the
structuring element as a set of offsets (`structureHas r` shifted by its centre). -/
abbrev Vox := Int × Int × Int
def vadd (p b : Vox) : Vox := (p.1 + b.1, p.2.1 + b.2.1, p.2.2 + b.2.2)
def vsub (p b : Vox) : Vox := (p.1 - b.1, p.2.1 - b.2.1, p.2.2 - b.2.2)

/-- `ndi.binary_dilation(A, B, border_value=False)` -/
def dil (D B A : Vox → Prop) (p : Vox) : Prop := D p ∧ ∃ b, B b ∧ D (vsub p b) ∧ A (vsub p b)
/-- `ndi.binary_erosion(A, B, border_value=bv)`: a voxel survives when every structure offset lands on the
object; offsets that leave the image count as `bv`. -/
def ero (bv : Bool) (D B A : Vox → Prop) (p : Vox) : Prop :=
  D p ∧ ∀ b, B b → (D (vadd p b) → A (vadd p b)) ∧ (¬ D (vadd p b) → bv = true)

theorem vsub_vadd (p b : Vox) : vsub (vadd p b) b = p := by
  simp [vadd, vsub]

theorem vadd_vsub (p b : Vox) : vadd (vsub p b) b = p := by
  simp [vadd, vsub]

theorem vadd_zero (p : Vox) : vadd p (0, 0, 0) = p := by simp [vadd]
theorem vsub_zero (p : Vox) : vsub p (0, 0, 0) = p := by simp [vsub]

/-- `dilation(radius > 0)` is extensive: the structuring ball contains its centre (`ball_has_center`) -/
theorem dilation_extensive (D B A : Vox → Prop) (h0 : B (0, 0, 0)) (hA : ∀ p, A p → D p) (p : Vox) (hp : A p) :
    dil D B A p :=
  ⟨hA p hp, (0, 0, 0), h0, by rw [vsub_zero]; exact hA p hp, by rw [vsub_zero]; exact hp⟩

/-- `dilation(radius < 0)` (erosion) is anti-extensive -/
theorem erosion_antiextensive (bv : Bool) (D B A : Vox → Prop) (h0 : B (0, 0, 0)) (p : Vox) (hp : ero bv D B A p) :
    A p := by
  have := (hp.2 (0, 0, 0) h0).1
  rw [vadd_zero] at this
  exact this hp.1

/-- `closing(radius > 0)` = erosion with `border_value=True` of the dilation: **extensive**, also for
objects touching the image border. -/
theorem closing_extensive (D B A : Vox → Prop) (hA : ∀ p, A p → D p) (p : Vox) (hp : A p)
    (hsrc : closingErodesWithTrueBorder = true) :
    ero closingErodesWithTrueBorder D B (dil D B A) p := by
  refine ⟨hA p hp, fun b hb => ⟨fun hd => ⟨hd, b, hb, ?_, ?_⟩, fun _ => hsrc⟩⟩
  · rw [vsub_vadd]; exact hA p hp
  · rw [vsub_vadd]; exact hp

/-- what scipy's own `binary_closing(border_value=False)` does instead: a voxel next to the border with a
structure offset pointing outside is always removed — the reason for the explicit two-step closing. -/
theorem closing_false_border_not_extensive (D B X : Vox → Prop) (p b : Vox) (hb : B b) (hout : ¬ D (vadd p b)) :
    ¬ ero false D B X p := by
  intro h
  have := (h.2 b hb).2 hout
  cases this

/-- `closing(radius < 0)` (opening: dilation of the erosion) is anti-extensive -/
theorem opening_antiextensive (bv : Bool) (D B A : Vox → Prop) (p : Vox) (hp : dil D B (ero bv D B A) p) : A p := by
  obtain ⟨_, b, hb, _, he⟩ := hp
  have := (he.2 b hb).1
  rw [vadd_vsub] at this
  exact this (by assumption)

theorem smooth_exponent_nonpos (d sg s : Rat) : smoothExponent d sg s ≤ 0 := by
  simp only [smoothExponent]
  have h1 : -(d ^ 2) / 2 ≤ 0 := by nlinarith [sq_nonneg d]
  exact div_nonpos_of_nonpos_of_nonneg h1 (by positivity)

theorem smooth_exponent_inside (sg s : Rat) : smoothExponent 0 sg s = 0 := by
  simp [smoothExponent]

/-- With any function `E` that behaves like `exp` on non-positive arguments (`E 0 = 1`, positive,
monotone), the smoothed mask has values in `(0, 1]` … -/
theorem smooth_in_unit_interval (E : Rat → Rat) (hE0 : E 0 = 1) (hpos : ∀ t, 0 < E t)
    (hmono : ∀ a b, a ≤ b → E a ≤ E b) (d sg s : Rat) :
    0 < E (smoothExponent d sg s) ∧ E (smoothExponent d sg s) ≤ 1 :=
  ⟨hpos _, by rw [← hE0]; exact hmono _ _ (smooth_exponent_nonpos d sg s)⟩

/-- … and is 1 on the mask itself (distance 0), so it dominates the binary input. -/
theorem smooth_dominates_mask (E : Rat → Rat) (hE0 : E 0 = 1) (sg s : Rat) : E (smoothExponent 0 sg s) = 1 := by
  rw [smooth_exponent_inside, hE0]

/-! ## non-vacuity -/

example : (buildP (fun _ => ⟨fun σ => [σ, 2, 3]⟩) (fun _ => ⟨fun x σ => x.map (· * σ)⟩)
    (.binR .sub 5 (.app (.base 0) (.base 0)))).f 2 = [1, 1, -1] := by decide +kernel

example : getRadiusPx (3 / 2) (1 / 2) = .ok 3 := by decide +kernel

end C19
