import Mathlib.Data.List.Basic
import Mathlib.Data.List.Perm.Basic
import Mathlib.Tactic.Linarith
import AcryoVerif.Lemmas.PyLemmas
import AcryoVerif.Model.Cache
import AcryoVerif.Model.Loader
import AcryoVerif.Props.C03
import AcryoVerif.Props.C05

/-!
# C10 — Results do not depend on dask scheduling, threading or chunking
-/
namespace C10
open Model

theorem source_structure :
    Gen.backendEqByModule = true ∧ Gen.cacheGetProtocol = true ∧ Gen.cacheFilledAtInit = true
    ∧ Gen.declaredLandscapeShapeFromModel = true ∧ Gen.declaredLoadingShape = true
    ∧ Gen.batchTasksScatteredToMoleculeOrder = true := by decide

/-- Tasks share one alignment model (and its tilt model): outside `__init__` and the template cache
(modelled below) no method of the alignment or tilt models stores into `self`, mutates a container held
by `self`, or declares global state. This is what makes the per-molecule tasks pure functions of their
arguments (`tasks_order_free`). -/
theorem tasks_share_immutable_model :
    Gen.modelMethodsDoNotStoreBase = true ∧ Gen.modelMethodsDoNotStoreConcrete = true
    ∧ Gen.tiltModelsDoNotStore = true := by decide

/-! ## the shared template cache under every thread interleaving -/

/-- a thread is *settled*: it has not started `get` yet, or it has returned the stored value -/
def Settled (v : Nat) (t : Thread) : Prop := t.st = .running 0 0 ∨ t.st = .returned (some v)

/-- the invariant: the dictionary is exactly the one entry written by `__init__` for module `xp`, and
every thread (all of them use a backend wrapping that module) is settled -/
def Inv (k0 : BKey) (v : Nat) (s : CState) : Prop :=
  s.dict = [(k0, v)] ∧ ∀ t ∈ s.threads, t.key.xp = k0.xp ∧ Settled v t

theorem stepThread_inv (k0 : BKey) (v : Nat) (t : Thread) (hk : t.key.xp = k0.xp) (ht : Settled v t) :
    stepThread true [(k0, v)] t = ([(k0, v)], { t with st := .returned (some v) }) := by
  rcases ht with h | h
  · simp [stepThread, h, lookup, BKey.same, hk]
  · obtain ⟨key, st⟩ := t
    simp only at h
    subst h
    simp [stepThread]

theorem step_inv (k0 : BKey) (v : Nat) (s : CState) (i : Nat) (h : Inv k0 v s) :
    Inv k0 v (step true s i) := by
  obtain ⟨hd, ht⟩ := h
  unfold step
  cases hi : s.threads[i]? with
  | none => exact ⟨hd, ht⟩
  | some t =>
    have hmem : t ∈ s.threads := List.mem_of_getElem? hi
    obtain ⟨hk, hs⟩ := ht t hmem
    simp only [hd, stepThread_inv k0 v t hk hs]
    refine ⟨rfl, ?_⟩
    intro t' ht'
    rcases List.mem_or_eq_of_mem_set ht' with h1 | h1
    · exact ht t' h1
    · subst h1
      exact ⟨hk, Or.inr rfl⟩

/-- **The cache is safe under every schedule.** With backends compared by the module they wrap
(`Gen.backendEqByModule`) and the cache filled by `__init__` (`Gen.cacheFilledAtInit`), for every
number of threads and every interleaving of their `get` calls: no thread ever raises, the dictionary
never changes, and every finished `get` returns the value stored at construction. -/
theorem cache_safe (k0 : BKey) (v : Nat) (keys : List BKey) (hk : ∀ k ∈ keys, k.xp = k0.xp)
    (schedule : List Nat) :
    let s := run Gen.backendEqByModule ⟨[(k0, v)], freshThreads keys⟩ schedule
    s.dict = [(k0, v)] ∧ ∀ t ∈ s.threads, t.st ≠ .raised ∧ (∀ r, t.st = .returned r → r = some v) := by
  intro s
  have h0 : Inv k0 v ⟨[(k0, v)], freshThreads keys⟩ := by
    refine ⟨rfl, ?_⟩
    intro t ht
    simp only [freshThreads, List.mem_map] at ht
    obtain ⟨k, hkm, rfl⟩ := ht
    exact ⟨hk k hkm, Or.inl rfl⟩
  have hrun : ∀ (sch : List Nat) (s0 : CState), Inv k0 v s0 → Inv k0 v (run true s0 sch) := by
    intro sch
    induction sch with
    | nil => intro s0 h; exact h
    | cons i rest ih => intro s0 h; exact ih _ (step_inv k0 v s0 i h)
  have hs : Inv k0 v s := by
    have := hrun schedule _ h0
    simpa [s, source_structure.1] using this
  refine ⟨hs.1, ?_⟩
  intro t ht
  rcases (hs.2 t ht).2 with h | h
  · rw [h]; exact ⟨by simp, by intro r hr; cases hr⟩
  · rw [h]; exact ⟨by simp, by intro r hr; cases hr; rfl⟩

-- non-vacuity: two threads with distinct Backend instances of the same module, interleaved
example : (run true ⟨[(⟨0, 0⟩, 7)], freshThreads [⟨0, 1⟩, ⟨0, 2⟩]⟩ [0, 1, 0, 1]).threads.map (·.st)
    = [.returned (some 7), .returned (some 7)] := by decide

/-! ## task execution order does not matter -/

/-- Tasks are pure functions of their index; executing them in any order (any scheduler, any number
of workers) and storing each result under its index gives the same result list. -/
def execute {β : Type} (f : Nat → β) (n : Nat) (order : List Nat) : List (Option β) :=
  (List.range n).map fun i => (order.find? (· == i)).map f

theorem pure_tasks_order_free {β : Type} (f : Nat → β) (n : Nat) (order : List Nat)
    (h : order.Perm (List.range n)) : execute f n order = (List.range n).map fun i => some (f i) := by
  unfold execute
  apply List.map_congr_left
  intro i hi
  have hmem : i ∈ order := h.mem_iff.mpr hi
  cases hf : order.find? (· == i) with
  | none =>
    have := List.find?_eq_none.mp hf i hmem
    simp at this
  | some j =>
    have := List.find?_some hf
    have hj : j = i := by simpa using this
    simp [hj]

/-! ## declared shapes of lazily constructed arrays -/

/-- Shape of the up-sampled landscape along one axis: `build_mesh` asks for `2·int(m·u) + 1` samples
centred on the middle of the padded landscape and all of them lie inside it (the landscape is computed
with `pad = 2` extra pixels when up-sampling), for every `m ≥ 0` and `u ≥ 2`. -/
theorem upsampled_mesh_inside (m : Rat) (u : Int) (hm : 0 ≤ m) (hu : 2 ≤ u) :
    let side := 2 * Py.trunc (m + ((Gen.landscapePad (Gen.landscapeNeedUpsample u) : Int) : Rat)) + 1
    let r := Gen.buildMeshAxis m u side
    r.2.2.2 = 2 * Py.trunc (m * (u : Rat)) + 1 ∧ 0 ≤ r.2.1 ∧ r.2.2.1 ≤ ((side - 1 : Int) : Rat) := by
  have hneed : Gen.landscapeNeedUpsample u = true := by simp [Gen.landscapeNeedUpsample]; omega
  simp only [hneed, Gen.landscapePad, if_true, Gen.buildMeshAxis]
  have huR : (2 : Rat) ≤ (u : Rat) := by exact_mod_cast hu
  have hupos : (0 : Rat) < (u : Rat) := by linarith
  have hmu : 0 ≤ m * (u : Rat) := mul_nonneg hm hupos.le
  have hw0 := Py.trunc_nonneg_of_nonneg _ hmu
  have hw1 := Py.trunc_le_of_nonneg _ hmu
  have hp0 : (0 : Rat) ≤ m + ((2 : Int) : Rat) := by push_cast; linarith
  have hs0 := Py.trunc_nonneg_of_nonneg _ hp0
  have hs1 := Py.trunc_gt (m + ((2 : Int) : Rat))
  generalize hW : Py.trunc (m * (u : Rat)) = W at *
  generalize hS : Py.trunc (m + ((2 : Int) : Rat)) = S at *
  have hWu : ((W : Int) : Rat) / (u : Rat) ≤ m := by
    rw [div_le_iff₀ hupos]; exact hw1
  have hSm : m + 1 < (S : Rat) := by push_cast at hs1; linarith
  refine ⟨trivial, ?_, ?_⟩
  · push_cast; linarith
  · push_cast; linarith

/-- Without up-sampling the ZNCC/NCC landscape has side `2·int(m) + 1` (C05.pad_positive), the FSC
landscape `2·ceil(m) + 1` (C05.fsc_shape); the lazily constructed array declares exactly the shape of
the landscape computed on a zero image (`Gen.declaredLandscapeShapeFromModel`), which depends on the
model, the range and the up-sampling factor only. -/
theorem landscape_shape_no_upsample (m : Rat) (hm : 0 ≤ m) :
    Gen.landscapeNeedUpsample 1 = false ∧ Gen.landscapePad false = 0
    ∧ (2 * Gen.paddingWidth m - 1) - 2 * Gen.padWidthEff1 m (2 * Gen.paddingWidth m - 1) = 2 * Py.trunc m + 1 := by
  refine ⟨by decide, rfl, ?_⟩
  exact (C05.pad_positive m hm).2.1

/-- Batch loaders hand out their tasks in molecule order whatever the scheduler does with them. -/
theorem batch_tasks_in_molecule_order {δ : Type} (key : δ → Int) (r : List δ) :
    tasksAsCode key r = r.map some := C03.tasks_as_code_order key r

end C10
