import Mathlib.Data.List.Basic
import Mathlib.Tactic.Linarith
import AcryoVerif.Model.Loader
import AcryoVerif.Props.C12

/-!
# C03 — Row i of every result belongs to molecule i
-/
namespace C03
open Model Model.Tab

/-- Structure of task construction, keyword pairing, write-back, derived loaders and groups, as read
from the source. -/
theorem source_structure :
    Gen.batchTasksScatteredToMoleculeOrder = true ∧ Gen.groupByKeepsOrder = true
    ∧ Gen.mappingTasksZipRows = true ∧ Gen.dictIterrowsRowwise = true ∧ Gen.derivedLoadersDelegate = true
    ∧ Gen.batchReplacePrunesImages = true ∧ Gen.addTomogramFreshId = true ∧ Gen.groupDerivedAreLists = true
    ∧ Gen.groupIteratorPartitions = true := by decide

variable {δ : Type}

/-! ## scatter back to molecule order -/

theorem zip_pos_filter (p : δ → Bool) (off : Nat) (r : List δ) :
    (posFrom p off r).zip (r.filter p) = (indexedFrom off r).filter (fun q => p q.2) := by
  induction r generalizing off with
  | nil => rfl
  | cons x xs ih =>
    simp only [posFrom, indexedFrom, List.filter_cons]
    by_cases h : p x
    · simp [h, ih]
    · simp [h, ih]

theorem mem_indexedFrom (off : Nat) (r : List δ) (q : Nat × δ) :
    q ∈ indexedFrom off r ↔ ∃ j, ∃ h : j < r.length, q = (off + j, r[j]) := by
  induction r generalizing off with
  | nil => simp [indexedFrom]
  | cons x xs ih =>
    simp only [indexedFrom, List.mem_cons, ih, List.length_cons]
    constructor
    · rintro (h | ⟨j, hj, rfl⟩)
      · exact ⟨0, by omega, by simpa using h⟩
      · exact ⟨j + 1, by omega, by simp; omega⟩
    · rintro ⟨j, hj, rfl⟩
      cases j with
      | zero => left; simp
      | succ j => right; exact ⟨j, by omega, by simp; omega⟩

/-- every assignment writes the task of molecule `j` to position `j` -/
theorem assignments_sound (key : δ → Int) (r : List δ) (q : Nat × δ) (hq : q ∈ assignments key r) :
    ∃ h : q.1 < r.length, q.2 = r[q.1] := by
  simp only [assignments, List.mem_flatMap] at hq
  obtain ⟨k, _, hk⟩ := hq
  rw [zip_pos_filter] at hk
  obtain ⟨hm, _⟩ := List.mem_filter.mp hk
  obtain ⟨j, hj, rfl⟩ := (mem_indexedFrom 0 r q).mp hm
  exact ⟨by simpa using hj, by simp⟩

/-- every position receives an assignment -/
theorem assignments_complete (key : δ → Int) (r : List δ) (i : Nat) (hi : i < r.length) :
    (i, r[i]) ∈ assignments key r := by
  simp only [assignments, List.mem_flatMap]
  refine ⟨key r[i], (C12.mem_distinctKeys _ _).mpr (List.mem_map_of_mem (List.getElem_mem hi)), ?_⟩
  rw [zip_pos_filter]
  apply List.mem_filter.mpr
  exact ⟨(mem_indexedFrom 0 r _).mpr ⟨i, hi, by simp⟩, by simp⟩

/-- **Task order = molecule order** for every batch, whatever the order of image ids among the
molecules (contiguous, interleaved after sort/sample/replace, ...): slot `i` of the task list is the
task of molecule `i`. -/
theorem batch_task_order (key : δ → Int) (r : List δ) : batchTasks key r = r.map some := by
  apply List.ext_getElem
  · simp [batchTasks]
  · intro i h1 h2
    have hi : i < r.length := by simpa [batchTasks] using h1
    simp only [batchTasks, List.getElem_map, List.getElem_range]
    have hc := assignments_complete key r i hi
    cases hf : (assignments key r).find? (fun q => q.1 == i) with
    | none =>
      have := List.find?_eq_none.mp hf (i, r[i]) hc
      simp at this
    | some q =>
      have hq := List.mem_of_find?_eq_some hf
      have hp := List.find?_some hf
      obtain ⟨hlt, hv⟩ := assignments_sound key r q hq
      have hqi : q.1 = i := by simpa using hp
      subst hqi
      simp [hv]

/-- **The task list the source builds is in molecule order.** -/
theorem tasks_as_code_order (key : δ → Int) (r : List δ) : tasksAsCode key r = r.map some := by
  simp only [tasksAsCode, source_structure.1, if_true]
  exact batch_task_order key r

/-- The per-image concatenation (what the code did before the fix) is only a permutation of the
molecules; it coincides with molecule order exactly when the image ids are contiguous. -/
theorem concat_is_perm [DecidableEq δ] (key : δ → Int) (r : List δ) : (batchTasksConcat key r).Perm r := by
  have := (C12.groupRows_partition key r).2.2
  simpa [batchTasksConcat, List.flatMap] using this

/-! ## pairing of tasks with per-molecule keyword arguments and write-back -/

/-- `zip(tasks, dict_iterrows(kwargs))` pairs task `i` with row `i` of the keyword arguments. -/
theorem pairing (tasks : List δ) {ε : Type} (rows : List ε) (h : tasks.length = rows.length) (i : Nat)
    (hi : i < tasks.length) :
    (tasks.zip rows)[i]'(by simp [List.length_zip, h]; omega) = (tasks[i], rows[i]'(h ▸ hi)) := by
  simp

/-! ## derived loaders -/

/-- `replace(molecules=…)` keeps every image that a remaining molecule refers to. -/
theorem replace_keeps_referenced (images : List (Int × Nat)) (ids : List Int) (im : Int × Nat)
    (h1 : im ∈ images) (h2 : im.1 ∈ ids) : im ∈ pruneImages images ids := by
  simp only [pruneImages, List.mem_filter]
  exact ⟨h1, by simpa using h2⟩

theorem replace_drops_only_unreferenced (images : List (Int × Nat)) (ids : List Int) (im : Int × Nat)
    (h : im ∈ pruneImages images ids) : im ∈ images ∧ im.1 ∈ ids := by
  simp only [pruneImages, List.mem_filter] at h
  exact ⟨h.1, by simpa using h.2⟩

/-- An automatically allocated image id is never one that is already taken: the search
`len(images), len(images)+1, …` stops at the first free id (it can only run out of fuel if all of
`start … start+fuel-1` are taken, which `fuel > len(taken)` excludes). -/
theorem freshId_not_taken (taken : List Int) (fuel : Nat) (start : Int) :
    freshId taken fuel start ∉ taken ∨ (∀ j : Nat, j < fuel → (start + j) ∈ taken) := by
  induction fuel generalizing start with
  | zero => right; intro j hj; omega
  | succ n ih =>
    by_cases h : taken.contains start = true
    · have hm : start ∈ taken := by simpa using h
      have hf : freshId taken (n + 1) start = freshId taken n (start + 1) := by simp [freshId, hm]
      rw [hf]
      rcases ih (start + 1) with h1 | h2
      · left; exact h1
      · right
        intro j hj
        cases j with
        | zero => simpa using hm
        | succ j =>
          have h3 := h2 j (by omega)
          have e : start + 1 + (j : Int) = start + ((j + 1 : Nat) : Int) := by
            rw [Nat.cast_add, Nat.cast_one]; omega
          rw [e] at h3; exact h3
    · have hm : start ∉ taken := by simpa using h
      have hf : freshId taken (n + 1) start = start := by simp [freshId, hm]
      rw [hf]
      left; exact hm

end C03
