import AcryoVerif.Props.C15
import AcryoVerif.Model.Bin

/-!
# C15 — array-level refinement of `bin_image` along one axis

`Model.binList` is the executable list model of one axis of `bin_image` (slice to `b·(s // b)`, reshape to
blocks, sum); it is run against the real `bin_image` (numpy and dask, every chunking) by the K2 stream
`m:binaxis`. The theorems below say that, for **every** list and every `b ≥ 1`, the model meets the
property's own sentence — voxel `i` of the binned axis is the sum of the `b` voxels `b·i … b·i + b - 1` of
the original, there are `s // b` of them — and lift the composition / mass theorems of `C15` from abstract
voxel sequences to the executable lists, for every *history* of binnings.
-/
namespace C15
open Model

/-- the voxel sequence of a list (zero outside) -/
def seqOf (xs : List ℚ) : Nat → ℚ := fun t => xs.getD t 0

/-- A window of a list sums to the sum of its entries by index (entries past the end count as 0). -/
theorem sum_take_drop (xs : List ℚ) (s b : Nat) :
    ((xs.drop s).take b).sum = ∑ r : Fin b, seqOf xs (s + r) := by
  induction b with
  | zero => simp
  | succ b ih =>
    rw [List.take_add_one, List.sum_append, ih, Fin.sum_univ_castSucc]
    congr 1
    simp only [seqOf, List.getElem?_drop, Fin.val_last, List.getD_eq_getElem?_getD]
    cases xs[s + b]? <;> simp

theorem binList_length (b : Nat) (xs : List ℚ) : (binList b xs).length = xs.length / b := by
  simp [binList]

/-- **Specification of the executable model**: voxel `i < s // b` of the binned axis is the block sum
`Σ_{r<b} x[b·i + r]` (`binF` of `C15`), for every list and every bin size. -/
theorem binList_spec (b : Nat) (xs : List ℚ) (i : Nat) (hi : i < xs.length / b) :
    (binList b xs)[i]? = some (binF b (seqOf xs) i) := by
  simp only [binList, List.getElem?_map, List.getElem?_range hi, Option.map_some, sum_take_drop, binF]

theorem binList_seq (b : Nat) (xs : List ℚ) (i : Nat) (hi : i < xs.length / b) :
    seqOf (binList b xs) i = binF b (seqOf xs) i := by
  simp only [seqOf, List.getD_eq_getElem?_getD, binList_spec b xs i hi, Option.getD_some]

/-- No voxel beyond `s // b` exists, and every voxel used lies inside the original axis: the block of
the last binned voxel ends at `b·(s // b) ≤ s` (the incomplete remainder is dropped, never padded). -/
theorem binList_inside (b : Nat) (xs : List ℚ) (i r : Nat) (hi : i < xs.length / b) (hr : r < b) :
    b * i + r < xs.length := by
  have h1 : b * (i + 1) ≤ b * (xs.length / b) := Nat.mul_le_mul_left b hi
  have h2 : b * (xs.length / b) ≤ xs.length := Nat.mul_div_le _ _
  have h3 : b * (i + 1) = b * i + b := Nat.mul_succ b i
  omega

/-- `binning(1)` leaves the axis unchanged. -/
theorem binList_one (xs : List ℚ) : binList 1 xs = xs := by
  apply List.ext_getElem?
  intro i
  by_cases hi : i < xs.length
  · rw [binList_spec 1 xs i (by simpa using hi)]
    simp [binF, seqOf, List.getD_eq_getElem?_getD, List.getElem?_eq_getElem hi]
  · have h1 : (binList 1 xs).length ≤ i := by rw [binList_length]; simpa using hi
    rw [List.getElem?_eq_none h1, List.getElem?_eq_none (by omega)]

/-- **Binning by `a` and then by `b` is binning by `a·b`** — on the executable lists, every length
(also lengths that neither `a` nor `b` divides: the two remainders dropped in sequence are exactly the
remainder dropped at once). -/
theorem binList_binList (a b : Nat) (xs : List ℚ) :
    binList b (binList a xs) = binList (a * b) xs := by
  apply List.ext_getElem?
  intro i
  have hlen : (binList a xs).length / b = xs.length / (a * b) := by
    rw [binList_length, Nat.div_div_eq_div_mul]
  by_cases hi : i < xs.length / (a * b)
  · rw [binList_spec _ _ i (by rw [hlen]; exact hi), binList_spec _ _ i hi, ← bin_bin]
    congr 1
    unfold binF
    refine Finset.sum_congr rfl ?_
    intro r _
    apply binList_seq
    have hi' : i < xs.length / a / b := by rw [Nat.div_div_eq_div_mul]; exact hi
    have h1 : b * (i + 1) ≤ b * (xs.length / a / b) := Nat.mul_le_mul_left b hi'
    have h2 : b * (xs.length / a / b) ≤ xs.length / a := Nat.mul_div_le _ _
    have h3 : b * (i + 1) = b * i + b := Nat.mul_succ b i
    have := r.isLt
    omega
  · have h1 : (binList b (binList a xs)).length ≤ i := by
      rw [binList_length, hlen]; omega
    have h2 : (binList (a * b) xs).length ≤ i := by rw [binList_length]; omega
    rw [List.getElem?_eq_none h1, List.getElem?_eq_none h2]

/-- **Every history of binnings** `binning(b₁).binning(b₂)…binning(b_k)` of an axis equals one binning
by the product `b₁·b₂·…·b_k`. -/
theorem binHist_eq (bs : List Nat) (xs : List ℚ) : binHist bs xs = binList bs.prod xs := by
  unfold binHist
  induction bs generalizing xs with
  | nil => simp [binList_one]
  | cons b bs ih =>
    rw [List.foldl_cons, ih, binList_binList, List.prod_cons]

theorem sum_map_range (f : Nat → ℚ) (n : Nat) :
    ((List.range n).map f).sum = ∑ i ∈ Finset.range n, f i := by
  induction n with
  | zero => simp
  | succ n ih => rw [List.range_succ, List.map_append, List.sum_append, ih, Finset.sum_range_succ]; simp

theorem sum_take (xs : List ℚ) (m : Nat) : (xs.take m).sum = ∑ t ∈ Finset.range m, seqOf xs t := by
  have h := sum_take_drop xs 0 m
  simp only [List.drop_zero, Nat.zero_add] at h
  rw [h, Finset.sum_range]

/-- **Mass conservation on lists**: the binned axis sums to the sum of the kept voxels
`x[: b·(s // b)]`. -/
theorem binList_mass (b : Nat) (xs : List ℚ) :
    (binList b xs).sum = (xs.take (b * (xs.length / b))).sum := by
  rw [sum_take, ← bin_mass, binList, sum_map_range]
  refine Finset.sum_congr rfl ?_
  intro i _
  rw [sum_take_drop, binF]

/-- The list model and the regenerated kernel agree on the number of output voxels: `len(binList b xs)` is the
`npix` that `divmod(s, binsize)` of the source yields (`Gen.binAxis`, re-translated from `/repo` on every run). -/
theorem binList_length_kernel (b : Nat) (hb : 1 ≤ b) (xs : List ℚ) :
    ((binList b xs).length : Int) = (Gen.binAxis (xs.length : Int) (b : Int)).1 := by
  have h := (bin_axis (xs.length : Int) (b : Int) (by omega) (by omega)).1
  rw [h, binList_length]
  exact Int.natCast_ediv _ _

/-- Non-vacuity / worked instance: 7 voxels binned by 2 then 3 — one output voxel, the first six
voxels, the seventh dropped. -/
example : binHist [2, 3] [1, 2, 3, 4, 5, 6, 100] = [21] ∧ binList 6 [1, 2, 3, 4, 5, 6, 100] = [21] := by
  decide +kernel

end C15
