import AcryoVerif.Props.C03
import AcryoVerif.Model.Batch

/-!
# C03 — the image table of a `BatchLoader` under every history of public operations

`Model.Batch` is an executable state machine of `_images` / the `image` feature column under `add_tomogram`
(automatic or explicit id), `replace(molecules=subset)` / `filter` and `add_loader(<BatchLoader>)`; the K2
stream `m:imgtab` runs the same random histories on the real `BatchLoader`. The theorem: after **every**
history in which explicit ids are not re-used, looking a molecule's image id up in the table returns the
tomogram that molecule was registered with — no operation sequence makes two tomograms share an id or
leaves a molecule pointing at another tomogram's image.
-/
namespace C03
open Model

/-- ids are unique and every molecule's `(id, own tomogram)` is an entry of the table -/
def BInv (b : Batch) : Prop := b.keys.Nodup ∧ ∀ m ∈ b.mols, m ∈ b.images

/-- With `len(taken) + 1` candidates the search for a fresh id always succeeds (pigeonhole). -/
theorem freshId_fresh (taken : List Int) (start : Int) :
    freshId taken (taken.length + 1) start ∉ taken := by
  rcases freshId_not_taken taken (taken.length + 1) start with h | h
  · exact h
  · exfalso
    have hnd : ((List.range (taken.length + 1)).map fun j : Nat => start + (j : Int)).Nodup := by
      refine List.Pairwise.map _ ?_ List.nodup_range
      intro a b hab h
      apply hab
      omega
    have hsub : ((List.range (taken.length + 1)).map fun j : Nat => start + (j : Int)) ⊆ taken := by
      intro x hx
      simp only [List.mem_map, List.mem_range] at hx
      obtain ⟨j, hj, rfl⟩ := hx
      exact h j hj
    have := List.Nodup.length_le_of_subset hnd hsub
    simp at this

theorem dictSet_new (d : List (Int × Nat)) (k : Int) (v : Nat) (h : k ∉ d.map (·.1)) :
    dictSet d k v = d ++ [(k, v)] := by
  unfold dictSet
  have : d.any (·.1 == k) = false := by
    rw [List.any_eq_false]
    intro x hx hxk
    apply h
    have : x.1 = k := by simpa using hxk
    exact List.mem_map.mpr ⟨x, hx, this⟩
  simp [this]

/-- In a table with unique ids, looking up the id of an entry returns that entry's tomogram. -/
theorem dictGet_of_mem (d : List (Int × Nat)) (hnd : (d.map (·.1)).Nodup) (m : Int × Nat) (hm : m ∈ d) :
    dictGet d m.1 = some m.2 := by
  induction d with
  | nil => simp at hm
  | cons e d ih =>
    simp only [List.map_cons, List.nodup_cons] at hnd
    rcases List.mem_cons.mp hm with rfl | hm'
    · simp [dictGet]
    · have hne : e.1 ≠ m.1 := by
        intro he
        exact hnd.1 (he ▸ List.mem_map.mpr ⟨m, hm', rfl⟩)
      have : (e.1 == m.1) = false := by simpa using hne
      have ih' := ih hnd.2 hm'
      simp only [dictGet, List.find?_cons, this] at ih' ⊢
      exact ih'

theorem newId_fresh (b : Batch) (id? : Option Int) (hid : ∀ k, id? = some k → k ∉ b.keys) :
    b.newId id? ∉ b.keys := by
  cases id? with
  | none => exact freshId_fresh _ _
  | some k => exact hid k rfl

/-- `add_tomogram` keeps the invariant when the molecules belong to the image and an explicit id is new. -/
theorem addTomogram_inv (b : Batch) (id? : Option Int) (tag : Nat) (ghosts : List Nat) (hb : BInv b)
    (hg : ∀ g ∈ ghosts, g = tag) (hid : ∀ k, id? = some k → k ∉ b.keys) :
    BInv (b.addTomogram id? tag ghosts) := by
  have hk := newId_fresh b id? hid
  unfold Batch.addTomogram
  simp only
  rw [dictSet_new _ _ _ hk]
  refine ⟨?_, ?_⟩
  · simp only [Batch.keys, List.map_append, List.map_cons, List.map_nil]
    refine List.nodup_append.mpr ⟨hb.1, by simp, ?_⟩
    intro a ha c hc
    simp only [List.mem_singleton] at hc
    subst hc
    intro hac; subst hac
    exact hk ha
  · intro m hm
    rcases List.mem_append.mp hm with h | h
    · exact List.mem_append_left _ (hb.2 m h)
    · simp only [List.mem_map] at h
      obtain ⟨g, hgm, rfl⟩ := h
      rw [hg g hgm]
      exact List.mem_append_right _ (by simp)

/-- `filter` / `replace(molecules=subset)` keeps the invariant. -/
theorem filter_inv (b : Batch) (mask : List Bool) (hb : BInv b) : BInv (b.filter mask) := by
  unfold Batch.filter
  simp only
  refine ⟨?_, ?_⟩
  · simp only [Batch.keys, pruneImages]
    exact List.Nodup.sublist (List.Sublist.map _ List.filter_sublist) hb.1
  · intro m hm
    have hm0 : m ∈ b.mols := by
      simp only [List.mem_filterMap] at hm
      obtain ⟨p, hp, hpm⟩ := hm
      split at hpm
      · simp only [Option.some.injEq] at hpm; subst hpm; exact (List.of_mem_zip hp).1
      · simp at hpm
    simp only [pruneImages, List.mem_filter]
    refine ⟨hb.2 m hm0, ?_⟩
    simp only [List.contains_eq_mem, decide_eq_true_eq]
    exact List.mem_map.mpr ⟨m, hm, rfl⟩

theorem foldl_add_inv (other : Batch) (gs : List (Int × List (Int × Nat))) (b : Batch) (hb : BInv b)
    (hgs : ∀ g ∈ gs, ∀ x ∈ g.2, dictGet other.images g.1 = some x.2) :
    BInv (gs.foldl (fun acc g => acc.addTomogram none ((dictGet other.images g.1).getD 0) (g.2.map (·.2))) b) := by
  induction gs generalizing b with
  | nil => exact hb
  | cons g gs ih =>
    rw [List.foldl_cons]
    apply ih
    · apply addTomogram_inv _ _ _ _ hb
      · intro t ht
        simp only [List.mem_map] at ht
        obtain ⟨x, hx, rfl⟩ := ht
        rw [hgs g (by simp) x hx]; rfl
      · intro k hk; cases hk
    · intro g' hg'; exact hgs g' (by simp [hg'])

/-- `add_loader(other)` keeps the invariant when the added batch satisfies it. -/
theorem addBatch_inv (b other : Batch) (hb : BInv b) (ho : BInv other) : BInv (b.addBatch other) := by
  unfold Batch.addBatch
  apply foldl_add_inv other _ b hb
  intro g hg x hx
  have hkey := (C12.groupRows_partition (fun m : Int × Nat => m.1) other.mols).2.1 g hg x hx
  have hxm : x ∈ other.mols := by
    simp only [Tab.groupRows, List.mem_map] at hg
    obtain ⟨k, _, rfl⟩ := hg
    exact (List.mem_filter.mp hx).1
  have := dictGet_of_mem other.images ho.1 x (ho.2 x hxm)
  have hkey' : x.1 = g.1 := hkey
  rw [← hkey']; exact this

/-- an operation is admissible in a state: an explicit id must be new, a merged batch must itself be sound -/
def OpOk (b : Batch) : BatchOp → Prop
  | .add (some k) _ _ => k ∉ b.keys
  | .merge other => BInv other
  | _ => True

def ValidRun : Batch → List BatchOp → Prop
  | _, [] => True
  | b, op :: ops => OpOk b op ∧ ValidRun (b.step op) ops

theorem step_inv (b : Batch) (op : BatchOp) (hb : BInv b) (hok : OpOk b op) : BInv (b.step op) := by
  cases op with
  | add id? tag n =>
    apply addTomogram_inv _ _ _ _ hb
    · intro g hg; exact List.eq_of_mem_replicate hg
    · intro k hk; subst hk; exact hok
  | filter mask => exact filter_inv b mask hb
  | merge other => exact addBatch_inv b other hb hok
  | mergeSelf => exact addBatch_inv b b hb hb

theorem run_inv (b : Batch) (ops : List BatchOp) (hb : BInv b) (hv : ValidRun b ops) :
    BInv (b.runFrom ops) := by
  unfold Batch.runFrom
  induction ops generalizing b with
  | nil => exact hb
  | cons op ops ih => exact ih _ (step_inv b op hb hv.1) hv.2

theorem empty_inv : BInv Batch.empty := by
  constructor
  · exact List.nodup_nil
  · intro m hm; cases hm

/-- **Every history**: after any admissible sequence of `add_tomogram` / `filter` / `add_loader` from an
empty batch, the image found under each molecule's id is the tomogram the molecule was registered with,
and no two tomograms share an id. -/
theorem history_lookup_own (ops : List BatchOp) (hv : ValidRun Batch.empty ops) :
    let b := Batch.empty.runFrom ops
    b.keys.Nodup ∧ ∀ m ∈ b.mols, dictGet b.images m.1 = some m.2 := by
  intro b
  have h := run_inv Batch.empty ops empty_inv hv
  exact ⟨h.1, fun m hm => dictGet_of_mem _ h.1 m (h.2 m hm)⟩

/-- Non-vacuity and the scenario of the gapped table: three tomograms, the middle one filtered away
(ids {0, 2}), then a two-tomogram batch merged — the new ids are 3 and 4 (2 is taken), nothing is overwritten. -/
example :
    let ops := [BatchOp.add none 10 2, .add none 20 1, .add none 30 1, .filter [true, true, false, true],
                .merge (Batch.empty.runFrom [.add none 40 1, .add none 50 2])]
    (Batch.empty.runFrom ops).images = [(0, 10), (2, 30), (3, 40), (4, 50)]
    ∧ (Batch.empty.runFrom ops).mols = [(0, 10), (0, 10), (2, 30), (3, 40), (4, 50), (4, 50)] := by
  decide +kernel

/-! ## nothing is lost in a merge -/

theorem addTomogram_mols (b : Batch) (id? : Option Int) (tag : Nat) (ghosts : List Nat) :
    (b.addTomogram id? tag ghosts).mols.map (·.2) = b.mols.map (·.2) ++ ghosts := by
  simp [Batch.addTomogram, Function.comp_def]

theorem foldl_add_mols (other : Batch) (gs : List (Int × List (Int × Nat))) (b : Batch) :
    (gs.foldl (fun acc g => acc.addTomogram none ((dictGet other.images g.1).getD 0) (g.2.map (·.2))) b).mols.map (·.2)
      = b.mols.map (·.2) ++ ((gs.map (·.2)).flatten.map (·.2)) := by
  induction gs generalizing b with
  | nil => simp
  | cons g gs ih =>
    rw [List.foldl_cons, ih, addTomogram_mols]
    simp [List.append_assoc]

/-- **`add_loader` neither loses nor duplicates a molecule**: the molecules of the merged batch are those of the
receiver, in their order, followed by a permutation of the added batch's molecules (grouped by image). -/
theorem addBatch_mols (b other : Batch) :
    ∃ l, (b.addBatch other).mols.map (·.2) = b.mols.map (·.2) ++ l ∧ l.Perm (other.mols.map (·.2)) := by
  refine ⟨((Tab.groupRows (fun m : Int × Nat => m.1) other.mols).map (·.2)).flatten.map (·.2), ?_, ?_⟩
  · exact foldl_add_mols other _ b
  · exact ((C12.groupRows_partition (fun m : Int × Nat => m.1) other.mols).2.2).map _

/-- `filter` keeps exactly the molecules the mask selects, in order (a sublist). -/
theorem filter_mols_sublist (b : Batch) (mask : List Bool) : (b.filter mask).mols.Sublist b.mols := by
  unfold Batch.filter
  simp only
  induction b.mols generalizing mask with
  | nil => simp
  | cons m ms ih =>
    cases mask with
    | nil => simp
    | cons c cs =>
      cases c
      · simpa using (ih cs).trans (List.sublist_cons_self m ms)
      · simpa using (ih cs)

end C03
