import AcryoVerif.Model.Frame

/-!
# C13 — Saved molecules reload unchanged
-/
namespace C13
open Model Py

theorem source_structure :
    Gen.columnLayout = true ∧ Gen.fromDataFrameSelectsByName = true ∧ Gen.dupColumnsRejected = true := by
  decide

/-- **Format dispatch**: `to_file` and `from_file` choose the same format for every suffix, and it is
Parquet exactly for `.pq` and `.parquet` (CSV otherwise). -/
theorem dispatch (suffix : String) :
    Gen.toFileIsParquet suffix = Gen.fromFileIsParquet suffix
      ∧ (Gen.toFileIsParquet suffix = true ↔ (suffix = ".pq" ∨ suffix = ".parquet")) := by
  refine ⟨rfl, ?_⟩
  simp [Gen.toFileIsParquet]

variable {χ : Type}

/-- **Layout**: the written frame has the columns `z, y, x, zvec, yvec, xvec` followed by the
features in order. -/
theorem layout (coords : List (List χ)) (feats df : Frame χ) (hc : coords.length = 6)
    (h : toFrame coords feats = .ok df) :
    df.map (·.1) = csvColumns ++ feats.map (·.1) := by
  unfold toFrame at h
  split at h
  · exact absurd h (by simp [throw, throwThe, MonadExceptOf.throw])
  · simp only [pure, Except.pure, Except.ok.injEq] at h
    subst h
    simp only [List.map_append]
    congr 1
    match coords, hc with
    | [a, b, c, d, e, f], _ => rfl

/-- **Colliding names are rejected** rather than silently shadowing a coordinate column. -/
theorem collision_rejected (coords : List (List χ)) (feats : Frame χ)
    (h : ∃ f ∈ feats, f.1 ∈ csvColumns) : toFrame coords feats = .error .value := by
  unfold toFrame
  have : feats.any (fun f => csvColumns.contains f.1) = true := by
    obtain ⟨f, hf, hm⟩ := h
    exact List.any_eq_true.mpr ⟨f, hf, by simpa using hm⟩
  rw [if_pos this]; rfl

theorem filter_feats (feats : Frame χ) (h : ∀ f ∈ feats, f.1 ∉ csvColumns) :
    (feats.filter fun c => !csvColumns.contains c.1) = feats := by
  apply List.filter_eq_self.mpr
  intro f hf
  simpa using h f hf

/-- **Data-frame round trip**: reading back what was written returns the same six coordinate columns
and the same feature columns, for any number of rows (including none) and any features (including
none), as long as no feature name collides with a coordinate name. -/
theorem df_roundtrip (c0 c1 c2 c3 c4 c5 : List χ) (feats : Frame χ)
    (h : ∀ f ∈ feats, f.1 ∉ csvColumns) :
    (do let df ← toFrame [c0, c1, c2, c3, c4, c5] feats; fromFrame df)
      = .ok ([c0, c1, c2, c3, c4, c5], feats) := by
  have hany : feats.any (fun f => csvColumns.contains f.1) = false := by
    apply Bool.eq_false_iff.mpr
    intro hh
    obtain ⟨f, hf, hm⟩ := List.any_eq_true.mp hh
    exact h f hf (by simpa using hm)
  simp only [toFrame, hany, bind, Except.bind, pure, Except.pure, Bool.false_eq_true, if_false]
  simp only [fromFrame, csvColumns, List.zip_cons_cons, List.zip_nil_right, List.cons_append, List.nil_append,
    List.mapM_cons, List.mapM_nil, lookupCol, bind, Except.bind, pure, Except.pure]
  simp only [List.filter_cons]
  simp (config := { decide := true }) only [List.contains_cons, List.contains_nil, if_true, if_false,
    Bool.not_true, Bool.false_eq_true, String.reduceEq, beq_self_eq_true, Bool.true_or, Bool.or_true]
  have := filter_feats feats h
  simp only [csvColumns, List.contains_cons, List.contains_nil] at this
  rw [this]

end C13
