import AcryoVerif.Model.Frame
import AcryoVerif.Lemmas.PyLemmas
import Mathlib.Tactic.Linarith
import Mathlib.Tactic.Positivity
import Mathlib.Tactic.FieldSimp
import Mathlib.Algebra.Order.Field.Basic
import Mathlib.Algebra.Order.Ring.Abs

/-!
# C13 — Saved molecules reload unchanged
-/
namespace C13
open Model Py

theorem source_structure :
    Gen.columnLayout = true ∧ Gen.fromDataFrameSelectsByName = true ∧ Gen.dupColumnsRejected = true
    ∧ Gen.writersPassThrough = true := by
  decide

/-- **Format dispatch**: `to_file` and `from_file` choose the same format for every suffix, and it is
Parquet exactly for `.pq` and `.parquet` (CSV otherwise). -/
theorem dispatch (suffix : String) :
    Gen.toFileIsParquet suffix = Gen.fromFileIsParquet suffix
      ∧ (Gen.toFileIsParquet suffix = true ↔ (suffix = ".pq" ∨ suffix = ".parquet")) := by
  refine ⟨rfl, ?_⟩
  simp [Gen.toFileIsParquet]

variable {χ : Type}

/-- **Layout**: the written frame has the columns `z, y, x, zvec, yvec, xvec` followed by the
features in order. -/
theorem layout (coords : List (List χ)) (feats df : Frame χ) (hc : coords.length = 6)
    (h : toFrame coords feats = .ok df) :
    df.map (·.1) = csvColumns ++ feats.map (·.1) := by
  unfold toFrame at h
  split at h
  · exact absurd h (by simp [throw, throwThe, MonadExceptOf.throw])
  · simp only [pure, Except.pure, Except.ok.injEq] at h
    subst h
    simp only [List.map_append]
    congr 1
    match coords, hc with
    | [a, b, c, d, e, f], _ => rfl

/-- **Colliding names are rejected** rather than silently shadowing a coordinate column. -/
theorem collision_rejected (coords : List (List χ)) (feats : Frame χ)
    (h : ∃ f ∈ feats, f.1 ∈ csvColumns) : toFrame coords feats = .error .value := by
  unfold toFrame
  have : feats.any (fun f => csvColumns.contains f.1) = true := by
    obtain ⟨f, hf, hm⟩ := h
    exact List.any_eq_true.mpr ⟨f, hf, by simpa using hm⟩
  rw [if_pos this]; rfl

theorem filter_feats (feats : Frame χ) (h : ∀ f ∈ feats, f.1 ∉ csvColumns) :
    (feats.filter fun c => !csvColumns.contains c.1) = feats := by
  apply List.filter_eq_self.mpr
  intro f hf
  simpa using h f hf

/-- **Data-frame round trip**: reading back what was written returns the same six coordinate columns
and the same feature columns, for any number of rows (including none) and any features (including
none), as long as no feature name collides with a coordinate name. -/
theorem df_roundtrip (c0 c1 c2 c3 c4 c5 : List χ) (feats : Frame χ)
    (h : ∀ f ∈ feats, f.1 ∉ csvColumns) :
    (do let df ← toFrame [c0, c1, c2, c3, c4, c5] feats; fromFrame df)
      = .ok ([c0, c1, c2, c3, c4, c5], feats) := by
  have hany : feats.any (fun f => csvColumns.contains f.1) = false := by
    apply Bool.eq_false_iff.mpr
    intro hh
    obtain ⟨f, hf, hm⟩ := List.any_eq_true.mp hh
    exact h f hf (by simpa using hm)
  simp only [toFrame, hany, bind, Except.bind, pure, Except.pure, Bool.false_eq_true, if_false]
  simp only [fromFrame, csvColumns, List.zip_cons_cons, List.zip_nil_right, List.cons_append, List.nil_append,
    List.mapM_cons, List.mapM_nil, lookupCol, bind, Except.bind, pure, Except.pure]
  simp only [List.filter_cons]
  simp (config := { decide := true }) only [List.contains_cons, List.contains_nil, if_true, if_false,
    Bool.not_true, Bool.false_eq_true, String.reduceEq, beq_self_eq_true, Bool.true_or, Bool.or_true]
  have := filter_feats feats h
  simp only [csvColumns, List.contains_cons, List.contains_nil] at this
  rw [this]

/-! ## CSV: the requested decimal precision -/

/-- a value written with `p` decimals (any writer that picks a nearest decimal; modelled with
round-half-even) -/
def roundDec (p : Nat) (x : ℚ) : ℚ := ((Py.round (x * 10 ^ p) : Int) : ℚ) / 10 ^ p

theorem round_abs_le (q : ℚ) : |((Py.round q : Int) : ℚ) - q| ≤ 1 / 2 := by
  unfold Py.round
  have h1 := Py.floor_le (q + 1 / 2)
  have h2 := Py.lt_floor_add_one (q + 1 / 2)
  simp only [Py.floor] at h1 h2
  rw [abs_le]
  simp only
  by_cases h : (((q + 1 / 2).floor : Int) : ℚ) = q + 1 / 2 ∧ (q + 1 / 2).floor % 2 ≠ 0
  · rw [if_pos h]
    push_cast
    constructor <;> linarith [h.1]
  · rw [if_neg h]
    constructor <;> linarith

/-- **CSV precision**: a number written with `float_precision = p` and read back differs from the
original by at most half a unit of the last written decimal — for every `p` (the writers pass the
requested `p` to polars unchanged: `writersPassThrough`). -/
theorem csv_precision (p : Nat) (x : ℚ) : |roundDec p x - x| ≤ 1 / (2 * 10 ^ p) := by
  unfold roundDec
  have hp : (0 : ℚ) < 10 ^ p := by positivity
  have h := round_abs_le (x * 10 ^ p)
  have e : ((Py.round (x * 10 ^ p) : Int) : ℚ) / 10 ^ p - x
      = (((Py.round (x * 10 ^ p) : Int) : ℚ) - x * 10 ^ p) / 10 ^ p := by
    field_simp
  rw [e, abs_div, abs_of_pos hp, div_le_div_iff₀ hp (by positivity)]
  calc |((Py.round (x * 10 ^ p) : Int) : ℚ) - x * 10 ^ p| * (2 * 10 ^ p)
      ≤ 1 / 2 * (2 * 10 ^ p) := mul_le_mul_of_nonneg_right h (by positivity)
    _ = 1 * 10 ^ p := by
        have : (1 : ℚ) / 2 * (2 * 10 ^ p) = 10 ^ p := by field_simp
        rw [this, one_mul]

/-- values that already have at most `p` decimals survive exactly -/
theorem csv_exact (p : Nat) (k : Int) : roundDec p ((k : ℚ) / 10 ^ p) = (k : ℚ) / 10 ^ p := by
  unfold roundDec
  have hp : (10 : ℚ) ^ p ≠ 0 := by positivity
  have : (k : ℚ) / 10 ^ p * 10 ^ p = (k : ℚ) := by field_simp
  rw [this]
  congr 2
  unfold Py.round
  have hf : ((k : ℚ) + 1 / 2).floor = k := by
    have := Py.floor_eq_of ((k : ℚ) + 1 / 2) k (by linarith) (by linarith)
    simpa [Py.floor] using this
  simp only [hf]
  rw [if_neg]
  rintro ⟨h, _⟩
  linarith

end C13
