import AcryoVerif.Lemmas.PyLemmas
import AcryoVerif.Model.Lowpass

/-!
# C16 — Low-pass filtering is a real, linear, zero-phase Butterworth filter
-/
namespace C16
open Py Gen Model

/-! ## the two copies are the same function -/

theorem copies_agree :
    bwRangeUtils = bwRangeBackend ∧ bwUsesIfftshiftUtils = bwUsesIfftshiftBackend
    ∧ bwAxisValueUtils = bwAxisValueBackend ∧ bwLimitUtils = bwLimitBackend
    ∧ bwWeightUtils = bwWeightBackend
    ∧ lpGuardUtils_lp = lpGuardBackend_lp ∧ lpGuardUtils_lp_ft = lpGuardBackend_lp_ft
    ∧ lpGuardUtils_lp = lpGuardUtils_lp_ft
    ∧ lpIrfftnHasShapeUtils = lpIrfftnHasShapeBackend := by
  refine ⟨rfl, rfl, rfl, rfl, rfl, rfl, rfl, rfl, rfl⟩

theorem models_agree : bwUtils = bwBackend := rfl

/-- normal form of the regenerated weight formula (`1 / (q2**order + 1)` is the same function) -/
theorem bw_nf (q2 : Rat) (order : Int) : bwWeightUtils q2 order = 1 / (1 + q2 ^ order.toNat) := by
  simp only [bwWeightUtils] <;> first | rfl | (congr 1; grind)

/-! ## the frequency grid -/

/-- The per-axis vector has exactly `d` entries. -/
theorem axis_len (d : Int) (hd : 1 ≤ d) : bwUtils.axisLen d = d := by
  simp only [BwKernels.axisLen, bwUtils, bwRangeUtils]; omega

/-- **Grid theorem**: entry `i` of the per-axis vector is `(fftfreq(d)[i] / cutoff)²`, i.e. the
FFT-ordered integer frequency `freqIdx d i` divided by `d · cutoff`, squared — for every length
`d ≥ 1`, odd or even. -/
theorem axis_grid (d i : Int) (cutoff : Rat) (hd : 1 ≤ d) (hi0 : 0 ≤ i) (hi : i < d) :
    bwUtils.axisSq d cutoff i = (((freqIdx d i : Int) : Rat) / ((d : Rat) * cutoff)) ^ 2 := by
  simp only [BwKernels.axisSq, bwUtils, bwRangeUtils, bwUsesIfftshiftUtils, bwAxisValueUtils, if_true]
  have hn : (d - 1) / 2 + 1 - -(d - 1) / 2 = d := by omega
  rw [hn]
  have hidx : -(d - 1) / 2 + (i + d / 2) % d = freqIdx d i := by
    unfold freqIdx
    by_cases h : i + d / 2 < d
    · rw [Int.emod_eq_of_lt (by omega) h]; split <;> omega
    · have : (i + d / 2) % d = i + d / 2 - d := by
        rw [← Int.sub_emod_right]; exact Int.emod_eq_of_lt (by omega) (by omega)
      rw [this]; split <;> omega
  rw [hidx]

/-- **Gain**: the weight at a bin is `1 / (1 + (|f|² / cutoff²)^order)` with `f` the physical
frequency vector of the bin in cycles per pixel. -/
theorem gain (d i : Int × Int × Int) (cutoff : Rat) (order : Int)
    (hd : 1 ≤ d.1 ∧ 1 ≤ d.2.1 ∧ 1 ≤ d.2.2)
    (hi : (0 ≤ i.1 ∧ i.1 < d.1) ∧ (0 ≤ i.2.1 ∧ i.2.1 < d.2.1) ∧ (0 ≤ i.2.2 ∧ i.2.2 < d.2.2)) :
    bwUtils.weightAt d cutoff order i =
      1 / (1 + ((((freqIdx d.1 i.1 : Int) : Rat) / ((d.1 : Rat) * cutoff)) ^ 2
              + (((freqIdx d.2.1 i.2.1 : Int) : Rat) / ((d.2.1 : Rat) * cutoff)) ^ 2
              + (((freqIdx d.2.2 i.2.2 : Int) : Rat) / ((d.2.2 : Rat) * cutoff)) ^ 2) ^ order.toNat) := by
  obtain ⟨⟨a1, a2⟩, ⟨b1, b2⟩, ⟨c1, c2⟩⟩ := hi
  unfold BwKernels.weightAt
  rw [axis_grid _ _ _ hd.1 a1 a2, axis_grid _ _ _ hd.2.1 b1 b2, axis_grid _ _ _ hd.2.2 c1 c2]
  exact bw_nf _ _

/-- **Mean preserved**: the weight of zero frequency is exactly 1 (for `order ≥ 1`). -/
theorem dc_weight (d : Int × Int × Int) (cutoff : Rat) (order : Int)
    (hd : 1 ≤ d.1 ∧ 1 ≤ d.2.1 ∧ 1 ≤ d.2.2) (ho : 1 ≤ order) :
    bwUtils.weightAt d cutoff order (0, 0, 0) = 1 := by
  have h1 : (0 : Int) < d.1 := by omega
  have h2 : (0 : Int) < d.2.1 := by omega
  have h3 : (0 : Int) < d.2.2 := by omega
  rw [gain d (0, 0, 0) cutoff order hd ⟨⟨Int.le_refl 0, h1⟩, ⟨Int.le_refl 0, h2⟩, ⟨Int.le_refl 0, h3⟩⟩]
  simp only [freqIdx_zero _ hd.1, freqIdx_zero _ hd.2.1, freqIdx_zero _ hd.2.2]
  obtain ⟨m, hm⟩ : ∃ m, order.toNat = m + 1 := ⟨order.toNat - 1, by omega⟩
  rw [hm, Rat.pow_succ]
  have hz : ((0 : Int) : Rat) / ((d.1 : Rat) * cutoff) = 0 := by simp [Rat.div_def, Rat.zero_mul]
  have hz2 : ((0 : Int) : Rat) / ((d.2.1 : Rat) * cutoff) = 0 := by simp [Rat.div_def, Rat.zero_mul]
  have hz3 : ((0 : Int) : Rat) / ((d.2.2 : Rat) * cutoff) = 0 := by simp [Rat.div_def, Rat.zero_mul]
  rw [hz, hz2, hz3]
  have h0 : ((0 : Rat) ^ 2 + 0 ^ 2 + 0 ^ 2) = 0 := by
    rw [Rat.pow_succ, Rat.mul_zero]; grind
  rw [h0, Rat.mul_zero, Rat.add_zero, Rat.div_def, Rat.one_mul]
  exact Rat.inv_eq_of_mul_eq_one (by simp)
where
  freqIdx_zero (n : Int) (hn : 1 ≤ n) : freqIdx n 0 = 0 := by
    unfold freqIdx; split <;> omega

/-- **Zero phase / real output**: the weight is symmetric under `k → -k` at every bin (including
the Nyquist planes), so filtering a real image gives a real image. -/
theorem hermitian (d i : Int) (cutoff : Rat) (hd : 1 ≤ d) (hi0 : 0 ≤ i) (hi : i < d) :
    bwUtils.axisSq d cutoff ((d - i) % d) = bwUtils.axisSq d cutoff i := by
  have hm0 : 0 ≤ (d - i) % d := Int.emod_nonneg _ (by omega)
  have hm1 : (d - i) % d < d := Int.emod_lt_of_pos _ (by omega)
  rw [axis_grid _ _ _ hd hm0 hm1, axis_grid _ _ _ hd hi0 hi]
  have hf : freqIdx d ((d - i) % d) = - freqIdx d i ∨ freqIdx d ((d - i) % d) = freqIdx d i := by
    unfold freqIdx
    by_cases h0 : i = 0
    · subst h0; simp
    · have : (d - i) % d = d - i := Int.emod_eq_of_lt (by omega) (by omega)
      rw [this]
      by_cases hny : 2 * i = d
      · right; split <;> split <;> omega
      · left; split <;> split <;> omega
  rcases hf with h | h
  · rw [h]; simp only [Rat.intCast_neg, Rat.div_def]; grind
  · rw [h]

/-- **Half spectrum**: `real=True` keeps the first `d/2 + 1` entries of the last axis — exactly
the `rfftn` half spectrum, with the same weights as the full grid. -/
theorem half_limit (d : Int) : bwLimitUtils d = rfftLen d := rfl

/-- **Shape preserved** for every last-axis length, odd or even. -/
theorem shape_preserved (d : Int) (hd : 1 ≤ d) : bwUtils.outLastLen d = d := by
  simp only [BwKernels.outLastLen, bwUtils, lpIrfftnHasShapeUtils, if_true]

/-- **Identity guard**: the filter is skipped exactly when the cutoff is non-positive or at least
half of `sqrtNdim` (the float `np.sqrt(img.ndim)`, the Nyquist diagonal). -/
theorem identity_guard (cutoff s : Rat) :
    lpGuardUtils_lp cutoff s = true ↔ (cutoff ≤ 0 ∨ s / 2 ≤ cutoff) := by
  simp only [lpGuardUtils_lp, decide_eq_true_eq]
  grind

/-- The weight lies in `(0, 1]` (so the filter never amplifies), for `cutoff ≠ 0`. -/
theorem weight_range (q2 : Rat) (order : Int) (hq : 0 ≤ q2) :
    0 < bwWeightUtils q2 order ∧ bwWeightUtils q2 order ≤ 1 := by
  rw [bw_nf]
  have hp : 0 ≤ q2 ^ order.toNat := Rat.pow_nonneg hq
  have hpos : (0 : Rat) < 1 + q2 ^ order.toNat := by grind
  constructor
  · rw [Rat.div_def, Rat.one_mul]; exact Rat.inv_pos.mpr hpos
  · rw [Rat.div_def, Rat.one_mul]
    have : (1 + q2 ^ order.toNat)⁻¹ * (1 + q2 ^ order.toNat) = 1 := Rat.inv_mul_cancel _ (by grind)
    have h1 : (1 + q2 ^ order.toNat)⁻¹ * 1 ≤ (1 + q2 ^ order.toNat)⁻¹ * (1 + q2 ^ order.toNat) :=
      Rat.mul_le_mul_of_nonneg_left (by grind) (Rat.le_of_lt (Rat.inv_pos.mpr hpos))
    grind

/-! ## the cached weight -/

/-- `nd_butterworth_weight` is `lru_cache`d; none of its callers writes into the array it returns
(no augmented assignment, `out=` or indexed store on the cached value). -/
theorem cache_not_mutated : Gen.butterworthCacheNotMutated = true := by decide

/-- One call of a memoised function: a hit returns the stored value, a miss stores `f k` and evicts
down to `maxsize` entries. -/
def memoCall {κ ν : Type} [DecidableEq κ] (f : κ → ν) (maxsize : Nat) (tbl : List (κ × ν)) (k : κ) :
    List (κ × ν) × ν :=
  match tbl.lookup k with
  | some v => ((k, v) :: tbl.filter (fun p => p.1 ≠ k), v)
  | none => (((k, f k) :: tbl).take maxsize, f k)

def MemoInv {κ ν : Type} (f : κ → ν) (tbl : List (κ × ν)) : Prop := ∀ p ∈ tbl, p.2 = f p.1

theorem memoCall_spec {κ ν : Type} [DecidableEq κ] (f : κ → ν) (maxsize : Nat) (tbl : List (κ × ν))
    (k : κ) (h : MemoInv f tbl) :
    (memoCall f maxsize tbl k).2 = f k ∧ MemoInv f (memoCall f maxsize tbl k).1 := by
  unfold memoCall
  split
  · rename_i v hv
    have hm : (k, v) ∈ tbl := by
      have := List.lookup_eq_some_iff.mp hv
      obtain ⟨l1, l2, rfl, _⟩ := this
      simp
    have hv' : v = f k := h _ hm
    refine ⟨hv', ?_⟩
    intro p hp
    rcases List.mem_cons.mp hp with rfl | hp
    · exact hv'
    · exact h p (List.mem_filter.mp hp).1
  · refine ⟨rfl, ?_⟩
    intro p hp
    have hp' := List.mem_of_mem_take hp
    rcases List.mem_cons.mp hp' with rfl | hp'
    · rfl
    · exact h p hp'

/-- **Every history**: whatever calls (other shapes, cut-offs, high-pass uses) came before, a call
returns the weight `f k` itself, provided the stored arrays are never modified (`cache_not_mutated`). -/
theorem memo_history {κ ν : Type} [DecidableEq κ] (f : κ → ν) (maxsize : Nat) (hist : List κ) (k : κ) :
    (memoCall f maxsize (hist.foldl (fun t q => (memoCall f maxsize t q).1) []) k).2 = f k := by
  have hinv : ∀ (t : List (κ × ν)), MemoInv f t →
      MemoInv f (hist.foldl (fun t q => (memoCall f maxsize t q).1) t) := by
    induction hist with
    | nil => intro t ht; simpa using ht
    | cons q qs ih =>
      intro t ht
      simp only [List.foldl_cons]
      exact ih _ (memoCall_spec f maxsize t q ht).2
  exact (memoCall_spec f maxsize _ k (hinv [] (by intro p hp; cases hp))).1

end C16
