import AcryoVerif.Lemmas.PyLemmas
import AcryoVerif.Model.Wedge

/-!
# C08 — Missing-wedge masks follow the tilt geometry
-/
namespace C08
open Py Gen Model

/-! ## the FFT-ordered integer frequency grid -/

theorem grid_general (off : Int) (sh : Bool) (n i : Int) (hn : 1 ≤ n) (hi0 : 0 ≤ i) (hi : i < n)
    (hoff : (sh = true ∧ off = (n + 1) / 2 ∧ n % 2 = 0) ∨ (sh = false ∧ off = n / 2)) :
    gridIdx off sh n i = freqIdx n i := by
  unfold gridIdx freqIdx
  rcases hoff with ⟨h1, h2, h3⟩ | ⟨h1, h2⟩
  · subst h1; simp only [if_true]
    by_cases h : i < n / 2
    · have : (i - n / 2) % n = i - n / 2 + n := by
        rw [← Int.add_emod_right]; exact Int.emod_eq_of_lt (by omega) (by omega)
      rw [this]; split <;> omega
    · have : (i - n / 2) % n = i - n / 2 := Int.emod_eq_of_lt (by omega) (by omega)
      rw [this]; split <;> omega
  · subst h1; simp only [Bool.false_eq_true, if_false]
    by_cases h : i + n / 2 < n
    · have : (i + n / 2) % n = i + n / 2 := Int.emod_eq_of_lt (by omega) (by omega)
      rw [this]; split <;> omega
    · have : (i + n / 2) % n = i + n / 2 - n := by
        rw [← Int.sub_emod_right]; exact Int.emod_eq_of_lt (by omega) (by omega)
      rw [this]; split <;> omega

/-- **Grid theorem** for the three copies of `get_indices`: position `i` of the index grid holds
the FFT-ordered integer frequency `fftfreq(n)·n`, for every box length `n ≥ 1`, odd or even. -/
theorem grid_tilt (n i : Int) (hn : 1 ≤ n) (hi0 : 0 ≤ i) (hi : i < n) :
    gridIdx (indicesOffsetTilt n) indicesUsesFftshiftTilt n i = freqIdx n i := by
  exact grid_general _ _ n i hn hi0 hi (Or.inr ⟨rfl, rfl⟩)

theorem grid_backend (n i : Int) (hn : 1 ≤ n) (hi0 : 0 ≤ i) (hi : i < n) :
    gridIdx (indicesOffsetBackend n) indicesUsesFftshiftBackend n i = freqIdx n i := by
  exact grid_general _ _ n i hn hi0 hi (Or.inr ⟨rfl, rfl⟩)

theorem grid_utils (n i : Int) (hn : 1 ≤ n) (hi0 : 0 ≤ i) (hi : i < n) :
    gridIdx (indicesOffsetUtils n) indicesUsesFftshiftUtils n i = freqIdx n i := by
  exact grid_general _ _ n i hn hi0 hi (Or.inr ⟨rfl, rfl⟩)

/-! ## normals, rotation and box shape -/

/-- `(Rᵀ n / N) · idx = n · R (idx / N)` for every matrix `R`, normal `n`, non-zero shape `N`. -/
theorem effNormal_dot (R : M3) (N n v : V3) (hz : N.z ≠ 0) (hy : N.y ≠ 0) (hx : N.x ≠ 0) :
    (effNormal false true R N n).dot v = n.dot (R.apply (v.div N)) := by
  simp only [effNormal, V3.dot, V3.div, M3.apply, M3.transpose, Bool.false_eq_true, if_false, if_true]
  simp only [Rat.div_def]
  grind

theorem intCast_ne_zero_of_pos (n : Int) (h : 1 ≤ n) : ((n : Int) : Rat) ≠ 0 := by
  have : (0 : Rat) < ((n : Int) : Rat) := by exact_mod_cast (by omega : (0 : Int) < n)
  grind

/-- Generic form: with "rotate, then divide by the shape" and the sign-product predicate, a bin
whose index vector is the FFT-ordered integer frequency is kept iff the specification keeps it. -/
theorem maskBin_spec (R : M3) (N i : Int × Int × Int) (n0 n1 v : V3)
    (hN : 1 ≤ N.1 ∧ 1 ≤ N.2.1 ∧ 1 ≤ N.2.2)
    (hv : v = ⟨(freqIdx N.1 i.1 : Int), (freqIdx N.2.1 i.2.1 : Int), (freqIdx N.2.2 i.2.2 : Int)⟩) :
    maskBin (fun a b => decide (a * b ≤ 0)) false true R (shapeVec N) n0 n1 v = specBin R N n0 n1 i := by
  have e1 := intCast_ne_zero_of_pos _ hN.1
  have e2 := intCast_ne_zero_of_pos _ hN.2.1
  have e3 := intCast_ne_zero_of_pos _ hN.2.2
  have hd : v.div (shapeVec N) = physFreq N i := by
    subst hv; rfl
  unfold maskBin specBin
  rw [effNormal_dot R (shapeVec N) n0 v e1 e2 e3, effNormal_dot R (shapeVec N) n1 v e1 e2 e3, hd]

/-- **Mask = geometry** (tilt models): bin `i` is kept iff its physical frequency vector
(FFT-ordered index / box length), mapped into the tomogram frame by the orientation `R`, lies
between the planes with normals `n0`, `n1` — for every box shape (odd, even, non-cubic), every
matrix `R` and every pair of normals. -/
theorem mask_exact_tilt (R : M3) (N i : Int × Int × Int) (n0 n1 : V3)
    (hN : 1 ≤ N.1 ∧ 1 ≤ N.2.1 ∧ 1 ≤ N.2.2)
    (hi : (0 ≤ i.1 ∧ i.1 < N.1) ∧ (0 ≤ i.2.1 ∧ i.2.1 < N.2.1) ∧ (0 ≤ i.2.2 ∧ i.2.2 < N.2.2)) :
    maskTilt R N n0 n1 i = specBin R N n0 n1 i := by
  obtain ⟨⟨a1, a2⟩, ⟨b1, b2⟩, ⟨c1, c2⟩⟩ := hi
  refine maskBin_spec R N i n0 n1 _ hN ?_
  unfold idxVec
  rw [grid_tilt _ _ hN.1 a1 a2, grid_tilt _ _ hN.2.1 b1 b2, grid_tilt _ _ hN.2.2 c1 c2]

theorem mask_exact_backend (R : M3) (N i : Int × Int × Int) (n0 n1 : V3)
    (hN : 1 ≤ N.1 ∧ 1 ≤ N.2.1 ∧ 1 ≤ N.2.2)
    (hi : (0 ≤ i.1 ∧ i.1 < N.1) ∧ (0 ≤ i.2.1 ∧ i.2.1 < N.2.1) ∧ (0 ≤ i.2.2 ∧ i.2.2 < N.2.2)) :
    maskBackend R N n0 n1 i = specBin R N n0 n1 i := by
  obtain ⟨⟨a1, a2⟩, ⟨b1, b2⟩, ⟨c1, c2⟩⟩ := hi
  refine maskBin_spec R N i n0 n1 _ hN ?_
  unfold idxVec
  rw [grid_backend _ _ hN.1 a1 a2, grid_backend _ _ hN.2.1 b1 b2, grid_backend _ _ hN.2.2 c1 c2]

theorem mask_exact_utils (R : M3) (N i : Int × Int × Int) (n0 n1 : V3)
    (hN : 1 ≤ N.1 ∧ 1 ≤ N.2.1 ∧ 1 ≤ N.2.2)
    (hi : (0 ≤ i.1 ∧ i.1 < N.1) ∧ (0 ≤ i.2.1 ∧ i.2.1 < N.2.1) ∧ (0 ≤ i.2.2 ∧ i.2.2 < N.2.2)) :
    maskUtils R N n0 n1 i = specBin R N n0 n1 i := by
  obtain ⟨⟨a1, a2⟩, ⟨b1, b2⟩, ⟨c1, c2⟩⟩ := hi
  refine maskBin_spec R N i n0 n1 _ hN ?_
  unfold idxVec
  rw [grid_utils _ _ hN.1 a1 a2, grid_utils _ _ hN.2.1 b1 b2, grid_utils _ _ hN.2.2 c1 c2]

/-- `_mask_from_norms` (used by subclasses) scales the normals exactly like `create_mask`. -/
theorem mask_from_norms_same :
    wedgeScaleBeforeRotTiltNorms = wedgeScaleBeforeRotTilt ∧ wedgeScaleIsDivTiltNorms = wedgeScaleIsDivTilt := by
  decide

/-! ## zero frequency, symmetry -/

theorem freqIdx_zero (n : Int) (hn : 1 ≤ n) : freqIdx n 0 = 0 := by
  unfold freqIdx; split <;> omega

/-- The specification keeps zero frequency. -/
theorem spec_dc (R : M3) (N : Int × Int × Int) (n0 n1 : V3)
    (hN : 1 ≤ N.1 ∧ 1 ≤ N.2.1 ∧ 1 ≤ N.2.2) : specBin R N n0 n1 (0, 0, 0) = true := by
  unfold specBin physFreq
  rw [freqIdx_zero _ hN.1, freqIdx_zero _ hN.2.1, freqIdx_zero _ hN.2.2]
  simp [M3.apply, V3.dot, Rat.div_def]
  grind

/-- **DC is always kept** by every entry point. -/
theorem mask_dc (R : M3) (N : Int × Int × Int) (n0 n1 : V3)
    (hN : 1 ≤ N.1 ∧ 1 ≤ N.2.1 ∧ 1 ≤ N.2.2) :
    maskTilt R N n0 n1 (0, 0, 0) = true ∧ maskBackend R N n0 n1 (0, 0, 0) = true
      ∧ maskUtils R N n0 n1 (0, 0, 0) = true := by
  have h0 : (0 ≤ (0 : Int) ∧ (0 : Int) < N.1) ∧ (0 ≤ (0 : Int) ∧ (0 : Int) < N.2.1)
      ∧ (0 ≤ (0 : Int) ∧ (0 : Int) < N.2.2) := by omega
  refine ⟨?_, ?_, ?_⟩
  · rw [mask_exact_tilt R N (0, 0, 0) n0 n1 hN h0]; exact spec_dc R N n0 n1 hN
  · rw [mask_exact_backend R N (0, 0, 0) n0 n1 hN h0]; exact spec_dc R N n0 n1 hN
  · rw [mask_exact_utils R N (0, 0, 0) n0 n1 hN h0]; exact spec_dc R N n0 n1 hN

/-- The mirror position of `i` on an axis of length `n`. -/
def mirror (n i : Int) : Int := (n - i) % n

theorem freqIdx_mirror (n i : Int) (hn : 1 ≤ n) (hi0 : 0 ≤ i) (hi : i < n) (hny : 2 * i ≠ n) :
    freqIdx n (mirror n i) = - freqIdx n i := by
  unfold freqIdx mirror
  by_cases h0 : i = 0
  · subst h0; simp; split <;> omega
  · have : (n - i) % n = n - i := Int.emod_eq_of_lt (by omega) (by omega)
    rw [this]; split <;> split <;> omega

theorem mirror_range (n i : Int) (hn : 1 ≤ n) : 0 ≤ mirror n i ∧ mirror n i < n := by
  unfold mirror
  exact ⟨Int.emod_nonneg _ (by omega), Int.emod_lt_of_pos _ (by omega)⟩

/-- **Symmetry under k → −k** for every bin off the Nyquist planes (on a Nyquist plane of an even
axis the bin is its own mirror while its FFT-ordered frequency `-1/2` is not, so the two halves of
the property sentence cannot both hold there; the check never asserts symmetry on those planes). -/
theorem spec_symmetric (R : M3) (N i : Int × Int × Int) (n0 n1 : V3)
    (hN : 1 ≤ N.1 ∧ 1 ≤ N.2.1 ∧ 1 ≤ N.2.2)
    (hi : (0 ≤ i.1 ∧ i.1 < N.1) ∧ (0 ≤ i.2.1 ∧ i.2.1 < N.2.1) ∧ (0 ≤ i.2.2 ∧ i.2.2 < N.2.2))
    (hny : 2 * i.1 ≠ N.1 ∧ 2 * i.2.1 ≠ N.2.1 ∧ 2 * i.2.2 ≠ N.2.2) :
    specBin R N n0 n1 (mirror N.1 i.1, mirror N.2.1 i.2.1, mirror N.2.2 i.2.2) = specBin R N n0 n1 i := by
  obtain ⟨⟨a1, a2⟩, ⟨b1, b2⟩, ⟨c1, c2⟩⟩ := hi
  unfold specBin physFreq
  simp only
  rw [freqIdx_mirror _ _ hN.1 a1 a2 hny.1, freqIdx_mirror _ _ hN.2.1 b1 b2 hny.2.1,
    freqIdx_mirror _ _ hN.2.2 c1 c2 hny.2.2]
  simp only [M3.apply, V3.dot, Rat.intCast_neg, Rat.div_def]
  congr 1
  grind

/-! ## tilt-model selection and validation -/

/-- Every accepted way to give a tilt range selects a model built from that range: the legacy
`tilt_range=` keyword alone selects the single-axis model of that range (1), a model object (2) is
used as is, a tuple (3) builds a single-axis model, and only "nothing given" (0) selects the
no-wedge model. -/
theorem tilt_select (isModel : Bool) (init : Int) :
    tiltSelect true true isModel init = .ok 1
    ∧ tiltSelect false true isModel init = .ok 0
    ∧ tiltSelect false false true init = .ok 2
    ∧ tiltSelect false false false init = .ok 3 := by
  unfold tiltSelect
  simp only [bind, Except.bind, pure, Except.pure]
  cases isModel <;> simp

/-- A tilt range is accepted exactly when `-90 ≤ min < max ≤ 90`. -/
theorem tilt_range_valid (mn mx : Rat) :
    tiltRangeValidate mn mx = .ok () ↔ (-90 ≤ mn ∧ mn < mx ∧ mx ≤ 90) := by
  unfold tiltRangeValidate
  simp only [bind, Except.bind, pure, Except.pure, throw, throwThe, MonadExceptOf.throw]
  grind

end C08
