import AcryoVerif.Model.Chunks
import AcryoVerif.Lemmas.PyLemmas
import Mathlib.Tactic.Ring
import Mathlib.Tactic.Linarith
import Mathlib.Tactic.Positivity
import Mathlib.Algebra.Order.Field.Basic
import Mathlib.Data.List.Count
import Mathlib.Data.List.Nodup

/-!
# C20 — Particle picking finds planted particles regardless of chunking

* `source_structure`: shape of `pick_molecules`, `_pick_in_chunk_wrapped`, the three pickers,
  `find_maxima` and the rotation lookup (read from the AST on every run).
* `in_chunk_iff`: the filter of `_pick_in_chunk_wrapped`, in original coordinates, is
  `S_j - 1/2 ≤ x < S_j + c_j - 1/2`.
* `core_exists`, `core_unique`, `outside_dropped`: **for every chunking** (any number and sizes of chunks,
  including chunks smaller than the depth and empty ones) and every depth, every position inside the
  image is kept by exactly one block, positions in the padding outside the image by none.
* `global_position`: the kept local position is reported at the original pixel position times the scale.
* `picked_once`: with a detector that is right inside block cores, the concatenated result contains
  every particle exactly once and nothing else.
* `numpy_is_one_chunk`: a numpy image is the single-chunk case of the same function.
* `local_comp`, `window_agrees`, `blocks_agree`, `blob_pipeline_chunk_independent`: a pipeline of local
  operators (filter, maximum decision, plateau labelling) computed on a block equals the whole-image
  pipeline on the block's core once the overlap covers the summed radii — for any boundary mode.
* `depth_clamped`, `log_depth_covers`, `dog_depth_covers`, `tm_landscape_covers`: the overlap depths are
  large enough (LoG/DoG: kernel radius `int(4σ+0.5)` of scipy's Gaussian, plus the search radius `ceil σ`,
  plus one voxel; template matching: the score
  landscape of a block covers its core plus `ceil(min_distance)` positions on both sides, for odd and
  even templates).
* `max_filter_center`, `max_filter_within_radius`: the footprint of the local-maximum filter contains its
  centre and only offsets within the exclusion distance.

Not proved: that the LoG / DoG / ZNCC responses of planted particles are local maxima at the particle
centres (numerical; sampled by the oracle).
-/

namespace C20
open Py Gen Model

theorem source_structure :
    pickMoleculesStructure = true ∧ pickWrappedStructure = true ∧ pickBlobRadius = true ∧
    tmStructure = true ∧ tmRotationLookup = true ∧ findMaximaStructure = true := by decide

/-! ## which block keeps a position -/

theorem in_chunk_iff (x : Rat) (S c d : Nat) :
    pickInChunk (x - (S : Rat) + (d : Rat)) (d : Int) ((c : Int) + 2 * (d : Int)) = true ↔
      (S : Rat) - 1 / 2 ≤ x ∧ x < (S : Rat) + (c : Rat) - 1 / 2 := by
  simp only [pickInChunk, decide_eq_true_eq]
  push_cast
  constructor
  · rintro ⟨h1, h2⟩; constructor <;> linarith
  · rintro ⟨h1, h2⟩; constructor <;> linarith

theorem chunkStart_succ (cs : List Nat) (j : Nat) (c : Nat) (h : cs[j]? = some c) :
    chunkStart cs (j + 1) = chunkStart cs j + c := by
  unfold chunkStart
  rw [List.take_add_one, h]
  simp

theorem chunkStart_le_sum (cs : List Nat) (j : Nat) : chunkStart cs j ≤ cs.sum := by
  unfold chunkStart
  conv_rhs => rw [← List.take_append_drop j cs]
  rw [List.sum_append]
  omega

theorem chunkStart_length (cs : List Nat) : chunkStart cs cs.length = cs.sum := by
  simp [chunkStart]

/-- in original coordinates: block `j` keeps exactly the positions of its own chunk -/
theorem inCoreOf_iff (cs : List Nat) (d j : Nat) (x : Rat) :
    inCoreOf cs d j x ↔ ∃ c, cs[j]? = some c ∧
      (chunkStart cs j : Rat) - 1 / 2 ≤ x ∧ x < (chunkStart cs j : Rat) + (c : Rat) - 1 / 2 := by
  unfold inCoreOf
  constructor
  · rintro ⟨c, hc, h⟩; exact ⟨c, hc, (in_chunk_iff x _ c d).mp h⟩
  · rintro ⟨c, hc, h⟩; exact ⟨c, hc, (in_chunk_iff x _ c d).mpr h⟩

/-- **Existence**: every position of the image is kept by some block. -/
theorem core_exists (cs : List Nat) (d : Nat) (x : Rat) (h0 : -(1 / 2 : Rat) ≤ x)
    (h1 : x < (cs.sum : Rat) - 1 / 2) : ∃ j, inCoreOf cs d j x := by
  -- the first chunk whose end lies beyond x
  have key : ∀ n, n ≤ cs.length → x < (chunkStart cs n : Rat) - 1 / 2 → ∃ j, inCoreOf cs d j x := by
    intro n
    induction n with
    | zero =>
      intro _ h
      simp [chunkStart] at h
      linarith
    | succ n ih =>
      intro hn h
      by_cases hx : x < (chunkStart cs n : Rat) - 1 / 2
      · exact ih (by omega) hx
      · have hlt : n < cs.length := by omega
        have hget : cs[n]? = some cs[n] := List.getElem?_eq_getElem hlt
        refine ⟨n, (inCoreOf_iff cs d n x).mpr ⟨cs[n], hget, not_lt.mp hx, ?_⟩⟩
        have := chunkStart_succ cs n cs[n] hget
        rw [this] at h
        push_cast at h
        linarith
  exact key cs.length (le_refl _) (by rw [chunkStart_length]; exact h1)

theorem chunkStart_mono (cs : List Nat) {i j : Nat} (hij : i ≤ j) : chunkStart cs i ≤ chunkStart cs j := by
  unfold chunkStart
  obtain ⟨k, rfl⟩ := Nat.exists_eq_add_of_le hij
  rw [List.take_add, List.sum_append]
  omega

/-- **Uniqueness**: no position is kept by two blocks (no duplicates), for every chunking. -/
theorem core_unique (cs : List Nat) (d i j : Nat) (x : Rat) (hi : inCoreOf cs d i x) (hj : inCoreOf cs d j x) :
    i = j := by
  rw [inCoreOf_iff] at hi hj
  obtain ⟨ci, hci, hi1, hi2⟩ := hi
  obtain ⟨cj, hcj, hj1, hj2⟩ := hj
  by_contra hne
  rcases Nat.lt_or_gt_of_ne hne with hlt | hlt
  · have h1 := chunkStart_mono cs (Nat.succ_le_of_lt hlt)
    rw [chunkStart_succ cs i ci hci] at h1
    have : ((chunkStart cs i + ci : Nat) : Rat) ≤ (chunkStart cs j : Rat) := by exact_mod_cast h1
    push_cast at this
    linarith
  · have h1 := chunkStart_mono cs (Nat.succ_le_of_lt hlt)
    rw [chunkStart_succ cs j cj hcj] at h1
    have : ((chunkStart cs j + cj : Nat) : Rat) ≤ (chunkStart cs i : Rat) := by exact_mod_cast h1
    push_cast at this
    linarith

/-- maxima found in the padding outside the image (`boundary="nearest"`) are never reported -/
theorem outside_dropped (cs : List Nat) (d j : Nat) (x : Rat)
    (hout : x < -(1 / 2 : Rat) ∨ (cs.sum : Rat) - 1 / 2 ≤ x) : ¬ inCoreOf cs d j x := by
  rw [inCoreOf_iff]
  rintro ⟨c, hc, h1, h2⟩
  rcases hout with h | h
  · have : (0 : Rat) ≤ (chunkStart cs j : Rat) := by positivity
    linarith
  · have hle := chunkStart_le_sum cs (j + 1)
    rw [chunkStart_succ cs j c hc] at hle
    have : ((chunkStart cs j + c : Nat) : Rat) ≤ (cs.sum : Rat) := by exact_mod_cast hle
    push_cast at this
    linarith

/-- a numpy image (wrapped into one chunk) keeps exactly the positions inside the image -/
theorem numpy_is_one_chunk (N d : Nat) (x : Rat) :
    inCoreOf [N] d 0 x ↔ -(1 / 2 : Rat) ≤ x ∧ x < (N : Rat) - 1 / 2 := by
  rw [inCoreOf_iff]
  simp [chunkStart]

/-- **Offsets**: a maximum at original pixel position `x`, seen by block `j` at local position
`x - S_j + d`, is reported at `x · scale`. -/
theorem global_position (cs : List Nat) (d j : Nat) (x scale : Rat) :
    reportGlobal cs d j (x - (chunkStart cs j : Rat) + (d : Rat)) scale = x * scale := by
  simp only [reportGlobal, pickGlobal]
  push_cast
  ring

/-! ## every particle once, nothing else -/

/-- Blocks `bs`, each with a core predicate and a list of reports (global coordinates). If the cores
partition the true maxima `G` (`core_exists` + `core_unique`), a block's reports inside its own core are
true maxima (the detector is right away from the block's artificial edges) and it reports each true
maximum of its core once, then the concatenation of the filtered reports lists every particle exactly
once and nothing else. -/
theorem picked_once {β : Type} [DecidableEq β] (bs : List β) (hbs : bs.Nodup)
    (core : β → Rat → Bool) (rep : β → List Rat) (G : List Rat) (hG : G.Nodup)
    (hpart : ∀ x ∈ G, ∃ b ∈ bs, core b x = true ∧ ∀ b' ∈ bs, core b' x = true → b' = b)
    (hsound : ∀ b ∈ bs, ∀ x ∈ rep b, core b x = true → x ∈ G)
    (hcomplete : ∀ b ∈ bs, ∀ x ∈ G, core b x = true → (rep b).count x = 1) (x : Rat) :
    (bs.flatMap fun b => (rep b).filter (core b)).count x = G.count x := by
  rw [List.count_flatMap]
  by_cases hx : x ∈ G
  · obtain ⟨b, hb, hcb, huniq⟩ := hpart x hx
    rw [List.count_eq_one_of_mem hG hx]
    have hterm : ∀ b' ∈ bs, ((rep b').filter (core b')).count x = if b' = b then 1 else 0 := by
      intro b' hb'
      by_cases hc : core b' x = true
      · have := huniq b' hb' hc
        subst this
        simp only [if_true]
        rw [List.count_filter hc]
        exact hcomplete b' hb' x hx hc
      · have hne : b' ≠ b := by rintro rfl; exact hc hcb
        simp only [hne, if_false]
        apply List.count_eq_zero_of_not_mem
        intro hm
        exact hc (List.mem_filter.mp hm).2
    have hmap : (bs.map (List.count x ∘ fun b => List.filter (core b) (rep b)))
        = bs.map fun b' => if b' = b then 1 else 0 :=
      List.map_congr_left fun b' hb' => by simpa using hterm b' hb'
    rw [hmap]
    clear hmap hterm hcomplete hsound hpart huniq hcb
    induction bs with
    | nil => cases hb
    | cons a as ih =>
      rcases List.nodup_cons.mp hbs with ⟨hna, has⟩
      simp only [List.map_cons, List.sum_cons]
      rcases List.mem_cons.mp hb with rfl | hb'
      · simp only [if_true]
        have : (as.map fun b' => if b' = b then 1 else 0).sum = 0 := by
          apply List.sum_eq_zero
          intro v hv
          obtain ⟨b', hb'm, rfl⟩ := List.mem_map.mp hv
          have : b' ≠ b := by rintro rfl; exact hna hb'm
          simp [this]
        omega
      · have : a ≠ b := by rintro rfl; exact hna hb'
        simp only [this, if_false, Nat.zero_add]
        exact ih has hb'
  · rw [List.count_eq_zero_of_not_mem hx]
    apply List.sum_eq_zero
    intro v hv
    obtain ⟨b, hb, rfl⟩ := List.mem_map.mp hv
    apply List.count_eq_zero_of_not_mem
    intro hm
    have := List.mem_filter.mp hm
    exact hx (hsound b hb x this.1 this.2)

/-! ## overlap depths -/

theorem depth_clamped (s d : Int) : pickDepthClamp s d ≤ s ∧ pickDepthClamp s d ≤ d := by
  unfold pickDepthClamp Py.imin
  split <;> omega

/-! ### LoG / DoG: the block-wise response and maximum decision equal the whole-image ones

The pickers run `filter → is-local-maximum → label plateaus` on every block. Each stage is a local
operator; their composition is local with the sum of the radii (`local_comp`), and a local operator run
on a window gives the whole-image value wherever the window reaches `R` voxels to both sides
(`window_agrees`) — whatever the filter's boundary mode invents beyond the window. The depths computed by
`get_params_and_depth` are at least the Gaussian kernel radius (scipy: `int(4σ + 0.5)`) plus the search
radius of `find_maxima` (`ceil σ`) plus one voxel for the plateau labelling. -/

theorem local_comp {α β γ : Type} (R1 R2 : Int) (F : (Int → α) → Int → β) (G : (Int → β) → Int → γ)
    (hF : LocalOp R1 F) (hG : LocalOp R2 G) : LocalOp (R1 + R2) (fun f => G (F f)) := by
  intro f g q h
  apply hG
  intro p hp1 hp2
  apply hF
  intro r hr1 hr2
  apply h <;> omega

theorem local_mono {α β : Type} (R R' : Int) (hR : R ≤ R') (F : (Int → α) → Int → β) (hF : LocalOp R F) :
    LocalOp R' F := by
  intro f g q h
  apply hF
  intro p hp1 hp2
  apply h <;> omega

/-- a block holding the original voxels `[lo, hi)` (`blk` agrees with the image `img` there and is whatever
the boundary mode makes of it elsewhere) with overlap depth `D ≥ R`: at every position of the core
`[lo + D, hi - D)` the operator computed on the block equals the operator computed on the whole image. -/
theorem window_agrees {α β : Type} (R D lo hi : Int) (F : (Int → α) → Int → β) (hF : LocalOp R F) (hD : R ≤ D)
    (img blk : Int → α) (hblk : ∀ p, lo ≤ p → p < hi → blk p = img p) (q : Int) (h1 : lo + D ≤ q) (h2 : q < hi - D) :
    F blk q = F img q := by
  apply hF
  intro p hp1 hp2
  apply hblk <;> omega

/-- two blocks (any two chunkings) agree with each other on positions in both cores -/
theorem blocks_agree {α β : Type} (R D lo hi lo' hi' : Int) (F : (Int → α) → Int → β) (hF : LocalOp R F) (hD : R ≤ D)
    (img blk blk' : Int → α) (hblk : ∀ p, lo ≤ p → p < hi → blk p = img p)
    (hblk' : ∀ p, lo' ≤ p → p < hi' → blk' p = img p) (q : Int)
    (h1 : lo + D ≤ q) (h2 : q < hi - D) (h1' : lo' + D ≤ q) (h2' : q < hi' - D) :
    F blk q = F blk' q := by
  rw [window_agrees R D lo hi F hF hD img blk hblk q h1 h2,
      window_agrees R D lo' hi' F hF hD img blk' hblk' q h1' h2']

theorem gauss_radius_le_ceil (s : Rat) : scipyGaussRadius s ≤ Py.ceil (s * 4) := by
  unfold scipyGaussRadius
  have h1 := Py.floor_le (4 * s + 1 / 2)
  have h2 := Py.le_ceil (s * 4)
  have h3 : ((Py.floor (4 * s + 1 / 2) : Int) : Rat) < ((Py.ceil (s * 4) : Int) : Rat) + 1 := by linarith
  have h4 : Py.floor (4 * s + 1 / 2) < Py.ceil (s * 4) + 1 := by exact_mod_cast h3
  omega

/-- LoG: the overlap covers the kernel radius of `gaussian_laplace`, the search radius `ceil σ` of
`find_maxima` and one more voxel (plateau labelling) -/
theorem log_depth_covers (sigma scale : Rat) :
    scipyGaussRadius (logDepth sigma scale).1 + Py.ceil (logDepth sigma scale).1 + 1 ≤ (logDepth sigma scale).2 := by
  simp only [logDepth]
  have := gauss_radius_le_ceil (sigma / scale)
  omega

/-- DoG: the same with the kernel radius of the wider Gaussian (`sigma_high`) -/
theorem dog_depth_covers (sigma_low sigma_high scale : Rat) :
    scipyGaussRadius (dogDepth sigma_low sigma_high scale).2.1 + Py.ceil (dogDepth sigma_low sigma_high scale).1 + 1
      ≤ (dogDepth sigma_low sigma_high scale).2.2 := by
  simp only [dogDepth]
  have := gauss_radius_le_ceil (sigma_high / scale)
  omega

/-- the narrower Gaussian of the DoG has the smaller kernel -/
theorem gauss_radius_mono (s t : Rat) (h : s ≤ t) : scipyGaussRadius s ≤ scipyGaussRadius t := by
  unfold scipyGaussRadius
  have h1 := Py.floor_le (4 * s + 1 / 2)
  have h2 : (4 * t + 1 / 2 : Rat) < ((Py.floor (4 * t + 1 / 2) : Int) : Rat) + 1 := Py.lt_floor_add_one _
  have h3 : ((Py.floor (4 * s + 1 / 2) : Int) : Rat) < ((Py.floor (4 * t + 1 / 2) : Int) : Rat) + 1 := by linarith
  have h4 : Py.floor (4 * s + 1 / 2) < Py.floor (4 * t + 1 / 2) + 1 := by exact_mod_cast h3
  omega

/-- the LoG pipeline of one block: response (radius `scipyGaussRadius σ`), then the maximum decision
(radius `ceil σ`), then the labelling step (radius 1) — on the core of any block it is the pipeline of the
whole image, hence the same for every chunking. Non-vacuity: `example` below. -/
theorem blob_pipeline_chunk_independent {α β γ δ : Type} (sigma scale : Rat)
    (resp : (Int → α) → Int → β) (isMax : (Int → β) → Int → γ) (lab : (Int → γ) → Int → δ)
    (hresp : LocalOp (scipyGaussRadius (sigma / scale)) resp) (hmax : LocalOp (Py.ceil (sigma / scale)) isMax)
    (hlab : LocalOp 1 lab)
    (lo hi : Int) (img blk : Int → α) (hblk : ∀ p, lo ≤ p → p < hi → blk p = img p) (q : Int)
    (h1 : lo + (logDepth sigma scale).2 ≤ q) (h2 : q < hi - (logDepth sigma scale).2) :
    lab (isMax (resp blk)) q = lab (isMax (resp img)) q := by
  have L := local_comp _ _ _ lab (local_comp _ _ resp isMax hresp hmax) hlab
  exact window_agrees _ _ lo hi _ L (log_depth_covers sigma scale) img blk hblk q h1 h2

/-- non-vacuity: a three-point moving sum is local with radius 1, and σ = 3/2 px gives depth 9 ≥ 6 + 2 + 1 -/
example : LocalOp 1 (fun (f : Int → Int) q => f (q - 1) + f q + f (q + 1)) := by
  intro f g q h
  simp only
  rw [h (q - 1) (by omega) (by omega), h q (by omega) (by omega), h (q + 1) (by omega) (by omega)]

example : (logDepth (3 / 2) 1).2 = 9 ∧ scipyGaussRadius (3 / 2) = 6 ∧ (dogDepth (3 / 2) (12 / 5) 1).2.2 = 13 := by decide +kernel

theorem ceil_half (n : Int) : Py.ceil ((n : Rat) / 2) = (n + 1) / 2 := by
  have h1 := Py.le_ceil ((n : Rat) / 2)
  have h2 := Py.ceil_lt_add_one ((n : Rat) / 2)
  generalize Py.ceil ((n : Rat) / 2) = k at *
  have h1' : (n : Rat) ≤ 2 * (k : Rat) := by linarith
  have h2' : 2 * (k : Rat) < (n : Rat) + 2 := by linarith
  have a : n ≤ 2 * k := by exact_mod_cast h1'
  have b : 2 * k < n + 2 := by exact_mod_cast h2'
  omega

/-- Template matching: block of `c + 2D` voxels with `D = ceil(n/2) + ceil(min_distance) + 1`; the score
landscape has `c + 2D - n - 1` entries, entry `i` standing for block position `i + (n+1)/2`. Every
position `q` of the block's core and every offset `|k| ≤ ceil(min_distance)` along the axis is an entry of
that landscape — for odd and even `n`: the local-maximum decision for a core position never looks outside
the landscape. -/
theorem tm_landscape_covers (n c : Int) (md : Rat) (t k : Int) (hn : 1 ≤ n) (hn2 : n ≤ 100000)
    (hmd : 0 ≤ md)
    (hcore1 : ((tmDepth n + tmMargin md : Int) : Rat) - 1 / 2 ≤ (t : Rat) + tmOffset n)
    (hcore2 : (t : Rat) + tmOffset n < ((c + (tmDepth n + tmMargin md) : Int) : Rat) - 1 / 2)
    (hk : -(Py.ceil md) ≤ k ∧ k ≤ Py.ceil md) :
    0 ≤ t + k ∧ t + k ≤ c + 2 * (tmDepth n + tmMargin md) - n - 2 := by
  have hm : 0 ≤ Py.ceil md := by
    have := Py.le_ceil md
    have h0 : (0 : Rat) ≤ (Py.ceil md : Rat) := le_trans hmd this
    exact_mod_cast h0
  have hmod : Py.imod ((n + 1) / 2) 65536 = (n + 1) / 2 := by
    unfold Py.imod
    rw [Int.fmod_eq_emod_of_nonneg _ (by omega)]
    exact Int.emod_eq_of_lt (by omega) (by omega)
  simp only [tmDepth, tmMargin, tmOffset, ceil_half, hmod] at hcore1 hcore2 ⊢
  generalize Py.ceil md = m at *
  have e1 : (2 : Rat) * (((n + 1) / 2 + (m + 1) : Int) : Rat) - 1 ≤ 2 * (t : Rat) + ((n + 1 : Int) : Rat) := by
    have := hcore1
    push_cast at this ⊢
    linarith
  have e2 : 2 * (t : Rat) + ((n + 1 : Int) : Rat) < 2 * ((c + ((n + 1) / 2 + (m + 1)) : Int) : Rat) - 1 := by
    have := hcore2
    push_cast at this ⊢
    linarith
  have a1 : 2 * ((n + 1) / 2 + (m + 1)) - 1 ≤ 2 * t + (n + 1) := by exact_mod_cast e1
  have a2 : 2 * t + (n + 1) < 2 * (c + ((n + 1) / 2 + (m + 1))) - 1 := by exact_mod_cast e2
  omega

/-! ## the local-maximum footprint -/

theorem max_filter_center (radius : Rat) (r : Int) : maxFilterFoot radius r r r r = true := by
  simp only [maxFilterFoot, decide_eq_true_eq]
  simp
  positivity

/-- offsets in the footprint are within the exclusion distance along every axis -/
theorem max_filter_within_radius (radius : Rat) (r z y x : Int) (h : maxFilterFoot radius r z y x = true)
    (hr : 0 ≤ radius) : ((z - r : Int) : Rat) ^ 2 ≤ radius ^ 2 ∧ |((z - r : Int) : Rat)| ≤ radius := by
  simp only [maxFilterFoot, decide_eq_true_eq] at h
  have hz : ((z - r : Int) : Rat) ^ 2 ≤ radius ^ 2 := by
    have h1 : (0 : Rat) ≤ (((y - r) ^ 2 : Int) : Rat) := by positivity
    have h2 : (0 : Rat) ≤ (((x - r) ^ 2 : Int) : Rat) := by positivity
    push_cast at h h1 h2 ⊢
    linarith
  exact ⟨hz, abs_le_of_sq_le_sq' hz hr |> fun ⟨a, b⟩ => abs_le.mpr ⟨a, b⟩⟩

/-- a radius below one pixel switches the filter off (every voxel above the threshold is a maximum) -/
theorem max_filter_identity_iff (radius : Rat) : maxFilterIdentity radius = true ↔ radius < 1 := by
  simp [maxFilterIdentity]

/-! ## non-vacuity -/

example : blocksKeeping [3, 1, 0, 4] 2 (5 / 2) = [1] ∧ blocksKeeping [3, 1, 0, 4] 2 (7 / 2) = [3]
    ∧ blocksKeeping [3, 1, 0, 4] 2 (-1) = [] := by decide +kernel

end C20
