import AcryoVerif.Lemmas.PyLemmas
import AcryoVerif.Lemmas.Corr
import AcryoVerif.Gen.Align
import AcryoVerif.Props.C05
import AcryoVerif.Gen.Sched

/-!
# C04 — Translational alignment returns the true displacement

What is proved (`C04_partial`): the index bookkeeping between landscape entries and displacements
is exact for every `max_shifts` and box; the cumulative-sum window sums are the direct window sums;
at an integer displacement inside the range the window-normalised response attains its maximum
possible value 1 (Cauchy–Schwarz), so `argmax` returns a maximiser there; the refinement mesh
offers a node within 1/20 px of any admissible displacement; the PCC up-sampled grid has spacing
`1/u` around the coarse estimate.

What is **not** proved (kept visible as `C04_full_statement`): that for *fractional* displacements
the cubic-spline up-sampling of the sampled landscape (or the matrix DFT) localises the optimum to
0.1 px (0.5 px for FSC / soft masks). That is floating-point numerical analysis of scipy code and
is covered only by the real-code oracle, labelled as a test.
-/
namespace C04
open Py Gen

/-! ## landscape index ↔ displacement -/

/-- For an integer displacement `d` with `|d| ≤ int m`, the matching window of the padded
sub-volume is entry `P - 1 + d` of the full response (side `2P - 1`); it survives the crop and
becomes entry `int m + d` of the cropped landscape, whose midpoint is `int m`; so the integer part
of the reported shift is exactly `d`. -/
theorem peak_index (m : Rat) (d : Int) (hm : 0 ≤ m) (hd1 : -(Py.trunc m) ≤ d) (hd2 : d ≤ Py.trunc m) :
    let P := paddingWidth m
    let s := 2 * P - 1
    let w := padWidthEff0 m s
    w ≤ P - 1 + d ∧ P - 1 + d < s - w
      ∧ (P - 1 + d) - w = Py.trunc m + d
      ∧ ((P - 1 + d) - w) - (s - 2 * w) / 2 = d := by
  have h := C05.pad_positive m hm
  simp only at h ⊢
  obtain ⟨h1, h2, h3⟩ := h
  have h0 := Py.trunc_nonneg_of_nonneg m hm
  generalize paddingWidth m = P at *
  generalize padWidthEff0 m (2 * P - 1) = w at *
  refine ⟨by omega, by omega, by omega, ?_⟩
  rw [h2]; omega

/-- With the refinement node `j = 0` the shift returned by `upsample` is exactly the integer
displacement. -/
theorem integer_shift_exact (maxima n lo : Int) :
    upsampleShift maxima n (-lo) (meshOffset lo) = ((maxima - n / 2 : Int) : Rat) := by
  rw [C05.upsample_shift_formula]
  have : lo + -lo = 0 := by omega
  rw [this]; simp

/-! ## window sums by cumulative sums -/

/-- `np.cumsum(a)[k]` -/
def cumsumAt (a : List ℚ) (k : Nat) : ℚ := (a.take (k + 1)).sum

/-- `_window_sum`: entry `j` of `cs[w:-1] - cs[:-w-1]` is `cs[w + j] - cs[j]`, which equals the
direct sum of the `w` entries starting at `j + 1` — the same window start as `corr[1:-1]`. -/
theorem window_sum_cumsum (a : List ℚ) (w j : Nat) :
    cumsumAt a (w + j) - cumsumAt a j = ((a.drop (j + 1)).take w).sum := by
  unfold cumsumAt
  have : w + j + 1 = (j + 1) + w := by omega
  rw [this, List.take_add, List.sum_append]
  ring

/-! ## the integer peak is a global maximiser with value 1 -/

/-- **Integer-peak theorem.** Let `T` be the (flattened) template over the voxel set `ι` and
`W δ` the window of the padded sub-volume at displacement `δ`. For every candidate `δ` the squared
numerator of the response is at most `var·ssd` (response `∈ [-1, 1]`), and if the window at `d`
equals the template (the sub-volume is the template displaced by the integer vector `d`, staying
inside the box) the bound is attained with a non-negative numerator (response `= 1`). Hence `d`
maximises the landscape and `np.argmax` (C06.argmax_is_max) returns a maximiser. Uniqueness is not
claimed (periodic templates are excluded by the property). -/
theorem integer_peak {ι δ : Type*} [Fintype ι] [Nonempty ι] (T : ι → ℚ) (W : δ → ι → ℚ) (d : δ)
    (hd : W d = T) :
    (∀ j, Corr.num (W j) T ^ 2 ≤ Corr.varSum (W j) * Corr.ssd T)
      ∧ Corr.num (W d) T ^ 2 = Corr.varSum (W d) * Corr.ssd T ∧ 0 ≤ Corr.num (W d) T := by
  refine ⟨fun j => Corr.num_sq_le _ _, ?_, ?_⟩
  · rw [hd]; exact (Corr.num_self T).2.1
  · rw [hd]; exact (Corr.num_self T).2.2

/-! ## resolution of the refinement mesh -/

/-- For every admissible displacement `t` (`|t| ≤ m`, within one pixel of the integer peak `s`)
some mesh node `s + j/20`, `lo ≤ j ≤ hi`, is closer than 1/20 px to `t`. With `mesh_in_range` the
node is also admissible. -/
theorem mesh_resolution (m t : Rat) (maxima mid : Int) (hm : 0 ≤ m)
    (hs1 : -(Py.ceil m) ≤ maxima - mid) (hs2 : maxima - mid ≤ Py.ceil m)
    (ht1 : -m ≤ t) (ht2 : t ≤ m)
    (ht3 : ((maxima - mid : Int) : Rat) - 1 ≤ t) (ht4 : t ≤ ((maxima - mid : Int) : Rat) + 1) :
    ∃ j : Int, (meshBounds maxima mid m).1 ≤ j ∧ j ≤ (meshBounds maxima mid m).2
      ∧ t - 1 / 20 < ((maxima - mid : Int) : Rat) + (j : Rat) / 20
      ∧ ((maxima - mid : Int) : Rat) + (j : Rat) / 20 < t + 1 / 20 := by
  have hne := (C05.mesh_nonempty m maxima mid hm hs1 hs2).1
  rw [C05.meshBounds_nf] at hne ⊢; simp only [C05.meshBoundsNF] at hne ⊢
  generalize hs : maxima - mid = s at *
  have hneg : (((-s : Int)) : Rat) = -(s : Rat) := by simp [Rat.intCast_neg]
  rw [hneg] at hne ⊢
  generalize ha : Py.rmax (-(s : Rat) - m) (-1) = a at *
  generalize hb : Py.rmin (-(s : Rat) + m) 1 = b at *
  have ha1 : a ≤ t - (s : Rat) := by rw [← ha]; unfold Py.rmax; split <;> grind
  have hb1 : t - (s : Rat) ≤ b := by rw [← hb]; unfold Py.rmin; split <;> grind
  -- u = (t - s) * 20 lies in [a*20, b*20]
  generalize hu : (t - (s : Rat)) * 20 = u
  have hu1 : a * 20 ≤ u := by grind
  have hu2 : u ≤ b * 20 := by grind
  have f1 := Py.floor_le u
  have f2 := Py.lt_floor_add_one u
  by_cases hcase : Py.ceil (a * 20) ≤ Py.floor u
  · refine ⟨Py.floor u, hcase, Py.le_floor_of_int_le _ _ (by grind), ?_, ?_⟩ <;> grind
  · -- then ceil (a*20) is the integer just above u
    have c1 := Py.le_ceil (a * 20)
    have c2 : Py.ceil (a * 20) ≤ Py.floor u + 1 := by
      apply Py.ceil_le_of_le_int
      have : (((Py.floor u + 1 : Int)) : Rat) = (Py.floor u : Rat) + 1 := by simp [Rat.intCast_add]
      rw [this]; grind
    have c3 : Py.ceil (a * 20) = Py.floor u + 1 := by omega
    have c4 : ((Py.ceil (a * 20) : Int) : Rat) = (Py.floor u : Rat) + 1 := by
      rw [c3]; simp [Rat.intCast_add]
    have c5 : (Py.floor u : Rat) < u := by
      rcases lt_or_ge (Py.floor u : Rat) u with h | h
      · exact h
      · exfalso
        have : a * 20 ≤ ((Py.floor u : Int) : Rat) := by grind
        exact hcase (Py.ceil_le_of_le_int _ _ this)
    refine ⟨Py.ceil (a * 20), Int.le_refl _, hne, ?_, ?_⟩ <;> grind

/-! ## PCC -/

/-- The up-sampled PCC grid has spacing exactly `1/u`: consecutive indices of the kept slice
differ by `1/u` in the refined shift, and index `dftshift` is the coarse estimate itself. -/
theorem pcc_grid_spacing (s c : Rat) (k st u : Int) (hu : 1 ≤ u) :
    pccRefineShift s (k + 1 - st) st c u - pccRefineShift s (k - st) st c u = 1 / (u : Rat)
      ∧ (c = (k : Rat) → pccRefineShift s (k - st) st c u = s) := by
  simp only [pccRefineShift]
  have hu0 : (u : Rat) ≠ 0 := by
    have : (0 : Rat) < (u : Rat) := by exact_mod_cast (by omega : (0 : Int) < u)
    exact ne_of_gt this
  constructor
  · push_cast; field_simp; ring
  · intro hc; subst hc; push_cast; field_simp; ring

/-- The coarse PCC estimate of an integer peak is that integer. -/
theorem pcc_coarse_int (s u : Int) (hu : 1 ≤ u) : pccCoarse (s : Rat) u = (s : Rat) := by
  simp only [pccCoarse]
  have : ((s : Rat) * (u : Rat)) = ((s * u : Int) : Rat) := by push_cast; ring
  rw [this, Py.trunc_intCast]
  have hu0 : (u : Rat) ≠ 0 := by
    have : (0 : Rat) < (u : Rat) := by exact_mod_cast (by omega : (0 : Int) < u)
    exact ne_of_gt this
  push_cast; field_simp

/-- The full property clause that is *not* proved: kept as a definition so that the statement
stays visible next to the partial theorems. `align` is the real alignment function
(sub-volume, max_shifts ↦ shift), `displace` the ideal displacement operator. -/
def C04_full_statement (align : (ℚ × ℚ × ℚ → ℚ) → ℚ × ℚ × ℚ → ℚ × ℚ × ℚ)
    (displace : (ℚ × ℚ × ℚ → ℚ) → ℚ × ℚ × ℚ → (ℚ × ℚ × ℚ → ℚ)) (tol : ℚ) : Prop :=
  ∀ (T : ℚ × ℚ × ℚ → ℚ) (d m : ℚ × ℚ × ℚ),
    |d.1| ≤ m.1 → |d.2.1| ≤ m.2.1 → |d.2.2| ≤ m.2.2 →
    |(align (displace T d) m).1 - d.1| ≤ tol ∧ |(align (displace T d) m).2.1 - d.2.1| ≤ tol
      ∧ |(align (displace T d) m).2.2 - d.2.2| ≤ tol

/-- One model object serves every sub-volume and orientation of a run: no method of the alignment or
tilt models (outside `__init__` and the template cache, which only ever holds pre-transformed templates)
stores into `self` — the result for a sub-volume cannot depend on which sub-volumes were aligned before. -/
theorem model_is_immutable :
    Gen.modelMethodsDoNotStoreBase = true ∧ Gen.modelMethodsDoNotStoreConcrete = true
    ∧ Gen.tiltModelsDoNotStore = true := by decide

end C04
