import Mathlib.Algebra.BigOperators.Group.List.Basic
import Mathlib.Data.List.Perm.Basic
import Mathlib.Tactic.Linarith
import Mathlib.Tactic.FieldSimp
import Mathlib.Tactic.Ring
import Mathlib.Tactic.NormNum
import AcryoVerif.Lemmas.PyLemmas
import AcryoVerif.Gen.Sim
import AcryoVerif.Model.Sim
import AcryoVerif.Props.C02

/-!
# C14 — Simulated tomograms contain the template at the requested poses

A fragment of the template's shape is computed by `affine_transform(template, M)` with
`M : o ↦ center + R⁻¹ (o - output_center)` and pasted at `tomogram[starts : stops]`; template voxel
`u` therefore lands at tomogram coordinate `starts + output_center + R (u - center)`.
-/
namespace C14
open Gen Model

theorem source_structure :
    simMatrixStructure = true ∧ simAccumulates = true ∧ sim2dProjectsEveryMolecule = true
    ∧ simClipUsesSlicePad = true := by decide

/-- Normal form of the regenerated `simPrep`. The theorems below are stated through `simPrep_nf`, so that a
re-ordering of terms in the source (`np.array(shape) / 2 - 0.5`, `shape + starts`, …) only has to get past
this one lemma. -/
def simPrepNF (p σ : ℚ) (n : Int) : Int × Int × ℚ × ℚ :=
  (Py.trunc (p / σ) - Py.trunc (((n : ℚ) - 1) / 2),
   Py.trunc (p / σ) - Py.trunc (((n : ℚ) - 1) / 2) + n,
   ((n : ℚ) - 1) / 2,
   ((Py.trunc (((n : ℚ) - 1) / 2) : Int) : ℚ) + (p / σ - ((Py.trunc (p / σ) : Int) : ℚ)))

theorem simPrep_nf (p σ : ℚ) (n : Int) : simPrep p σ n = simPrepNF p σ n := by
  unfold simPrep simPrepNF
  first
    | rfl
    | (refine Prod.ext ?_ (Prod.ext ?_ (Prod.ext ?_ ?_)) <;> simp only [] <;> ring_nf)

/-- **The template centre lands on the molecule position** `pos/scale`, for every template size (odd
or even), every position (also negative) and every scale: `starts + output_center = pos/scale`; the
fragment has the template's length. -/
theorem centre_at_position (p σ : ℚ) (n : Int) :
    let r := simPrep p σ n
    (r.1 : ℚ) + r.2.2.2 = p / σ ∧ r.2.1 - r.1 = n ∧ r.2.2.1 = ((n : ℚ) - 1) / 2 := by
  rw [simPrep_nf]; simp only [simPrepNF]
  refine ⟨?_, by omega, trivial⟩
  push_cast; ring

/-- **Exact paste.** When the template voxels coincide with tomogram voxels — integer pixel position
for odd sizes, half-integer for even sizes (non-negative positions) — the fragment matrix is the
identity for an identity orientation (`output_center = center`): the template is pasted as it is,
starting at voxel `pos - (n-1)/2`. -/
theorem exact_paste (p σ : ℚ) (n k : Int) (hn : 1 ≤ n) (hp : 0 ≤ p / σ)
    (hgrid : p / σ - ((n : ℚ) - 1) / 2 = (k : ℚ)) :
    let r := simPrep p σ n
    r.2.2.2 = r.2.2.1 ∧ r.1 = k := by
  rw [simPrep_nf]; simp only [simPrepNF]
  generalize hq : p / σ = q at *
  have hc : (0 : ℚ) ≤ ((n : ℚ) - 1) / 2 := by
    have : (1 : ℚ) ≤ (n : ℚ) := by exact_mod_cast hn
    linarith
  have t1 := Py.trunc_le_of_nonneg q hp
  have t2 := Py.trunc_gt q
  have c1 := Py.trunc_le_of_nonneg _ hc
  have c2 := Py.trunc_gt (((n : ℚ) - 1) / 2)
  -- q - c is an integer, both truncations are floors: trunc q - trunc c = k
  have hk : Py.trunc q - Py.trunc (((n : ℚ) - 1) / 2) = k := by
    have h1 : ((Py.trunc q - Py.trunc (((n : ℚ) - 1) / 2) : Int) : ℚ) < (k : ℚ) + 1 := by
      push_cast; linarith
    have h2 : (k : ℚ) - 1 < ((Py.trunc q - Py.trunc (((n : ℚ) - 1) / 2) : Int) : ℚ) := by
      push_cast; linarith
    have h3 : Py.trunc q - Py.trunc (((n : ℚ) - 1) / 2) < k + 1 := by exact_mod_cast h1
    have h4 : k - 1 < Py.trunc q - Py.trunc (((n : ℚ) - 1) / 2) := by exact_mod_cast h2
    omega
  refine ⟨?_, hk⟩
  have : ((Py.trunc q : Int) : ℚ) - ((Py.trunc (((n : ℚ) - 1) / 2) : Int) : ℚ) = (k : ℚ) := by
    exact_mod_cast hk
  linarith

/-- **Clipping.** For every fragment position the source and destination slices have the same
length, the destination lies inside the tomogram axis, and a fragment that does not overlap the
tomogram is skipped (the out-of-bound error is caught) rather than raising. -/
theorem clip_lengths (start n N a b p0 p1 : Int) (oob : Bool) (hn : 1 ≤ n) (hN : 1 ≤ N)
    (h : makeSliceAndPad start (start + n) N = .ok ((a, b), (p0, p1), oob)) :
    0 ≤ a ∧ b ≤ N ∧ a < b ∧ 0 ≤ p0 ∧ p0 ≤ n - p1 ∧ (n - p1) - p0 = b - a := by
  have h1 := C02.slice_ok start (start + n) N a b p0 p1 oob (by omega) (by omega) h
  have h2 := C02.slice_nonempty start (start + n) N a b p0 p1 oob (by omega) (by omega) h
  omega

theorem outside_is_skipped (start n N : Int) (hn : 1 ≤ n) (hN : 1 ≤ N) :
    (N ≤ start ∨ start + n ≤ 0) ↔ makeSliceAndPad start (start + n) N = .error Py.PyErr.oob :=
  (C02.slice_error_iff start (start + n) N (by omega) (by omega)).symm

/-- **Order independence.** The tomogram is the sum of the fragments of all molecules of all
components; the value at any voxel does not depend on the order of components or molecules, nor on
how molecules are partitioned into components. -/
theorem sum_order_free (frags₁ frags₂ : List ℚ) (h : frags₁.Perm frags₂) : frags₁.sum = frags₂.sum :=
  h.sum_eq

theorem sum_partition_free (comps : List (List ℚ)) : (comps.map List.sum).sum = comps.flatten.sum := by
  induction comps with
  | nil => simp
  | cons c cs ih =>
    rw [List.map_cons, List.sum_cons, List.flatten_cons, List.sum_append, ih]

/-- **2-D simulation.** The projection volume used by `simulate_2d` is tall enough that no molecule
is clipped at the top: every fragment ends at `stops_z ≤ ceil(zsize)`; every molecule is projected
(`Gen.sim2dProjectsEveryMolecule`). -/
theorem projection_height (z zmax σ : ℚ) (n sumshape : Int) (hσ : 0 < σ) (hz : z ≤ zmax)
    (hn : 1 ≤ n) (hs : n ≤ sumshape) (hz0 : 0 ≤ z / σ) :
    (simPrep z σ n).2.1 ≤ Py.ceil (sim2dZSize zmax σ sumshape) := by
  rw [simPrep_nf]; simp only [simPrepNF, sim2dZSize]
  have t1 := Py.trunc_le_of_nonneg (z / σ) hz0
  have hc : (0 : ℚ) ≤ ((n : ℚ) - 1) / 2 := by
    have : (1 : ℚ) ≤ (n : ℚ) := by exact_mod_cast hn
    linarith
  have c0 := Py.trunc_nonneg_of_nonneg _ hc
  have hzz : z / σ ≤ zmax / σ := by
    rw [div_le_div_iff_of_pos_right hσ]; exact hz
  have hce := Py.le_ceil (zmax / σ + (sumshape : ℚ))
  have hsR : (n : ℚ) ≤ (sumshape : ℚ) := by exact_mod_cast hs
  have hc0R : (0 : ℚ) ≤ ((Py.trunc (((n : ℚ) - 1) / 2) : Int) : ℚ) := by exact_mod_cast c0
  have : ((Py.trunc (z / σ) - Py.trunc (((n : ℚ) - 1) / 2) + n : Int) : ℚ)
      ≤ ((Py.ceil (zmax / σ + (sumshape : ℚ)) : Int) : ℚ) := by
    push_cast; linarith
  exact_mod_cast this

/-! ## Array level: the accumulated tomogram equals the sum of the posed templates

`Model.simulate1d` follows the code (window from the regenerated `simPrep`, whole-voxel translation of the
template, clipping by the regenerated `makeSliceAndPad`, skip on out-of-bound, `+=` one molecule after the
other); `Model.specAt` is the statement of C14. `simulate1d_spec` is the refinement; order and partition
independence, the exact paste and the absence of errors are corollaries. -/

theorem addAt_length (t : List ℚ) (a : Nat) (f : List ℚ) : (addAt t a f).length = t.length := by
  simp [addAt]

theorem addAt_get (t : List ℚ) (a : Nat) (f : List ℚ) (j : Nat) (hj : j < t.length) :
    ((addAt t a f)[j]?).getD 0 = (t[j]?).getD 0 + (if a ≤ j then (f[j - a]?).getD 0 else 0) := by
  simp only [addAt, List.getElem?_mapIdx, List.getElem?_eq_getElem hj, Option.map_some, Option.getD_some]
  split <;> simp

theorem tmplAt_of_not_mem (tmpl : List ℚ) (i : Int) (h : i < 0 ∨ (tmpl.length : Int) ≤ i) : tmplAt tmpl i = 0 := by
  unfold tmplAt
  split
  · rename_i h0
    have : tmpl.length ≤ i.toNat := by omega
    simp [List.getElem?_eq_none this]
  · rfl

theorem shiftTmpl_length (tmpl : List ℚ) (d : Int) : (shiftTmpl tmpl d).length = tmpl.length := by
  simp [shiftTmpl]

theorem shiftTmpl_at (tmpl : List ℚ) (d i : Int) :
    tmplAt (shiftTmpl tmpl d) i = if 0 ≤ i ∧ i < tmpl.length then tmplAt tmpl (i + d) else 0 := by
  by_cases h : 0 ≤ i ∧ i < tmpl.length
  · rw [if_pos h]
    obtain ⟨h0, h1⟩ := h
    have hi : i.toNat < tmpl.length := by omega
    simp only [tmplAt, if_pos h0, shiftTmpl, List.getElem?_map, List.getElem?_range hi, Option.map_some,
      Option.getD_some]
    have : ((i.toNat : Nat) : Int) = i := Int.toNat_of_nonneg h0
    rw [this]
  · rw [if_neg h]
    apply tmplAt_of_not_mem
    rw [shiftTmpl_length]
    omega

/-- one fragment: never an error; voxel `j` of the tomogram gains fragment voxel `j - start` (zero when the
fragment does not cover `j`) — clipping at both faces and skipping of outside fragments included -/
theorem pasteOne_spec (t : List ℚ) (start : Int) (frag : List ℚ) (hn : 1 ≤ frag.length) (hN : 1 ≤ t.length) :
    ∃ t', pasteOne t start frag = .ok t' ∧ t'.length = t.length ∧
      ∀ j : Nat, j < t.length → (t'[j]?).getD 0 = (t[j]?).getD 0 + tmplAt frag ((j : Int) - start) := by
  unfold pasteOne
  cases h : makeSliceAndPad start (start + frag.length) t.length with
  | error e =>
    refine ⟨t, rfl, rfl, ?_⟩
    intro j hj
    have he := C02.slice_error_kind _ _ _ e h
    subst he
    have := (C02.slice_error_iff start (start + frag.length) t.length (by omega) (by omega)).mp h
    rw [tmplAt_of_not_mem frag _ (by omega)]
    simp
  | ok r =>
    obtain ⟨⟨a, b⟩, ⟨p0, p1⟩, oob⟩ := r
    obtain ⟨ha, hb, hp0, hp1, hoob⟩ := C02.slice_values _ _ _ _ _ _ _ _ h
    have h1 := C02.slice_ok _ _ _ _ _ _ _ _ (by omega) (by omega) h
    have hsrc : (if oob then (frag.take ((frag.length : Int) - p1).toNat).drop p0.toNat else frag)
        = (frag.take ((frag.length : Int) - p1).toNat).drop p0.toNat := by
      cases oob with
      | true => rfl
      | false =>
        obtain ⟨e0, e1⟩ := hoob rfl
        subst e0 e1
        simp
    simp only [hsrc]
    have hlen : (((frag.take ((frag.length : Int) - p1).toNat).drop p0.toNat).length : Int) = b - a := by
      rw [List.length_drop, List.length_take]
      omega
    rw [if_neg (by omega), if_neg (by omega)]
    refine ⟨_, rfl, addAt_length _ _ _, ?_⟩
    intro j hj
    rw [addAt_get _ _ _ _ hj]
    congr 1
    by_cases hja : a.toNat ≤ j
    · rw [if_pos hja]
      by_cases hjb : (j : Int) < b
      · -- inside the destination slice
        have hidx : 0 ≤ (j : Int) - start := by omega
        simp only [tmplAt, if_pos hidx, List.getElem?_drop, List.getElem?_take]
        have e1 : p0.toNat + (j - a.toNat) = ((j : Int) - start).toNat := by omega
        rw [e1, if_pos (by omega)]
      · have hge : ((frag.take ((frag.length : Int) - p1).toNat).drop p0.toNat).length ≤ j - a.toNat := by omega
        rw [List.getElem?_eq_none hge, tmplAt_of_not_mem frag _ (by omega)]
        rfl
    · rw [if_neg hja, tmplAt_of_not_mem frag _ (by omega)]

/-- the translation of a grid-coincident pose is a whole number of voxels, 0 or 1, and 1 only for
molecules left of the origin (truncation toward zero of a negative position) -/
theorem grid_shift (p σ : ℚ) (n k : Int) (hn : 1 ≤ n) (hgrid : p / σ - ((n : ℚ) - 1) / 2 = (k : ℚ)) :
    let r := simPrep p σ n
    r.2.2.1 - r.2.2.2 = ((r.1 - k : Int) : ℚ) ∧ (r.1 - k = 0 ∨ (r.1 - k = 1 ∧ k < 0)) := by
  rw [simPrep_nf]; simp only [simPrepNF]
  generalize hq : p / σ = q at *
  have hc : (0 : ℚ) ≤ ((n : ℚ) - 1) / 2 := by
    have : (1 : ℚ) ≤ (n : ℚ) := by exact_mod_cast hn
    linarith
  have c1 := Py.trunc_le_of_nonneg _ hc
  have c2 := Py.trunc_gt (((n : ℚ) - 1) / 2)
  have t2 := Py.trunc_gt q
  have t3 := Py.trunc_lt q
  constructor
  · push_cast; linarith
  · by_cases h0 : 0 ≤ q
    · left
      have t1 := Py.trunc_le_of_nonneg q h0
      have h1 : ((Py.trunc q - Py.trunc (((n : ℚ) - 1) / 2) - k : Int) : ℚ) < 1 := by push_cast; linarith
      have h2 : (-1 : ℚ) < ((Py.trunc q - Py.trunc (((n : ℚ) - 1) / 2) - k : Int) : ℚ) := by push_cast; linarith
      have h3 : Py.trunc q - Py.trunc (((n : ℚ) - 1) / 2) - k < 1 := by exact_mod_cast h1
      have h4 : -1 < Py.trunc q - Py.trunc (((n : ℚ) - 1) / 2) - k := by exact_mod_cast h2
      omega
    · have hq0 : q < 0 := lt_of_not_ge h0
      have t1 := Py.trunc_ge_of_neg q hq0
      have hk : (k : ℚ) < 0 := by linarith
      have hk' : k < 0 := by exact_mod_cast hk
      have h1 : ((Py.trunc q - Py.trunc (((n : ℚ) - 1) / 2) - k : Int) : ℚ) < 2 := by push_cast; linarith
      have h2 : (-1 : ℚ) < ((Py.trunc q - Py.trunc (((n : ℚ) - 1) / 2) - k : Int) : ℚ) := by push_cast; linarith
      have h3 : Py.trunc q - Py.trunc (((n : ℚ) - 1) / 2) - k < 2 := by exact_mod_cast h1
      have h4 : -1 < Py.trunc q - Py.trunc (((n : ℚ) - 1) / 2) - k := by exact_mod_cast h2
      omega

/-- a molecule is *grid coincident* when its template voxels coincide with tomogram voxels:
`pos/scale - (n-1)/2` is a whole number (integer pixel position for odd sizes, half-integer for even ones) -/
def GridCoincident (scale : ℚ) (m : ℚ × List ℚ) : Prop :=
  1 ≤ m.2.length ∧ ∃ k : Int, m.1 / scale - (((m.2.length : Int) : ℚ) - 1) / 2 = (k : ℚ)

theorem simulateOne_spec (scale : ℚ) (t : List ℚ) (m : ℚ × List ℚ) (hm : GridCoincident scale m) (hN : 1 ≤ t.length) :
    ∃ t', simulateOne scale t m = .ok t' ∧ t'.length = t.length ∧
      ∀ j : Nat, j < t.length → (t'[j]?).getD 0 = (t[j]?).getD 0 + specAt scale [m] j := by
  obtain ⟨hn, k, hk⟩ := hm
  obtain ⟨hd, hcase⟩ := grid_shift m.1 scale m.2.length k (by omega) hk
  unfold simulateOne
  simp only [hd, Rat.den_intCast, Rat.num_intCast, ne_eq, not_true_eq_false, if_false]
  obtain ⟨t', h1, h2, h3⟩ := pasteOne_spec t (simPrep m.1 scale m.2.length).1
    (shiftTmpl m.2 ((simPrep m.1 scale m.2.length).1 - k)) (by rw [shiftTmpl_length]; exact hn) hN
  refine ⟨t', h1, h2, ?_⟩
  intro j hj
  rw [h3 j hj]
  congr 1
  simp only [specAt, List.map_cons, List.map_nil, List.sum_cons, List.sum_nil, add_zero, hk, Rat.floor_intCast]
  rw [shiftTmpl_at]
  split
  · congr 1; omega
  · rename_i hout
    symm
    apply tmplAt_of_not_mem
    omega

theorem specAt_cons (scale : ℚ) (m : ℚ × List ℚ) (ms : List (ℚ × List ℚ)) (j : Nat) :
    specAt scale (m :: ms) j = specAt scale [m] j + specAt scale ms j := by
  simp [specAt]

theorem simulate_from (scale : ℚ) (mols : List (ℚ × List ℚ)) (hm : ∀ m ∈ mols, GridCoincident scale m)
    (t : List ℚ) (hN : 1 ≤ t.length) :
    ∃ r, mols.foldlM (simulateOne scale) t = .ok r ∧ r.length = t.length ∧
      ∀ j : Nat, j < t.length → (r[j]?).getD 0 = (t[j]?).getD 0 + specAt scale mols j := by
  induction mols generalizing t with
  | nil => exact ⟨t, rfl, rfl, by intro j _; simp [specAt]⟩
  | cons m ms ih =>
    obtain ⟨t', h1, h2, h3⟩ := simulateOne_spec scale t m (hm m (by simp)) hN
    obtain ⟨r, g1, g2, g3⟩ := ih (fun x hx => hm x (by simp [hx])) t' (by omega)
    refine ⟨r, ?_, by omega, ?_⟩
    · simp only [List.foldlM_cons, h1]
      exact g1
    · intro j hj
      rw [specAt_cons scale m ms j, g3 j (by omega), h3 j hj]
      ring

/-- **Refinement.** For every list of grid-coincident molecules (any positions — interior, straddling either
face, outside, negative —, any template sizes, any scale) the code's accumulation never fails, returns a
tomogram of the requested length, and its voxel `j` is the sum over all molecules of the template voxel the
pose puts there. -/
theorem simulate1d_spec (scale : ℚ) (N : Nat) (hN : 1 ≤ N) (mols : List (ℚ × List ℚ))
    (hm : ∀ m ∈ mols, GridCoincident scale m) :
    ∃ r, simulate1d scale N mols = .ok r ∧ r.length = N ∧ ∀ j : Nat, j < N → (r[j]?).getD 0 = specAt scale mols j := by
  obtain ⟨r, h1, h2, h3⟩ := simulate_from scale mols hm (List.replicate N 0) (by simpa using hN)
  refine ⟨r, h1, by simpa using h2, ?_⟩
  intro j hj
  have := h3 j (by simpa using hj)
  simpa [List.getElem?_replicate, hj] using this

theorem specAt_perm (scale : ℚ) (m₁ m₂ : List (ℚ × List ℚ)) (h : m₁.Perm m₂) (j : Nat) :
    specAt scale m₁ j = specAt scale m₂ j := by
  unfold specAt
  exact (h.map _).sum_eq

/-- **Order independence at the array level**: any reordering of the molecules (hence of components, and any
re-partition of the molecules into components, which only changes the order of the flattened list) gives
the same tomogram. -/
theorem simulate1d_order_free (scale : ℚ) (N : Nat) (hN : 1 ≤ N) (m₁ m₂ : List (ℚ × List ℚ)) (h : m₁.Perm m₂)
    (hm : ∀ m ∈ m₁, GridCoincident scale m) : simulate1d scale N m₁ = simulate1d scale N m₂ := by
  obtain ⟨r₁, e1, l1, g1⟩ := simulate1d_spec scale N hN m₁ hm
  obtain ⟨r₂, e2, l2, g2⟩ := simulate1d_spec scale N hN m₂ (fun m hmem => hm m (h.mem_iff.mpr hmem))
  rw [e1, e2]
  congr 1
  apply List.ext_getElem? 
  intro j
  by_cases hj : j < N
  · have a1 := g1 j hj
    have a2 := g2 j hj
    rw [specAt_perm scale m₁ m₂ h j] at a1
    rw [List.getElem?_eq_getElem (by omega)] at a1 a2 ⊢
    rw [List.getElem?_eq_getElem (by omega)]
    simp only [Option.getD_some] at a1 a2
    rw [a1, a2]
  · rw [List.getElem?_eq_none (by omega), List.getElem?_eq_none (by omega)]

/-- **Exact paste at the array level**: a single grid-coincident molecule whose template lies inside the
volume — the tomogram contains the template voxel by voxel, starting at voxel `pos/scale - (n-1)/2`. -/
theorem exact_paste_values (scale p : ℚ) (tmpl : List ℚ) (N : Nat) (k : Nat) (hn : 1 ≤ tmpl.length)
    (hk : p / scale - (((tmpl.length : Int) : ℚ) - 1) / 2 = ((k : Int) : ℚ)) (hfit : k + tmpl.length ≤ N) :
    ∃ r, simulate1d scale N [(p, tmpl)] = .ok r ∧ ∀ i : Nat, i < tmpl.length → (r[k + i]?).getD 0 = (tmpl[i]?).getD 0 := by
  obtain ⟨r, e, _, g⟩ := simulate1d_spec scale N (by omega) [(p, tmpl)]
    (by intro m hm; simp only [List.mem_singleton] at hm; subst hm; exact ⟨hn, k, hk⟩)
  refine ⟨r, e, ?_⟩
  intro i hi
  rw [g (k + i) (by omega)]
  simp only [specAt, List.map_cons, List.map_nil, List.sum_cons, List.sum_nil, add_zero, hk, Rat.floor_intCast]
  have : ((k + i : Nat) : Int) - (k : Int) = (i : Int) := by omega
  rw [this]
  simp [tmplAt]

-- non-vacuity and a worked example: two overlapping molecules, one straddling the lower face, one outside
example : simulate1d 1 6 [(0, [1, 2, 3]), (5 / 2, [10, 20]), (40, [7])] = .ok [2, 3, 10, 20, 0, 0] := by decide +kernel
example : GridCoincident 1 ((5 / 2 : ℚ), [10, 20]) := ⟨by decide, 2, by norm_num⟩
-- even template left of the origin: the translation is one voxel (truncation toward zero)
example : simulate1d (1 / 2) 4 [(-(1 / 4), [1, 2, 3, 4])] = .ok [3, 4, 0, 0] := by decide +kernel

end C14
