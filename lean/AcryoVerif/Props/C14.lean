import Mathlib.Algebra.BigOperators.Group.List.Basic
import Mathlib.Data.List.Perm.Basic
import Mathlib.Tactic.Linarith
import Mathlib.Tactic.FieldSimp
import Mathlib.Tactic.Ring
import Mathlib.Tactic.NormNum
import AcryoVerif.Lemmas.PyLemmas
import AcryoVerif.Gen.Sim
import AcryoVerif.Props.C02

/-!
# C14 — Simulated tomograms contain the template at the requested poses

A fragment of the template's shape is computed by `affine_transform(template, M)` with
`M : o ↦ center + R⁻¹ (o - output_center)` and pasted at `tomogram[starts : stops]`; template voxel
`u` therefore lands at tomogram coordinate `starts + output_center + R (u - center)`.
-/
namespace C14
open Gen

theorem source_structure :
    simMatrixStructure = true ∧ simAccumulates = true ∧ sim2dProjectsEveryMolecule = true
    ∧ simClipUsesSlicePad = true := by decide

/-- **The template centre lands on the molecule position** `pos/scale`, for every template size (odd
or even), every position (also negative) and every scale: `starts + output_center = pos/scale`; the
fragment has the template's length. -/
theorem centre_at_position (p σ : ℚ) (n : Int) :
    let r := simPrep p σ n
    (r.1 : ℚ) + r.2.2.2 = p / σ ∧ r.2.1 - r.1 = n ∧ r.2.2.1 = ((n : ℚ) - 1) / 2 := by
  simp only [simPrep]
  refine ⟨?_, by omega, trivial⟩
  push_cast; ring

/-- **Exact paste.** When the template voxels coincide with tomogram voxels — integer pixel position
for odd sizes, half-integer for even sizes (non-negative positions) — the fragment matrix is the
identity for an identity orientation (`output_center = center`): the template is pasted as it is,
starting at voxel `pos - (n-1)/2`. -/
theorem exact_paste (p σ : ℚ) (n k : Int) (hn : 1 ≤ n) (hp : 0 ≤ p / σ)
    (hgrid : p / σ - ((n : ℚ) - 1) / 2 = (k : ℚ)) :
    let r := simPrep p σ n
    r.2.2.2 = r.2.2.1 ∧ r.1 = k := by
  simp only [simPrep]
  generalize hq : p / σ = q at *
  have hc : (0 : ℚ) ≤ ((n : ℚ) - 1) / 2 := by
    have : (1 : ℚ) ≤ (n : ℚ) := by exact_mod_cast hn
    linarith
  have t1 := Py.trunc_le_of_nonneg q hp
  have t2 := Py.trunc_gt q
  have c1 := Py.trunc_le_of_nonneg _ hc
  have c2 := Py.trunc_gt (((n : ℚ) - 1) / 2)
  -- q - c is an integer, both truncations are floors: trunc q - trunc c = k
  have hk : Py.trunc q - Py.trunc (((n : ℚ) - 1) / 2) = k := by
    have h1 : ((Py.trunc q - Py.trunc (((n : ℚ) - 1) / 2) : Int) : ℚ) < (k : ℚ) + 1 := by
      push_cast; linarith
    have h2 : (k : ℚ) - 1 < ((Py.trunc q - Py.trunc (((n : ℚ) - 1) / 2) : Int) : ℚ) := by
      push_cast; linarith
    have h3 : Py.trunc q - Py.trunc (((n : ℚ) - 1) / 2) < k + 1 := by exact_mod_cast h1
    have h4 : k - 1 < Py.trunc q - Py.trunc (((n : ℚ) - 1) / 2) := by exact_mod_cast h2
    omega
  refine ⟨?_, hk⟩
  have : ((Py.trunc q : Int) : ℚ) - ((Py.trunc (((n : ℚ) - 1) / 2) : Int) : ℚ) = (k : ℚ) := by
    exact_mod_cast hk
  linarith

/-- **Clipping.** For every fragment position the source and destination slices have the same
length, the destination lies inside the tomogram axis, and a fragment that does not overlap the
tomogram is skipped (the out-of-bound error is caught) rather than raising. -/
theorem clip_lengths (start n N a b p0 p1 : Int) (oob : Bool) (hn : 1 ≤ n) (hN : 1 ≤ N)
    (h : makeSliceAndPad start (start + n) N = .ok ((a, b), (p0, p1), oob)) :
    0 ≤ a ∧ b ≤ N ∧ a < b ∧ 0 ≤ p0 ∧ p0 ≤ n - p1 ∧ (n - p1) - p0 = b - a := by
  have h1 := C02.slice_ok start (start + n) N a b p0 p1 oob (by omega) (by omega) h
  have h2 := C02.slice_nonempty start (start + n) N a b p0 p1 oob (by omega) (by omega) h
  omega

theorem outside_is_skipped (start n N : Int) (hn : 1 ≤ n) (hN : 1 ≤ N) :
    (N ≤ start ∨ start + n ≤ 0) ↔ makeSliceAndPad start (start + n) N = .error Py.PyErr.oob :=
  (C02.slice_error_iff start (start + n) N (by omega) (by omega)).symm

/-- **Order independence.** The tomogram is the sum of the fragments of all molecules of all
components; the value at any voxel does not depend on the order of components or molecules, nor on
how molecules are partitioned into components. -/
theorem sum_order_free (frags₁ frags₂ : List ℚ) (h : frags₁.Perm frags₂) : frags₁.sum = frags₂.sum :=
  h.sum_eq

theorem sum_partition_free (comps : List (List ℚ)) : (comps.map List.sum).sum = comps.flatten.sum := by
  induction comps with
  | nil => simp
  | cons c cs ih =>
    rw [List.map_cons, List.sum_cons, List.flatten_cons, List.sum_append, ih]

/-- **2-D simulation.** The projection volume used by `simulate_2d` is tall enough that no molecule
is clipped at the top: every fragment ends at `stops_z ≤ ceil(zsize)`; every molecule is projected
(`Gen.sim2dProjectsEveryMolecule`). -/
theorem projection_height (z zmax σ : ℚ) (n sumshape : Int) (hσ : 0 < σ) (hz : z ≤ zmax)
    (hn : 1 ≤ n) (hs : n ≤ sumshape) (hz0 : 0 ≤ z / σ) :
    (simPrep z σ n).2.1 ≤ Py.ceil (sim2dZSize zmax σ sumshape) := by
  simp only [simPrep, sim2dZSize]
  have t1 := Py.trunc_le_of_nonneg (z / σ) hz0
  have hc : (0 : ℚ) ≤ ((n : ℚ) - 1) / 2 := by
    have : (1 : ℚ) ≤ (n : ℚ) := by exact_mod_cast hn
    linarith
  have c0 := Py.trunc_nonneg_of_nonneg _ hc
  have hzz : z / σ ≤ zmax / σ := by
    rw [div_le_div_iff_of_pos_right hσ]; exact hz
  have hce := Py.le_ceil (zmax / σ + (sumshape : ℚ))
  have hsR : (n : ℚ) ≤ (sumshape : ℚ) := by exact_mod_cast hs
  have hc0R : (0 : ℚ) ≤ ((Py.trunc (((n : ℚ) - 1) / 2) : Int) : ℚ) := by exact_mod_cast c0
  have : ((Py.trunc (z / σ) - Py.trunc (((n : ℚ) - 1) / 2) + n : Int) : ℚ)
      ≤ ((Py.ceil (zmax / σ + (sumshape : ℚ)) : Int) : ℚ) := by
    push_cast; linarith
  exact_mod_cast this

end C14
