import AcryoVerif.Props.C09

/-!
# C09 — array-level refinement of `average_split`

`Model.averageSplit` is the executable model of `LoaderBase.average_split` on a stack of images: one random
generator, `n_set` consecutive calls of `random_splitter`, set-major output `(n_set, 2, …)`. The K2 stream
`m:avgsplit` runs the real `average_split` (dask stack, `rechunk`, `mean`, `da.stack`, `np.stack`) with a prescribed
draw stream. Theorems, for every stack, every `n_set` and every draw stream: entry `s` pairs the two *complementary*
halves of the `s`-th split — never halves of different splits — and their count-weighted mean is the full average,
voxel by voxel.
-/
namespace C09
open Model

theorem selectImgs_map (m : List Bool) (stack : List (List ℚ)) (v : Nat) :
    (selectImgs m stack).map (fun im => im.getD v 0) = select m (stack.map fun im => im.getD v 0) := by
  induction m generalizing stack with
  | nil => simp [selectImgs, select]
  | cons b m ih =>
    cases stack with
    | nil => simp [selectImgs, select]
    | cons x xs =>
      cases b <;> simp only [selectImgs, select, List.map_cons, if_true, if_false, Bool.false_eq_true, ih]

theorem meanImg_getD (nvox : Nat) (stack : List (List ℚ)) (v : Nat) (hv : v < nvox) :
    (meanImg nvox stack).getD v 0 = mean (stack.map fun im => im.getD v 0) := by
  simp [meanImg, List.getD_eq_getElem?_getD, List.getElem?_range hv]

theorem averageSplit_length (nvox : Nat) (stack : List (List ℚ)) (nset : Nat) (stream : List Nat) :
    (averageSplit nvox stack nset stream).length = nset := by
  simp [averageSplit]

/-- **Layout**: entry `s` of the result is the pair of half-averages of the `s`-th split — the masks of both
halves are built from the *same* draws, those the `s`-th call consumes. -/
theorem averageSplit_entry (nvox : Nat) (stack : List (List ℚ)) (nset : Nat) (stream : List Nat)
    (s : Nat) (hs : s < nset) :
    (averageSplit nvox stack nset stream)[s]? =
      some (meanImg nvox (selectImgs (mask0 stack.length (drawsOfSet stack.length stream s)) stack),
            meanImg nvox (selectImgs (mask1 stack.length (drawsOfSet stack.length stream s)) stack)) := by
  simp [averageSplit, List.getElem?_range hs]

/-- the first set uses exactly the draws of the single split (`n_set = 1` and set 0 of any `n_set` agree) -/
theorem drawsOfSet_zero (n : Nat) (stream : List Nat) : drawsOfSet n stream 0 = usedDraws n stream := by
  simp [drawsOfSet, usedDraws]

theorem selectImgs_length (m : List Bool) (stack : List (List ℚ)) (v : Nat) :
    (selectImgs m stack).length = (select m (stack.map fun im => im.getD v 0)).length := by
  rw [← selectImgs_map, List.length_map]

/-- **The two half maps of every set recombine to the full average**, voxel by voxel: for every stack,
`n_set`, draw stream, set `s` and voxel `v`, the count-weighted mean of the half-averages is the average
(whenever both halves are non-empty, which `C09.split_nonempty` gives for two or more molecules). -/
theorem averageSplit_recombines (nvox : Nat) (stack : List (List ℚ)) (stream : List Nat) (s v : Nat)
    (hv : v < nvox)
    (h0 : selectImgs (mask0 stack.length (drawsOfSet stack.length stream s)) stack ≠ [])
    (h1 : selectImgs (mask1 stack.length (drawsOfSet stack.length stream s)) stack ≠ []) :
    let d := drawsOfSet stack.length stream s
    let A := selectImgs (mask0 stack.length d) stack
    let B := selectImgs (mask1 stack.length d) stack
    ((A.length : ℚ) * (meanImg nvox A).getD v 0 + (B.length : ℚ) * (meanImg nvox B).getD v 0)
        / ((A.length : ℚ) + (B.length : ℚ)) = (meanImg nvox stack).getD v 0 := by
  intro d A B
  have hx : (stack.map fun im => im.getD v 0).length = stack.length := by simp
  have hA : select (mask0 stack.length d) (stack.map fun im => im.getD v 0) ≠ [] := by
    intro h
    apply h0
    have := selectImgs_length (mask0 stack.length d) stack v
    rw [h] at this
    exact List.length_eq_zero_iff.mp this
  have hB : select (mask1 stack.length d) (stack.map fun im => im.getD v 0) ≠ [] := by
    intro h
    apply h1
    have := selectImgs_length (mask1 stack.length d) stack v
    rw [h] at this
    exact List.length_eq_zero_iff.mp this
  have h := split_recombines stack.length d (stack.map fun im => im.getD v 0) hx hA hB
  simp only at h
  rw [meanImg_getD _ _ _ hv, meanImg_getD _ _ _ hv, meanImg_getD _ _ _ hv]
  show (((selectImgs (mask0 stack.length d) stack).length : ℚ) * mean ((selectImgs (mask0 stack.length d) stack).map _)
      + ((selectImgs (mask1 stack.length d) stack).length : ℚ) * mean ((selectImgs (mask1 stack.length d) stack).map _))
      / (((selectImgs (mask0 stack.length d) stack).length : ℚ) + ((selectImgs (mask1 stack.length d) stack).length : ℚ)) = _
  rw [selectImgs_map, selectImgs_map, selectImgs_length _ _ v, selectImgs_length _ _ v]
  exact h

/-- worked instance: 4 one-voxel images 1, 2, 4, 8; two sets with draws (0, 0) and (3, 1). -/
example : averageSplit 1 [[1], [2], [4], [8]] 2 [0, 0, 3, 1]
    = [([1], [14 / 3]), ([5], [5 / 2])] := by
  decide +kernel

end C09
