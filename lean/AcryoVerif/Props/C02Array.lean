import Mathlib.Tactic.Linarith
import Mathlib.Tactic.Ring
import AcryoVerif.Lemmas.PyLemmas
import AcryoVerif.Model.Load
import AcryoVerif.Props.C02

/-!
# C02, array level — identity orientation, grid-coincident centre

`Model.loadAxis` follows the code along one axis (regenerated window, clipping and centre kernels, mean
padding, evaluation at `new_center + k - output_center`). `loadAxis_spec`: for every tomogram, every box
size (odd with an integer centre, even with a half-integer one), every spline order and every centre —
inside, straddling either face, outside, negative — the loaded box is the corresponding block of the tomogram
where it overlaps and one finite fill value (the mean of the clipped block) elsewhere; the out-of-bound error
is raised exactly when the *window* misses the tomogram.
-/
namespace C02
open Py Gen Model

theorem sampleAt_eq (padded : List ℚ) (cval : ℚ) (i : Nat) (hi : i < padded.length) :
    sampleAt padded cval (i : Int) = padded[i] := by
  simp [sampleAt, List.getElem?_eq_getElem hi]

/-- the mean-padded block, voxel by voxel: padded index `i` stands for tomogram voxel `a - p0 + i` -/
theorem padded_at (tomo : List ℚ) (a b p0 p1 : Nat) (fill : ℚ) (hab : a ≤ b) (hb : b ≤ tomo.length)
    (i : Nat) (hi : i < p0 + (b - a) + p1) :
    ((List.replicate p0 fill ++ (tomo.take b).drop a ++ List.replicate p1 fill)[i]?).getD 0
      = if p0 ≤ i ∧ i < p0 + (b - a) then (tomo[a + (i - p0)]?).getD 0 else fill := by
  have hlen : ((tomo.take b).drop a).length = b - a := by
    rw [List.length_drop, List.length_take]; omega
  by_cases h1 : i < p0
  · rw [if_neg (by omega), List.append_assoc, List.getElem?_append_left (by simpa using h1)]
    simp [h1]
  · by_cases h2 : i < p0 + (b - a)
    · rw [if_pos ⟨by omega, h2⟩, List.append_assoc, List.getElem?_append_right (by simp; omega),
        List.getElem?_append_left (by simp only [List.length_replicate, hlen]; omega)]
      simp only [List.length_replicate, List.getElem?_drop, List.getElem?_take]
      rw [if_pos (by omega)]
    · rw [if_neg (by omega), List.getElem?_append_right (by simp only [List.length_append, List.length_replicate, hlen]; omega)]
      simp only [List.length_append, List.length_replicate, hlen, List.getElem?_replicate]
      rw [if_pos (by omega)]
      rfl

/-- window origin of a grid-coincident centre: `x0 = k0 - order - 1`, or `k0 - order` when that is not
positive (truncation toward zero) -/
theorem grid_window (c : ℚ) (s order k0 : Int) (hgrid : c - ((s : ℚ) - 1) / 2 = (k0 : ℚ)) :
    let w := prepareAffineAxis c s order
    (w.1 = k0 - order - 1 ∨ (w.1 = k0 - order ∧ w.1 ≤ 0)) ∧
    w.2.2 - prepareAffineOutputCenter s = ((k0 - w.1 : Int) : ℚ) := by
  intro w
  have e0 : w.1 = Py.trunc (c - (s : ℚ) / 2 - (order : ℚ)) := paa_x0 c s order
  have e2 : w.2.2 = c - ((w.1 : Int) : ℚ) := paa_newc c s order
  have eo : prepareAffineOutputCenter s = ((s : ℚ) - 1) / 2 := output_center s
  have hq : c - (s : ℚ) / 2 - (order : ℚ) = ((k0 - order : Int) : ℚ) - 1 / 2 := by push_cast; linarith
  rw [hq] at e0
  generalize hm : k0 - order = m at e0
  have t1 := Py.trunc_gt (((m : Int) : ℚ) - 1 / 2)
  have t2 := Py.trunc_lt (((m : Int) : ℚ) - 1 / 2)
  have t3 := Py.trunc_le_max (((m : Int) : ℚ) - 1 / 2)
  rw [← e0] at t1 t2 t3
  generalize w.1 = x at *
  have a1 : ((m : ℚ) - 2 : ℚ) < (x : ℚ) := by linarith
  have a2 : (x : ℚ) < (m : ℚ) + 1 := by linarith
  have b1 : m - 2 < x := by exact_mod_cast a1
  have b2 : x < m + 1 := by exact_mod_cast a2
  constructor
  · rcases t3 with h | h
    · left
      have : (x : ℚ) < (m : ℚ) := by linarith
      have : x < m := by exact_mod_cast this
      omega
    · by_cases hx : x = m - 1
      · left; omega
      · right; constructor <;> omega
  · rw [e2, eo]; push_cast; linarith

/-- **Array-level rule for the identity orientation on the grid.** -/
theorem loadAxis_spec (tomo : List ℚ) (c : ℚ) (s order k0 : Int) (hs : 1 ≤ s) (ho : 0 ≤ order)
    (hN : 1 ≤ tomo.length) (hgrid : c - ((s : ℚ) - 1) / 2 = (k0 : ℚ))
    (w : Int × Int × ℚ) (hwdef : prepareAffineAxis c s order = w) :
    ((tomo.length : Int) ≤ w.1 ∨ w.2.1 ≤ 0 → loadAxis tomo c s order = .error PyErr.oob) ∧
    (¬ ((tomo.length : Int) ≤ w.1 ∨ w.2.1 ≤ 0) →
      ∃ r fill, loadAxis tomo c s order = .ok r ∧ r.length = s.toNat ∧
        fill = blockMean ((tomo.take (min w.2.1 tomo.length).toNat).drop (max w.1 0).toNat) ∧
        ∀ k : Nat, (k : Int) < s → (r[k]?).getD 0 =
          if 0 ≤ k0 + k ∧ k0 + k < tomo.length then (tomo[(k0 + k).toNat]?).getD 0 else fill) := by
  have hwidth : w.2.1 - w.1 = s + 2 * order + 1 + (if order = 0 then 1 else 0) := hwdef ▸ window_width c s order
  have hw : w.1 < w.2.1 := by
    have hm : (0 : Int) ≤ (if order = 0 then 1 else 0) := by split <;> omega
    omega
  obtain ⟨hx0, hoff⟩ := hwdef ▸ grid_window c s order k0 hgrid
  unfold loadAxis
  simp only [hwdef]
  constructor
  · intro hmiss
    have := (slice_error_iff w.1 w.2.1 tomo.length (by omega) hw).mpr hmiss
    rw [this]
  · intro hhit
    cases h : makeSliceAndPad w.1 w.2.1 tomo.length with
    | error e =>
      exfalso
      have he := slice_error_kind _ _ _ e h
      subst he
      exact hhit ((slice_error_iff w.1 w.2.1 tomo.length (by omega) hw).mp h)
    | ok r =>
      obtain ⟨⟨a, b⟩, ⟨p0, p1⟩, need⟩ := r
      obtain ⟨ha, hb, hp0, hp1, hneed⟩ := slice_values _ _ _ _ _ _ _ _ h
      have h1 := slice_ok _ _ _ _ _ _ _ _ (by omega) hw h
      simp only
      rw [if_neg (by omega)]
      have hpad : (if need then List.replicate p0.toNat (blockMean ((tomo.take b.toNat).drop a.toNat)) ++
            (tomo.take b.toNat).drop a.toNat ++ List.replicate p1.toNat (blockMean ((tomo.take b.toNat).drop a.toNat))
          else (tomo.take b.toNat).drop a.toNat)
          = List.replicate p0.toNat (blockMean ((tomo.take b.toNat).drop a.toNat)) ++
            (tomo.take b.toNat).drop a.toNat ++ List.replicate p1.toNat (blockMean ((tomo.take b.toNat).drop a.toNat)) := by
        cases need with
        | true => rfl
        | false =>
          obtain ⟨e0, e1⟩ := hneed rfl
          subst e0 e1
          simp
      rw [hpad]
      have hoff' : w.2.2 - prepareAffineOutputCenter s = ((k0 - w.1 : Int) : ℚ) := hoff
      simp only [hoff', Rat.den_intCast, Rat.num_intCast, ne_eq, not_true_eq_false, if_false]
      refine ⟨_, blockMean ((tomo.take b.toNat).drop a.toNat), rfl, by simp, by rw [ha, hb], ?_⟩
      intro k hk
      have hkn : k < s.toNat := by omega
      simp only [List.getElem?_map, List.getElem?_range hkn, Option.map_some, Option.getD_some]
      have hblk : ((tomo.take b.toNat).drop a.toNat).length = b.toNat - a.toNat := by
        rw [List.length_drop, List.length_take]; omega
      -- the padded index is a natural number inside the padded block
      have hidx0 : 0 ≤ k0 - w.1 + (k : Int) := by omega
      have hidx1 : (k0 - w.1 + (k : Int)).toNat < p0.toNat + (b.toNat - a.toNat) + p1.toNat := by
        split at hwidth <;> omega
      have hcast : k0 - w.1 + (k : Int) = (((k0 - w.1 + (k : Int)).toNat : Nat) : Int) := by omega
      rw [hcast, sampleAt_eq _ _ _ (by simp only [List.length_append, List.length_replicate, hblk]; omega)]
      have hp := padded_at tomo a.toNat b.toNat p0.toNat p1.toNat (blockMean ((tomo.take b.toNat).drop a.toNat))
        (by omega) (by omega) (k0 - w.1 + (k : Int)).toNat hidx1
      rw [List.getElem?_eq_getElem (by simp only [List.length_append, List.length_replicate, hblk]; omega)] at hp
      simp only [Option.getD_some] at hp
      rw [hp]
      by_cases hin : 0 ≤ k0 + k ∧ k0 + k < tomo.length
      · rw [if_pos hin, if_pos (by omega)]
        congr 2
        omega
      · rw [if_neg hin, if_neg (by omega)]

-- worked examples: interior odd box; even box straddling the lower face (fill = blockMean of the clipped block)
example : loadAxis [10, 11, 12, 13, 14, 15, 16, 17, 18, 19] 4 3 1 = .ok [13, 14, 15] := by decide +kernel
example : loadAxis [4, 8, 0, 0] (1 / 2) 4 0 = .ok [3, 4, 8, 0] := by decide +kernel
example : loadAxis [1, 2, 3] 30 3 3 = .error PyErr.oob := by decide +kernel

end C02
