import AcryoVerif.Lemmas.PyLemmas
import AcryoVerif.Gen.Align
import AcryoVerif.Gen.Pose

/-!
# C05 — Alignment stays inside the search range and never fails on a valid range
-/
namespace C05
open Py Gen

/-! ## casts -/

theorem cast_le {a b : Int} : ((a : Int) : Rat) ≤ ((b : Int) : Rat) ↔ a ≤ b := Rat.intCast_le_intCast
theorem cast_lt {a b : Int} : ((a : Int) : Rat) < ((b : Int) : Rat) ↔ a < b := Rat.intCast_lt_intCast

/-! ## ZNCC / NCC: padding and cropping of the landscape -/

theorem padWidthEff_copies : padWidthEff1 = padWidthEff0 ∧ padWidthEff2 = padWidthEff0
    ∧ padWidthEff3 = padWidthEff0 := ⟨rfl, rfl, rfl⟩

/-- For every `m ≥ 0` the padded landscape has side `2P - 1` with `P = ceil (m + 3)`, the effective
crop width is at least 2 (so `slice(w, -w)` is never the empty `slice(0, -0)`), and the cropped
landscape has side exactly `2·int(m) + 1`, whose midpoint `int(m)` is zero displacement. -/
theorem pad_positive (m : Rat) (hm : 0 ≤ m) :
    let P := paddingWidth m
    let s := 2 * P - 1
    2 ≤ padWidthEff0 m s ∧ s - 2 * padWidthEff0 m s = 2 * Py.trunc m + 1
      ∧ padWidthEff0 m s = P - 1 - Py.trunc m := by
  simp only [paddingWidth, padWidthEff0]
  have h1 := Py.le_ceil (m + 3)
  have h2 := Py.trunc_le_of_nonneg m hm
  have h3 := Py.trunc_nonneg_of_nonneg m hm
  have h4 : (Py.trunc m : Rat) + 3 ≤ (Py.ceil (m + 3) : Rat) := by grind
  have h5 : Py.trunc m + 3 ≤ Py.ceil (m + 3) := by
    have : (((Py.trunc m + 3 : Int)) : Rat) ≤ (Py.ceil (m + 3) : Rat) := by
      simp [Rat.intCast_add]; exact h4
    exact cast_le.mp this
  omega

/-! ## the refinement mesh -/

/-- Normal form of the regenerated `meshBounds`; the theorems below go through `meshBounds_nf`, so that an
equivalent re-ordering of the source (`-(shifts + max_shifts)`, `max_shifts - shifts`) only has to pass here. -/
def meshBoundsNF (maxima mid : Int) (m : Rat) : Int × Int :=
  (Py.ceil (Py.rmax ((((-(maxima - mid)) : Int) : Rat) - m) (-1 : Rat) * (20 : Rat)),
   Py.floor (Py.rmin ((((-(maxima - mid)) : Int) : Rat) + m) (1 : Rat) * (20 : Rat)))

theorem meshBounds_nf (maxima mid : Int) (m : Rat) : meshBounds maxima mid m = meshBoundsNF maxima mid m := by
  simp only [meshBounds, meshBoundsNF, Rat.intCast_neg] <;> first | rfl | (congr 4 <;> grind)


/-- **Mesh bounds are ordered** (the refinement arg-max is over a non-empty array) for every
`m ≥ 0` and every integer peak within `ceil m` of the midpoint (ZNCC/NCC peaks are within `int m`,
FSC peaks within `ceil m`). Zero is always a node when the peak is within `m`. -/
theorem mesh_nonempty (m : Rat) (maxima mid : Int) (hm : 0 ≤ m)
    (hs1 : -(Py.ceil m) ≤ maxima - mid) (hs2 : maxima - mid ≤ Py.ceil m) :
    (meshBounds maxima mid m).1 ≤ (meshBounds maxima mid m).2
      ∧ -20 ≤ (meshBounds maxima mid m).1 ∧ (meshBounds maxima mid m).2 ≤ 20 := by
  rw [meshBounds_nf]; simp only [meshBoundsNF]
  generalize hs : maxima - mid = s at *
  have hc1 := Py.ceil_lt_add_one m
  have hsR1 : (-(Py.ceil m : Int) : Rat) ≤ (s : Rat) := by
    have := cast_le.mpr hs1; simpa [Rat.intCast_neg] using this
  have hsR2 : (s : Rat) ≤ (Py.ceil m : Rat) := cast_le.mpr hs2
  have hneg : (((-s : Int)) : Rat) = -(s : Rat) := by simp [Rat.intCast_neg]
  rw [hneg]
  generalize ha : Py.rmax (-(s : Rat) - m) (-1) = a
  generalize hb : Py.rmin (-(s : Rat) + m) 1 = b
  have ha1 : -1 ≤ a := by rw [← ha]; unfold Py.rmax; split <;> grind
  have ha2 : a ≤ 1 := by rw [← ha]; unfold Py.rmax; split <;> grind
  have hb1 : -1 ≤ b := by rw [← hb]; unfold Py.rmin; split <;> grind
  have hb2 : b ≤ 1 := by rw [← hb]; unfold Py.rmin; split <;> grind
  -- an integer multiple of 1/20 lies between a and b
  have hmid : ∃ k : Int, a * 20 ≤ (k : Rat) ∧ (k : Rat) ≤ b * 20 := by
    by_cases h1 : -(s : Rat) - m ≤ -1
    · refine ⟨-20, ?_, ?_⟩
      · have : a = -1 := by rw [← ha]; unfold Py.rmax; simp [h1]
        rw [this]; simp [Rat.intCast_neg]; grind
      · simp [Rat.intCast_neg]; grind
    · by_cases h2 : -(s : Rat) + m ≤ 1
      · refine ⟨-s * 20, ?_, ?_⟩
        · have : a = -(s : Rat) - m := by rw [← ha]; unfold Py.rmax; simp [h1]
          rw [this]; simp [Rat.intCast_mul, Rat.intCast_neg]; grind
        · have : b = -(s : Rat) + m := by rw [← hb]; unfold Py.rmin; simp [h2]
          rw [this]; simp [Rat.intCast_mul, Rat.intCast_neg]; grind
      · refine ⟨20, ?_, ?_⟩
        · simp; grind
        · have : b = 1 := by rw [← hb]; unfold Py.rmin; simp [h2]
          rw [this]; simp
  obtain ⟨k, hk1, hk2⟩ := hmid
  have e1 : Py.ceil (a * 20) ≤ k := Py.ceil_le_of_le_int _ _ hk1
  have e2 : k ≤ Py.floor (b * 20) := Py.le_floor_of_int_le _ _ hk2
  refine ⟨by omega, ?_, ?_⟩
  · have : ((-20 : Int) : Rat) ≤ (Py.ceil (a * 20) : Rat) := by
      have := Py.le_ceil (a * 20); simp [Rat.intCast_neg]; grind
    exact cast_le.mp this
  · have : (Py.floor (b * 20) : Rat) ≤ ((20 : Int) : Rat) := by
      have := Py.floor_le (b * 20); simp; grind
    exact cast_le.mp this

/-- **Every mesh node is inside the permitted range**: the shift `s + j/20` of node `j`,
`lo ≤ j ≤ hi`, satisfies `-m ≤ s + j/20 ≤ m` — for every `m ≥ 0`, on or off the 1/20-pixel grid. -/
theorem mesh_in_range (m : Rat) (maxima mid j : Int)
    (hj1 : (meshBounds maxima mid m).1 ≤ j) (hj2 : j ≤ (meshBounds maxima mid m).2) :
    -m ≤ ((maxima - mid : Int) : Rat) + (j : Rat) / 20
      ∧ ((maxima - mid : Int) : Rat) + (j : Rat) / 20 ≤ m := by
  rw [meshBounds_nf] at hj1 hj2; simp only [meshBoundsNF] at hj1 hj2
  generalize hs : maxima - mid = s at *
  have hneg : (((-s : Int)) : Rat) = -(s : Rat) := by simp [Rat.intCast_neg]
  rw [hneg] at hj1 hj2
  generalize ha : Py.rmax (-(s : Rat) - m) (-1) = a at *
  generalize hb : Py.rmin (-(s : Rat) + m) 1 = b at *
  have ha1 : -(s : Rat) - m ≤ a := by rw [← ha]; unfold Py.rmax; split <;> grind
  have hb1 : b ≤ -(s : Rat) + m := by rw [← hb]; unfold Py.rmin; split <;> grind
  have e1 := Py.le_ceil (a * 20)
  have e2 := Py.floor_le (b * 20)
  have f1 : (Py.ceil (a * 20) : Rat) ≤ (j : Rat) := cast_le.mpr hj1
  have f2 : (j : Rat) ≤ (Py.floor (b * 20) : Rat) := cast_le.mpr hj2
  constructor <;> grind

/-- The shift returned by `upsample` is the integer peak displacement plus node `lo + local_maxima`
of the mesh, in units of 1/20 pixel. -/
theorem upsample_shift_formula (maxima n lm lo : Int) :
    upsampleShift maxima n lm (meshOffset lo)
      = ((maxima - n / 2 : Int) : Rat) + ((lo + lm : Int) : Rat) / 20 := by
  simp only [upsampleShift, meshOffset, Rat.intCast_add, Rat.div_def]
  grind

/-- **Range theorem for `upsample`** (ZNCC, NCC, FSC): whatever node the refinement arg-max picks,
the returned shift component lies in `[-m, m]`. -/
theorem upsample_in_range (m : Rat) (maxima n lm : Int)
    (h0 : 0 ≤ lm)
    (h1 : lm ≤ (meshBounds maxima (n / 2) m).2 - (meshBounds maxima (n / 2) m).1) :
    -m ≤ upsampleShift maxima n lm (meshOffset (meshBounds maxima (n / 2) m).1)
      ∧ upsampleShift maxima n lm (meshOffset (meshBounds maxima (n / 2) m).1) ≤ m := by
  rw [upsample_shift_formula]
  exact mesh_in_range m maxima (n / 2) _ (by omega) (by omega)

/-- **Mesh nodes stay inside the un-cropped response** for ZNCC/NCC: with `w = pad_width_eff` and an
integer peak inside the cropped landscape, every node coordinate lies in `[1, 2P - 3]`, at least one
voxel inside the response of side `2P - 1`; the fill value `cval = -1` is never sampled. -/
theorem mesh_inside_padded (m : Rat) (maxima j : Int) (hm : 0 ≤ m)
    (hmx0 : 0 ≤ maxima) (hmx1 : maxima ≤ 2 * Py.trunc m) (hj1 : -20 ≤ j) (hj2 : j ≤ 20) :
    let P := paddingWidth m
    let w := padWidthEff0 m (2 * P - 1)
    1 ≤ meshNode j maxima w ∧ meshNode j maxima w ≤ ((2 * P - 3 : Int) : Rat) := by
  have hp := pad_positive m hm
  simp only at hp ⊢
  obtain ⟨hw2, _, hw⟩ := hp
  generalize paddingWidth m = P at *
  generalize padWidthEff0 m (2 * P - 1) = w at *
  simp only [meshNode]
  have hjR1 : (-20 : Rat) ≤ (j : Rat) := by have := cast_le.mpr hj1; simpa [Rat.intCast_neg] using this
  have hjR2 : (j : Rat) ≤ 20 := by have := cast_le.mpr hj2; simpa using this
  have hwR : (2 : Rat) ≤ (w : Rat) := by have := cast_le.mpr hw2; simpa using this
  have hmR0 : (0 : Rat) ≤ (maxima : Rat) := by have := cast_le.mpr hmx0; simpa using this
  have h3 := Py.trunc_nonneg_of_nonneg m hm
  have hsum : maxima + w ≤ 2 * P - 4 := by omega
  have hsumR : (maxima : Rat) + (w : Rat) ≤ ((2 * P - 4 : Int) : Rat) := by
    have := cast_le.mpr hsum; simpa [Rat.intCast_add] using this
  have e : ((2 * P - 3 : Int) : Rat) = ((2 * P - 4 : Int) : Rat) + 1 := by
    simp [Rat.intCast_sub, Rat.intCast_mul]; grind
  rw [e, Rat.div_def]
  constructor <;> grind

/-! ## FSC -/

/-- The FSC landscape has side `2·ceil m + 1 ≥ 1`; entry `i` is the shift `i - ceil m`
(`_get_phase_1d` enumerates `range(-s, s+1)` with `s = size // 2 = ceil m`), and the midpoint used
by `upsample` is `ceil m`. -/
theorem fsc_shape (m : Rat) (hm : 0 ≤ m) :
    1 ≤ fscOutShape m ∧ fscPhaseRange (fscOutShape m) = (-(Py.ceil m), Py.ceil m + 1)
      ∧ fscOutShape m / 2 = Py.ceil m := by
  simp only [fscOutShape, fscPhaseRange]
  have h1 := Py.le_ceil m
  have : (0 : Int) ≤ Py.ceil m := by
    have : ((0 : Int) : Rat) ≤ (Py.ceil m : Rat) := by simp; grind
    exact cast_le.mp this
  refine ⟨by omega, ?_, by omega⟩
  have : (Py.ceil m * 2 + 1) / 2 = Py.ceil m := by omega
  rw [this]

/-! ## PCC -/

/-- **First crop** (FFT-ordered power spectrum, `l = r = int m`): for every `m ≥ 0` and box length
`N ≥ 1` the kept window `[lo, hi)` of the centred array is non-empty, inside the array, and lag zero
(index `N // 2`) sits at offset `(hi - lo) // 2`, which `ifftshift` moves to index 0. -/
theorem pcc_first_crop (l N : Int) (hl : 0 ≤ l) (hN : 1 ≤ N) :
    let r := pccCropBounds l l N
    0 ≤ r.2.1 ∧ r.2.1 < r.2.2 ∧ r.2.2 ≤ N ∧ r.1 - r.2.1 = (r.2.2 - r.2.1) / 2 := by
  simp only [pccCropBounds, Py.imax, Py.imin]
  split <;> split <;> omega

/-- The landscape variant keeps the same window. -/
theorem pcc_landscape_crop (m : Rat) (N : Int) (hm : 0 ≤ m) (hN : 1 ≤ N) :
    pccLandscapeBounds m m N = pccCropBounds (Py.trunc m) (Py.trunc m) N := rfl

/-- **PCC refinement stays in range and never indexes outside**: for the up-sampled region of size
`R = ceil(1.5 u)` centred at `dftshift`, every coarse shift `s` with `|s| ≤ m`, the kept slice
`[start, stop)` is non-empty and inside `[0, R)`, and for every index `k` in it the refined shift
`s + (k - dftshift)/u` lies in `[-m, m]`. -/
theorem pcc_refine_range (s m : Rat) (u k : Int) (hu : 1 ≤ u) (hs1 : -m ≤ s) (hs2 : s ≤ m) :
    let r := pccRefine s m u (pccRefine s m u 0).1
    0 ≤ r.2.2.1 ∧ r.2.2.1 < r.2.2.2 ∧ r.2.2.2 ≤ r.1
      ∧ (r.2.2.1 ≤ k → k < r.2.2.2 →
          -m ≤ pccRefineShift s (k - r.2.2.1) r.2.2.1 r.2.1 u
          ∧ pccRefineShift s (k - r.2.2.1) r.2.2.1 r.2.1 u ≤ m) := by
  simp only [pccRefine, pccRefineShift]
  have huR : (1 : Rat) ≤ (u : Rat) := by have := cast_le.mpr hu; simpa using this
  generalize hR : Py.ceil ((u : Rat) * (3 / 2)) = R
  have hR1 : (3 : Rat) / 2 ≤ (R : Rat) := by
    have := Py.le_ceil ((u : Rat) * (3 / 2)); rw [hR] at this; grind
  have hR2 : 2 ≤ R := by
    have : ((1 : Int) : Rat) < (R : Rat) := by simp; grind
    have := cast_lt.mp this; omega
  have hRR : (2 : Rat) ≤ (R : Rat) := by have := cast_le.mpr hR2; simpa using this
  generalize hc : Py.trunc ((R : Rat) / 2) = c
  have hc1 := Py.trunc_le_of_nonneg ((R : Rat) / 2) (by grind)
  have hc2 := Py.trunc_gt ((R : Rat) / 2)
  rw [hc] at hc1 hc2
  have hc3 : 1 ≤ c := by
    have : ((0 : Int) : Rat) < (c : Rat) := by simp; grind
    have := cast_lt.mp this; omega
  have hc4 : c < R := by
    have : (c : Rat) < (R : Rat) := by grind
    exact cast_lt.mp this
  rw [Py.trunc_intCast]
  generalize hL : Py.trunc ((s + m) * (u : Rat)) = L
  generalize hRr : Py.trunc ((m - s) * (u : Rat)) = Rr
  have hl0 : (0 : Rat) ≤ (s + m) * (u : Rat) := Rat.mul_nonneg (by grind) (by grind)
  have hr0 : (0 : Rat) ≤ (m - s) * (u : Rat) := Rat.mul_nonneg (by grind) (by grind)
  have hL0 := Py.trunc_nonneg_of_nonneg _ hl0
  have hL1 := Py.trunc_le_of_nonneg _ hl0
  have hR0 := Py.trunc_nonneg_of_nonneg _ hr0
  have hRr1 := Py.trunc_le_of_nonneg _ hr0
  rw [hL] at hL0 hL1
  rw [hRr] at hR0 hRr1
  simp only [Py.imax, Py.imin]
  refine ⟨by split <;> omega, by split <;> split <;> omega, by split <;> omega, ?_⟩
  intro hk1 hk2
  have hkL : c - L ≤ k := by
    have : (if c - L ≤ 0 then (0 : Int) else c - L) ≤ k := hk1
    split at this <;> omega
  have hkR : k ≤ c + Rr := by
    have : k < (if c + Rr + 1 ≤ R then c + Rr + 1 else R) := hk2
    split at this <;> omega
  have hkLR : (c : Rat) - (L : Rat) ≤ (k : Rat) := by
    have := cast_le.mpr hkL; simpa [Rat.intCast_sub] using this
  have hkRR : (k : Rat) ≤ (c : Rat) + (Rr : Rat) := by
    have := cast_le.mpr hkR; simpa [Rat.intCast_add] using this
  have hsub : ((k - (if c - L ≤ 0 then (0 : Int) else c - L) : Int) : Rat)
      + (((if c - L ≤ 0 then (0 : Int) else c - L) : Int) : Rat) = (k : Rat) := by
    simp [Rat.intCast_sub]; grind
  rw [hsub]
  have hupos : (0 : Rat) < (u : Rat) := by grind
  have hdiv1 : ((k : Rat) - (c : Rat)) / (u : Rat) ≤ m - s :=
    (Py.div_le_iff hupos).mpr (by grind)
  have hdiv2 : -(s + m) ≤ ((k : Rat) - (c : Rat)) / (u : Rat) :=
    (Py.le_div_iff hupos).mpr (by grind)
  constructor <;> grind

/-! ## units along the loader entry points -/

/-- `align`, `align_multi_templates` and `construct_landscape` normalise `max_shifts` once (nm),
convert it to pixels exactly once (`/ scale`, `alignMaxShiftsPx`), give the pixel value to the
alignment model and the nm value to the loader methods that convert themselves. -/
theorem units_flow : Gen.maxShiftsUnitsFlow = true := by decide

/- The nm ↔ px equivalence `|s| ≤ alignMaxShiftsPx mx σ ↔ |postAlignShiftNm s σ| ≤ mx` is
`C01.unit_conversion`. -/

end C05
