import AcryoVerif.Model.Pca
import AcryoVerif.Lemmas.PyLemmas
import Mathlib.Data.Matrix.ColumnRowPartitioned
import Mathlib.Data.Matrix.Diagonal
import Mathlib.Algebra.BigOperators.Group.Finset.Basic
import Mathlib.Algebra.BigOperators.Ring.Finset
import Mathlib.Data.List.Perm.Basic
import Mathlib.Tactic.Ring
import Mathlib.Tactic.FieldSimp
import Mathlib.Tactic.Linarith

/-!
# C18 — PCA classification matches exact PCA and labels stay attached to their molecules

What is proved (for every stack, mask, chunking, number of components):

* `source_structure`: the shape of `PcaClassifier`, `DaskPCA._fit/transform` and `classify` the model
  stands for (read from the AST on every run);
* `classifier_solver_exact` / `solver_accepts`: the solver that `PcaClassifier` configures is never the
  randomized one, for every `(n_samples, n_features, n_components)`; it is accepted exactly when
  `0 ≤ n_components ≤ min(n_samples, n_features)`;
* `ravel_unravel`, `unravel_ravel`: flattening is a bijection between voxels and columns
  (`get_bases` reshapes components back to images);
* `colSums_append`, `gram_append`, `colSums_perm`, `gram_perm`, `stats_chunk_free`,
  `centred_gram_formula`: the statistics an exact PCA is a function of do not depend on how the rows are
  cut into chunks or in which order the chunks are reduced;
* `tsqr_gram`, `tsqr_gram_blocks`: the `R` factors of the per-chunk QR decompositions, stacked, have the
  Gram matrix of the whole data (the tall-skinny QR behind `da.linalg.svd` is exact for every chunking);
* `svd_eigen`, `svd_projection`, `svd_sign_free`: singular vectors / values returned by an SVD are
  eigenvectors / square roots of eigenvalues of that Gram matrix, projections of the fitted data are
  `U·S`, and flipping the sign of a component together with its left vector is again an SVD;
* `transform_rowwise`, `transform_length`, `transform_sign`: projection `i` depends on image `i` only and
  the projections come in stack order; flipping a component flips that coordinate;
* `label_column`, `label_other_columns`, `label_height`: `classify` adds one column holding
  `labels[i]` in row `i` and leaves every other column as it was.

Not proved: floating-point accuracy of LAPACK's SVD and the behaviour of scikit-learn's k-means
("clearly separated groups get distinct clusters") — sampled by the oracle.
-/

namespace C18
open Py Gen Model

/-! ## structure of the source -/

theorem source_structure :
    pcaFitStructure = true ∧ pcaTransformStructure = true ∧ pcaClassifierStructure = true ∧
    pcaFlatSingleColumnChunk = true ∧ classifyLabelWriteBack = true := by decide

/-! ## solver choice -/

/-- the solver argument `PcaClassifier` ends up with -/
def classifierSolver : String := pcaClassifierSolverArg

/-- **No approximation**: whatever the numbers of images, voxels and components, the PCA that
`PcaClassifier` configures runs an exact SVD (`full`/`tsqr` → `da.linalg.svd`), never
`svd_compressed`. -/
theorem classifier_solver_exact (ns nf nc : Int) (kn : Bool) (s : String)
    (h : getSolver ns nf nc classifierSolver kn = .ok s) : s = "full" ∨ s = "tsqr" := by
  unfold getSolver classifierSolver pcaClassifierSolverArg at h
  simp only [bind, Except.bind, pure, Except.pure, throw, throwThe, MonadExceptOf.throw] at h
  simp (config := { decide := true }) at h
  grind

/-- ... and that solver accepts exactly `0 ≤ n_components ≤ min(n_samples, n_features)`. -/
theorem solver_accepts (ns nf nc : Int) (kn : Bool) :
    (∃ s, getSolver ns nf nc classifierSolver kn = .ok s) ↔ (0 ≤ nc ∧ nc ≤ ns ∧ nc ≤ nf) := by
  unfold getSolver classifierSolver pcaClassifierSolverArg
  simp only [bind, Except.bind, pure, Except.pure, throw, throwThe, MonadExceptOf.throw]
  simp (config := { decide := true })
  unfold Py.imin
  by_cases hc : (nc ≤ if ns ≤ nf then ns else nf) → nc < 0
  · rw [if_pos hc]
    constructor
    · rintro ⟨s, hs⟩; cases hs
    · intro h; exfalso; split at hc <;> omega
  · rw [if_neg hc]
    constructor
    · intro _; split at hc <;> omega
    · intro _; exact ⟨_, rfl⟩

/-- What the `auto` policy copied from dask-ml would do (the reason `PcaClassifier` must not rely on
it): more than 500 images or voxels and few components select the randomized solver. -/
theorem auto_is_randomized_for_large (ns nf nc : Int) (hbig : 500 < ns ∨ 500 < nf)
    (h1 : 1 ≤ nc) (h2 : 5 * nc < 4 * ns) (h3 : 5 * nc < 4 * nf) :
    getSolver ns nf nc "auto" true = .ok "randomized" := by
  unfold getSolver
  simp only [bind, Except.bind, pure, Except.pure, throw, throwThe, MonadExceptOf.throw]
  simp (config := { decide := true })
  have hmax : ¬ (Py.imax ns nf ≤ 500) := by unfold Py.imax; grind
  have hq : ((nc : Int) : Rat) < (4 : Rat) / 5 * ((Py.imin ns nf : Int) : Rat) := by
    have : (5 : Rat) * (nc : Rat) < 4 * ((Py.imin ns nf : Int) : Rat) := by
      have hi : 5 * nc < 4 * Py.imin ns nf := by unfold Py.imin; grind
      exact_mod_cast hi
    linarith
  have hmin : Py.imin ns nf ≥ nc := by unfold Py.imin; grind
  simp [hmax, h1, hq, hmin]

/-! ## flattening -/

theorem ravel_unravel (Y X i : Int) (hX : 0 < X) :
    let (z, y, x) := unravel Y X i
    ravel Y X z y x = i := by
  simp only [unravel, ravel]
  have h1 : i / (Y * X) = i / X / Y := by
    rw [Int.mul_comm, Int.ediv_ediv_of_nonneg (Int.le_of_lt hX)]
  rw [h1]
  have h2 := Int.mul_ediv_add_emod (i / X) Y
  have h3 := Int.mul_ediv_add_emod i X
  calc (i / X / Y * Y + i / X % Y) * X + i % X = (Y * (i / X / Y) + i / X % Y) * X + i % X := by ring
    _ = (i / X) * X + i % X := by rw [h2]
    _ = X * (i / X) + i % X := by ring
    _ = i := h3

theorem unravel_ravel (Y X z y x : Int) (hy0 : 0 ≤ y) (hy : y < Y) (hx0 : 0 ≤ x) (hx : x < X) :
    unravel Y X (ravel Y X z y x) = (z, y, x) := by
  have hX : 0 < X := by omega
  have hY : 0 < Y := by omega
  have hdiv : ((z * Y + y) * X + x) / X = z * Y + y := by
    rw [Int.add_comm, Int.add_mul_ediv_right _ _ (by omega), Int.ediv_eq_zero_of_lt hx0 hx]; simp
  have hmod : ((z * Y + y) * X + x) % X = x := by
    rw [Int.add_comm, Int.add_mul_emod_self_right, Int.emod_eq_of_lt hx0 hx]
  simp only [unravel, ravel, hmod]
  have h1 : ((z * Y + y) * X + x) / (Y * X) = z := by
    rw [Int.mul_comm Y X, ← Int.ediv_ediv_of_nonneg (Int.le_of_lt hX), hdiv]
    rw [Int.add_comm, Int.add_mul_ediv_right _ _ (by omega), Int.ediv_eq_zero_of_lt hy0 hy]; simp
  have h2 : (z * Y + y) % Y = y := by
    rw [Int.add_comm, Int.add_mul_emod_self_right, Int.emod_eq_of_lt hy0 hy]
  rw [h1, hdiv, h2]

/-- row `i` of the flat stack is image `i` times the mask, whatever the other images are -/
theorem flat_row (mask : List Rat) (imgs : Mat) (i : Nat) :
    (flatStack mask imgs)[i]? = (imgs[i]?).map fun r => List.zipWith (· * ·) r mask := by
  simp [flatStack]

/-! ## the statistics of an exact PCA are chunk-free -/

theorem rsum_append (a b : List Rat) : rsum (a ++ b) = rsum a + rsum b := by
  induction a with
  | nil => simp [rsum]
  | cons x xs ih =>
    simp only [rsum, List.cons_append, List.foldr_cons] at *
    rw [ih]; ring

theorem rsum_perm {a b : List Rat} (h : a.Perm b) : rsum a = rsum b := by
  induction h with
  | nil => rfl
  | cons x _ ih => simp only [rsum, List.foldr_cons] at *; rw [ih]
  | swap x y l => simp only [rsum, List.foldr_cons]; ring
  | trans _ _ ih1 ih2 => rw [ih1, ih2]

theorem colSums_append (nf : Nat) (A B : Mat) :
    colSums nf (A ++ B) = List.zipWith (· + ·) (colSums nf A) (colSums nf B) := by
  apply List.ext_getElem
  · simp [colSums]
  · intro j h1 h2
    simp [colSums, col, rsum_append]

theorem gramEntry_append (A B : Mat) (j k : Nat) :
    gramEntry (A ++ B) j k = gramEntry A j k + gramEntry B j k := by
  simp [gramEntry, rsum_append]

theorem colSums_perm (nf : Nat) {A B : Mat} (h : A.Perm B) : colSums nf A = colSums nf B := by
  unfold colSums col
  apply List.map_congr_left
  intro j _
  exact rsum_perm (h.map _)

theorem gramEntry_perm {A B : Mat} (h : A.Perm B) (j k : Nat) : gramEntry A j k = gramEntry B j k :=
  rsum_perm (h.map _)

theorem gram_perm (nf : Nat) {A B : Mat} (h : A.Perm B) : gram nf A = gram nf B := by
  unfold gram
  apply List.map_congr_left
  intro j _
  apply List.map_congr_left
  intro k _
  exact gramEntry_perm h j k

/-- **Every chunking, every reduction order**: two ways of cutting the stack into row chunks whose
concatenations hold the same images (in any order) give the same number of rows, column sums and
Gram matrix — hence the same mean, centred Gram matrix, principal axes and singular values. -/
theorem stats_chunk_free (nf : Nat) (chunks₁ chunks₂ : List Mat) (h : chunks₁.flatten.Perm chunks₂.flatten) :
    chunks₁.flatten.length = chunks₂.flatten.length ∧
    colSums nf chunks₁.flatten = colSums nf chunks₂.flatten ∧
    gram nf chunks₁.flatten = gram nf chunks₂.flatten :=
  ⟨h.length_eq, colSums_perm nf h, gram_perm nf h⟩

/-- per-chunk partial results add up: the Gram entry of the whole stack is the sum over chunks -/
theorem gramEntry_chunks (chunks : List Mat) (j k : Nat) :
    gramEntry chunks.flatten j k = rsum (chunks.map fun c => gramEntry c j k) := by
  induction chunks with
  | nil => simp [gramEntry, rsum]
  | cons c cs ih =>
    simp only [List.flatten_cons, gramEntry_append, ih, List.map_cons, rsum, List.foldr_cons]

theorem sum_centred (rows : List (Rat × Rat)) (c d : Rat) :
    rsum (rows.map fun p => (p.1 - c) * (p.2 - d)) =
      rsum (rows.map fun p => p.1 * p.2) - c * rsum (rows.map (·.2)) - d * rsum (rows.map (·.1))
        + (rows.length : Rat) * c * d := by
  induction rows with
  | nil => simp [rsum]
  | cons p ps ih =>
    simp only [List.map_cons, rsum, List.foldr_cons, List.length_cons] at *
    rw [ih]; push_cast; ring

/-- the centred Gram matrix is a function of `(n, column sums, Gram matrix)`:
`Σ (x_ij - μ_j)(x_ik - μ_k) = Σ x_ij x_ik - (Σ x_ij)(Σ x_ik)/n`. -/
theorem centred_gram_formula (nf : Nat) (X : Mat) (j k : Nat) (hj : j < nf) (hk : k < nf) (hn : X ≠ []) :
    centredGramEntry nf X j k =
      gramEntry X j k - rsum (col X j) * rsum (col X k) / (X.length : Rat) := by
  have hn' : (X.length : Rat) ≠ 0 := by
    have : X.length ≠ 0 := by simpa using hn
    exact_mod_cast this
  unfold centredGramEntry gramEntry
  have hmu : ∀ i, i < nf → (colMeans nf X).getD i 0 = rsum (col X i) / (X.length : Rat) := by
    intro i hi
    simp [colMeans, colSums, hi]
  simp only [hmu j hj, hmu k hk]
  have := sum_centred (X.map fun r => (r.getD j 0, r.getD k 0)) (rsum (col X j) / X.length) (rsum (col X k) / X.length)
  simp only [List.map_map, Function.comp_def, List.length_map] at this
  rw [this]
  simp only [col]
  field_simp
  ring

/-! ## tall-skinny QR and SVD (Mathlib matrices over ℚ) -/

section matrices
open Matrix

variable {m m₁ m₂ n k ι : Type} [Fintype m] [Fintype m₁] [Fintype m₂] [Fintype n] [Fintype k] [Fintype ι]
  [DecidableEq m] [DecidableEq m₁] [DecidableEq m₂] [DecidableEq n] [DecidableEq k]

omit [DecidableEq m₁] [DecidableEq m₂] [DecidableEq n] [Fintype n] in
theorem gram_fromRows (A : Matrix m₁ n ℚ) (B : Matrix m₂ n ℚ) :
    (fromRows A B)ᵀ * fromRows A B = Aᵀ * A + Bᵀ * B := by
  rw [transpose_fromRows, fromCols_mul_fromRows]

omit [DecidableEq n] [DecidableEq m] [Fintype n] in
/-- one chunk: `A = Q R` with orthonormal columns of `Q` ⇒ `RᵀR = AᵀA` -/
theorem qr_gram (A : Matrix m n ℚ) (Q : Matrix m k ℚ) (R : Matrix k n ℚ)
    (hA : A = Q * R) (hQ : Qᵀ * Q = 1) : Rᵀ * R = Aᵀ * A := by
  subst hA
  rw [transpose_mul, Matrix.mul_assoc, ← Matrix.mul_assoc Qᵀ, hQ, Matrix.one_mul]

omit [DecidableEq n] [DecidableEq m₁] [DecidableEq m₂] [Fintype n] in
/-- **tsqr, two chunks**: stacking the `R` factors of the chunks gives a matrix with the Gram matrix of
the stacked data, so its singular values and right singular vectors are those of the data. -/
theorem tsqr_gram (A₁ : Matrix m₁ n ℚ) (A₂ : Matrix m₂ n ℚ) (Q₁ : Matrix m₁ k ℚ) (Q₂ : Matrix m₂ k ℚ)
    (R₁ R₂ : Matrix k n ℚ) (h₁ : A₁ = Q₁ * R₁) (h₂ : A₂ = Q₂ * R₂) (o₁ : Q₁ᵀ * Q₁ = 1) (o₂ : Q₂ᵀ * Q₂ = 1) :
    (fromRows R₁ R₂)ᵀ * fromRows R₁ R₂ = (fromRows A₁ A₂)ᵀ * fromRows A₁ A₂ := by
  rw [gram_fromRows, gram_fromRows, qr_gram A₁ Q₁ R₁ h₁ o₁, qr_gram A₂ Q₂ R₂ h₂ o₂]

omit [DecidableEq n] [DecidableEq m] [Fintype ι] [Fintype n] in
/-- **tsqr, any number of chunks** (`ι` indexes the chunks, all of them written over the same row type):
the Gram matrices of the `R` factors add up to those of the chunks. -/
theorem tsqr_gram_blocks (s : Finset ι) (A : ι → Matrix m n ℚ) (Q : ι → Matrix m k ℚ) (R : ι → Matrix k n ℚ)
    (h : ∀ i, A i = Q i * R i) (o : ∀ i, (Q i)ᵀ * Q i = 1) :
    ∑ i ∈ s, (R i)ᵀ * R i = ∑ i ∈ s, (A i)ᵀ * A i :=
  Finset.sum_congr rfl fun i _ => qr_gram (A i) (Q i) (R i) (h i) (o i)

omit [DecidableEq m] [DecidableEq n] in
/-- rows of `Vt` are eigenvectors of the Gram matrix with eigenvalues `s²` -/
theorem svd_eigen (X : Matrix m n ℚ) (U : Matrix m k ℚ) (s : k → ℚ) (Vt : Matrix k n ℚ)
    (hX : X = U * diagonal s * Vt) (hU : Uᵀ * U = 1) (hV : Vt * Vtᵀ = 1) :
    (Xᵀ * X) * Vtᵀ = Vtᵀ * diagonal (fun i => s i * s i) := by
  subst hX
  simp only [transpose_mul, diagonal_transpose, Matrix.mul_assoc]
  rw [hV, Matrix.mul_one, ← Matrix.mul_assoc Uᵀ, hU, Matrix.one_mul, diagonal_mul_diagonal]

omit [DecidableEq m] [DecidableEq n] [Fintype m] in
/-- `fit_transform`/`transform` of the fitted data: `X Vtᵀ = U S` -/
theorem svd_projection (X : Matrix m n ℚ) (U : Matrix m k ℚ) (s : k → ℚ) (Vt : Matrix k n ℚ)
    (hX : X = U * diagonal s * Vt) (hV : Vt * Vtᵀ = 1) : X * Vtᵀ = U * diagonal s := by
  subst hX
  rw [Matrix.mul_assoc, hV, Matrix.mul_one]

omit [DecidableEq m] [DecidableEq n] [Fintype m] [Fintype n] in
/-- the sign of each component is free: flipping component `i` and left vector `i` is again an SVD with
the same singular values (this is the "up to the sign of each component" of the statement) -/
theorem svd_sign_free (X : Matrix m n ℚ) (U : Matrix m k ℚ) (s : k → ℚ) (Vt : Matrix k n ℚ) (e : k → ℚ)
    (he : ∀ i, e i * e i = 1) (hX : X = U * diagonal s * Vt) :
    X = (U * diagonal e) * diagonal s * (diagonal e * Vt) := by
  subst hX
  have : diagonal e * diagonal s * diagonal e = diagonal s := by
    rw [diagonal_mul_diagonal, diagonal_mul_diagonal]
    congr 1; funext i
    calc e i * s i * e i = s i * (e i * e i) := by ring
      _ = s i := by rw [he i, mul_one]
  calc U * diagonal s * Vt = U * (diagonal e * diagonal s * diagonal e) * Vt := by rw [this]
    _ = (U * diagonal e) * diagonal s * (diagonal e * Vt) := by simp only [Matrix.mul_assoc]

end matrices

/-! ## projections -/

theorem transform_length (mean : List Rat) (comps X : Mat) : (transform mean comps X).length = X.length := by
  simp [transform]

/-- projection `i` is a function of image `i` alone (and of the fitted mean / components): the
projections, and the k-means labels computed from them row by row, are in stack order. -/
theorem transform_rowwise (mean : List Rat) (comps X : Mat) (i : Nat) :
    (transform mean comps X)[i]? = (X[i]?).map fun r => comps.map fun c => dot (vsub r mean) c := by
  simp [transform]

theorem rsum_neg (l : List Rat) : rsum (l.map (- ·)) = - rsum l := by
  induction l with
  | nil => simp [rsum]
  | cons x xs ih => simp only [List.map_cons, rsum, List.foldr_cons] at *; rw [ih]; ring

/-- flipping the sign of a component flips that coordinate of every projection -/
theorem dot_neg (a c : List Rat) : dot a (c.map (- ·)) = - dot a c := by
  unfold dot
  have : List.zipWith (· * ·) a (c.map (- ·)) = (List.zipWith (· * ·) a c).map (- ·) := by
    induction a generalizing c with
    | nil => simp
    | cons x xs ih =>
      cases c with
      | nil => simp
      | cons y ys => simp [ih]
  rw [this, rsum_neg]

theorem transform_sign (mean : List Rat) (c : List Rat) (X : Mat) :
    transform mean [c.map (- ·)] X = (transform mean [c] X).map (·.map (- ·)) := by
  simp [transform, dot_neg]

/-! ## label write-back -/

theorem lookup_map_replace {χ : Type} (name : String) (vals : List χ) (df : Frame χ)
    (h : df.any (fun c => c.1 = name) = true) :
    lookupCol name (df.map fun c => if c.1 = name then (name, vals) else c) = some vals := by
  induction df with
  | nil => simp at h
  | cons c cs ih =>
    simp only [List.map_cons, lookupCol]
    by_cases hc : c.1 = name
    · simp [hc]
    · simp only [hc, if_false]
      apply ih
      simpa [hc] using h

theorem lookup_append_new {χ : Type} (name : String) (vals : List χ) (df : Frame χ)
    (h : df.any (fun c => c.1 = name) = false) : lookupCol name (df ++ [(name, vals)]) = some vals := by
  induction df with
  | nil => simp [lookupCol]
  | cons c cs ih =>
    simp only [List.any_cons, Bool.or_eq_false_iff, decide_eq_false_iff_not] at h
    simp only [List.cons_append, lookupCol, h.1, if_false]
    exact ih h.2

/-- the label column holds exactly the labels, in row order -/
theorem label_column {χ : Type} (name : String) (labels : List χ) (df out : Frame χ)
    (h : withColumn name labels df = .ok out) : lookupCol name out = some labels := by
  unfold withColumn at h
  cases df with
  | nil =>
    simp only [pure, Except.pure, Except.ok.injEq] at h
    subst h; simp [lookupCol]
  | cons c0 cs =>
    simp only at h
    split at h
    · cases h
    · split at h
      · rename_i hany
        simp only [pure, Except.pure, Except.ok.injEq] at h
        subst h
        exact lookup_map_replace name labels _ hany
      · rename_i hany
        simp only [pure, Except.pure, Except.ok.injEq] at h
        subst h
        have hf : (c0 :: cs).any (fun c => c.1 = name) = false := by
          cases hb : (c0 :: cs).any (fun c => c.1 = name) with
          | true => exact absurd hb hany
          | false => rfl
        exact lookup_append_new name labels _ hf

/-- every other column is untouched -/
theorem label_other_columns {χ : Type} (name other : String) (labels : List χ) (df out : Frame χ)
    (hne : other ≠ name) (h : withColumn name labels df = .ok out) :
    lookupCol other out = lookupCol other df := by
  unfold withColumn at h
  cases df with
  | nil =>
    simp only [pure, Except.pure, Except.ok.injEq] at h
    subst h; simp [lookupCol, Ne.symm hne]
  | cons c0 cs =>
    simp only at h
    split at h
    · cases h
    · split at h
      · simp only [pure, Except.pure, Except.ok.injEq] at h
        subst h
        generalize (c0 :: cs) = l
        induction l with
        | nil => rfl
        | cons c cs ih =>
          simp only [List.map_cons, lookupCol]
          by_cases hc : c.1 = name
          · have : c.1 ≠ other := by rw [hc]; exact Ne.symm hne
            simp [hc, Ne.symm hne, ih]
          · simp [hc, ih]
      · simp only [pure, Except.pure, Except.ok.injEq] at h
        subst h
        generalize (c0 :: cs) = l
        induction l with
        | nil => simp [lookupCol, Ne.symm hne]
        | cons c cs ih =>
          simp only [List.cons_append, lookupCol]
          split
          · rfl
          · exact ih

/-- a label vector of the wrong length is rejected, so an accepted one has one label per molecule -/
theorem label_height {χ : Type} (name : String) (labels : List χ) (c0 : String × List χ) (cs out : Frame χ)
    (h : withColumn name labels (c0 :: cs) = .ok out) : labels.length = c0.2.length := by
  unfold withColumn at h
  simp only at h
  split at h
  · cases h
  · rename_i hlen
    simpa using hlen

/-- non-vacuity: a frame with two feature columns and three molecules -/
example : withColumn "cluster" [1, 0, 1] [("score", [5, 6, 7]), ("n", [1, 2, 3])] =
    .ok [("score", [5, 6, 7]), ("n", [1, 2, 3]), ("cluster", [1, 0, 1])] := by decide

example : getSolver 600 64 2 classifierSolver true = .ok "full" := by decide

end C18
