import AcryoVerif.Lemmas.PyLemmas
import AcryoVerif.Model.Crop

/-!
# C02 — Subtomograms sample the tomogram on the molecule's local grid

Theorems about the generated kernels `Gen.makeSliceAndPad`, `Gen.prepareAffineAxis`,
`Gen.cornerSafeAxis` (regenerated from `/repo/acryo/_utils.py` on every run) and the hand-written
`Model.cropAxis`. Interpolation itself (scipy) is a trusted parameter.
-/

namespace C02
open Py Gen Model

/-! ## slice / pad arithmetic and out-of-bound detection -/

/-- Shape of a successful result: the slice lies in `[0, N)`, paddings are non-negative and the
padded crop has exactly the requested length. -/
theorem slice_ok (z0 z1 N a b p0 p1 : Int) (oob : Bool) (hN : 0 ≤ N) (hw : z0 < z1)
    (h : makeSliceAndPad z0 z1 N = .ok ((a, b), (p0, p1), oob)) :
    0 ≤ a ∧ b ≤ N ∧ a ≤ b ∧ 0 ≤ p0 ∧ 0 ≤ p1 ∧ (b - a) + p0 + p1 = z1 - z0 := by
  unfold makeSliceAndPad at h
  simp only [bind, Except.bind, pure, Except.pure, throw, throwThe, MonadExceptOf.throw] at h
  grind

/-- A window that overlaps the tomogram never yields an empty slice: the crop contains at least
one real voxel, so the `mean` padding value is the mean of a non-empty finite block. -/
theorem slice_nonempty (z0 z1 N a b p0 p1 : Int) (oob : Bool) (hN : 0 < N) (hw : z0 < z1)
    (h : makeSliceAndPad z0 z1 N = .ok ((a, b), (p0, p1), oob)) : a < b := by
  unfold makeSliceAndPad at h
  simp only [bind, Except.bind, pure, Except.pure, throw, throwThe, MonadExceptOf.throw] at h
  grind

/-- The out-of-bound error is raised exactly when the window `[z0, z1)` does not meet `[0, N)`. -/
theorem slice_error_iff (z0 z1 N : Int) (hN : 0 < N) (hw : z0 < z1) :
    makeSliceAndPad z0 z1 N = .error PyErr.oob ↔ (N ≤ z0 ∨ z1 ≤ 0) := by
  unfold makeSliceAndPad
  simp only [bind, Except.bind, pure, Except.pure, throw, throwThe, MonadExceptOf.throw]
  grind

/-- No other error is ever produced. -/
theorem slice_error_kind (z0 z1 N : Int) (e : PyErr)
    (h : makeSliceAndPad z0 z1 N = .error e) : e = PyErr.oob := by
  unfold makeSliceAndPad at h
  simp only [bind, Except.bind, pure, Except.pure, throw, throwThe, MonadExceptOf.throw] at h
  grind

/-- The `out_of_bound` flag says whether padding is needed. -/
theorem slice_flag (z0 z1 N a b p0 p1 : Int) (oob : Bool)
    (h : makeSliceAndPad z0 z1 N = .ok ((a, b), (p0, p1), oob)) :
    oob = true ↔ (p0 ≠ 0 ∨ p1 ≠ 0) := by
  unfold makeSliceAndPad at h
  simp only [bind, Except.bind, pure, Except.pure, throw, throwThe, MonadExceptOf.throw] at h
  grind

/-- the clipped slice and the paddings, explicitly -/
theorem slice_values (z0 z1 N a b p0 p1 : Int) (oob : Bool)
    (h : makeSliceAndPad z0 z1 N = .ok ((a, b), (p0, p1), oob)) :
    a = max z0 0 ∧ b = min z1 N ∧ p0 = a - z0 ∧ p1 = z1 - b ∧ (oob = false → p0 = 0 ∧ p1 = 0) := by
  unfold makeSliceAndPad at h
  simp only [bind, Except.bind, pure, Except.pure, throw, throwThe, MonadExceptOf.throw] at h
  grind

-- non-vacuity: a window straddling the upper face
example : makeSliceAndPad 7 12 10 = .ok ((7, 10), (0, 2), true) := by rfl

/-! ## the crop window of `prepare_affine` -/

/-! Normal forms of the regenerated kernel. The theorems below are stated through these three facts, so a
re-ordering of terms in the source (`margin + int(2*order + x0 + s + 1)`, …) only has to get past them. -/

theorem paa_x0 (c : Rat) (s order : Int) :
    (prepareAffineAxis c s order).1 = Py.trunc (c - (s : Rat) / 2 - (order : Rat)) := by
  simp only [prepareAffineAxis] <;> first | rfl | (congr 1; grind)

theorem paa_x1 (c : Rat) (s order : Int) :
    (prepareAffineAxis c s order).2.1
      = (prepareAffineAxis c s order).1 + s + 2 * order + 1 + (if order = 0 then 1 else 0) := by
  simp only [prepareAffineAxis] <;> omega

theorem paa_newc (c : Rat) (s order : Int) :
    (prepareAffineAxis c s order).2.2 = c - (((prepareAffineAxis c s order).1 : Int) : Rat) := by
  simp only [prepareAffineAxis] <;> first | rfl | grind

/-- The window has `s + 2·order + 1` voxels, one more for nearest-neighbour sampling (`order = 0`). -/
theorem window_width (c : Rat) (s order : Int) :
    (prepareAffineAxis c s order).2.1 - (prepareAffineAxis c s order).1
      = s + 2 * order + 1 + (if order = 0 then 1 else 0) := by
  simp only [prepareAffineAxis]; omega

/-- **Coordinate rule.** The tomogram coordinate sampled for an output voxel whose rotated offset
from the box centre has component `v` on this axis is `c + v`, whatever the window origin `x0` is
(so truncating a negative `x0` toward zero is harmless). With `v = (R (k - (n-1)/2))_axis` this is
`pos/scale + R (k - (shape-1)/2)`. -/
theorem coordinate_rule (c v : Rat) (s order : Int) :
    let w := prepareAffineAxis c s order
    (w.1 : Rat) + (w.2.2 + v) = c + v := by
  simp only [prepareAffineAxis]; grind

theorem output_center (s : Int) : prepareAffineOutputCenter s = ((s : Rat) - 1) / 2 := by
  simp only [prepareAffineOutputCenter]; grind

/-- **Window margins (scipy semantics).** `affine_transform(mode="constant")` returns the fill
value for every coordinate outside `[0, len-1]` of the crop, so what matters is how far a sampled
coordinate `t` (offset from the molecule centre at most `(s-1)/2` on this axis: the whole box for
the identity orientation, the inscribed ball for any orientation) stays inside the window
`[x0, x1-1]`: at least `order + 1/2` above `x0` (or `x0 ≤ 0`, where the tomogram ends anyway) and
more than `order - 1/2` below `x1 - 1`. -/
theorem window_margin (c t : Rat) (s order : Int)
    (ht1 : c - ((s : Rat) - 1) / 2 ≤ t) (ht2 : t ≤ c + ((s : Rat) - 1) / 2) :
    (((prepareAffineAxis c s order).1 : Rat) + (order : Rat) + 1 / 2 ≤ t
        ∨ (prepareAffineAxis c s order).1 ≤ 0)
    ∧ t + (order : Rat) - 1 / 2 < (((prepareAffineAxis c s order).2.1 : Int) : Rat) - 1 := by
  rw [paa_x1, paa_x0]
  generalize hq : (c - (s : Rat) / 2 - (order : Rat)) = q
  have h1 := Py.trunc_gt q
  have h2 := Py.trunc_le_max q
  have hM : (0 : Int) ≤ (if order = 0 then (1 : Int) else 0) := by split <;> omega
  generalize (if order = 0 then (1 : Int) else 0) = mg at *
  have hX : (((Py.trunc q + s + 2 * order + 1 + mg : Int)) : Rat)
        = (Py.trunc q : Rat) + (s : Rat) + 2 * (order : Rat) + 1 + (mg : Rat) := by
      simp [Rat.intCast_add, Rat.intCast_mul]
  have hMq : (0 : Rat) ≤ (mg : Rat) := by exact_mod_cast hM
  constructor
  · rcases h2 with h2 | h2
    · left; grind
    · right; exact h2
  · rw [hX]; grind

/-- For linear and cubic interpolation (`order ≥ 1`) the sampled coordinate and its whole
interpolation support (`order + 1` neighbours) lie strictly inside the window. -/
theorem window_covers (c t : Rat) (s order i : Int) (ho : 1 ≤ order)
    (ht1 : c - ((s : Rat) - 1) / 2 ≤ t) (ht2 : t ≤ c + ((s : Rat) - 1) / 2)
    (hi0 : 0 ≤ i)
    (hi1 : t - ((order : Rat) + 1) / 2 ≤ (i : Rat)) (hi2 : (i : Rat) ≤ t + ((order : Rat) + 1) / 2) :
    (prepareAffineAxis c s order).1 ≤ i ∧ i < (prepareAffineAxis c s order).2.1
      ∧ t < (((prepareAffineAxis c s order).2.1 : Int) : Rat) - 1 := by
  have hm := window_margin c t s order ht1 ht2
  have hO : (1 : Rat) ≤ (order : Rat) := by exact_mod_cast ho
  have hI : (0 : Rat) ≤ (i : Rat) := by exact_mod_cast hi0
  obtain ⟨hlo, hhi⟩ := hm
  generalize (prepareAffineAxis c s order).1 = x0 at *
  generalize (prepareAffineAxis c s order).2.1 = x1 at *
  refine ⟨?_, ?_, by grind⟩
  · rcases hlo with h | h
    · have : (x0 : Rat) ≤ (i : Rat) := by grind
      exact Rat.intCast_le_intCast.mp this
    · omega
  · have : (i : Rat) < (x1 : Rat) := by grind
    exact Rat.intCast_lt_intCast.mp this

/-- **Nearest-neighbour loading (`order = 0`)**: every sampled coordinate of the box lies inside the
window with half a voxel to spare on both sides, so the voxel it rounds to is a window voxel and scipy's
`mode="constant"` never replaces it by the fill value. (Before the extra voxel was added this failed
whenever `frac(c - s/2) > 1/2`: `c = 51/5, s = 5` sampled `t = 61/5` beyond the last index 12.) -/
theorem window_order0 (c t : Rat) (s : Int)
    (ht1 : c - ((s : Rat) - 1) / 2 ≤ t) (ht2 : t ≤ c + ((s : Rat) - 1) / 2) :
    (((prepareAffineAxis c s 0).1 : Rat) + 1 / 2 ≤ t ∨ (prepareAffineAxis c s 0).1 ≤ 0)
      ∧ t + 1 / 2 < (((prepareAffineAxis c s 0).2.1 : Int) : Rat) - 1 := by
  rw [paa_x1, paa_x0]
  simp only [if_true]
  generalize hq : (c - (s : Rat) / 2 - ((0 : Int) : Rat)) = q at *
  have h1 := Py.trunc_gt q
  have h2 := Py.trunc_le_max q
  have hX : (((Py.trunc q + s + 2 * 0 + 1 + 1 : Int)) : Rat) = (Py.trunc q : Rat) + (s : Rat) + 2 := by
      have : (Py.trunc q + s + 2 * 0 + 1 + 1 : Int) = Py.trunc q + s + 2 := by omega
      rw [this]; simp [Rat.intCast_add]
  have h0 : ((0 : Int) : Rat) = 0 := by simp
  constructor
  · rcases h2 with h | h
    · left; grind
    · right; exact h
  · rw [hX]; grind

/-! ## the corner-safe window (`prepare_affine_cornersafe`) -/

theorem cs_coordinate_rule (c v maxLen : Rat) (order : Int) :
    let w := cornerSafeAxis c maxLen order
    (w.1 : Rat) + (w.2.2 + v) = c + v := by
  simp only [cornerSafeAxis]; grind

theorem cs_output_center (s : Int) : cornerSafeOutputCenter s = ((s : Rat) - 1) / 2 := by
  simp only [cornerSafeOutputCenter]; grind

/-- The corner-safe window is never empty (for a positive diagonal length). -/
theorem cs_window_nonempty (c maxLen : Rat) (order : Int) (hL : 0 ≤ maxLen) (ho : 0 ≤ order) :
    (cornerSafeAxis c maxLen order).1 < (cornerSafeAxis c maxLen order).2.1 := by
  simp only [cornerSafeAxis]
  generalize (Py.trunc (c - maxLen / 2 - (order : Rat))) = x0
  have hO : (0 : Rat) ≤ (order : Rat) := by exact_mod_cast ho
  have h := Py.trunc_gt ((x0 : Rat) + maxLen + ((2 * order : Int) : Rat) + 1)
  have h2 : ((2 * order : Int) : Rat) = 2 * (order : Rat) := by simp [Rat.intCast_mul]
  have : (x0 : Rat) < ((Py.trunc ((x0 : Rat) + maxLen + ((2 * order : Int) : Rat) + 1) : Int) : Rat) := by
    grind
  have hlt := Rat.intCast_lt_intCast.mp this
  have hM : (0 : Int) ≤ (if order = 0 then (1 : Int) else 0) := by split <;> omega
  omega

/-- **Corner-safe window covers the support.** `maxLen` is the diagonal length of the output box
(the float the code computes; any rational here). Every in-bounds index `i` within the
interpolation support of a sampled coordinate `t` whose offset from the centre is at most
`min (maxLen/2 + order/2 - 3/2) (maxLen/2 + order - 2)` on this axis lies in the window, and so
does `t` itself. For the default cubic order (3) the
bound is `maxLen/2`, which exceeds the half-diagonal of the voxel-centre box, so the rule holds for
the whole box at every orientation; for orders 0 and 1 the guaranteed radius is 1.5 resp. 1 voxel
smaller than `maxLen/2`. -/
theorem cs_window_covers (c t maxLen H : Rat) (order i : Int) (ho : 0 ≤ order)
    (hH : H ≤ maxLen / 2 + (order : Rat) / 2 - 3 / 2) (hH0 : H ≤ maxLen / 2 + (order : Rat) - 2)
    (ht1 : c - H ≤ t) (ht2 : t ≤ c + H) (hi0 : 0 ≤ i)
    (hi1 : t - ((order : Rat) + 1) / 2 ≤ (i : Rat)) (hi2 : (i : Rat) ≤ t + ((order : Rat) + 1) / 2) :
    (cornerSafeAxis c maxLen order).1 ≤ i ∧ i < (cornerSafeAxis c maxLen order).2.1
      ∧ t < (((cornerSafeAxis c maxLen order).2.1 : Int) : Rat) - 1 := by
  simp only [cornerSafeAxis]
  have hO : (0 : Rat) ≤ (order : Rat) := by exact_mod_cast ho
  have hI : (0 : Rat) ≤ (i : Rat) := by exact_mod_cast hi0
  generalize hq : (c - maxLen / 2 - (order : Rat)) = q
  have h1 := Py.trunc_gt q
  have h2 := Py.trunc_le_max q
  generalize hx0 : Py.trunc q = x0 at *
  have h2o : ((2 * order : Int) : Rat) = 2 * (order : Rat) := by simp [Rat.intCast_mul]
  have h3 := Py.trunc_gt ((x0 : Rat) + maxLen + ((2 * order : Int) : Rat) + 1)
  generalize hx1 : Py.trunc ((x0 : Rat) + maxLen + ((2 * order : Int) : Rat) + 1) = x1 at *
  have hM : (0 : Int) ≤ (if order = 0 then (1 : Int) else 0) := by split <;> omega
  generalize (if order = 0 then (1 : Int) else 0) = mg at *
  have hMq : (0 : Rat) ≤ (mg : Rat) := by exact_mod_cast hM
  have hsum : ((x1 + mg : Int) : Rat) = (x1 : Rat) + (mg : Rat) := by simp [Rat.intCast_add]
  constructor
  · rcases h2 with h2 | h2
    · have : (x0 : Rat) ≤ (i : Rat) := by grind
      exact Rat.intCast_le_intCast.mp this
    · omega
  · refine ⟨?_, by rw [hsum]; grind⟩
    have : (i : Rat) < (x1 : Rat) := by grind
    have := Rat.intCast_lt_intCast.mp this
    omega

/-- **Corner-safe nearest-neighbour loading**: with the extra voxel every sampled coordinate within
`maxLen/2 - 1` of the centre on this axis lies inside the window (the same radius that linear
interpolation is guaranteed; before, `order = 0` was guaranteed only `maxLen/2 - 2`: a 4³ box sampled
coordinate 12.01 with last window index 12). -/
theorem cs_window_order0 (c t maxLen H : Rat) (hH : H ≤ maxLen / 2 - 1) (ht1 : c - H ≤ t) (ht2 : t ≤ c + H) :
    (((cornerSafeAxis c maxLen 0).1 : Rat) ≤ t ∨ (cornerSafeAxis c maxLen 0).1 ≤ 0)
      ∧ t < (((cornerSafeAxis c maxLen 0).2.1 : Int) : Rat) - 1 := by
  simp only [cornerSafeAxis, if_true]
  generalize hq : (c - maxLen / 2 - ((0 : Int) : Rat)) = q
  have h0 : ((0 : Int) : Rat) = 0 := by simp
  have h1 := Py.trunc_gt q
  have h2 := Py.trunc_le_max q
  generalize hx0 : Py.trunc q = x0 at *
  have h20 : ((2 * 0 : Int) : Rat) = 0 := by simp
  have h3 := Py.trunc_gt ((x0 : Rat) + maxLen + ((2 * 0 : Int) : Rat) + 1)
  generalize hx1 : Py.trunc ((x0 : Rat) + maxLen + ((2 * 0 : Int) : Rat) + 1) = x1 at *
  have hsum : ((x1 + 1 : Int) : Rat) = (x1 : Rat) + 1 := by simp [Rat.intCast_add]
  constructor
  · rcases h2 with h2 | h2
    · left; grind
    · right; exact h2
  · rw [hsum]; grind

end C02
