import AcryoVerif.Lemmas.PoseMat
import AcryoVerif.Model.Rigid
import AcryoVerif.Props.C01
import Mathlib.LinearAlgebra.Matrix.Adjugate
import Mathlib.LinearAlgebra.Matrix.NonsingularInverse
import Mathlib.LinearAlgebra.Matrix.Determinant.Basic
import Mathlib.Tactic.LinearCombination
import Mathlib.Tactic.NormNum

/-!
# C11 — Molecule poses obey rigid-motion algebra in z,y,x order
-/
namespace C11
open Matrix Model Model.Pose

theorem source_structure :
    Gen.axesAreImagesOfUnitVectors = true ∧ Gen.crossIsNegatedNumpyCross = true
    ∧ Gen.axesToRotatorBuildsColumns = true ∧ Gen.fromAxesCompletesTriad = true
    ∧ Gen.eulerTranslation = true ∧ Gen.eulerAngleReverses = true ∧ Gen.localCoordStructure = true
    ∧ Gen.affineMatrixStructure = true ∧ Gen.translateAddsWorld = true
    ∧ Gen.translateInternalUsesOwnRotation = true ∧ Gen.rotateInternalConjugates = true
    ∧ Gen.rotateByComposesLeft = true := by decide

/-! ## axes -/

/-- The axes are the columns of the rotation matrix: `z, y, x` = images of `(1,0,0), (0,1,0), (0,0,1)`. -/
theorem axes_are_columns (m : Pose) :
    m.axisZ = m.R.col 0 ∧ m.axisY = m.R.col 1 ∧ m.axisX = m.R.col 2 := by
  refine ⟨?_, ?_, ?_⟩ <;> simp [axisZ, axisY, axisX, M3.apply, M3.col, V3.dot, eZ, eY, eX]

/-- **Orthonormal axes** for every orthogonal `R`. -/
theorem axes_orthonormal (m : Pose) (h : m.R.toMatᵀ * m.R.toMat = 1) :
    m.axisZ.dot m.axisZ = 1 ∧ m.axisY.dot m.axisY = 1 ∧ m.axisX.dot m.axisX = 1
    ∧ m.axisZ.dot m.axisY = 0 ∧ m.axisZ.dot m.axisX = 0 ∧ m.axisY.dot m.axisX = 0 := by
  obtain ⟨p, ⟨⟨a, b, c⟩, ⟨d, e, f⟩, ⟨g, hh, i⟩⟩⟩ := m
  have e00 := congrFun (congrFun h 0) 0
  have e11 := congrFun (congrFun h 1) 1
  have e22 := congrFun (congrFun h 2) 2
  have e01 := congrFun (congrFun h 0) 1
  have e02 := congrFun (congrFun h 0) 2
  have e12 := congrFun (congrFun h 1) 2
  simp [M3.toMat, Matrix.mul_apply, Fin.sum_univ_three] at e00 e11 e22 e01 e02 e12
  simp only [axisZ, axisY, axisX, M3.apply, V3.dot, eZ, eY, eX]
  refine ⟨?_, ?_, ?_, ?_, ?_, ?_⟩ <;> ring_nf <;> ring_nf at e00 e11 e22 e01 e02 e12 <;> linarith

/-- **Right-handed in the z,y,x convention**: `z = cross(x, y)` (with `cross = -np.cross`) for every
proper rotation (`Rᵀ R = 1`, `det R = 1`). -/
theorem axes_right_handed (m : Pose) (h : m.R.toMatᵀ * m.R.toMat = 1) (hd : m.R.toMat.det = 1) :
    m.axisZ = crossZyx m.axisX m.axisY := by
  -- Rᵀ = adjugate R for a proper rotation
  have hadj : m.R.toMat.adjugate = m.R.toMatᵀ := by
    have h1 : m.R.toMat.adjugate * m.R.toMat = 1 := by rw [Matrix.adjugate_mul, hd, one_smul]
    have hR : m.R.toMat * m.R.toMatᵀ = 1 := mul_eq_one_comm.mp h
    calc m.R.toMat.adjugate = m.R.toMat.adjugate * (m.R.toMat * m.R.toMatᵀ) := by rw [hR, Matrix.mul_one]
      _ = (m.R.toMat.adjugate * m.R.toMat) * m.R.toMatᵀ := by rw [Matrix.mul_assoc]
      _ = m.R.toMatᵀ := by rw [h1, Matrix.one_mul]
  obtain ⟨p, ⟨⟨a, b, c⟩, ⟨d, e, f⟩, ⟨g, hh, i⟩⟩⟩ := m
  have e0 := congrFun (congrFun hadj 0) 0
  have e1 := congrFun (congrFun hadj 0) 1
  have e2 := congrFun (congrFun hadj 0) 2
  rw [Matrix.adjugate_fin_three] at e0 e1 e2
  simp [M3.toMat] at e0 e1 e2
  simp only [axisZ, axisY, axisX, crossZyx, npCross, V3.neg, M3.apply, V3.dot, eZ, eY, eX]
  congr 1 <;> ring_nf <;> ring_nf at e0 e1 e2 <;> linarith

/-! ## composition (see also C01) -/

/-- World rotations compose on the left and leave the position fixed; world translations add. -/
theorem rotateBy_spec (m : Pose) (W : M3) :
    (m.rotateBy W).p = m.p ∧ (m.rotateBy W).R.toMat = W.toMat * m.R.toMat := by
  simp [rotateBy]

theorem translate_spec (m : Pose) (d : V3) : (m.translate d).p = m.p.add d ∧ (m.translate d).R = m.R := by
  simp [translate]

/-- Internal rotations and translations act in the molecule's own frame. -/
theorem internal_spec (m : Pose) (Q : M3) (d : V3)
    (hR : m.R.toMat * m.R.toMatᵀ = 1) (hR' : m.R.toMatᵀ * m.R.toMat = 1) :
    (m.rotateInternal Q).R.toMat = m.R.toMat * Q.toMat ∧ (m.rotateInternal Q).p = m.p
      ∧ (m.translateInternal d).p.toVec = m.p.toVec + m.R.toMat.mulVec d.toVec :=
  ⟨(C01.rotateInternal_spec m Q hR hR').2, (C01.rotateInternal_spec m Q hR hR').1,
    (C01.translateInternal_spec m d).1⟩

/-! ## from two axes and back -/

/-- `from_axes(z, y)`: the constructed rotation is orthogonal and its `z` and `y` axes are the given
ones, for every orthonormal pair — including pairs anti-parallel to the reference axes, since the
matrix is built from the columns directly and no case distinction is made. -/
theorem from_axes_zy (z y p : V3) (hz : z.dot z = 1) (hy : y.dot y = 1) (hzy : z.dot y = 0) :
    let m : Pose := ⟨p, fromAxesZY z y⟩
    m.axisZ = z ∧ m.axisY = y ∧ m.R.toMatᵀ * m.R.toMat = 1 := by
  obtain ⟨z0, z1, z2⟩ := z
  obtain ⟨y0, y1, y2⟩ := y
  simp only [V3.dot] at hz hy hzy
  refine ⟨?_, ?_, ?_⟩
  · simp [axisZ, fromAxesZY, axesToRotator, ofColumns, M3.apply, V3.dot, eZ]
  · simp [axisY, fromAxesZY, axesToRotator, ofColumns, M3.apply, V3.dot, eY]
  · ext i j
    fin_cases i <;> fin_cases j <;>
      simp [fromAxesZY, axesToRotator, ofColumns, npCross, V3.neg, M3.toMat, Matrix.mul_apply,
        Fin.sum_univ_three] <;> nlinarith [hz, hy, hzy, sq_nonneg (z0 * y0 + z1 * y1 + z2 * y2)]

/-- `from_axes(y, x)` and `from_axes(z, x)` complete the triad with `cross` and read back the same
axes (BAC–CAB). -/
theorem from_axes_yx (y x p : V3) (hx : x.dot x = 1) (hy : y.dot y = 1) (hxy : x.dot y = 0) :
    let m : Pose := ⟨p, fromAxesYX y x⟩
    m.axisY = y ∧ m.axisX = x := by
  obtain ⟨x0, x1, x2⟩ := x
  obtain ⟨y0, y1, y2⟩ := y
  simp only [V3.dot] at hx hy hxy
  refine ⟨?_, ?_⟩
  · simp [axisY, fromAxesYX, axesToRotator, ofColumns, M3.apply, V3.dot, eY]
  · simp only [axisX, fromAxesYX, axesToRotator, ofColumns, crossZyx, npCross, V3.neg, M3.apply, V3.dot, eX]
    congr 1
    · linear_combination x0 * hy - y0 * hxy
    · linear_combination x1 * hy - y1 * hxy
    · linear_combination x2 * hy - y2 * hxy

theorem from_axes_zx (z x p : V3) (hx : x.dot x = 1) (hz : z.dot z = 1) (hzx : z.dot x = 0) :
    let m : Pose := ⟨p, fromAxesZX z x⟩
    m.axisZ = z ∧ m.axisX = x := by
  obtain ⟨x0, x1, x2⟩ := x
  obtain ⟨z0, z1, z2⟩ := z
  simp only [V3.dot] at hx hz hzx
  refine ⟨?_, ?_⟩
  · simp [axisZ, fromAxesZX, axesToRotator, ofColumns, M3.apply, V3.dot, eZ]
  · simp only [axisX, fromAxesZX, axesToRotator, ofColumns, crossZyx, npCross, V3.neg, M3.apply, V3.dot, eX]
    congr 1
    · linear_combination x0 * hz - z0 * hzx
    · linear_combination x1 * hz - z1 * hzx
    · linear_combination x2 * hz - z2 * hzx

/-! ## Euler sequences -/

theorem swapXZ_invol (c : Char) : swapXZ (swapXZ c) = c := by
  unfold swapXZ
  by_cases h1 : c = 'x'
  · subst h1; decide
  · by_cases h2 : c = 'z'
    · subst h2; decide
    · by_cases h3 : c = 'X'
      · subst h3; decide
      · by_cases h4 : c = 'Z'
        · subst h4; decide
        · simp [h1, h2, h3, h4]

/-- `translate_euler` is an involution on every sequence, so `euler_angle(seq)` (translate, read,
reverse) undoes `from_euler(seq, order="xyz")` (translate, reverse, build) for the trusted scipy
`from_euler`/`as_euler` pair. -/
theorem translateEuler_invol (s : List Char) : translateEuler (translateEuler s) = s := by
  simp only [translateEuler, List.map_reverse, List.reverse_reverse, List.map_map]
  have : (swapXZ ∘ swapXZ) = id := by funext c; exact swapXZ_invol c
  rw [this, List.map_id]

example : translateEuler "ZXZ".toList = "XZX".toList ∧ translateEuler "zyx".toList = "zyx".toList
    ∧ translateEuler "XYZ".toList = "XYZ".toList ∧ translateEuler "xyz".toList = "xyz".toList := by decide

/-! ## affine matrices and local sampling grids -/

/-- `affine_matrix(src, dst)` is `o ↦ dst + R (o - src)` (with `Rᵀ` for `inverse=True`): it maps the
source point onto the destination. -/
theorem affine_maps_src_to_dst (m : Pose) (src dst : V3) (inv : Bool) :
    affineApply m src dst src inv = dst := by
  obtain ⟨d0, d1, d2⟩ := dst
  obtain ⟨s0, s1, s2⟩ := src
  cases inv <;> simp [affineApply, V3.sub, V3.add, M3.apply, V3.dot]

/-- **`local_coordinates` is the sampling map of C02**: voxel `k` of a box of the given shape is
sent to `p/σ + R (k - (shape-1)/2)` for every proper rotation. -/
theorem local_coordinates_spec (m : Pose) (shape : Int × Int × Int) (σ : ℚ) (k : V3)
    (h : m.R.toMatᵀ * m.R.toMat = 1) (hd : m.R.toMat.det = 1) :
    localCoord m shape σ k
      = (V3.smul (1 / σ) m.p).add (m.R.apply (k.sub ⟨((shape.1 : ℚ) - 1) / 2, ((shape.2.1 : ℚ) - 1) / 2,
          ((shape.2.2 : ℚ) - 1) / 2⟩)) := by
  have hz := axes_right_handed m h hd
  simp only [localCoord, ← hz]
  obtain ⟨⟨p0, p1, p2⟩, ⟨⟨a, b, c⟩, ⟨d, e, f⟩, ⟨g, hh, i⟩⟩⟩ := m
  obtain ⟨k0, k1, k2⟩ := k
  simp only [axisZ, axisY, axisX, M3.apply, V3.dot, V3.add, V3.sub, V3.smul, eZ, eY, eX, Gen.localCoordCenter]
  congr 1 <;> ring

end C11
