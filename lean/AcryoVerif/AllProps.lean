-- Every property-theorem module (what `setup.sh` pre-builds).
import AcryoVerif.Props.C02
import AcryoVerif.Props.C06
import AcryoVerif.Props.C08
import AcryoVerif.Props.C16
import AcryoVerif.Props.C05
import AcryoVerif.Props.C04
import AcryoVerif.Props.C07
import AcryoVerif.Props.C09
import AcryoVerif.Props.C17
import AcryoVerif.Props.C15
import AcryoVerif.Props.C12
import AcryoVerif.Props.C13
import AcryoVerif.Props.C01
import AcryoVerif.Props.C11
import AcryoVerif.Props.C03
import AcryoVerif.Props.C10
import AcryoVerif.Props.C14
