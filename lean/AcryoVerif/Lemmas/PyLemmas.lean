import AcryoVerif.Py

/-! Helper lemmas about the Python-semantics prelude (core Lean only). -/

namespace Py

theorem floor_le (q : Rat) : (Py.floor q : Rat) ≤ q := Rat.floor_le q

theorem lt_floor_add_one (q : Rat) : q < (Py.floor q : Rat) + 1 := by
  have := Rat.lt_floor_add_one q
  simp [Rat.intCast_add] at this
  exact this

theorem le_ceil (q : Rat) : q ≤ (Py.ceil q : Rat) := Rat.le_ceil

theorem ceil_lt_add_one (q : Rat) : (Py.ceil q : Rat) < q + 1 := by
  unfold Py.ceil
  rw [Rat.ceil_eq_neg_floor_neg]
  have := Rat.lt_floor_add_one (-q)
  simp [Rat.intCast_add, Rat.intCast_neg] at this ⊢
  grind

theorem ceil_le_of_le_int (q : Rat) (n : Int) (h : q ≤ (n : Rat)) : Py.ceil q ≤ n :=
  Rat.ceil_le_iff.mpr h

theorem le_floor_of_int_le (q : Rat) (n : Int) (h : (n : Rat) ≤ q) : n ≤ Py.floor q :=
  Rat.le_floor_iff.mpr h

/-- `int()` truncation never moves a value by a full unit. -/
theorem trunc_gt (q : Rat) : q - 1 < (Py.trunc q : Rat) := by
  unfold Py.trunc
  split
  · have := lt_floor_add_one q; unfold Py.floor at this; grind
  · have := le_ceil q; unfold Py.ceil at this; grind

theorem trunc_lt (q : Rat) : (Py.trunc q : Rat) < q + 1 := by
  unfold Py.trunc
  split
  · have := floor_le q; unfold Py.floor at this; grind
  · have := ceil_lt_add_one q; unfold Py.ceil at this; grind

theorem trunc_le_of_nonneg (q : Rat) (h : 0 ≤ q) : (Py.trunc q : Rat) ≤ q := by
  unfold Py.trunc; simp [h]; exact Rat.floor_le q

theorem trunc_nonneg_of_nonneg (q : Rat) (h : 0 ≤ q) : 0 ≤ Py.trunc q := by
  unfold Py.trunc; simp [h]
  exact Rat.le_floor_iff.mpr (by simpa using h)

theorem trunc_ge_of_neg (q : Rat) (h : q < 0) : q ≤ (Py.trunc q : Rat) := by
  unfold Py.trunc
  have : ¬ (0 ≤ q) := by grind
  simp [this]; exact Rat.le_ceil

theorem trunc_nonpos_of_neg (q : Rat) (h : q < 0) : Py.trunc q ≤ 0 := by
  unfold Py.trunc
  have : ¬ (0 ≤ q) := by grind
  simp [this]
  exact Rat.ceil_le_iff.mpr (by simp; grind)

/-- `int(x)` is at most `max(0, x)`. -/
theorem trunc_le_max (q : Rat) : (Py.trunc q : Rat) ≤ q ∨ Py.trunc q ≤ 0 := by
  by_cases h : 0 ≤ q
  · exact Or.inl (trunc_le_of_nonneg q h)
  · exact Or.inr (trunc_nonpos_of_neg q (by grind))

theorem trunc_intCast (n : Int) : Py.trunc (n : Rat) = n := by
  unfold Py.trunc
  split
  · exact Rat.floor_intCast n
  · exact Rat.ceil_intCast n

/-- Integers strictly between: `i ≤ y` and `y < X + 1` give `i ≤ X`. -/
theorem int_le_of_rat (i X : Int) (y : Rat) (h1 : (i : Rat) ≤ y) (h2 : y < (X : Rat) + 1) : i ≤ X := by
  have h : (i : Rat) < ((X + 1 : Int) : Rat) := by
    simp [Rat.intCast_add]; grind
  have := Rat.intCast_lt_intCast.mp h
  omega

theorem floor_eq_of (x : Rat) (n : Int) (h1 : (n : Rat) ≤ x) (h2 : x < (n : Rat) + 1) :
    Py.floor x = n := by
  have a : n ≤ Py.floor x := le_floor_of_int_le x n h1
  have b : Py.floor x ≤ n := int_le_of_rat _ _ x (floor_le x) h2
  omega

/-- `int(L / 2.0)` is `L // 2` for non-negative integers. -/
theorem trunc_half (L : Int) (hL : 0 ≤ L) : Py.trunc ((L : Rat) / 2) = L / 2 := by
  have hLr : (0 : Rat) ≤ (L : Rat) := by
    have := Rat.intCast_le_intCast.mpr hL; simpa using this
  have hq : (0 : Rat) ≤ (L : Rat) / 2 := by
    have h2 : (0 : Rat) ≤ (L : Rat) / 2 ↔ (0 : Rat) * 2 ≤ (L : Rat) := by
      rw [← Rat.not_lt, ← Rat.not_lt, Rat.div_lt_iff (by grind : (0 : Rat) < 2)]
    exact h2.mpr (by grind)
  unfold Py.trunc
  simp only [hq, if_true]
  have e : (L : Rat) = ((2 * (L / 2) + L % 2 : Int) : Rat) := by
    congr 1; omega
  have hr0 : (0 : Rat) ≤ ((L % 2 : Int) : Rat) := by
    have := Rat.intCast_le_intCast.mpr (Int.emod_nonneg L (by omega : (2 : Int) ≠ 0)); simpa using this
  have hr1 : ((L % 2 : Int) : Rat) ≤ 1 := by
    have : L % 2 ≤ 1 := by omega
    have := Rat.intCast_le_intCast.mpr this; simpa using this
  apply floor_eq_of
  · rw [e]; simp only [Rat.intCast_add, Rat.intCast_mul, Rat.div_def]; grind
  · rw [e]; simp only [Rat.intCast_add, Rat.intCast_mul, Rat.div_def]; grind

theorem div_le_iff {a b c : Rat} (hb : 0 < b) : a / b ≤ c ↔ a ≤ c * b := by
  rw [← Rat.not_lt, ← Rat.not_lt, Rat.lt_div_iff hb]

theorem le_div_iff {a b c : Rat} (hc : 0 < c) : a ≤ b / c ↔ a * c ≤ b := by
  rw [← Rat.not_lt, ← Rat.not_lt, Rat.div_lt_iff hc]

/-- `a % m = a` for `0 ≤ a < m` (numpy's wrap-around of unsigned narrow integers is invisible below the
type's range) -/
theorem imod_of_lt (a m : Int) (h0 : 0 ≤ a) (h : a < m) : Py.imod a m = a := by
  unfold Py.imod
  rw [Int.fmod_eq_emod_of_nonneg _ (by omega)]
  exact Int.emod_eq_of_lt h0 h

end Py
