import Mathlib.Data.Matrix.Mul
import Mathlib.LinearAlgebra.Matrix.Notation
import Mathlib.Data.Fin.VecNotation
import Mathlib.Tactic.FinCases
import Mathlib.Tactic.Ring
import Mathlib.Tactic.Abel
import AcryoVerif.Model.Pose

/-!
Bridge between the executable `M3`/`V3` model and Mathlib matrices over `ℚ`, so that the pose
theorems can be proved with matrix algebra (`Matrix.mul_assoc`, `mulVec_add`, ...) and still speak
about the executable definitions.
-/
namespace Model

open Matrix

def V3.toVec (v : V3) : Fin 3 → ℚ := ![v.z, v.y, v.x]
def M3.toMat (m : M3) : Matrix (Fin 3) (Fin 3) ℚ :=
  !![m.r0.z, m.r0.y, m.r0.x; m.r1.z, m.r1.y, m.r1.x; m.r2.z, m.r2.y, m.r2.x]

theorem V3.toVec_inj {a b : V3} (h : a.toVec = b.toVec) : a = b := by
  cases a; cases b
  have h0 := congrFun h 0
  have h1 := congrFun h 1
  have h2 := congrFun h 2
  simp [V3.toVec] at h0 h1 h2
  simp [h0, h1, h2]

theorem M3.toMat_inj {a b : M3} (h : a.toMat = b.toMat) : a = b := by
  obtain ⟨⟨a00, a01, a02⟩, ⟨a10, a11, a12⟩, ⟨a20, a21, a22⟩⟩ := a
  obtain ⟨⟨b00, b01, b02⟩, ⟨b10, b11, b12⟩, ⟨b20, b21, b22⟩⟩ := b
  have e := fun i j => congrFun (congrFun h i) j
  have h00 := e 0 0; have h01 := e 0 1; have h02 := e 0 2
  have h10 := e 1 0; have h11 := e 1 1; have h12 := e 1 2
  have h20 := e 2 0; have h21 := e 2 1; have h22 := e 2 2
  simp [M3.toMat] at h00 h01 h02 h10 h11 h12 h20 h21 h22
  simp [*]

@[simp] theorem toVec_add (a b : V3) : (a.add b).toVec = a.toVec + b.toVec := by
  ext i; fin_cases i <;> simp [V3.add, V3.toVec]

@[simp] theorem toVec_sub (a b : V3) : (a.sub b).toVec = a.toVec - b.toVec := by
  ext i; fin_cases i <;> simp [V3.sub, V3.toVec]

@[simp] theorem toVec_smul (s : ℚ) (a : V3) : (V3.smul s a).toVec = s • a.toVec := by
  ext i; fin_cases i <;> simp [V3.smul, V3.toVec]

@[simp] theorem toVec_apply (m : M3) (v : V3) : (m.apply v).toVec = m.toMat.mulVec v.toVec := by
  ext i
  fin_cases i <;> simp [M3.apply, V3.dot, V3.toVec, M3.toMat, Matrix.mulVec, dotProduct, Fin.sum_univ_three]

@[simp] theorem toMat_mul (a b : M3) : (a.mul b).toMat = a.toMat * b.toMat := by
  ext i j
  fin_cases i <;> fin_cases j <;>
    simp [M3.mul, M3.col, V3.dot, M3.toMat, Matrix.mul_apply, Fin.sum_univ_three]

@[simp] theorem toMat_transpose (a : M3) : a.transpose.toMat = a.toMatᵀ := by
  ext i j
  fin_cases i <;> fin_cases j <;> simp [M3.transpose, M3.toMat, Matrix.transpose_apply]

@[simp] theorem toMat_one : M3.one.toMat = 1 := by
  ext i j
  fin_cases i <;> fin_cases j <;> simp [M3.one, M3.toMat]

theorem dot_eq (a b : V3) : a.dot b = a.toVec ⬝ᵥ b.toVec := by
  simp [V3.dot, V3.toVec, dotProduct, Fin.sum_univ_three]

end Model
