import Mathlib.Algebra.Order.Chebyshev
import Mathlib.Algebra.BigOperators.Field
import Mathlib.Tactic.FieldSimp
import Mathlib.Tactic.Ring
import Mathlib.Tactic.Linarith
import Mathlib.Tactic.Positivity

/-!
Algebra of correlation scores over an index set `ι` (the voxels of a box, flattened) with values in
`ℚ`: centred sums, Cauchy–Schwarz, Pearson form. Used by C04 and C07.
-/

open Finset BigOperators

namespace Corr

variable {ι : Type*} [Fintype ι]

/-- `Σ x y - (Σ x)(Σ y)/n`: numerator of the window-normalised response
(`corr - win_sum1 * template_mean` in `ncc_landscape_no_pad`). -/
def num (x y : ι → ℚ) : ℚ := ∑ i, x i * y i - (∑ i, x i) * (∑ i, y i) / (Fintype.card ι)

/-- `Σ x² - (Σ x)²/n` (`win_sum2 - win_sum1**2 / template_volume`). -/
def varSum (x : ι → ℚ) : ℚ := ∑ i, x i ^ 2 - (∑ i, x i) ^ 2 / (Fintype.card ι)

def mean (x : ι → ℚ) : ℚ := (∑ i, x i) / (Fintype.card ι)

/-- `Σ (y - ȳ)²` (`template_ssd`). -/
def ssd (y : ι → ℚ) : ℚ := ∑ i, (y i - mean y) ^ 2

theorem num_eq_centered [Nonempty ι] (x y : ι → ℚ) :
    num x y = ∑ i, (x i - mean x) * (y i - mean y) := by
  have hn : (Fintype.card ι : ℚ) ≠ 0 := by
    have : 0 < Fintype.card ι := Fintype.card_pos
    exact_mod_cast this.ne'
  simp only [num, mean, sub_mul, mul_sub, Finset.sum_sub_distrib, ← Finset.sum_mul, ← Finset.mul_sum,
    Finset.sum_const, Finset.card_univ, nsmul_eq_mul]
  field_simp
  ring

theorem varSum_eq_ssd [Nonempty ι] (x : ι → ℚ) : varSum x = ssd x := by
  have h := num_eq_centered x x
  simp only [num, varSum, ssd] at *
  have e1 : ∀ i, x i * x i = x i ^ 2 := fun i => by ring
  have e2 : ∀ i, (x i - mean x) * (x i - mean x) = (x i - mean x) ^ 2 := fun i => by ring
  simp only [e1, e2] at h
  rw [← h]; ring

/-- **Cauchy–Schwarz for the window-normalised response**: `num² ≤ var · ssd`, so wherever the
response is defined it lies in `[-1, 1]`. -/
theorem num_sq_le [Nonempty ι] (x y : ι → ℚ) : num x y ^ 2 ≤ varSum x * ssd y := by
  rw [num_eq_centered, varSum_eq_ssd]
  exact Finset.sum_mul_sq_le_sq_mul_sq _ _ _

/-- A window equal to the template attains the bound, with a non-negative numerator: the response
is exactly `1` at the true displacement (when the template is not constant). -/
theorem num_self [Nonempty ι] (y : ι → ℚ) :
    num y y = ssd y ∧ num y y ^ 2 = varSum y * ssd y ∧ 0 ≤ num y y := by
  have h1 : num y y = ssd y := by
    rw [num_eq_centered]; simp only [ssd]; congr 1; funext i; ring
  refine ⟨h1, ?_, ?_⟩
  · rw [varSum_eq_ssd, h1]; ring
  · rw [h1]; exact Finset.sum_nonneg fun i _ => sq_nonneg _

/-- Gain/offset invariance of the centred numerator and variance: replacing the window `x` by
`a x + b` multiplies `num` by `a` and `var` by `a²`, so the normalised response is unchanged for
`a > 0`. -/
theorem num_affine [Nonempty ι] (x y : ι → ℚ) (a b : ℚ) :
    num (fun i => a * x i + b) y = a * num x y ∧ varSum (fun i => a * x i + b) = a ^ 2 * varSum x := by
  have hn : (Fintype.card ι : ℚ) ≠ 0 := by
    have : 0 < Fintype.card ι := Fintype.card_pos
    exact_mod_cast this.ne'
  constructor
  · simp only [num, add_mul, Finset.sum_add_distrib, mul_assoc, ← Finset.mul_sum, Finset.sum_const,
      Finset.card_univ, nsmul_eq_mul]
    field_simp
    ring
  · have e1 : ∑ i, (a * x i + b) ^ 2
        = a ^ 2 * ∑ i, x i ^ 2 + 2 * a * b * ∑ i, x i + (Fintype.card ι) * b ^ 2 := by
      have : ∀ i, (a * x i + b) ^ 2 = a ^ 2 * x i ^ 2 + 2 * a * b * x i + b ^ 2 := fun i => by ring
      simp only [this, Finset.sum_add_distrib, ← Finset.mul_sum, Finset.sum_const, Finset.card_univ,
        nsmul_eq_mul]
    have e2 : ∑ i, (a * x i + b) = a * ∑ i, x i + (Fintype.card ι) * b := by
      simp only [Finset.sum_add_distrib, ← Finset.mul_sum, Finset.sum_const, Finset.card_univ,
        nsmul_eq_mul]
    simp only [varSum]
    rw [e1, e2]
    field_simp
    ring

/-- Symmetry. -/
theorem num_comm (x y : ι → ℚ) : num x y = num y x := by
  simp only [num, mul_comm]

/-- Uncentred (NCC) form: `(Σ x y)² ≤ (Σ x²)(Σ y²)`. -/
theorem ncc_sq_le (x y : ι → ℚ) : (∑ i, x i * y i) ^ 2 ≤ (∑ i, x i ^ 2) * (∑ i, y i ^ 2) :=
  Finset.sum_mul_sq_le_sq_mul_sq _ _ _

end Corr
