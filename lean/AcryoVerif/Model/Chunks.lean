import AcryoVerif.Py
import AcryoVerif.Gen.Pick

/-!
Model of the block-wise particle picking of `BasePickerModel.pick_molecules`.

An axis of length `N` is cut into chunks `c₀ … c_{m-1}`; with overlap depth `d` (and
`trim=False`, a padding boundary) block `j` holds the original voxels `[S_j - d, S_j + c_j + d)`,
`S_j = c₀ + … + c_{j-1}`, i.e. `c_j + 2d` voxels, the original voxel `S_j - d + l` at local index `l`.
`_pick_in_chunk_wrapped` keeps a local position `l` iff `Gen.pickInChunk l d (c_j + 2d)`, adds the
chunk start `S_j` (`block_info[None]["array-location"]`), and `pick_molecules` finally subtracts the
depth and multiplies by the scale (`Gen.pickGlobal`).
-/
namespace Model

open Py

/-- start of chunk `j` -/
def chunkStart (cs : List Nat) (j : Nat) : Nat := (cs.take j).sum

/-- `x` (a position on the original pixel grid, voxel `i` covering `[i - 1/2, i + 1/2)`) is reported by
block `j`: its local coordinate passes the filter of `_pick_in_chunk_wrapped`. -/
def inCoreOf (cs : List Nat) (d : Nat) (j : Nat) (x : Rat) : Prop :=
  ∃ c, cs[j]? = some c ∧
    Gen.pickInChunk (x - (chunkStart cs j : Rat) + (d : Rat)) (d : Int) ((c : Int) + 2 * (d : Int)) = true

/-- executable version for the driver: the list of blocks that keep `x` -/
def blocksKeeping (cs : List Nat) (d : Nat) (x : Rat) : List Nat :=
  (List.range cs.length).filter fun j =>
    Gen.pickInChunk (x - (chunkStart cs j : Rat) + (d : Rat)) (d : Int) (((cs.getD j 0 : Nat) : Int) + 2 * (d : Int))

/-- what a block that found a maximum at local position `l` contributes to the result (pixels → nm) -/
def reportGlobal (cs : List Nat) (d : Nat) (j : Nat) (l : Rat) (scale : Rat) : Rat :=
  Gen.pickGlobal l (chunkStart cs j : Int) (d : Int) scale

/-- kernel radius of scipy's `gaussian_filter1d` (`lw = int(truncate * sd + 0.5)`, `truncate = 4.0`), which
`ndi.gaussian_filter` and `ndi.gaussian_laplace` apply along every axis. scipy is not translated: this
definition is part of the trusted base. -/
def scipyGaussRadius (sigma : Rat) : Int := Py.floor (4 * sigma + 1 / 2)

/-- `F` (a filter or a per-voxel decision along one axis) computes its value at `q` from the input values
within `R` voxels of `q`. -/
def LocalOp {α β : Type} (R : Int) (F : (Int → α) → Int → β) : Prop :=
  ∀ f g q, (∀ p, q - R ≤ p → p ≤ q + R → f p = g p) → F f q = F g q

end Model
