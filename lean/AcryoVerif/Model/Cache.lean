import AcryoVerif.Py
import AcryoVerif.Gen.Sched

/-!
Model of `TemplateMaskCache` (`acryo/alignment/_base.py`), the only mutable state shared by the
per-molecule tasks of one alignment model, under arbitrary interleaving of threads at the granularity
of the statements of `get`:

```
0  out = self._dict.get(backend)          -- hit: return out
1  it = iter(self._dict.values())          -- remembers the dict size
2  val = next(it, None)                    -- RuntimeError if the size changed; None if empty: return None
3  self._dict[backend] = convert(val)      -- insert, return
```

A key is a `Backend` instance: `xp` is the array module it wraps, `ident` its object identity. Whether
two instances are equal as dict keys is read from the source (`Gen.backendEqByModule`): `__hash__` is
the hash of the module; without `__eq__` Python compares identities.
-/
namespace Model

structure BKey where
  xp : Nat
  ident : Nat
  deriving Repr, DecidableEq

def BKey.same (byModule : Bool) (a b : BKey) : Bool :=
  if byModule then a.xp == b.xp else a.ident == b.ident

inductive TStatus where
  | running (pc : Nat) (seenSize : Nat)
  | returned (value : Option Nat)
  | raised            -- RuntimeError: dictionary changed size during iteration
  deriving Repr, DecidableEq

structure Thread where
  key : BKey
  st : TStatus
  deriving Repr

structure CState where
  dict : List (BKey × Nat)        -- insertion ordered; the value stands for the (template, mask) pair
  threads : List Thread
  deriving Repr

def lookup (byModule : Bool) (d : List (BKey × Nat)) (k : BKey) : Option Nat :=
  (d.find? fun e => BKey.same byModule e.1 k).map (·.2)

/-- one statement of thread `t` -/
def stepThread (byModule : Bool) (d : List (BKey × Nat)) (t : Thread) : List (BKey × Nat) × Thread :=
  match t.st with
  | .running 0 _ =>
    match lookup byModule d t.key with
    | some v => (d, { t with st := .returned (some v) })
    | none => (d, { t with st := .running 1 0 })
  | .running 1 _ => (d, { t with st := .running 2 d.length })
  | .running 2 seen =>
    if d.length ≠ seen then (d, { t with st := .raised })
    else match d with
      | [] => (d, { t with st := .returned none })
      | _ :: _ => (d, { t with st := .running 3 seen })
  | .running _ _ =>
    match d with
    | [] => (d, { t with st := .returned none })
    | e :: _ => (d ++ [(t.key, e.2)], { t with st := .returned (some e.2) })
  | _ => (d, t)

/-- grant one step to thread number `i` -/
def step (byModule : Bool) (s : CState) (i : Nat) : CState :=
  match s.threads[i]? with
  | none => s
  | some t =>
    let (d', t') := stepThread byModule s.dict t
    { dict := d', threads := s.threads.set i t' }

def run (byModule : Bool) (s : CState) (schedule : List Nat) : CState := schedule.foldl (step byModule) s

def freshThreads (keys : List BKey) : List Thread := keys.map fun k => ⟨k, .running 0 0⟩

/-- key equality as the current source defines it -/
def sameKey (a b : BKey) : Bool := BKey.same Gen.backendEqByModule a b

end Model
