import AcryoVerif.Py
import AcryoVerif.Gen.Decode

/-!
Model of the candidate search of `BaseAlignmentModel._optimize_multiple` /
`RotationImplemented`: candidates are enumerated in the loop order read off the source
(`Gen.candidateRotationMajor`), the best one is `np.argmax` (first maximum), the rotation and the
template label are decoded from the flat index by the generated kernels.
-/
namespace Model

open Py

/-- Flat index of candidate (template `j`, rotation `k`) among `T` templates and `K` rotations. -/
def candIdx (T K j k : Int) : Int :=
  if Gen.candidateRotationMajor then k * T + j else j * K + k

/-- `np.argmax` on a list: index of the first maximum (0 for the empty list). -/
def argmaxFrom : List Rat → Nat → Nat → Rat → Nat
  | [], _, best, _ => best
  | x :: xs, i, best, bv => if bv < x then argmaxFrom xs (i + 1) i x else argmaxFrom xs (i + 1) best bv

def argmaxFirst (l : List Rat) : Nat :=
  match l with
  | [] => 0
  | x :: xs => argmaxFrom xs 1 0 x

/-- What the model returns for a table of candidate scores: flat index, decoded rotation index and
the label stored by the loader. -/
def searchLoader (T K : Int) (scores : List Rat) : PyM (Int × Int × Int) := do
  let iopt : Int := (argmaxFirst scores : Nat)
  let rot := Gen.decodeRotation iopt K T
  let rem ← Gen.loaderRemainder true K T 0
  let lab ← Gen.reduceLabel iopt rem
  return (iopt, rot, lab)

def searchGroup (T K : Int) (scores : List Rat) : PyM (Int × Int × Int) := do
  let iopt : Int := (argmaxFirst scores : Nat)
  let rot := Gen.decodeRotation iopt K T
  let rem := Gen.groupRemainder (decide (K > 1)) T
  let lab ← Gen.reduceLabel iopt rem
  return (iopt, rot, lab)

end Model
