import AcryoVerif.Py
import AcryoVerif.Gen.Table

/-!
Model of `acryo.molecules.Molecules` as **three parallel containers** (positions, orientations,
feature rows), so that "a molecule's position, orientation and features stay together" is a theorem
about the operations rather than an assumption. `subset` indexes the three containers separately
with the same specification (as the code does); `filter/sort/head/tail/sample/group_by/cutby` go
through one data frame (`to_dataframe` → row operation → `from_dataframe`), i.e. zip → row operation →
unzip; `concat_with/append` concatenate per container. Which path each method takes is read from the
source (`Gen.subsetSameSpecForAll`, `Gen.rowOpsThroughDataFrame`, `Gen.concatParallel`).
-/
namespace Model

open Py

structure Tab (α β γ : Type) where
  pos : List α
  rot : List β
  feat : List γ
  deriving Repr

namespace Tab
variable {α β γ : Type}

def WF (t : Tab α β γ) : Prop := t.pos.length = t.rot.length ∧ t.rot.length = t.feat.length

/-- the rows `(position, orientation, features)` of a table -/
def rows (t : Tab α β γ) : List (α × β × γ) := t.pos.zip (t.rot.zip t.feat)

/-- `from_dataframe`: split rows back into the three containers -/
def ofRows (r : List (α × β × γ)) : Tab α β γ :=
  ⟨r.map (·.1), r.map (·.2.1), r.map (·.2.2)⟩

/-! ### container-level selections (numpy / polars indexing of ONE container) -/

/-- `a[lo:hi]` with Python slice semantics -/
def sliceSel {δ : Type} (lo hi : Int) (l : List δ) : List δ :=
  let b := Py.sliceBounds lo hi l.length
  (l.drop b.1.toNat).take (b.2 - b.1).toNat

/-- boolean-mask indexing (caller guarantees equal length) -/
def maskSel {δ : Type} : List Bool → List δ → List δ
  | b :: m, x :: xs => if b then x :: maskSel m xs else maskSel m xs
  | _, _ => []

/-- integer-array ("fancy") indexing with in-range indices -/
def idxSel {δ : Type} (idx : List Nat) (l : List δ) : List δ := idx.filterMap (l[·]?)

/-! ### `subset`: the same specification applied to the three containers separately -/

def subsetSlice (t : Tab α β γ) (lo hi : Int) : Tab α β γ :=
  ⟨sliceSel lo hi t.pos, sliceSel lo hi t.rot, sliceSel lo hi t.feat⟩

def subsetMask (t : Tab α β γ) (m : List Bool) : PyM (Tab α β γ) :=
  if m.length ≠ t.pos.length then throw .index
  else pure ⟨maskSel m t.pos, maskSel m t.rot, maskSel m t.feat⟩

def subsetIdx (t : Tab α β γ) (idx : List Nat) : PyM (Tab α β γ) :=
  if idx.any (fun i => decide (t.pos.length ≤ i)) then throw .index
  else pure ⟨idxSel idx t.pos, idxSel idx t.rot, idxSel idx t.feat⟩

/-- `subset(i)` for a plain integer: range check and conversion to `slice(i, i+1)` are generated. -/
def subsetInt (t : Tab α β γ) (i : Int) : PyM (Tab α β γ) := do
  let s ← Gen.subsetIntIndex i t.pos.length
  return t.subsetSlice s.1 s.2

/-- the indices `range(*slice(lo, hi, step).indices(n))` of CPython (`none` = omitted bound) -/
def pySliceIndices (lo hi : Option Int) (step : Int) (n : Nat) : List Nat :=
  let N : Int := n
  let norm (v lower upper : Int) : Int := if v < 0 then max (v + N) lower else min v upper
  if step > 0 then
    let start := match lo with | none => 0 | some v => norm v 0 N
    let stop := match hi with | none => N | some v => norm v 0 N
    let cnt := ((stop - start + step - 1) / step).toNat
    (List.range cnt).map fun (k : Nat) => (start + (k : Int) * step).toNat
  else if step < 0 then
    let start := match lo with | none => N - 1 | some v => norm v (-1) (N - 1)
    let stop := match hi with | none => -1 | some v => norm v (-1) (N - 1)
    let cnt := ((start - stop + (-step) - 1) / (-step)).toNat
    (List.range cnt).map fun (k : Nat) => (start + (k : Int) * step).toNat
  else []

/-- `subset(slice(lo, hi, step))`: the same index list applied to the three containers -/
def subsetSliceStep (t : Tab α β γ) (lo hi : Option Int) (step : Int) : Tab α β γ :=
  let idx := pySliceIndices lo hi step t.pos.length
  ⟨idxSel idx t.pos, idxSel idx t.rot, idxSel idx t.feat⟩

/-! ### row operations through the data frame -/

def rowOp (f : List (α × β × γ) → List (α × β × γ)) (t : Tab α β γ) : Tab α β γ := ofRows (f t.rows)

def head (t : Tab α β γ) (k : Nat) : Tab α β γ := rowOp (·.take k) t
def tail (t : Tab α β γ) (k : Nat) : Tab α β γ := rowOp (fun r => r.drop (r.length - k)) t
def filter (t : Tab α β γ) (p : α × β × γ → Bool) : Tab α β γ := rowOp (·.filter p) t

/-- insertion sort by an integer key (stable) -/
def insertBy {δ : Type} (key : δ → Int) (x : δ) : List δ → List δ
  | [] => [x]
  | y :: ys => if key x < key y then x :: y :: ys else y :: insertBy key x ys

def sortBy {δ : Type} (key : δ → Int) (l : List δ) : List δ := l.foldr (insertBy key) []

def sort (t : Tab α β γ) (key : α × β × γ → Int) (desc : Bool) : Tab α β γ :=
  rowOp (fun r => if desc then (sortBy (fun x => -(key x)) r) else sortBy key r) t

/-- first-appearance order of distinct keys -/
def distinctKeys : List Int → List Int
  | [] => []
  | k :: ks => k :: (distinctKeys ks).filter (· ≠ k)

/-- `group_by(maintain_order=True)`: one group per distinct key in first-appearance order, rows
in their original order -/
def groupRows {δ : Type} (key : δ → Int) (r : List δ) : List (Int × List δ) :=
  (distinctKeys (r.map key)).map fun k => (k, r.filter fun x => key x == k)

def groupBy (t : Tab α β γ) (key : α × β × γ → Int) : List (Int × Tab α β γ) :=
  (groupRows key t.rows).map fun g => (g.1, ofRows g.2)

/-- polars `cut(bins)`: bin index of a value = number of edges strictly below it, i.e. the value
lies in `(edge[i-1], edge[i]]` -/
def cutLabel (edges : List Rat) (v : Rat) : Int := ((edges.filter (· < v)).length : Nat)

/-! ### concatenation -/

def concatWith (t u : Tab α β γ) : Tab α β γ := ⟨t.pos ++ u.pos, t.rot ++ u.rot, t.feat ++ u.feat⟩

end Tab
end Model
