import AcryoVerif.Py
import AcryoVerif.Gen.Crop
import AcryoVerif.Gen.Sim

/-!
Array-level model of `TomogramSimulator._simulate` along one axis, for grid-coincident poses.

For every molecule `_prep_iterators` (regenerated: `Gen.simPrep`) gives the fragment window
`[starts, stops)` on the tomogram axis and the matrix of the fragment, which for an identity orientation is a
translation by `center - output_center` voxels. `_simulate_one` transforms the template with that matrix
(`affine_transform(mode="constant", cval=0)`: output voxel `i` is template voxel `i + d`, zero outside the
template), `_prep_slices` (regenerated: `Gen.makeSliceAndPad`) clips the window to the tomogram and the
fragment accordingly, a window that misses the tomogram is skipped (the out-of-bound error is caught), and
`_simulate` adds `transformed[sl_src]` into `tomogram[sl_dst]`, one molecule after the other.

Interpolation is a parameter: the model covers poses whose translation is a whole number of voxels
(everything the "exact paste" clause of C14 quantifies over); other poses give `PyErr.notimpl`.
-/
namespace Model

open Py

/-- template voxel `i`, zero outside the template (`mode="constant", cval=0`) -/
def tmplAt (tmpl : List Rat) (i : Int) : Rat := if 0 ≤ i then (tmpl[i.toNat]?).getD 0 else 0

/-- `affine_transform` with a translation by a whole number `d` of voxels: output voxel `i` = input voxel `i + d` -/
def shiftTmpl (tmpl : List Rat) (d : Int) : List Rat :=
  (List.range tmpl.length).map fun (i : Nat) => tmplAt tmpl ((i : Int) + d)

/-- `tomogram[a : a + len(frag)] += frag` -/
def addAt (t : List Rat) (a : Nat) (f : List Rat) : List Rat :=
  t.mapIdx fun j v => if a ≤ j then v + (f[j - a]?).getD 0 else v

/-- `_prep_slices` + `tomogram[sl_dst] += transformed[sl_src]` for one fragment whose window starts at `start` -/
def pasteOne (t : List Rat) (start : Int) (frag : List Rat) : PyM (List Rat) :=
  match Gen.makeSliceAndPad start (start + frag.length) t.length with
  | .error _ => .ok t                                  -- `except ValueError: return (slice(None),), None`
  | .ok ((a, b), (p0, p1), oob) =>
    let hi : Int := (frag.length : Int) - p1
    if p0 < 0 ∨ hi < 0 then .error PyErr.index          -- a negative bound would wrap around in Python
    else
      let src := if oob then (frag.take hi.toNat).drop p0.toNat else frag   -- `slice(s0, tsize - s1)` / `slice(None)`
      if (src.length : Int) ≠ b - a ∨ a < 0 then .error PyErr.value        -- numpy refuses to broadcast
      else .ok (addAt t a.toNat src)

/-- one molecule: position `p` (nm), template `tmpl`; identity orientation -/
def simulateOne (scale : Rat) (t : List Rat) (m : Rat × List Rat) : PyM (List Rat) :=
  let r := Gen.simPrep m.1 scale m.2.length
  let d : Rat := r.2.2.1 - r.2.2.2                       -- translation `center - output_center`
  if d.den ≠ 1 then .error PyErr.notimpl                  -- off-grid pose: interpolation, not modelled
  else pasteOne t r.1 (shiftTmpl m.2 d.num)

/-- `_simulate`: molecules of all components, in order, into a zero tomogram of `N` voxels -/
def simulate1d (scale : Rat) (N : Nat) (mols : List (Rat × List Rat)) : PyM (List Rat) :=
  mols.foldlM (simulateOne scale) (List.replicate N 0)

/-- The specification: voxel `j` is the sum over all molecules of the template voxel that the pose puts
there — template voxel `i` of a molecule at `p` sits at pixel `p/scale - (n-1)/2 + i`. -/
def specAt (scale : Rat) (mols : List (Rat × List Rat)) (j : Nat) : Rat :=
  (mols.map fun m =>
    let corner : Rat := m.1 / scale - (((m.2.length : Int) : Rat) - 1) / 2
    tmplAt m.2 ((j : Int) - corner.floor)).sum

end Model
