import AcryoVerif.Py
import AcryoVerif.Gen.Crop

/-!
Hand-written model of `acryo._utils.prepare_affine(_cornersafe)` for one axis: the crop window
`[x0, x1)`, its clipping to the tomogram `[0, N)` with paddings, and the translation part of the
affine matrix `o ↦ new_center + R (o - output_center)`. Calls the generated kernels.
-/
namespace Model

open Py

structure CropAxis where
  x0 : Int
  x1 : Int
  lo : Int       -- slice start (clipped)
  hi : Int       -- slice stop  (clipped)
  padL : Int
  padR : Int
  newc : Rat     -- centre of the molecule in crop coordinates (before padding offset)
  outc : Rat     -- centre of the output box
  deriving Repr

def cropAxis (c : Rat) (s order N : Int) : PyM CropAxis := do
  let (x0, x1, newc) := Gen.prepareAffineAxis c s order
  let ((a, b), (p0, p1), _) ← Gen.makeSliceAndPad x0 x1 N
  return { x0, x1, lo := a, hi := b, padL := p0, padR := p1, newc,
           outc := Gen.prepareAffineOutputCenter s }

def cropAxisCS (c maxLen : Rat) (s order N : Int) : PyM CropAxis := do
  let (x0, x1, newc) := Gen.cornerSafeAxis c maxLen order
  let ((a, b), (p0, p1), _) ← Gen.makeSliceAndPad x0 x1 N
  return { x0, x1, lo := a, hi := b, padL := p0, padR := p1, newc,
           outc := Gen.cornerSafeOutputCenter s }

/-- Length of the (padded) crop handed to the interpolator and the translation of the matrix for
the identity orientation (`new_center - output_center`). -/
def CropAxis.observe (w : CropAxis) : Int × Rat :=
  ((w.hi - w.lo) + w.padL + w.padR, w.newc - w.outc)

/-- Tomogram coordinate sampled for output index `k` along this axis when the rotated offset
of the voxel from the box centre has component `v` on this axis: window origin + in-crop coordinate. -/
def CropAxis.sampled (w : CropAxis) (v : Rat) : Rat := (w.x0 : Rat) + (w.newc + v)

end Model
