import AcryoVerif.Py
import AcryoVerif.Gen.Split

/-!
Model of `random_splitter` / `average_split`: `nmole // 2` indices are drawn (with replacement —
`rng.choice` default), the first mask is `True` exactly at the drawn indices and the second mask is
its complement (structure read from the source: `Gen.splitterComplementary`). The random generator
is a parameter: the draws are an arbitrary list of indices below `n`.
-/
namespace Model

/-- first mask: `indices0 = zeros(n); indices0[draws] = True` -/
def mask0 (n : Nat) (draws : List Nat) : List Bool := (List.range n).map fun i => decide (i ∈ draws)

/-- second mask: `indices1 = ones(n); indices1[draws] = False` -/
def mask1 (n : Nat) (draws : List Nat) : List Bool := (List.range n).map fun i => !decide (i ∈ draws)

/-- the draws actually used by the code: the first `nmole // 2` of the stream -/
def usedDraws (n : Nat) (stream : List Nat) : List Nat := stream.take (Gen.splitDraws n).toNat

/-- `stack[mask]`: boolean-mask indexing. -/
def select : List Bool → List Rat → List Rat
  | b :: m, x :: xs => if b then x :: select m xs else select m xs
  | _, _ => []

def mean (xs : List Rat) : Rat := xs.sum / (xs.length : Rat)

/-! ### array level: `average_split` on a stack of images (an image = its list of voxels) -/

/-- `stack[mask]` for a stack of images -/
def selectImgs : List Bool → List (List Rat) → List (List Rat)
  | b :: m, x :: xs => if b then x :: selectImgs m xs else selectImgs m xs
  | _, _ => []

/-- `stack.mean(axis=0)`: voxel `v` of the result is the mean of the `v`-th voxels -/
def meanImg (nvox : Nat) (stack : List (List Rat)) : List Rat :=
  (List.range nvox).map fun v => mean (stack.map fun im => im.getD v 0)

/-- the draws the `s`-th call of `random_splitter` consumes from the one generator created from the seed -/
def drawsOfSet (n : Nat) (stream : List Nat) (s : Nat) : List Nat :=
  (stream.drop (s * (Gen.splitDraws n).toNat)).take (Gen.splitDraws n).toNat

/-- `average_split(n_set)`, set-major: entry `s` is the pair (mean of `stack[ind0]`, mean of `stack[ind1]`)
of the `s`-th random split. -/
def averageSplit (nvox : Nat) (stack : List (List Rat)) (nset : Nat) (stream : List Nat) :
    List (List Rat × List Rat) :=
  (List.range nset).map fun s =>
    let d := drawsOfSet stack.length stream s
    (meanImg nvox (selectImgs (mask0 stack.length d) stack), meanImg nvox (selectImgs (mask1 stack.length d) stack))

def bits (m : List Bool) : String := String.mk (m.map fun b => if b then '1' else '0')

end Model
