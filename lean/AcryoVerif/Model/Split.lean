import AcryoVerif.Py
import AcryoVerif.Gen.Split

/-!
Model of `random_splitter` / `average_split`: `nmole // 2` indices are drawn (with replacement —
`rng.choice` default), the first mask is `True` exactly at the drawn indices and the second mask is
its complement (structure read from the source: `Gen.splitterComplementary`). The random generator
is a parameter: the draws are an arbitrary list of indices below `n`.
-/
namespace Model

/-- first mask: `indices0 = zeros(n); indices0[draws] = True` -/
def mask0 (n : Nat) (draws : List Nat) : List Bool := (List.range n).map fun i => decide (i ∈ draws)

/-- second mask: `indices1 = ones(n); indices1[draws] = False` -/
def mask1 (n : Nat) (draws : List Nat) : List Bool := (List.range n).map fun i => !decide (i ∈ draws)

/-- the draws actually used by the code: the first `nmole // 2` of the stream -/
def usedDraws (n : Nat) (stream : List Nat) : List Nat := stream.take (Gen.splitDraws n).toNat

/-- `stack[mask]`: boolean-mask indexing. -/
def select : List Bool → List Rat → List Rat
  | b :: m, x :: xs => if b then x :: select m xs else select m xs
  | _, _ => []

def mean (xs : List Rat) : Rat := xs.sum / (xs.length : Rat)

def bits (m : List Bool) : String := String.mk (m.map fun b => if b then '1' else '0')

end Model
