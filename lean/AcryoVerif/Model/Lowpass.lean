import AcryoVerif.Py
import AcryoVerif.Gen.Lowpass
import AcryoVerif.Model.Wedge

/-!
Model of `nd_butterworth_weight` / `lowpass_filter(_ft)` (two copies: `acryo/_utils.py` and
`acryo/backend/_bandpass.py`). The per-axis vector is `shift(axis**2)` with
`axis = arange(lo, hi) / (d * cutoff)`; `lo`, `hi`, the shift direction, the scaling, the half-spectrum
`limit`, the weight formula, the identity guard and the presence of `s=` in `irfftn` are generated.
-/
namespace Model

open Py

structure BwKernels where
  range : Int → Int × Int
  usesIfftshift : Bool
  axisValue : Int → Int → Rat → Rat
  limit : Int → Int
  weight : Rat → Int → Rat
  irfftnHasShape : Bool

def bwUtils : BwKernels :=
  ⟨Gen.bwRangeUtils, Gen.bwUsesIfftshiftUtils, Gen.bwAxisValueUtils, Gen.bwLimitUtils,
   Gen.bwWeightUtils, Gen.lpIrfftnHasShapeUtils⟩

def bwBackend : BwKernels :=
  ⟨Gen.bwRangeBackend, Gen.bwUsesIfftshiftBackend, Gen.bwAxisValueBackend, Gen.bwLimitBackend,
   Gen.bwWeightBackend, Gen.lpIrfftnHasShapeBackend⟩

/-- Entry `i` of the per-axis vector `shift(axis ** 2)` for an axis of length `d`. -/
def BwKernels.axisSq (K : BwKernels) (d : Int) (cutoff : Rat) (i : Int) : Rat :=
  let (lo, hi) := K.range d
  let n := hi - lo
  let j := if K.usesIfftshift then (i + n / 2) % n else (i - n / 2) % n
  (K.axisValue (lo + j) d cutoff) ^ 2

/-- Length of the per-axis vector. -/
def BwKernels.axisLen (K : BwKernels) (d : Int) : Int := (K.range d).2 - (K.range d).1

/-- The weight at bin `(i0, i1, i2)` of a box `(d0, d1, d2)`. -/
def BwKernels.weightAt (K : BwKernels) (d : Int × Int × Int) (cutoff : Rat) (order : Int)
    (i : Int × Int × Int) : Rat :=
  K.weight (K.axisSq d.1 cutoff i.1 + K.axisSq d.2.1 cutoff i.2.1 + K.axisSq d.2.2 cutoff i.2.2) order

/-- Last-axis length of `rfftn` output. -/
def rfftLen (d : Int) : Int := d / 2 + 1

/-- Last-axis length returned by `irfftn(x)` for a half spectrum of length `m`: `2 (m - 1)` unless
the target shape is passed with `s=`. -/
def BwKernels.outLastLen (K : BwKernels) (d : Int) : Int :=
  if K.irfftnHasShape then d else 2 * (rfftLen d - 1)

end Model
