import AcryoVerif.Py
import AcryoVerif.Model.Table
import AcryoVerif.Model.Loader

/-!
State machine of a `BatchLoader`'s image table under the public operations that change it:
`add_tomogram` (automatic or explicit image id), `replace(molecules=subset)` / `filter` (images that lost
all their molecules are popped) and `add_loader(<BatchLoader>)` (one `add_tomogram` per group of the other
batch, groups in first-appearance order — `LoaderAccessor.__iter__`).

`images` is the dict `_images` in insertion order (image id ↦ tomogram; a tomogram is represented by a tag).
Every molecule carries its image id (the `image` feature column) and, as a *ghost* field that the code
does not have, the tag of the tomogram it was registered with. "Row i belongs to molecule i" for the
image table means: looking up a molecule's id returns its own tomogram.
-/
namespace Model

structure Batch where
  images : List (Int × Nat)
  mols   : List (Int × Nat)      -- (image id, ghost: tag of the molecule's own tomogram)
deriving Repr, DecidableEq

def Batch.empty : Batch := ⟨[], []⟩

def Batch.keys (b : Batch) : List Int := b.images.map (·.1)

/-- `d[k] = v` on an insertion-ordered dict -/
def dictSet (d : List (Int × Nat)) (k : Int) (v : Nat) : List (Int × Nat) :=
  if d.any (·.1 == k) then d.map fun e => if e.1 == k then (k, v) else e else d ++ [(k, v)]

def dictGet (d : List (Int × Nat)) (k : Int) : Option Nat := (d.find? (·.1 == k)).map (·.2)

/-- the id `add_tomogram` uses: the explicit one, or `len(images)` incremented while taken -/
def Batch.newId (b : Batch) (id? : Option Int) : Int :=
  match id? with
  | some k => k
  | none => freshId b.keys (b.keys.length + 1) (b.keys.length : Nat)

/-- `add_tomogram(image, molecules, image_id)`: `ghosts` are the ghost tags of the added molecules
(all equal to `tag` when the molecules really belong to `image`). -/
def Batch.addTomogram (b : Batch) (id? : Option Int) (tag : Nat) (ghosts : List Nat) : Batch :=
  let k := b.newId id?
  ⟨dictSet b.images k tag, b.mols ++ ghosts.map fun g => (k, g)⟩

/-- `replace(molecules = molecules[mask])` / `filter`: unreferenced images are popped -/
def Batch.filter (b : Batch) (mask : List Bool) : Batch :=
  let ms := (b.mols.zip mask).filterMap fun p => if p.2 then some p.1 else none
  ⟨pruneImages b.images (ms.map (·.1)), ms⟩

/-- `add_loader(other)` for a batch: every group of `other` (first-appearance order of its ids) is
re-registered with `other`'s image for that id and a fresh id. -/
def Batch.addBatch (b other : Batch) : Batch :=
  (Tab.groupRows (fun m : Int × Nat => m.1) other.mols).foldl
    (fun acc g => acc.addTomogram none ((dictGet other.images g.1).getD 0) (g.2.map (·.2))) b

inductive BatchOp where
  | add (id? : Option Int) (tag : Nat) (n : Nat)
  | filter (mask : List Bool)
  | merge (other : Batch)               -- `add_loader(other)`
  | mergeSelf                           -- `add_loader(self.copy())`

def Batch.step (b : Batch) : BatchOp → Batch
  | .add id? tag n => b.addTomogram id? tag (List.replicate n tag)
  | .filter mask => b.filter mask
  | .merge other => b.addBatch other
  | .mergeSelf => b.addBatch b

def Batch.runFrom (b : Batch) (ops : List BatchOp) : Batch := ops.foldl Batch.step b

/-- observation: `[ids in dict order] | per molecule id:tag-found-by-lookup` -/
def Batch.observe (b : Batch) : String :=
  "[" ++ ",".intercalate (b.images.map fun e => s!"{e.1}:{e.2}") ++ "] | " ++
  " ".intercalate (b.mols.map fun m => s!"{m.1}:{(dictGet b.images m.1).getD 999999}")

/-- line-protocol decoding of a history: `0 flag id tag n` add (flag 0: automatic id) · `1 L m₁…m_L` filter ·
`2 K <K ops>` merge of the batch built by the next `K` ops from empty · `3` merge of a copy of itself -/
def parseOp : Nat → List Int → Option (BatchOp × List Int)
  | 0, _ => none
  | fuel + 1, 0 :: flag :: id :: tag :: n :: rest =>
      some (.add (if flag = 0 then none else some id) tag.toNat n.toNat, rest)
  | fuel + 1, 1 :: L :: rest =>
      if rest.length < L.toNat then none
      else some (.filter ((rest.take L.toNat).map (· != 0)), rest.drop L.toNat)
  | fuel + 1, 2 :: K :: rest =>
      let rec many : Nat → Nat → List Int → List BatchOp → Option (List BatchOp × List Int)
        | _, 0, r, acc => some (acc.reverse, r)
        | 0, _, _, _ => none
        | f + 1, k + 1, r, acc =>
          match parseOp fuel r with
          | some (op, r') => many f k r' (op :: acc)
          | none => none
      match many (rest.length + 1) K.toNat rest [] with
      | some (ops, r) => some (.merge (Batch.runFrom Batch.empty ops), r)
      | none => none
  | fuel + 1, 3 :: rest => some (.mergeSelf, rest)
  | _ + 1, _ => none

/-- run a decoded history, observing after every top-level operation -/
def runObserve : Nat → Batch → List Int → List String → Option (List String)
  | _, _, [], acc => some acc.reverse
  | 0, _, _, _ => none
  | fuel + 1, b, r, acc =>
    match parseOp (r.length + 1) r with
    | some (op, r') => let b' := b.step op; runObserve fuel b' r' (b'.observe :: acc)
    | none => none

end Model
