import AcryoVerif.Py
import AcryoVerif.Gen.Bin
import AcryoVerif.Model.Landscape

/-!
Model of `bin_image`: per axis keep the first `b · (s // b)` voxels, reshape to `(npix, b)` blocks and
sum over the block axes (structure read from the source: `Gen.binIsBlockSum`).
-/
namespace Model

open Py

/-- the binned image: entry `(i0,i1,i2)` is the sum of the `b³` block starting at `b·i`. -/
def binImage (a : Img) (b : Int) : Img :=
  let n0 := (Gen.binAxis a.n0 b).1.toNat
  let n1 := (Gen.binAxis a.n1 b).1.toNat
  let n2 := (Gen.binAxis a.n2 b).1.toNat
  let bb := b.toNat
  Id.run do
    let mut out : Array Rat := #[]
    for i0 in [0:n0] do
      for i1 in [0:n1] do
        for i2 in [0:n2] do
          let mut s : Rat := 0
          for r0 in [0:bb] do
            for r1 in [0:bb] do
              for r2 in [0:bb] do
                s := s + (a.get (b * i0 + r0) (b * i1 + r1) (b * i2 + r2)).getD 0
          out := out.push s
    return ⟨n0, n1, n2, out⟩

/-- **One axis of `bin_image` on a list** — the three source steps along one axis: `npix = s // b`, keep
`image[: npix * b]`, reshape to `(npix, b)` blocks and sum every block. (`b ≥ 1`; the 3-D image is this
applied along every axis.) -/
def binList (b : Nat) (xs : List Rat) : List Rat :=
  (List.range (xs.length / b)).map fun i => ((xs.drop (b * i)).take b).sum

/-- a history of binnings of one axis: `binning(b₁).binning(b₂)…` -/
def binHist (bs : List Nat) (xs : List Rat) : List Rat := bs.foldl (fun acc b => binList b acc) xs

end Model
