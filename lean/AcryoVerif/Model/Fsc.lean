import AcryoVerif.Py
import AcryoVerif.Gen.Fsc
import AcryoVerif.Model.Wedge

/-!
Model of `fourier_shell_correlation`: shell label of a Fourier bin. The code computes
`label = int(sqrt(r2) / dfreq)` with `r2 = Σ (fftfreq)²`; to stay rational the model searches the
label in squared form: `label = max {L : (L · dfreq)² ≤ r2}`. Bins lying exactly on a shell
boundary are flagged (floating point decides them in the implementation).
-/
namespace Model

/-- squared radius of bin `i` (FFT order) of a box `d`, in (cycles/pixel)² -/
def radius2 (d i : Int × Int × Int) : Rat :=
  let f (n k : Int) : Rat := ((freqIdx n k : Int) : Rat) / ((n : Int) : Rat)
  (f d.1 i.1) ^ 2 + (f d.2.1 i.2.1) ^ 2 + (f d.2.2 i.2.2) ^ 2

/-- `max {L ≥ 0 : (L·dfreq)² ≤ r2}` by upward search (fuel bounds the search). -/
def labelSq (r2 dfreq : Rat) (fuel : Nat) : Nat × Bool :=
  let rec go (L : Nat) (fuel : Nat) : Nat × Bool :=
    match fuel with
    | 0 => (L, false)
    | fuel + 1 =>
      let nxt : Rat := (((L + 1 : Nat) : Rat) * dfreq) ^ 2
      if nxt < r2 then go (L + 1) fuel
      else if nxt = r2 then (L + 1, true)      -- exactly on the boundary
      else (L, false)
  go 0 fuel

end Model
