import AcryoVerif.Py
import AcryoVerif.Model.Table
import AcryoVerif.Gen.Loader

/-!
Model of task construction in `BatchLoader.construct_loading_tasks`: the molecules are grouped by
image id (first-appearance order, rows in original order — `LoaderAccessor`/`group_by`), each group's
loader builds one task per group row, and every task is written back to the position its molecule
has in the batch (`idx = flatnonzero(ids == key)`, `tasks[i] = t for i, t in zip(idx, sub_tasks)`).
-/
namespace Model

/-- `enumerate(rows, start=off)` -/
def indexedFrom {δ : Type} (off : Nat) : List δ → List (Nat × δ)
  | [] => []
  | x :: xs => (off, x) :: indexedFrom (off + 1) xs

/-- positions `off + j` of the rows satisfying `p` (`flatnonzero`) -/
def posFrom {δ : Type} (p : δ → Bool) (off : Nat) : List δ → List Nat
  | [] => []
  | x :: xs => if p x then off :: posFrom p (off + 1) xs else posFrom p (off + 1) xs

/-- all `(position, task)` assignments made by the scatter loop -/
def assignments {δ : Type} (key : δ → Int) (r : List δ) : List (Nat × δ) :=
  (Tab.distinctKeys (r.map key)).flatMap fun k =>
    (posFrom (fun x => key x == k) 0 r).zip (r.filter fun x => key x == k)

/-- the task list: slot `i` holds what was assigned to position `i` (nothing if never assigned) -/
def batchTasks {δ : Type} (key : δ → Int) (r : List δ) : List (Option δ) :=
  (List.range r.length).map fun i => ((assignments key r).find? (·.1 == i)).map (·.2)

/-- the pre-fix behaviour, kept for reference: concatenation of the per-image task lists -/
def batchTasksConcat {δ : Type} (key : δ → Int) (r : List δ) : List δ :=
  (Tab.groupRows key r).flatMap (·.2)

/-- the task list as the current source builds it (scatter if the source has the scatter loop,
otherwise the plain concatenation) -/
def tasksAsCode {δ : Type} (key : δ → Int) (r : List δ) : List (Option δ) :=
  if Gen.batchTasksScatteredToMoleculeOrder then batchTasks key r else (batchTasksConcat key r).map some

/-- `replace(molecules=...)`: images that are no longer referenced are dropped -/
def pruneImages (images : List (Int × Nat)) (ids : List Int) : List (Int × Nat) :=
  images.filter fun im => ids.contains im.1

/-- `add_tomogram` without an explicit id: `len(images)`, incremented while taken -/
def freshId (taken : List Int) (fuel : Nat) (start : Int) : Int :=
  match fuel with
  | 0 => start
  | fuel + 1 => if taken.contains start then freshId taken fuel (start + 1) else start

end Model
