import AcryoVerif.Py
import AcryoVerif.Model.Frame
import AcryoVerif.Gen.Pca

/-!
Model of the exact PCA that `PcaClassifier` is compared with, over `Rat`.

* the flat stack: image `i` times the mask, flattened row-major (`_image_flat`), row `i` = image `i`;
* the statistics an exact PCA is a function of: number of rows, column sums and the Gram matrix
  (`colSums`, `gram`), and the centred Gram matrix;
* the projection `transform`: row `i` ↦ `(x_i - mean) · c_k` for each component `c_k`
  (`DaskPCA.transform`);
* the label write-back of `LoaderBase.classify` on the feature frame (`with_columns(Series(name, labels))`).
-/
namespace Model

open Py

abbrev Mat := List (List Rat)

/-- row-major position of voxel `(z, y, x)` in `reshape(n, -1)` for an image of shape `(Z, Y, X)` -/
def ravel (Y X : Int) (z y x : Int) : Int := (z * Y + y) * X + x

def unravel (Y X : Int) (i : Int) : Int × Int × Int := (i / (Y * X), (i / X) % Y, i % X)

def rsum (l : List Rat) : Rat := l.foldr (· + ·) 0

def dot (a b : List Rat) : Rat := rsum (List.zipWith (· * ·) a b)

def vsub (a b : List Rat) : List Rat := List.zipWith (· - ·) a b

/-- `image * mask` then `reshape(n, -1)`: one row per image, in stack order -/
def flatStack (mask : List Rat) (imgs : Mat) : Mat := imgs.map fun r => List.zipWith (· * ·) r mask

def col (X : Mat) (j : Nat) : List Rat := X.map (·.getD j 0)

def colSums (nf : Nat) (X : Mat) : List Rat := (List.range nf).map fun j => rsum (col X j)

def colMeans (nf : Nat) (X : Mat) : List Rat := (colSums nf X).map (· / (X.length : Rat))

def gramEntry (X : Mat) (j k : Nat) : Rat := rsum (X.map fun r => r.getD j 0 * r.getD k 0)

def gram (nf : Nat) (X : Mat) : Mat :=
  (List.range nf).map fun j => (List.range nf).map fun k => gramEntry X j k

/-- entry of the Gram matrix of the centred data `X - mean` -/
def centredGramEntry (nf : Nat) (X : Mat) (j k : Nat) : Rat :=
  let mu := colMeans nf X
  rsum (X.map fun r => (r.getD j 0 - mu.getD j 0) * (r.getD k 0 - mu.getD k 0))

def centredGram (nf : Nat) (X : Mat) : Mat :=
  (List.range nf).map fun j => (List.range nf).map fun k => centredGramEntry nf X j k

/-- `DaskPCA.transform` (no whitening): `(X - mean_) · components_.T`, row by row -/
def transform (mean : List Rat) (comps : Mat) (X : Mat) : Mat :=
  X.map fun r => comps.map fun c => dot (vsub r mean) c

/-- polars `with_columns(Series(name, vals))`: replaces the column of that name in place, otherwise
appends it; the length must match the height of a non-empty frame. -/
def withColumn {χ : Type} (name : String) (vals : List χ) (df : Frame χ) : PyM (Frame χ) :=
  match df with
  | [] => pure [(name, vals)]
  | (n0, c0) :: _ =>
    if vals.length ≠ c0.length then throw .value
    else if df.any (fun c => c.1 = name) then
      pure (df.map fun c => if c.1 = name then (name, vals) else c)
    else pure (df ++ [(name, vals)])

end Model
