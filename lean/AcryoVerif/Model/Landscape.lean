import AcryoVerif.Py
import AcryoVerif.Gen.Align

/-!
Executable model of `ncc_landscape` / `zncc_landscape_with_crop` / `ncc_landscape_with_crop`
(`acryo/backend/_zncc.py`) over exact rationals: pad the sub-volume by `P = paddingWidth m`, take
for every landscape entry `j` the window of the padded array that starts at `j + 1` (the
`corr[1:-1]` / `cumsum[w:-1] - cumsum[:-w-1]` convention), and return numerator and squared
denominator of the window-normalised response,
`num = Σ x b - (Σ x)(Σ b)/V`, `den2 = (Σ x² - (Σ x)²/V) · Σ (b - b̄)²`;
the response is `num / sqrt den2` where `den2 > 0` and `0` elsewhere. Then crop by
`padWidthEff`. (The FFT convolution of the implementation is a trusted parameter: it is assumed to
compute these direct sums.)
-/
namespace Model

open Py

structure Img where
  n0 : Nat
  n1 : Nat
  n2 : Nat
  data : Array Rat

def Img.get (a : Img) (i0 i1 i2 : Int) : Option Rat :=
  if 0 ≤ i0 ∧ i0 < a.n0 ∧ 0 ≤ i1 ∧ i1 < a.n1 ∧ 0 ≤ i2 ∧ i2 < a.n2 then
    a.data[(i0.toNat * a.n1 + i1.toNat) * a.n2 + i2.toNat]?
  else none

def Img.sum (a : Img) : Rat := a.data.foldl (· + ·) 0
def Img.vol (a : Img) : Nat := a.n0 * a.n1 * a.n2
def Img.mean (a : Img) : Rat := a.sum / (a.vol : Rat)
def Img.map (a : Img) (f : Rat → Rat) : Img := { a with data := a.data.map f }

/-- numerator and squared denominator of the response for the window whose first voxel is padded
index `(s0, s1, s2)` (padded index `p` ↔ sub-volume index `p - P`), fill value `cval`. -/
def responseAt (a b : Img) (P : Int × Int × Int) (cval : Rat) (s : Int × Int × Int) : Rat × Rat :=
  Id.run do
    let mut sx : Rat := 0
    let mut sxx : Rat := 0
    let mut sxb : Rat := 0
    for t0 in [0:b.n0] do
      for t1 in [0:b.n1] do
        for t2 in [0:b.n2] do
          let x := (a.get (s.1 + t0 - P.1) (s.2.1 + t1 - P.2.1) (s.2.2 + t2 - P.2.2)).getD cval
          let bv := (b.get t0 t1 t2).getD 0
          sx := sx + x
          sxx := sxx + x * x
          sxb := sxb + x * bv
    let V : Rat := (b.vol : Rat)
    let bm := b.mean
    let ssd := (b.map (fun v => (v - bm) * (v - bm))).sum
    return (sxb - sx * b.sum / V, (sxx - sx * sx / V) * ssd)

/-- The cropped landscape as a list (C order) of `(num, den2)`; `zncc = true` centres both images
and pads with 0, otherwise (NCC) nothing is centred and the pad value is the sub-volume mean. -/
def landscapeCropped (zncc : Bool) (a b : Img) (m : Rat × Rat × Rat) : List (Rat × Rat) :=
  let a' := if zncc then a.map (· - a.mean) else a
  let b' := if zncc then b.map (· - b.mean) else b
  let cval : Rat := if zncc then 0 else a.mean
  let P : Int × Int × Int := (Gen.paddingWidth m.1, Gen.paddingWidth m.2.1, Gen.paddingWidth m.2.2)
  let side (p : Int) : Int := 2 * p - 1
  let w : Int × Int × Int :=
    if zncc then (Gen.padWidthEff1 m.1 (side P.1), Gen.padWidthEff1 m.2.1 (side P.2.1), Gen.padWidthEff1 m.2.2 (side P.2.2))
    else (Gen.padWidthEff0 m.1 (side P.1), Gen.padWidthEff0 m.2.1 (side P.2.1), Gen.padWidthEff0 m.2.2 (side P.2.2))
  let len (p wd : Int) : Nat := (side p - 2 * wd).toNat
  Id.run do
    let mut out : List (Rat × Rat) := []
    for j0 in [0:len P.1 w.1] do
      for j1 in [0:len P.2.1 w.2.1] do
        for j2 in [0:len P.2.2 w.2.2] do
          -- cropped entry j ↔ full entry j + w ↔ window start j + w + 1
          out := out ++ [responseAt a' b' P cval (j0 + w.1 + 1, j1 + w.2.1 + 1, j2 + w.2.2 + 1)]
    return out

/-- `zncc(a, b)` / `ncc(a, b)` of `_zncc.py` as `(num, den2)`: `score = num / sqrt den2`. -/
def scorePair (zncc : Bool) (a b : Img) : Rat × Rat :=
  let a' := if zncc then a.map (· - a.mean) else a
  let b' := if zncc then b.map (· - b.mean) else b
  let dot (u v : Img) : Rat := (Array.zipWith (· * ·) u.data v.data).foldl (· + ·) 0
  (dot a' b', dot a' a' * dot b' b')

end Model
