import AcryoVerif.Py
import AcryoVerif.Gen.Table

/-!
Model of `Molecules.to_dataframe` / `from_dataframe`: a data frame is a list of named columns.
`to_dataframe` writes the six coordinate columns `z y x zvec yvec xvec` (layout read from the source:
`Gen.columnLayout`) followed by the feature columns in order and raises `ValueError` when a feature
name collides with a coordinate name (`Gen.dupColumnsRejected`); `from_dataframe` selects the
coordinate columns by name and keeps every other column, in order, as a feature
(`Gen.fromDataFrameSelectsByName`).
-/
namespace Model

open Py

def csvColumns : List String := ["z", "y", "x", "zvec", "yvec", "xvec"]

abbrev Frame (χ : Type) := List (String × List χ)

def lookupCol {χ : Type} (name : String) : Frame χ → Option (List χ)
  | [] => none
  | (n, c) :: rest => if n = name then some c else lookupCol name rest

/-- `to_dataframe`: `coords` are the six coordinate columns in the order of `csvColumns`. -/
def toFrame {χ : Type} (coords : List (List χ)) (feats : Frame χ) : PyM (Frame χ) :=
  if feats.any (fun f => csvColumns.contains f.1) then throw .value
  else pure (csvColumns.zip coords ++ feats)

/-- `from_dataframe`: coordinate columns by name, all other columns are features. -/
def fromFrame {χ : Type} (df : Frame χ) : PyM (List (List χ) × Frame χ) := do
  let coords ← csvColumns.mapM fun n =>
    match lookupCol n df with
    | some c => pure c
    | none => throw PyErr.key
  return (coords, df.filter fun c => !csvColumns.contains c.1)

end Model
