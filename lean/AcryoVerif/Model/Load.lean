import AcryoVerif.Py
import AcryoVerif.Gen.Crop

/-!
Array-level model of loading one subtomogram along one axis, identity orientation, grid-coincident centre.

`prepare_affine` (regenerated: `Gen.prepareAffineAxis`, `Gen.prepareAffineOutputCenter`) chooses the window
`[x0, x1)` and the molecule centre `c - x0` inside it; `make_slice_and_pad` (regenerated) clips the window to
the tomogram — or raises the out-of-bound error —; the clipped block is padded with its mean
(`da.pad(mode="mean")`) where the window sticks out; `rotated_crop` evaluates the padded block at
`new_center + (k - output_center)` for output voxel `k` (`affine_transform(mode="constant", cval=mean)`).

Interpolation is a parameter: the model covers the samples that fall on voxels (whole-number translation);
every spline order reproduces the node values there. Other centres give `PyErr.notimpl`.
-/
namespace Model

open Py

def blockMean (l : List Rat) : Rat := l.sum / (l.length : Rat)

/-- `affine_transform(mode="constant", cval)`: voxel `i` of the input, `cval` outside -/
def sampleAt (padded : List Rat) (cval : Rat) (i : Int) : Rat :=
  if 0 ≤ i then (padded[i.toNat]?).getD cval else cval

def loadAxis (tomo : List Rat) (c : Rat) (s order : Int) : PyM (List Rat) :=
  let w := Gen.prepareAffineAxis c s order
  match Gen.makeSliceAndPad w.1 w.2.1 tomo.length with
  | .error e => .error e                                   -- SubvolumeOutOfBoundError reaches the caller
  | .ok ((a, b), (p0, p1), need) =>
    if a < 0 ∨ b < 0 ∨ p0 < 0 ∨ p1 < 0 then .error PyErr.index   -- negative bounds would wrap around
    else
      let block := (tomo.take b.toNat).drop a.toNat          -- `img[tuple(slices)]`
      let fill := blockMean block
      let padded := if need then List.replicate p0.toNat fill ++ block ++ List.replicate p1.toNat fill else block
      let off : Rat := w.2.2 - Gen.prepareAffineOutputCenter s   -- translation of the identity matrix
      if off.den ≠ 1 then .error PyErr.notimpl
      else .ok ((List.range s.toNat).map fun (k : Nat) => sampleAt padded (blockMean padded) (off.num + (k : Int)))

end Model
